package main

import (
	"bufio"
	"encoding/json"
	"flag"
	"fmt"
	"os"
	"path/filepath"
	"sort"
	"strings"
	"time"
)

// lock-step: the same operation sequence drives the memory and the SQLite store (same fake clock, explicit message
// ids, symbolic lease references); each backend's trace is checked against its own model instance by the driver, and
// responses + full snapshots of the two backends are compared directly here (modulo generated lease ids).

type leaseTab struct {
	perMsg map[string]int
	byRef  map[string]string // "msg#k" -> lease id
	toRef  map[string]string // lease id -> "msg#k"
}

func newLeaseTab() *leaseTab {
	return &leaseTab{perMsg: map[string]int{}, byRef: map[string]string{}, toRef: map[string]string{}}
}

func (t *leaseTab) record(resp jresp) {
	if resp.T != "items" {
		return
	}
	// grant order inside one response is a free choice: number leases per message only
	for _, p := range resp.Picks {
		t.perMsg[p[0]]++
		ref := fmt.Sprintf("%s#%d", p[0], t.perMsg[p[0]])
		t.byRef[ref] = p[1]
		t.toRef[p[1]] = ref
	}
}

func (t *leaseTab) resolve(s lsym) string {
	if s.M == "" {
		return s.Lit
	}
	if id, ok := t.byRef[fmt.Sprintf("%s#%d", s.M, s.K)]; ok {
		return s.Pad + id + s.Pad
	}
	return "lease_unresolved"
}

func (t *leaseTab) sym(id string) string {
	if r, ok := t.toRef[strings.TrimSpace(id)]; ok {
		return r
	}
	return id
}

func canonRespForCompare(r jresp, t *leaseTab) string {
	m := map[string]interface{}{"t": r.T, "e": r.E, "n": r.N, "changed": r.Changed, "matched": r.Matched, "preview": r.Preview, "l": r.L,
		"stats": []int{r.Total, r.Q, r.Ls, r.Dl, r.Dd, r.C}}
	if r.T == "items" {
		var ids []string
		for _, p := range r.Picks {
			ids = append(ids, p[0]+"@"+t.sym(p[1]))
		}
		sort.Strings(ids)
		m["picks"] = ids
	}
	if r.T == "batch" {
		var cs []string
		for _, c := range r.Conflicts {
			cs = append(cs, fmt.Sprintf("%s/%v", t.sym(fmt.Sprint(c[0])), c[1]))
		}
		sort.Strings(cs)
		m["conflicts"] = cs
	}
	b, _ := json.Marshal(m)
	return string(b)
}

func canonSnapForCompare(s []jmsg, t *leaseTab) string {
	out := make([]jmsg, len(s))
	copy(out, s)
	for i := range out {
		if out[i].Lease != "" {
			out[i].Lease = t.sym(out[i].Lease)
		}
	}
	b, _ := json.Marshal(out)
	return string(b)
}

func pickedIDs(r jresp) []string {
	var ids []string
	for _, p := range r.Picks {
		ids = append(ids, p[0])
	}
	sort.Strings(ids)
	return ids
}

func goneIDs(before, after []jmsg) []string {
	in := map[string]bool{}
	for _, m := range after {
		in[m.ID] = true
	}
	var g []string
	for _, m := range before {
		if !in[m.ID] {
			g = append(g, m.ID)
		}
	}
	sort.Strings(g)
	return g
}

func cmdLockstep(args []string) error {
	fs := flag.NewFlagSet("lockstep", flag.ExitOnError)
	seed := fs.Uint64("seed", 1, "seed")
	traces := fs.Int("traces", 20, "traces")
	ops := fs.Int("ops", 60, "ops per trace")
	profile := fs.String("profile", "mix", "generator profile")
	outDir := fs.String("outdir", ".", "directory for mem.jsonl, sql.jsonl, pairs.jsonl")
	replay := fs.String("replay", "", "replay a lock-step op file (cfg + step lines)")
	fs.Parse(args)
	dir, err := scratchDir()
	if err != nil {
		return err
	}
	defer os.RemoveAll(dir)
	open := func(n string) (*os.File, *bufio.Writer, error) {
		f, err := os.Create(filepath.Join(*outDir, n))
		if err != nil {
			return nil, nil, err
		}
		return f, bufio.NewWriterSize(f, 1<<20), nil
	}
	fm, wm, err := open("mem.jsonl")
	if err != nil {
		return err
	}
	defer fm.Close()
	fq, wq, err := open("sql.jsonl")
	if err != nil {
		return err
	}
	defer fq.Close()
	fp, wp, err := open("pairs.jsonl")
	if err != nil {
		return err
	}
	defer fp.Close()
	defer wm.Flush()
	defer wq.Flush()
	defer wp.Flush()
	emit := func(w *bufio.Writer, v interface{}) {
		b, _ := json.Marshal(v)
		w.Write(b)
		w.WriteByte('\n')
	}

	type scripted struct {
		cfg   jcfg
		steps []jstep
	}
	var script []scripted
	if *replay != "" {
		f, err := os.Open(*replay)
		if err != nil {
			return err
		}
		sc := bufio.NewScanner(f)
		sc.Buffer(make([]byte, 1<<20), 1<<28)
		for sc.Scan() {
			var probe struct {
				K string `json:"k"`
			}
			if json.Unmarshal(sc.Bytes(), &probe) != nil {
				continue
			}
			if probe.K == "cfg" {
				var h jhead
				json.Unmarshal(sc.Bytes(), &h)
				script = append(script, scripted{cfg: h.Cfg})
			} else if probe.K == "step" && len(script) > 0 {
				var st jstep
				json.Unmarshal(sc.Bytes(), &st)
				script[len(script)-1].steps = append(script[len(script)-1].steps, st)
			}
		}
		f.Close()
		*traces = len(script)
	}

	for t := 0; t < *traces; t++ {
		sd := *seed*1_000_003 + uint64(t)
		r := newRng(sd)
		clock := &fakeClock{now: 1_700_000_000_000_000_000 + int64(r.intn(1000))*int64(time.Second)}
		g := &qgen{r: r, profile: *profile, clock: clock, perMsg: map[string]int{}, tsBase: clock.now - int64(200*time.Second), forced: true}
		cfg := g.genCfg("memory")
		// documented backend-specific refusals are switched off in lock-step (memory pressure; memory's
		// delivered-in-depth guard), the remaining contract is common
		cfg.PressureRaw, cfg.PressureItems = 0, 0
		if cfg.DeliveredRet > 0 && cfg.MaxDepth > 0 {
			if r.chance(50) {
				cfg.DeliveredRet = 0
			} else {
				cfg.MaxDepth = 0
			}
		}
		if *profile == "bulk" && script == nil {
			// a long history with hundreds of messages: no limits, no retention (size-dependent code paths of the stores)
			cfg = jcfg{}
		}
		if script != nil {
			cfg = script[t].cfg
		}
		mc := cfg
		mc.Backend, mc.Memory, mc.Sweep = "memory", true, 0
		mc.PressureItems = effectivePressure(mc)
		qc := cfg
		qc.Backend, qc.Memory, qc.Sweep, qc.PressureItems = "sqlite", false, int64(10*time.Millisecond), 0
		g.cfg = mc
		bm := &backend{cfg: mc, clock: clock}
		bq := &backend{cfg: qc, clock: clock, path: filepath.Join(dir, fmt.Sprintf("ls%d.db", t))}
		if err := bm.open(); err != nil {
			return err
		}
		if err := bq.open(); err != nil {
			return err
		}
		emit(wm, jhead{K: "cfg", Trace: t, Seed: sd, Cfg: mc, Init: []jmsg{}, Compiled: bm.compiled, InStore: bm.inStore})
		emit(wq, jhead{K: "cfg", Trace: t, Seed: sd, Cfg: qc, Init: []jmsg{}, Compiled: bq.compiled, InStore: bq.inStore})
		emit(wp, map[string]interface{}{"k": "cfg", "trace": t, "seed": sd, "cfg": cfg})
		tm, tq := newLeaseTab(), newLeaseTab()
		var prevM, prevQ []jmsg
		abandoned := ""
		n := *ops
		if script != nil {
			n = len(script[t].steps)
		}
		var bulk *bulkScript
		if *profile == "bulk" && script == nil {
			bulk = &bulkScript{}
			n = 1 << 30
		}
		for i := 0; i < n; i++ {
			var op jop
			if script != nil {
				clock.now = script[t].steps[i].Now
				op = script[t].steps[i].Op
			} else if bulk != nil {
				var more bool
				op, more = bulk.next(g)
				if !more {
					break
				}
			} else {
				// lock-step clock: 0 or >= 10 ms, so that the SQLite sweep granularity (C05's subject) is not a difference
				before := clock.now
				g.advance()
				if d := clock.now - before; d > 0 && d < int64(10*time.Millisecond) {
					clock.now = before + int64(10*time.Millisecond)
				}
				op = g.genOp()
				if op.T == "restart" {
					op = jop{T: "stats"}
				}
			}
			opM, opQ := op, op
			if op.Lsym != nil {
				opM.L, opQ.L = tm.resolve(*op.Lsym), tq.resolve(*op.Lsym)
			}
			if op.Lsyms != nil {
				opM.Ls, opQ.Ls = nil, nil
				for _, s := range op.Lsyms {
					opM.Ls = append(opM.Ls, tm.resolve(s))
					opQ.Ls = append(opQ.Ls, tq.resolve(s))
				}
			}
			rm := bm.exec(opM)
			rq := bq.exec(opQ)
			tm.record(rm)
			tq.record(rq)
			if rm.T == "items" {
				for _, p := range rm.Picks {
					g.perMsg[p[0]]++
					g.leases = append(g.leases, issued{msg: p[0], k: g.perMsg[p[0]], id: p[1]})
				}
			}
			sm, err := bm.snapshot()
			if err != nil {
				return err
			}
			sq, err := bq.snapshot()
			if err != nil {
				return err
			}
			emit(wm, jstep{K: "step", Now: clock.now, Op: opM, Resp: rm, After: sm})
			emit(wq, jstep{K: "step", Now: clock.now, Op: opQ, Resp: rq, After: sq})
			pair := map[string]interface{}{"k": "pair", "trace": t, "step": i, "now": clock.now, "op": op}
			if abandoned == "" {
				// the free choices: which ready messages a dequeue picks, which equally old message is evicted / depth-pruned
				if rm.T == "items" && rq.T == "items" && len(rm.Picks) == len(rq.Picks) && strings.Join(pickedIDs(rm), ",") != strings.Join(pickedIDs(rq), ",") {
					abandoned = "dequeue choice differs"
				} else if gm, gq := goneIDs(prevM, sm), goneIDs(prevQ, sq); len(gm) == len(gq) && strings.Join(gm, ",") != strings.Join(gq, ",") && rm.T == rq.T && rm.E == rq.E {
					abandoned = "eviction/prune tie differs"
				} else if (op.T == "enqueue" || op.T == "enqueue_batch") && cfg.DropOldest && (rm.T != rq.T || rm.E != rq.E) {
					// an id that is currently queued is stored again: whether that succeeds depends on whether the old
					// message is among the eviction victims, i.e. on the tie choice among equally old messages
					// ... but only when that choice really is free: a received_at tie across the eviction boundary
					k := len(op.Es)
					if op.E != nil {
						k = 1
					}
					active := 0
					var qrecv []int64
					for _, m := range prevM {
						if m.St == "queued" || m.St == "leased" {
							active++
						}
						if m.St == "queued" {
							qrecv = append(qrecv, m.Recv)
						}
					}
					sort.Slice(qrecv, func(i, j int) bool { return qrecv[i] < qrecv[j] })
					need := active + k - cfg.MaxDepth
					if cfg.MaxDepth > 0 && need > 0 && need < len(qrecv) && qrecv[need-1] == qrecv[need] {
						abandoned = "replacement of a queued id depends on the eviction tie"
					}
				}
			}
			if abandoned != "" {
				pair["compared"] = false
				pair["why"] = abandoned
			} else {
				cr1, cr2 := canonRespForCompare(rm, tm), canonRespForCompare(rq, tq)
				cs1, cs2 := canonSnapForCompare(sm, tm), canonSnapForCompare(sq, tq)
				pair["compared"] = true
				pair["equal"] = cr1 == cr2 && cs1 == cs2
				if cr1 != cr2 {
					pair["diff"] = "response"
					pair["memory"], pair["sqlite"] = cr1, cr2
				} else if cs1 != cs2 {
					pair["diff"] = "snapshot"
					pair["memory"], pair["sqlite"] = cs1, cs2
					abandoned = "snapshots diverged"
				}
			}
			emit(wp, pair)
			prevM, prevQ = sm, sq
			g.snap = sm
		}
		bm.close()
		bq.close()
		os.Remove(bq.path)
		os.Remove(bq.path + "-wal")
		os.Remove(bq.path + "-shm")
	}
	return nil
}
