package main

import (
	"bufio"
	"encoding/hex"
	"encoding/json"
	"errors"
	"flag"
	"fmt"
	"os"
	"path/filepath"
	"sort"
	"strings"
	"time"

	"github.com/nuetzliches/hookaido/internal/app"
	"github.com/nuetzliches/hookaido/internal/queue"
)

// ---------- canonical records ----------

type jmsg struct {
	ID      string `json:"id"`
	Route   string `json:"route"`
	Target  string `json:"target"`
	St      string `json:"st"`
	Recv    int64  `json:"recv"`
	Next    int64  `json:"next"`
	Attempt int    `json:"attempt"`
	Payload string `json:"payload"`
	Headers string `json:"headers"`
	Trace   string `json:"trace"`
	Reason  string `json:"reason"`
	Lease   string `json:"lease"`
	Luntil  int64  `json:"luntil"`
}

type jcfg struct {
	MaxDepth      int    `json:"maxDepth"`
	DropOldest    bool   `json:"dropOldest"`
	Retention     int64  `json:"retention"`
	PruneInterval int64  `json:"pruneInterval"`
	DeliveredRet  int64  `json:"deliveredRet"`
	DlqRet        int64  `json:"dlqRet"`
	DlqDepth      int    `json:"dlqDepth"`
	Sweep         int64  `json:"sweep"`
	Memory        bool   `json:"memory"`
	PressureItems int    `json:"pressureItems"`
	PressureRaw   int    `json:"pressureRaw"` // explicit limit handed to the store (0 = default)
	Backend       string `json:"backend"`
	// Wired: the store is built from configuration TEXT through the real parser, compiler and run()'s newQueueStore
	// (app.VerifNewQueueStore) instead of from store options
	Wired bool `json:"wired,omitempty"`
}

type jfilter struct {
	Route   string `json:"route"`
	Target  string `json:"target"`
	State   string `json:"state"`
	Limit   int    `json:"limit"`
	Before  int64  `json:"before"`
	Preview bool   `json:"preview"`
}

type jenv struct {
	ID      string `json:"id"`
	Route   string `json:"route"`
	Target  string `json:"target"`
	Recv    int64  `json:"recv"`
	Next    int64  `json:"next"`
	Attempt int    `json:"attempt"`
	Payload string `json:"payload"`
	Headers string `json:"headers"`
	Trace   string `json:"trace"`
}

// lease reference that survives replay: the k-th lease ever granted for message M, or a literal.
type lsym struct {
	M   string `json:"m,omitempty"`
	K   int    `json:"k,omitempty"`
	Lit string `json:"lit,omitempty"`
	Pad string `json:"pad,omitempty"` // whitespace padding added around the resolved id
}

type jop struct {
	T      string   `json:"t"`
	E      *jenv    `json:"e,omitempty"`
	Es     []jenv   `json:"es,omitempty"`
	Route  string   `json:"route,omitempty"`
	Target string   `json:"target,omitempty"`
	State  string   `json:"state,omitempty"`
	Order  string   `json:"order,omitempty"`
	Batch  int      `json:"batch,omitempty"`
	TTL    int64    `json:"ttl,omitempty"`
	Limit  int      `json:"limit,omitempty"`
	Before int64    `json:"before,omitempty"`
	L      string   `json:"l,omitempty"`
	Ls     []string `json:"ls,omitempty"`
	D      int64    `json:"d,omitempty"`
	R      string   `json:"r,omitempty"`
	IDs    []string `json:"ids,omitempty"`
	F      *jfilter `json:"f,omitempty"`
	Lsym   *lsym    `json:"lsym,omitempty"`
	Lsyms  []lsym   `json:"lsyms,omitempty"`
}

type jresp struct {
	T         string           `json:"t"`
	E         string           `json:"e,omitempty"`
	Msg       string           `json:"msg,omitempty"`
	N         int              `json:"n"`
	Picks     [][2]string      `json:"picks,omitempty"`
	Items     []jmsg           `json:"items,omitempty"`
	Conflicts [][2]interface{} `json:"conflicts,omitempty"`
	Changed   int              `json:"changed"`
	Matched   int              `json:"matched"`
	Preview   bool             `json:"preview"`
	L         interface{}      `json:"l,omitempty"`
	Total     int              `json:"total"`
	Q         int              `json:"q"`
	Ls        int              `json:"ls"`
	Dl        int              `json:"dl"`
	Dd        int              `json:"d"`
	C         int              `json:"c"`
}

// custom marshal for stats naming (l = leased clashes with list field): emit a map instead
func (r jresp) MarshalJSON() ([]byte, error) {
	m := map[string]interface{}{"t": r.T}
	switch r.T {
	case "err":
		m["e"] = r.E
		if r.Msg != "" {
			m["msg"] = r.Msg
		}
	case "enqueued":
		m["n"] = r.N
	case "items":
		if r.Picks == nil {
			r.Picks = [][2]string{}
		}
		m["picks"] = r.Picks
		m["items"] = r.Items
	case "batch":
		m["n"] = r.N
		if r.Conflicts == nil {
			r.Conflicts = [][2]interface{}{}
		}
		m["conflicts"] = r.Conflicts
	case "count":
		m["changed"], m["matched"], m["preview"] = r.Changed, r.Matched, r.Preview
	case "ids", "looked":
		m["l"] = r.L
	case "stats":
		m["total"], m["q"], m["l"], m["dl"], m["d"], m["c"] = r.Total, r.Q, r.Ls, r.Dl, r.Dd, r.C
	}
	return json.Marshal(m)
}

type jstep struct {
	K     string `json:"k"`
	Now   int64  `json:"now"`
	Op    jop    `json:"op"`
	Resp  jresp  `json:"resp"`
	Same  bool   `json:"same,omitempty"`
	After []jmsg `json:"after,omitempty"`
	// Ctr: SQLite only — the trigger-maintained (queued, leased) counters the admission test reads, after the step
	Ctr []int `json:"ctr,omitempty"`
	// Ord: memory only — the store's scan list (`MemoryStore.order`) after the step
	Ord *[]string `json:"ord,omitempty"`
}

// order reads the memory store's scan list (nil on SQLite)
func (b *backend) order() *[]string {
	if b.mem == nil {
		return nil
	}
	o := b.mem.VerifOrder()
	if o == nil {
		o = []string{}
	}
	return &o
}

// counters reads the SQLite store's queue_counters row (nil on the memory backend)
func (b *backend) counters() []int {
	if b.sql == nil {
		return nil
	}
	q, l, err := b.sql.VerifCounters()
	if err != nil {
		return []int{-1, -1}
	}
	return []int{q, l}
}

type jhead struct {
	K     string `json:"k"`
	Trace int    `json:"trace"`
	Seed  uint64 `json:"seed"`
	Cfg   jcfg   `json:"cfg"`
	Init  []jmsg `json:"init"`
	// Compiled: for a wired store, the limits and retention settings the compiler produced from the text (what run() hands
	// to the store)
	Compiled *jcfg `json:"compiled,omitempty"`
	// InStore: for a wired store, the limits and retention settings the store object holds after run()'s wiring
	InStore *jcfg `json:"inStore,omitempty"`
}

func ns(t time.Time) int64 {
	if t.IsZero() {
		return 0
	}
	return t.UnixNano()
}

func canonMap(m map[string]string) string {
	if len(m) == 0 {
		return ""
	}
	keys := make([]string, 0, len(m))
	for k := range m {
		keys = append(keys, k)
	}
	sort.Strings(keys)
	var b strings.Builder
	for _, k := range keys {
		b.WriteString(hex.EncodeToString([]byte(k)))
		b.WriteByte('=')
		b.WriteString(hex.EncodeToString([]byte(m[k])))
		b.WriteByte(';')
	}
	return b.String()
}

func canonEnv(e queue.Envelope) jmsg {
	return jmsg{ID: e.ID, Route: e.Route, Target: e.Target, St: string(e.State), Recv: ns(e.ReceivedAt), Next: ns(e.NextRunAt),
		Attempt: e.Attempt, Payload: hex.EncodeToString(e.Payload), Headers: canonMap(e.Headers), Trace: canonMap(e.Trace),
		Reason: e.DeadReason, Lease: e.LeaseID, Luntil: ns(e.LeaseUntil)}
}

// ---------- store abstraction ----------

type fakeClock struct{ now int64 }

func (c *fakeClock) Now() time.Time { return time.Unix(0, c.now).UTC() }

type qstore interface {
	queue.Store
	queue.LeaseBatchStore
	queue.BatchEnqueuer
}

type backend struct {
	cfg   jcfg
	clock *fakeClock
	path  string
	mem   *queue.MemoryStore
	sql   *queue.SQLiteStore
	// what the compiler made of the wired configuration text, and what the store built from it holds
	compiled, inStore *jcfg
}

func (b *backend) store() qstore {
	if b.mem != nil {
		return b.mem
	}
	return b.sql
}

func dropPolicy(c jcfg) string {
	if c.DropOldest {
		return "drop_oldest"
	}
	return "reject"
}

// the configuration text that says what c says
func wiredConfigText(c jcfg) string {
	dur := func(ns int64) string {
		if ns <= 0 {
			return "off"
		}
		return time.Duration(ns).String()
	}
	var t strings.Builder
	t.WriteString("pull_api {\n  auth token raw:t\n}\n")
	fmt.Fprintf(&t, "queue_limits {\n  max_depth %d\n  drop_policy %s\n}\n", c.MaxDepth, dropPolicy(c))
	fmt.Fprintf(&t, "queue_retention {\n  max_age %s\n  prune_interval %s\n}\n", dur(c.Retention), dur(c.PruneInterval))
	fmt.Fprintf(&t, "delivered_retention {\n  max_age %s\n}\n", dur(c.DeliveredRet))
	fmt.Fprintf(&t, "dlq_retention {\n  max_age %s\n  max_depth %d\n}\n", dur(c.DlqRet), c.DlqDepth)
	backend := "sqlite"
	if c.Backend == "memory" {
		backend = "memory"
	}
	fmt.Fprintf(&t, "/r {\n  queue { backend %s }\n  pull { path /pull/r }\n}\n", backend)
	return t.String()
}

func (b *backend) openWired() error {
	compiled, err := compileText(wiredConfigText(b.cfg))
	if err != nil {
		return fmt.Errorf("wired store configuration: %w", err)
	}
	b.compiled = &jcfg{MaxDepth: compiled.QueueLimits.MaxDepth, DropOldest: compiled.QueueLimits.DropPolicy == "drop_oldest",
		Retention: int64(compiled.QueueRetention.MaxAge), PruneInterval: int64(compiled.QueueRetention.PruneInterval),
		DeliveredRet: int64(compiled.DeliveredRetention.MaxAge), DlqRet: int64(compiled.DLQRetention.MaxAge), DlqDepth: compiled.DLQRetention.MaxDepth}
	st, _, err := app.VerifNewQueueStore(compiled, b.path)
	if err != nil {
		return err
	}
	held := func(l queue.VerifLimits) *jcfg {
		return &jcfg{MaxDepth: l.MaxDepth, DropOldest: l.DropPolicy == "drop_oldest", Retention: int64(l.Retention), PruneInterval: int64(l.PruneInterval),
			DeliveredRet: int64(l.DeliveredRetention), DlqRet: int64(l.DLQRetention), DlqDepth: l.DLQMaxDepth}
	}
	switch s := st.(type) {
	case *queue.MemoryStore:
		s.VerifSetNow(b.clock.Now)
		b.mem = s
		b.inStore = held(s.VerifLimits())
	case *queue.SQLiteStore:
		s.VerifSetNow(b.clock.Now)
		b.sql = s
		b.inStore = held(s.VerifLimits())
	default:
		return fmt.Errorf("wired store has unexpected type %T", st)
	}
	return nil
}

func (b *backend) open() error {
	c := b.cfg
	if c.Wired {
		return b.openWired()
	}
	if c.Backend == "memory" {
		opts := []queue.MemoryOption{
			queue.WithNowFunc(b.clock.Now),
			queue.WithQueueLimits(c.MaxDepth, dropPolicy(c)),
			queue.WithQueueRetention(time.Duration(c.Retention), time.Duration(c.PruneInterval)),
			queue.WithDeliveredRetention(time.Duration(c.DeliveredRet)),
			queue.WithDLQRetention(time.Duration(c.DlqRet), c.DlqDepth),
		}
		if c.PressureRaw > 0 {
			opts = append(opts, queue.WithMemoryPressureLimits(c.PressureRaw, 0))
		}
		b.mem = queue.NewMemoryStore(opts...)
		return nil
	}
	s, err := queue.NewSQLiteStore(b.path,
		queue.WithSQLiteNowFunc(b.clock.Now),
		queue.WithSQLiteQueueLimits(c.MaxDepth, dropPolicy(c)),
		queue.WithSQLiteRetention(time.Duration(c.Retention), time.Duration(c.PruneInterval)),
		queue.WithSQLiteDeliveredRetention(time.Duration(c.DeliveredRet)),
		queue.WithSQLiteDLQRetention(time.Duration(c.DlqRet), c.DlqDepth),
		queue.WithSQLiteCheckpointInterval(0),
	)
	if err != nil {
		return err
	}
	b.sql = s
	return nil
}

func (b *backend) close() {
	if b.sql != nil {
		_ = b.sql.Close()
		b.sql = nil
	}
	b.mem = nil
}

func (b *backend) snapshot() ([]jmsg, error) {
	var envs []queue.Envelope
	if b.mem != nil {
		envs = b.mem.VerifSnapshot()
	} else {
		var err error
		envs, err = b.sql.VerifSnapshot()
		if err != nil {
			return nil, err
		}
	}
	out := make([]jmsg, 0, len(envs))
	for _, e := range envs {
		out = append(out, canonEnv(e))
	}
	sort.Slice(out, func(i, j int) bool { return out[i].ID < out[j].ID })
	return out, nil
}

func effectivePressure(c jcfg) int {
	if c.Backend != "memory" {
		return 0
	}
	if c.PressureRaw > 0 {
		return c.PressureRaw
	}
	if c.MaxDepth <= 0 {
		return 0
	}
	if c.MaxDepth < 1000 {
		return 1000
	}
	return c.MaxDepth
}

// ---------- executing one op against the real store ----------

func errKind(err error) (string, string) {
	switch {
	case errors.Is(err, queue.ErrQueueFull):
		return "full", ""
	case errors.Is(err, queue.ErrEnvelopeExists):
		return "exists", ""
	case errors.Is(err, queue.ErrMemoryPressure):
		return "pressure", ""
	case errors.Is(err, queue.ErrLeaseNotFound):
		return "lease_not_found", ""
	case errors.Is(err, queue.ErrLeaseExpired):
		return "lease_expired", ""
	case strings.Contains(err.Error(), "invalid message order"):
		return "bad_order", ""
	}
	return "other", err.Error()
}

func respErr(err error) jresp {
	k, msg := errKind(err)
	return jresp{T: "err", E: k, Msg: msg}
}

func unhex(s string) []byte {
	b, _ := hex.DecodeString(s)
	return b
}

func decodeMap(s string) map[string]string {
	if s == "" {
		return nil
	}
	m := map[string]string{}
	for _, kv := range strings.Split(s, ";") {
		if kv == "" {
			continue
		}
		p := strings.SplitN(kv, "=", 2)
		if len(p) != 2 {
			continue
		}
		m[string(unhex(p[0]))] = string(unhex(p[1]))
	}
	return m
}

func tm(n int64) time.Time {
	if n == 0 {
		return time.Time{}
	}
	return time.Unix(0, n).UTC()
}

func envOf(e jenv) queue.Envelope {
	return queue.Envelope{ID: e.ID, Route: e.Route, Target: e.Target, ReceivedAt: tm(e.Recv), NextRunAt: tm(e.Next),
		Attempt: e.Attempt, Payload: unhex(e.Payload), Headers: decodeMap(e.Headers), Trace: decodeMap(e.Trace)}
}

func batchResp(res queue.LeaseBatchResult, err error) jresp {
	if err != nil {
		return respErr(err)
	}
	r := jresp{T: "batch", N: res.Succeeded}
	for _, c := range res.Conflicts {
		r.Conflicts = append(r.Conflicts, [2]interface{}{c.LeaseID, c.Expired})
	}
	return r
}

func filterReq(f *jfilter) queue.MessageManageFilterRequest {
	return queue.MessageManageFilterRequest{Route: f.Route, Target: f.Target, State: queue.State(f.State), Limit: f.Limit, Before: tm(f.Before), PreviewOnly: f.Preview}
}

func idsOf(items []queue.Envelope) []string {
	out := make([]string, 0, len(items))
	for _, it := range items {
		out = append(out, it.ID)
	}
	return out
}

func (b *backend) exec(op jop) jresp {
	s := b.store()
	switch op.T {
	case "enqueue":
		if err := s.Enqueue(envOf(*op.E)); err != nil {
			return respErr(err)
		}
		return jresp{T: "ok"}
	case "enqueue_batch":
		envs := make([]queue.Envelope, 0, len(op.Es))
		for _, e := range op.Es {
			envs = append(envs, envOf(e))
		}
		n, err := s.EnqueueBatch(envs)
		if err != nil {
			return respErr(err)
		}
		return jresp{T: "enqueued", N: n}
	case "dequeue":
		resp, err := s.Dequeue(queue.DequeueRequest{Route: op.Route, Target: op.Target, Batch: op.Batch, LeaseTTL: time.Duration(op.TTL)})
		if err != nil {
			return respErr(err)
		}
		r := jresp{T: "items"}
		for _, it := range resp.Items {
			r.Picks = append(r.Picks, [2]string{it.ID, it.LeaseID})
			r.Items = append(r.Items, canonEnv(it))
		}
		return r
	case "ack":
		if err := s.Ack(op.L); err != nil {
			return respErr(err)
		}
		return jresp{T: "ok"}
	case "nack":
		if err := s.Nack(op.L, time.Duration(op.D)); err != nil {
			return respErr(err)
		}
		return jresp{T: "ok"}
	case "extend":
		if err := s.Extend(op.L, time.Duration(op.D)); err != nil {
			return respErr(err)
		}
		return jresp{T: "ok"}
	case "mark_dead":
		if err := s.MarkDead(op.L, op.R); err != nil {
			return respErr(err)
		}
		return jresp{T: "ok"}
	case "ack_batch":
		return batchResp(s.AckBatch(op.Ls))
	case "nack_batch":
		return batchResp(s.NackBatch(op.Ls, time.Duration(op.D)))
	case "mark_dead_batch":
		return batchResp(s.MarkDeadBatch(op.Ls, op.R))
	case "cancel":
		r, err := s.CancelMessages(queue.MessageCancelRequest{IDs: op.IDs})
		if err != nil {
			return respErr(err)
		}
		return jresp{T: "count", Changed: r.Canceled, Matched: r.Matched, Preview: r.PreviewOnly}
	case "requeue":
		r, err := s.RequeueMessages(queue.MessageRequeueRequest{IDs: op.IDs})
		if err != nil {
			return respErr(err)
		}
		return jresp{T: "count", Changed: r.Requeued, Matched: r.Matched, Preview: r.PreviewOnly}
	case "resume":
		r, err := s.ResumeMessages(queue.MessageResumeRequest{IDs: op.IDs})
		if err != nil {
			return respErr(err)
		}
		return jresp{T: "count", Changed: r.Resumed, Matched: r.Matched, Preview: r.PreviewOnly}
	case "requeue_dead":
		r, err := s.RequeueDead(queue.DeadRequeueRequest{IDs: op.IDs})
		if err != nil {
			return respErr(err)
		}
		return jresp{T: "count", Changed: r.Requeued, Matched: r.Requeued}
	case "delete_dead":
		r, err := s.DeleteDead(queue.DeadDeleteRequest{IDs: op.IDs})
		if err != nil {
			return respErr(err)
		}
		return jresp{T: "count", Changed: r.Deleted, Matched: r.Deleted}
	case "cancel_f":
		r, err := s.CancelMessagesByFilter(filterReq(op.F))
		if err != nil {
			return respErr(err)
		}
		return jresp{T: "count", Changed: r.Canceled, Matched: r.Matched, Preview: r.PreviewOnly}
	case "requeue_f":
		r, err := s.RequeueMessagesByFilter(filterReq(op.F))
		if err != nil {
			return respErr(err)
		}
		return jresp{T: "count", Changed: r.Requeued, Matched: r.Matched, Preview: r.PreviewOnly}
	case "resume_f":
		r, err := s.ResumeMessagesByFilter(filterReq(op.F))
		if err != nil {
			return respErr(err)
		}
		return jresp{T: "count", Changed: r.Resumed, Matched: r.Matched, Preview: r.PreviewOnly}
	case "list":
		r, err := s.ListMessages(queue.MessageListRequest{Route: op.Route, Target: op.Target, State: queue.State(op.State), Order: op.Order,
			Limit: op.Limit, Before: tm(op.Before), IncludePayload: true, IncludeHeaders: true, IncludeTrace: true})
		if err != nil {
			return respErr(err)
		}
		return jresp{T: "ids", L: idsOf(r.Items)}
	case "list_dead":
		r, err := s.ListDead(queue.DeadListRequest{Route: op.Route, Limit: op.Limit, Before: tm(op.Before), IncludePayload: true})
		if err != nil {
			return respErr(err)
		}
		return jresp{T: "ids", L: idsOf(r.Items)}
	case "lookup":
		r, err := s.LookupMessages(queue.MessageLookupRequest{IDs: op.IDs})
		if err != nil {
			return respErr(err)
		}
		l := make([][3]string, 0, len(r.Items))
		for _, it := range r.Items {
			l = append(l, [3]string{it.ID, it.Route, string(it.State)})
		}
		return jresp{T: "looked", L: l}
	case "stats":
		st, err := s.Stats()
		if err != nil {
			return respErr(err)
		}
		return jresp{T: "stats", Total: st.Total, Q: st.ByState[queue.StateQueued], Ls: st.ByState[queue.StateLeased],
			Dl: st.ByState[queue.StateDelivered], Dd: st.ByState[queue.StateDead], C: st.ByState[queue.StateCanceled]}
	case "restart":
		if b.sql == nil {
			return jresp{T: "ok"}
		}
		b.close()
		if err := b.open(); err != nil {
			return jresp{T: "err", E: "other", Msg: "reopen: " + err.Error()}
		}
		return jresp{T: "ok"}
	}
	return jresp{T: "err", E: "other", Msg: "unknown op " + op.T}
}

// ---------- generator ----------

type issued struct {
	msg string
	k   int
	id  string
}

type qgen struct {
	r       *rng
	profile string
	cfg     jcfg
	clock   *fakeClock
	snap    []jmsg   // last snapshot
	leases  []issued // every lease ever granted in this trace
	perMsg  map[string]int
	nextID  int
	tsBase  int64
	marks   []int64 // instants worth landing on: lease ends as they were before an extend, nack times, ...
	forced  bool    // lock-step: prefer dequeues whose choice is forced (batch >= ready)
	// prefix: scripted steps (clock advance, operation) played before the generated ones
	prefix []scripted
}

type scripted struct {
	adv int64
	op  jop
}

// restartWithLivePrefix: a process restart while a consumer holds an unexpired lease (SQLite). The lease must survive the
// restart (C03: nobody else is handed the message while it runs), and once it has run out the message must be offered again
// — also when the restarted process has not handed out a lease itself in the meantime (C05; round-5 C05-m1) and when it has
// (variant with a second, ready message).
func (g *qgen) restartWithLivePrefix() []scripted {
	r := g.r
	sec := int64(time.Second)
	ttl := sec * int64(5+r.intn(56))
	id := func() string { g.nextID++; return fmt.Sprintf("rs%d", g.nextID) }
	held := id()
	p := []scripted{
		{0, jop{T: "enqueue", E: &jenv{ID: held, Route: "/r1", Target: "pull", Payload: "aa"}}},
		{int64(r.intn(3)) * sec, jop{T: "dequeue", Route: "/r1", Target: "pull", Batch: 1, TTL: ttl}},
	}
	other := r.chance(50)
	if other {
		p = append(p, scripted{sec, jop{T: "enqueue", E: &jenv{ID: id(), Route: "/r1", Target: "pull", Payload: "bb"}}})
	}
	p = append(p,
		scripted{sec, jop{T: "restart"}},
		// right after the restart: only what is ready may be handed out, the held message is not
		scripted{int64(r.intn(2)) * sec, jop{T: "dequeue", Route: "/r1", Target: "pull", Batch: 5, TTL: 30 * sec}},
	)
	if r.chance(30) {
		p = append(p, scripted{sec, jop{T: "restart"}})
	}
	// the lease runs out (plus more than a sweep interval): the held message must be offered again
	p = append(p, scripted{ttl + int64(20*time.Millisecond), jop{T: "dequeue", Route: "/r1", Target: "pull", Batch: 5, TTL: 30 * sec}})
	return p
}

var routes = []string{"/r0", "/r1", "/r2"}
var targets = []string{"pull", "https://t1.example/x", "https://t2.example/y"}

func (g *qgen) genCfg(backend string) jcfg {
	r := g.r
	c := jcfg{Backend: backend, Memory: backend == "memory"}
	if backend == "sqlite" {
		c.Sweep = int64(10 * time.Millisecond)
	}
	switch g.profile {
	case "admit":
		c.MaxDepth = pick(r, []int{1, 2, 3, 4, 6})
		c.DropOldest = r.chance(60)
	default:
		c.MaxDepth = pick(r, []int{0, 0, 2, 3, 5, 8, 40})
		c.DropOldest = r.chance(50)
	}
	if r.chance(45) {
		c.PruneInterval = pick(r, []int64{1e9, 5e9, 30e9})
		if r.chance(60) {
			c.Retention = pick(r, []int64{5e9, 20e9, 120e9})
		}
		if r.chance(50) {
			c.DlqRet = pick(r, []int64{5e9, 40e9})
		}
		if r.chance(50) {
			c.DlqDepth = pick(r, []int{1, 2, 4})
		}
	}
	if r.chance(40) {
		c.DeliveredRet = pick(r, []int64{3e9, 30e9, 300e9})
		if c.PruneInterval == 0 && r.chance(70) {
			c.PruneInterval = pick(r, []int64{1e9, 5e9})
		}
	}
	if backend == "memory" && r.chance(25) {
		c.PressureRaw = pick(r, []int{1, 2, 4})
	}
	if backend == "memory" && (g.profile == "admit" || g.profile == "mix") && r.chance(20) {
		// the corner where every refusal reason can hold at once: small depth, drop_oldest, delivered retention
		// (delivered items count towards depth and towards memory pressure), tight pressure limit
		c.MaxDepth = pick(r, []int{2, 3})
		c.DropOldest = true
		c.DeliveredRet = int64(300e9)
		c.PressureRaw = pick(r, []int{1, 2})
		c.PruneInterval, c.Retention, c.DlqRet, c.DlqDepth = 0, 0, 0, 0
	}
	// half of the stores are built from configuration text through the real compiler and run()'s wiring
	c.Wired = c.PressureRaw == 0 && r.chance(50)
	if c.Wired {
		// combinations the configuration language refuses (e.g. retention without a prune interval) exist only as options
		if _, err := compileText(wiredConfigText(c)); err != nil {
			c.Wired = false
		}
	}
	c.PressureItems = effectivePressure(c)
	return c
}

func (g *qgen) advance() {
	r := g.r
	var d int64
	switch g.r.weighted([]int{20, 8, 10, 10, 10, 12, 10, 6, 14}) {
	case 0:
		d = 0
	case 1:
		d = 1
	case 2:
		d = int64(time.Millisecond) * int64(1+r.intn(9))
	case 3:
		d = int64(10 * time.Millisecond)
	case 4:
		d = int64(time.Millisecond) * int64(11+r.intn(200))
	case 5:
		d = int64(time.Second) * int64(1+r.intn(6))
	case 6:
		d = int64(time.Second) * int64(10+r.intn(50))
	case 7:
		d = int64(time.Minute) * int64(1+r.intn(5))
	case 8:
		// land on / next to an interesting boundary: a lease_until or a next_run_at in the future
		var bs []int64
		for _, t := range g.marks {
			if t > g.clock.now {
				bs = append(bs, t, t)
			}
		}
		for _, m := range g.snap {
			if m.Luntil > g.clock.now {
				bs = append(bs, m.Luntil)
			}
			if m.Next > g.clock.now {
				bs = append(bs, m.Next)
			}
		}
		if len(bs) > 0 {
			b := pick(r, bs)
			d = b - g.clock.now + pick(r, []int64{-1, 0, 0, 1, int64(10*time.Millisecond) - 1, int64(10 * time.Millisecond)})
			if d < 0 {
				d = 0
			}
		}
	}
	g.clock.now += d
}

func (g *qgen) liveIDs(pred func(jmsg) bool) []string {
	var out []string
	for _, m := range g.snap {
		if pred == nil || pred(m) {
			out = append(out, m.ID)
		}
	}
	return out
}

func (g *qgen) someID() string {
	if len(g.snap) > 0 && g.r.chance(85) {
		return pick(g.r, g.snap).ID
	}
	return fmt.Sprintf("m%d", g.r.intn(g.nextID+3))
}

func (g *qgen) newEnv() jenv {
	r := g.r
	var id string
	if len(g.snap) > 0 && r.chance(10) {
		id = pick(r, g.snap).ID // duplicate id
	} else if r.chance(8) && g.nextID > 0 {
		id = fmt.Sprintf("m%d", r.intn(g.nextID)) // possibly re-used id of a removed message
	} else {
		id = fmt.Sprintf("m%d", g.nextID)
		g.nextID++
	}
	e := jenv{ID: id, Route: pick(r, routes), Target: pick(r, targets)}
	if r.chance(35) {
		// explicit, possibly back-dated, possibly tied received_at (publish can set it)
		e.Recv = g.tsBase + int64(r.intn(6))*int64(time.Second)
		if r.chance(30) {
			e.Recv = g.clock.now - int64(r.intn(100))*int64(time.Second)
		}
	}
	if r.chance(20) {
		e.Next = g.clock.now + int64(1+r.intn(10))*int64(time.Second)
	}
	pl := make([]byte, r.intn(5))
	for i := range pl {
		pl[i] = byte(r.intn(256))
	}
	e.Payload = hex.EncodeToString(pl)
	if r.chance(50) {
		e.Headers = canonMap(map[string]string{"Content-Type": "application/json", "X-N": fmt.Sprint(r.intn(9))})
	}
	if r.chance(20) {
		e.Trace = canonMap(map[string]string{"traceparent": fmt.Sprintf("00-%016x", r.u64())})
	}
	return e
}

func pad(r *rng, s string) (string, string) {
	if r.chance(12) {
		p := pick(r, []string{" ", "\t", "  "})
		return p + s + p, p
	}
	return s, ""
}

// pick a lease id: mostly a currently held one, otherwise one from an earlier epoch, a blank or an unknown id
func (g *qgen) someLease(allowPad bool) (string, lsym) {
	r := g.r
	var held, expiredHeld []jmsg
	for _, m := range g.snap {
		if m.St == "leased" {
			held = append(held, m)
			if m.Luntil <= g.clock.now {
				expiredHeld = append(expiredHeld, m)
			}
		}
	}
	if len(expiredHeld) > 0 && r.chance(35) {
		held = expiredHeld // an expired lease that no dequeue has swept yet
	}
	w := []int{70, 20, 4, 6}
	if g.profile == "lease" {
		w = []int{50, 38, 5, 7}
	}
	switch r.weighted(w) {
	case 0:
		if len(held) > 0 {
			m := pick(r, held)
			for i := len(g.leases) - 1; i >= 0; i-- {
				if g.leases[i].id == m.Lease {
					s := lsym{M: g.leases[i].msg, K: g.leases[i].k}
					id := m.Lease
					if allowPad {
						id, s.Pad = pad(r, id)
					}
					return id, s
				}
			}
			return m.Lease, lsym{Lit: m.Lease}
		}
		fallthrough
	case 1:
		if len(g.leases) > 0 {
			l := pick(r, g.leases)
			s := lsym{M: l.msg, K: l.k}
			id := l.id
			if allowPad {
				id, s.Pad = pad(r, id)
			}
			return id, s
		}
		fallthrough
	case 2:
		b := pick(r, []string{"", " ", "\t "})
		return b, lsym{Lit: b}
	}
	u := fmt.Sprintf("lease_%016x", r.u64())
	return u, lsym{Lit: u}
}

func (g *qgen) idList() []string {
	r := g.r
	n := pick(r, []int{0, 1, 1, 2, 3, 5})
	var ids []string
	for i := 0; i < n; i++ {
		id := g.someID()
		id, _ = pad(r, id)
		ids = append(ids, id)
		if r.chance(10) {
			ids = append(ids, id) // duplicate
		}
		if r.chance(6) {
			ids = append(ids, pick(r, []string{"", "  "}))
		}
	}
	return ids
}

func (g *qgen) filter() *jfilter {
	r := g.r
	f := &jfilter{}
	if r.chance(45) {
		f.Route = pick(r, routes)
	}
	if r.chance(30) {
		f.Target = pick(r, targets)
	}
	if r.chance(50) {
		f.State = pick(r, []string{"queued", "leased", "dead", "canceled", "delivered", "bogus"})
	}
	f.Limit = pick(r, []int{0, 0, 1, 2, 3, 100, 1000, 1001, -1})
	if r.chance(35) && len(g.snap) > 0 {
		f.Before = pick(r, g.snap).Recv + pick(r, []int64{0, 0, 1, -1})
	}
	f.Preview = r.chance(30)
	return f
}

func (g *qgen) genOp() jop {
	r := g.r
	//           enq  batch deq ack nack ext dead ackB nackB deadB cancel requeue resume rqDead delDead cF rF sF list listDead lookup stats restart
	w := map[string][]int{
		"mix":      {18, 5, 18, 9, 6, 3, 4, 3, 2, 2, 3, 3, 2, 2, 2, 2, 2, 1, 3, 2, 1, 3, 1},
		"lease":    {14, 7, 26, 12, 9, 6, 5, 6, 4, 3, 3, 2, 1, 1, 0, 1, 1, 0, 1, 0, 0, 1, 1},
		"admit":    {34, 14, 12, 8, 3, 1, 3, 2, 1, 1, 2, 4, 2, 2, 2, 1, 1, 1, 1, 1, 0, 3, 1},
		"operator": {16, 4, 12, 4, 3, 1, 6, 1, 1, 2, 8, 7, 5, 5, 5, 8, 7, 5, 4, 4, 2, 2, 0},
		"visible":  {12, 9, 32, 5, 12, 6, 2, 2, 5, 1, 2, 3, 2, 2, 0, 1, 1, 1, 1, 0, 0, 2, 3},
	}[g.profile]
	if w == nil {
		w = []int{18, 5, 18, 9, 6, 3, 4, 3, 2, 2, 3, 3, 2, 2, 2, 2, 2, 1, 3, 2, 1, 3, 1}
	}
	if g.cfg.PressureRaw > 0 && g.cfg.DeliveredRet > 0 {
		// pressure corner: the interesting states need successful acks between enqueues
		w = []int{34, 6, 24, 22, 3, 1, 2, 3, 1, 1, 1, 1, 1, 0, 0, 0, 0, 0, 0, 0, 0, 1, 0}
	}
	if g.cfg.Backend == "memory" {
		w[22] = 0
	}
	durs := []int64{0, -1, 1, int64(time.Millisecond), int64(time.Second), int64(5 * time.Second), int64(30 * time.Second)}
	k := r.weighted(w)
	// keep traces productive: populate a nearly empty store, and turn lease traffic into dequeues
	// while no lease has ever been granted
	if len(g.snap) < 3 && r.chance(55) {
		k = 0
	}
	if k >= 3 && k <= 9 && len(g.leases) == 0 && r.chance(85) {
		k = 2
	}
	// an expired lease that no dequeue has swept yet is a rare state: use it while it lasts
	for _, m := range g.snap {
		if m.St == "leased" && m.Luntil <= g.clock.now {
			if r.chance(30) {
				k = 3 + r.intn(7)
			}
			break
		}
	}
	switch k {
	case 0:
		e := g.newEnv()
		return jop{T: "enqueue", E: &e}
	case 1:
		n := pick(r, []int{1, 2, 2, 3, 4, 6})
		es := make([]jenv, 0, n)
		for i := 0; i < n; i++ {
			e := g.newEnv()
			if e.Next == 0 && r.chance(20) {
				e.Next = g.clock.now + int64(1+r.intn(10))*int64(time.Second) // a scheduled publish
			}
			es = append(es, e)
		}
		if r.chance(8) && n > 1 {
			es[n-1].ID = es[0].ID // duplicate inside the batch
		}
		return jop{T: "enqueue_batch", Es: es}
	case 2:
		op := jop{T: "dequeue", Batch: pick(r, []int{1, 1, 1, 2, 3, 5, 0, -1, 100, 101}), TTL: pick(r, []int64{0, -1, 1, int64(5 * time.Millisecond), int64(time.Second), int64(10 * time.Second), int64(30 * time.Second)})}
		if r.chance(60) {
			op.Route = pick(r, routes)
		}
		if r.chance(30) {
			op.Target = pick(r, targets)
		}
		if g.forced && r.chance(85) {
			op.Batch = pick(r, []int{100, 100, 100, 101, 60})
		}
		return op
	case 3, 4, 5, 6:
		return g.genLeaseOp(k, durs)
	case 7, 8, 9:
		n := pick(r, []int{0, 1, 2, 2, 3, 4})
		op := jop{T: []string{"ack_batch", "nack_batch", "mark_dead_batch"}[k-7], Ls: []string{}, Lsyms: []lsym{}}
		if k == 8 {
			op.D = pick(r, durs)
		}
		if k == 9 {
			op.R = pick(r, []string{"no_retry", "max_retries", "manual"})
		}
		for i := 0; i < n; i++ {
			l, s := g.someLease(true)
			op.Ls = append(op.Ls, l)
			op.Lsyms = append(op.Lsyms, s)
			if r.chance(10) {
				op.Ls = append(op.Ls, l)
				op.Lsyms = append(op.Lsyms, s)
			}
		}
		return op
	case 10:
		return jop{T: "cancel", IDs: g.idList()}
	case 11:
		return jop{T: "requeue", IDs: g.idList()}
	case 12:
		return jop{T: "resume", IDs: g.idList()}
	case 13:
		return jop{T: "requeue_dead", IDs: g.idList()}
	case 14:
		return jop{T: "delete_dead", IDs: g.idList()}
	case 15:
		return jop{T: "cancel_f", F: g.filter()}
	case 16:
		return jop{T: "requeue_f", F: g.filter()}
	case 17:
		return jop{T: "resume_f", F: g.filter()}
	case 18:
		f := g.filter()
		return jop{T: "list", Route: f.Route, Target: f.Target, State: f.State, Limit: f.Limit, Before: f.Before, Order: pick(r, []string{"", "asc", "desc", " ASC ", "Desc", "up"})}
	case 19:
		f := g.filter()
		return jop{T: "list_dead", Route: f.Route, Limit: f.Limit, Before: f.Before}
	case 20:
		return jop{T: "lookup", IDs: g.idList()}
	case 21:
		return jop{T: "stats"}
	case 22:
		return jop{T: "restart"}
	}
	return jop{T: "stats"}
}

func (g *qgen) genLeaseOp(kind int, durs []int64) jop {
	r := g.r
	switch kind {
	case 3:
		l, s := g.someLease(false)
		return jop{T: "ack", L: l, Lsym: &s}
	case 4:
		l, s := g.someLease(false)
		return jop{T: "nack", L: l, Lsym: &s, D: pick(r, durs)}
	case 5:
		l, s := g.someLease(false)
		for _, m := range g.snap {
			if m.Lease == l && m.Luntil > 0 {
				g.marks = append(g.marks, m.Luntil, m.Luntil+int64(10*time.Millisecond))
			}
		}
		return jop{T: "extend", L: l, Lsym: &s, D: pick(r, []int64{0, -1, 1, int64(time.Millisecond), int64(time.Second), int64(5 * time.Second), int64(30 * time.Second), int64(20 * time.Millisecond)})}
	case 6:
		l, s := g.someLease(false)
		return jop{T: "mark_dead", L: l, Lsym: &s, R: pick(r, []string{"no_retry", "max_retries", "policy_denied", "manual"})}
	}
	return jop{T: "stats"}
}

// ---------- the bulk script: a long history, thousands of messages ----------
// 12 batches of 100 enqueued; a consumer takes 4 and dies; the backlog is drained by batch dequeue + batch ack; the clock
// passes the abandoned leases; what is left must be offered again; then a random tail on the remaining messages.
type bulkScript struct {
	phase, n int
	held     []string
	// parked: ids put into a terminal state (canceled / dead) before the drain and brought back after it — by then the memory
	// store has compacted its scan list several times (round-5 C05-m2: a compaction that keeps only what a scan can use now)
	parked []string
	first  int
}

func (b *bulkScript) leasedNow(g *qgen, except []string) ([]string, []lsym) {
	skip := map[string]bool{}
	for _, l := range except {
		skip[l] = true
	}
	var ids []string
	var syms []lsym
	for _, m := range g.snap {
		if m.St == "leased" && !skip[m.Lease] {
			ids = append(ids, m.Lease)
			s := lsym{Lit: m.Lease}
			for i := len(g.leases) - 1; i >= 0; i-- {
				if g.leases[i].id == m.Lease {
					s = lsym{M: g.leases[i].msg, K: g.leases[i].k}
					break
				}
			}
			syms = append(syms, s)
		}
	}
	return ids, syms
}

func (b *bulkScript) next(g *qgen) (jop, bool) {
	r := g.r
	sec := int64(time.Second)
	switch b.phase {
	case 0: // fill
		var es []jenv
		for i := 0; i < 100; i++ {
			es = append(es, jenv{ID: fmt.Sprintf("b%d", g.nextID), Route: "/r0", Target: "pull", Payload: "00"})
			g.nextID++
		}
		if b.n == 0 {
			b.first = g.nextID - 100
		}
		b.n++
		if b.n == 12 {
			b.phase, b.n = 10, 0
		}
		g.clock.now += int64(r.intn(50)) * int64(time.Millisecond)
		return jop{T: "enqueue_batch", Es: es}, true
	case 10: // an operator cancels two of the oldest …
		b.phase = 11
		ids := []string{fmt.Sprintf("b%d", b.first+1), fmt.Sprintf("b%d", b.first+3)}
		b.parked = append(b.parked, ids...)
		return jop{T: "cancel", IDs: ids}, true
	case 11: // … and a consumer takes two and dead-letters them
		b.phase = 12
		return jop{T: "dequeue", Route: "/r0", Target: "pull", Batch: 2, TTL: 600 * sec}, true
	case 12:
		b.phase = 1
		ids, syms := b.leasedNow(g, nil)
		for _, m := range g.snap {
			if m.St == "leased" {
				b.parked = append(b.parked, m.ID)
			}
		}
		if len(ids) == 0 {
			return jop{T: "stats"}, true
		}
		return jop{T: "mark_dead_batch", Ls: ids, Lsyms: syms, R: "manual"}, true
	case 1: // a consumer takes a few and dies
		b.phase = 2
		return jop{T: "dequeue", Route: "/r0", Target: "pull", Batch: 4, TTL: 5 * sec}, true
	case 2: // remember its leases, then drain: dequeue 100 …
		if b.held == nil {
			b.held, _ = b.leasedNow(g, nil)
			if b.held == nil {
				b.held = []string{}
			}
		}
		b.phase = 3
		g.clock.now += int64(r.intn(30)) * int64(time.Millisecond)
		return jop{T: "dequeue", Route: "/r0", Target: "pull", Batch: 100, TTL: 60 * sec}, true
	case 3: // … and settle them in one batch
		ids, syms := b.leasedNow(g, b.held)
		b.n++
		if b.n >= 11 {
			b.phase = 4
		} else {
			b.phase = 2
		}
		if len(ids) == 0 {
			return jop{T: "stats"}, true
		}
		return jop{T: "ack_batch", Ls: ids, Lsyms: syms}, true
	case 4: // the abandoned leases run out
		g.clock.now += 6 * sec
		b.phase = 5
		return jop{T: "stats"}, true
	case 5: // whatever is left must be offered again
		b.phase, b.n = 13, 0
		return jop{T: "dequeue", Route: "/r0", Target: "pull", Batch: 100, TTL: 30 * sec}, true
	case 13: // the operator brings the parked messages back (requeue acts on dead and canceled) …
		b.phase = 14
		return jop{T: "requeue", IDs: b.parked}, true
	case 14: // … and they must be offered like any other queued message
		b.phase, b.n = 6, 0
		return jop{T: "dequeue", Route: "/r0", Target: "pull", Batch: 100, TTL: 30 * sec}, true
	case 6: // random tail
		b.n++
		if b.n > 30 {
			return jop{}, false
		}
		g.advance()
		return g.genOp(), true
	}
	return jop{}, false
}

// ---------- running traces ----------

type qrun struct {
	out      *bufio.Writer
	dir      string
	backend  string
	profile  string
	ops      int
	counters map[string]int
}

func (q *qrun) emit(v interface{}) error {
	b, err := json.Marshal(v)
	if err != nil {
		return err
	}
	q.out.Write(b)
	return q.out.WriteByte('\n')
}

func sameSnap(a, b []jmsg) bool {
	if len(a) != len(b) {
		return false
	}
	for i := range a {
		if a[i] != b[i] {
			return false
		}
	}
	return true
}

func (q *qrun) runTrace(traceNo int, seed uint64) error {
	r := newRng(seed)
	clock := &fakeClock{now: 1_700_000_000_000_000_000 + int64(r.intn(1000))*int64(time.Second)}
	g := &qgen{r: r, profile: q.profile, clock: clock, perMsg: map[string]int{}, tsBase: clock.now - int64(200*time.Second)}
	g.cfg = g.genCfg(q.backend)
	if q.profile == "bulk" {
		// a long history with thousands of messages: no limits, no retention (size-dependent code paths of the stores)
		g.cfg = jcfg{Backend: q.backend, Memory: q.backend == "memory"}
		if q.backend == "sqlite" {
			g.cfg.Sweep = int64(10 * time.Millisecond)
		}
		g.cfg.PressureItems = effectivePressure(g.cfg)
	}
	b := &backend{cfg: g.cfg, clock: clock, path: filepath.Join(q.dir, fmt.Sprintf("t%d.db", traceNo))}
	if err := b.open(); err != nil {
		return err
	}
	defer func() {
		b.close()
		if b.cfg.Backend == "sqlite" {
			os.Remove(b.path)
			os.Remove(b.path + "-wal")
			os.Remove(b.path + "-shm")
		}
	}()
	if err := q.emit(jhead{K: "cfg", Trace: traceNo, Seed: seed, Cfg: g.cfg, Init: []jmsg{}, Compiled: b.compiled, InStore: b.inStore}); err != nil {
		return err
	}
	nops := q.ops
	if q.backend == "sqlite" && (q.profile == "visible" || q.profile == "lease") && traceNo%3 == 0 && g.cfg.MaxDepth != 1 {
		g.prefix = g.restartWithLivePrefix()
	}
	var bulk *bulkScript
	if q.profile == "bulk" {
		bulk = &bulkScript{}
		nops = 1 << 30
	}
	for i := 0; i < nops; i++ {
		var op jop
		if bulk != nil {
			var more bool
			op, more = bulk.next(g)
			if !more {
				break
			}
		} else if len(g.prefix) > 0 {
			clock.now += g.prefix[0].adv
			op = g.prefix[0].op
			g.prefix = g.prefix[1:]
		} else {
			g.advance()
			op = g.genOp()
		}
		resp := b.exec(op)
		if resp.T == "items" {
			for _, p := range resp.Picks {
				g.perMsg[p[0]]++
				g.leases = append(g.leases, issued{msg: p[0], k: g.perMsg[p[0]], id: p[1]})
			}
		}
		snap, err := b.snapshot()
		if err != nil {
			return err
		}
		st := jstep{K: "step", Now: clock.now, Op: op, Resp: resp, Ctr: b.counters(), Ord: b.order()}
		if sameSnap(snap, g.snap) {
			st.Same = true
		} else {
			st.After = snap
		}
		g.snap = snap
		q.counters[op.T+"/"+resp.T+resp.E]++
		if err := q.emit(st); err != nil {
			return err
		}
	}
	return nil
}

// replay: cfg line + step lines (ops with symbolic leases and absolute times) re-executed on the real store
func (q *qrun) replay(path string) error {
	f, err := os.Open(path)
	if err != nil {
		return err
	}
	defer f.Close()
	sc := bufio.NewScanner(f)
	sc.Buffer(make([]byte, 1<<20), 1<<28)
	var b *backend
	var clock *fakeClock
	perMsg := map[string]int{}
	var leases []issued
	var prev []jmsg
	traceNo := 0
	for sc.Scan() {
		line := sc.Bytes()
		var probe struct {
			K string `json:"k"`
		}
		if json.Unmarshal(line, &probe) != nil {
			continue
		}
		switch probe.K {
		case "cfg":
			var h jhead
			if err := json.Unmarshal(line, &h); err != nil {
				return err
			}
			if b != nil {
				b.close()
			}
			clock = &fakeClock{}
			traceNo++
			b = &backend{cfg: h.Cfg, clock: clock, path: filepath.Join(q.dir, fmt.Sprintf("replay%d.db", traceNo))}
			os.Remove(b.path)
			os.Remove(b.path + "-wal")
			os.Remove(b.path + "-shm")
			if err := b.open(); err != nil {
				return err
			}
			perMsg = map[string]int{}
			leases = nil
			prev = nil
			h.Init = []jmsg{}
			if err := q.emit(h); err != nil {
				return err
			}
		case "step":
			if b == nil {
				return errors.New("step before cfg")
			}
			var st struct {
				Now int64 `json:"now"`
				Op  jop   `json:"op"`
			}
			if err := json.Unmarshal(line, &st); err != nil {
				return err
			}
			clock.now = st.Now
			op := st.Op
			resolve := func(s lsym) string {
				if s.M == "" {
					return s.Lit
				}
				for _, l := range leases {
					if l.msg == s.M && l.k == s.K {
						return s.Pad + l.id + s.Pad
					}
				}
				return "lease_unresolved"
			}
			if op.Lsym != nil {
				op.L = resolve(*op.Lsym)
			}
			if op.Lsyms != nil {
				op.Ls = op.Ls[:0]
				for _, s := range op.Lsyms {
					op.Ls = append(op.Ls, resolve(s))
				}
			}
			resp := b.exec(op)
			if resp.T == "items" {
				for _, p := range resp.Picks {
					perMsg[p[0]]++
					leases = append(leases, issued{msg: p[0], k: perMsg[p[0]], id: p[1]})
				}
			}
			snap, err := b.snapshot()
			if err != nil {
				return err
			}
			out := jstep{K: "step", Now: clock.now, Op: op, Resp: resp, Ctr: b.counters(), Ord: b.order()}
			if prev != nil && sameSnap(snap, prev) {
				out.Same = true
			} else {
				out.After = snap
			}
			prev = snap
			if err := q.emit(out); err != nil {
				return err
			}
		}
	}
	if b != nil {
		b.close()
	}
	return sc.Err()
}

func scratchDir() (string, error) {
	base := os.Getenv("VERIF_SCRATCH")
	if base == "" {
		if st, err := os.Stat("/dev/shm"); err == nil && st.IsDir() {
			base = "/dev/shm"
		} else {
			base = os.TempDir()
		}
	}
	return os.MkdirTemp(base, "hkq-")
}

func cmdQueue(args []string) error {
	fs := flag.NewFlagSet("queue", flag.ExitOnError)
	backend := fs.String("backend", "memory", "memory|sqlite")
	seed := fs.Uint64("seed", 1, "PRNG seed")
	traces := fs.Int("traces", 10, "number of traces")
	ops := fs.Int("ops", 60, "operations per trace")
	profile := fs.String("profile", "mix", "mix|lease|admit|operator|visible")
	outPath := fs.String("out", "-", "output file")
	replay := fs.String("replay", "", "replay a trace file instead of generating")
	statsPath := fs.String("stats", "", "write generator statistics JSON here")
	fs.Parse(args)

	var w *os.File = os.Stdout
	if *outPath != "-" {
		f, err := os.Create(*outPath)
		if err != nil {
			return err
		}
		defer f.Close()
		w = f
	}
	dir, err := scratchDir()
	if err != nil {
		return err
	}
	defer os.RemoveAll(dir)
	q := &qrun{out: bufio.NewWriterSize(w, 1<<20), dir: dir, backend: *backend, profile: *profile, ops: *ops, counters: map[string]int{}}
	defer q.out.Flush()
	if *replay != "" {
		return q.replay(*replay)
	}
	for t := 0; t < *traces; t++ {
		if err := q.runTrace(t, *seed*1_000_003+uint64(t)); err != nil {
			return fmt.Errorf("trace %d: %w", t, err)
		}
	}
	if *statsPath != "" {
		b, _ := json.Marshal(map[string]interface{}{"backend": *backend, "profile": *profile, "traces": *traces, "ops": *ops, "seed": *seed, "op_resp": q.counters})
		if err := os.WriteFile(*statsPath, b, 0o644); err != nil {
			return err
		}
	}
	return nil
}
