package main

// C03 (schedules): concurrent consumers on one real store. Validation, not proof: the theorems are over sequential
// histories and concurrency is reduced to them by the atomicity of each store method; this harness samples real
// schedules and records every call with global invoke/return sequence numbers, so that the Lean driver can flag
// *definite* overlaps only (it can never false-alarm on a legal schedule).

import (
	"bufio"
	"encoding/json"
	"flag"
	"fmt"
	"os"
	"path/filepath"
	"sync"
	"sync/atomic"
	"time"

	"github.com/nuetzliches/hookaido/internal/queue"
)

type lcItem struct {
	ID      string `json:"id"`
	Lease   string `json:"lease"`
	Attempt int    `json:"attempt"`
	Until   int64  `json:"until"`
}

type lcEvent struct {
	K      string   `json:"k"`
	W      int      `json:"w"`
	Op     string   `json:"op"`
	G      int64    `json:"g"` // global sequence number at invocation
	R      int64    `json:"r"` // global sequence number at return
	TG     int64    `json:"tg"`
	TR     int64    `json:"tr"`
	Items  []lcItem `json:"items,omitempty"`
	Lease  string   `json:"lease,omitempty"`
	OK     bool     `json:"ok"`
	Extend int64    `json:"extend,omitempty"`
}

func cmdLeaseConc(args []string) error {
	fs := flag.NewFlagSet("leaseconc", flag.ExitOnError)
	seed := fs.Uint64("seed", 1, "seed")
	runs := fs.Int("runs", 6, "runs")
	workers := fs.Int("workers", 8, "consumer goroutines")
	msgs := fs.Int("msgs", 60, "messages per run")
	millis := fs.Int("millis", 400, "duration of a run")
	outPath := fs.String("out", "-", "output")
	fs.Parse(args)
	w := os.Stdout
	if *outPath != "-" {
		f, err := os.Create(*outPath)
		if err != nil {
			return err
		}
		defer f.Close()
		w = f
	}
	out := bufio.NewWriterSize(w, 1<<20)
	defer out.Flush()
	dir, err := scratchDir()
	if err != nil {
		return err
	}
	defer os.RemoveAll(dir)
	for run := 0; run < *runs; run++ {
		backendName := []string{"memory", "sqlite"}[run%2]
		var store qstore
		if backendName == "memory" {
			store = queue.NewMemoryStore()
		} else {
			s, err := queue.NewSQLiteStore(filepath.Join(dir, fmt.Sprintf("lc%d.db", run)))
			if err != nil {
				return err
			}
			store = s
			defer s.Close()
		}
		for i := 0; i < *msgs; i++ {
			_ = store.Enqueue(queue.Envelope{ID: fmt.Sprintf("m%d", i), Route: "/r", Target: "pull"})
		}
		var seq int64
		var mu sync.Mutex
		var events []lcEvent
		record := func(e lcEvent) {
			mu.Lock()
			events = append(events, e)
			mu.Unlock()
		}
		deadline := time.Now().Add(time.Duration(*millis) * time.Millisecond)
		var wg sync.WaitGroup
		for wk := 0; wk < *workers; wk++ {
			wg.Add(1)
			go func(wk int) {
				defer wg.Done()
				r := newRng(*seed*1000003 + uint64(run)*131 + uint64(wk))
				call := func(op string, lease string, ext time.Duration, f func() error) bool {
					e := lcEvent{K: "ev", W: wk, Op: op, Lease: lease, Extend: int64(ext)}
					e.G, e.TG = atomic.AddInt64(&seq, 1), time.Now().UnixNano()
					err := f()
					e.TR, e.R = time.Now().UnixNano(), atomic.AddInt64(&seq, 1)
					e.OK = err == nil
					record(e)
					return err == nil
				}
				for time.Now().Before(deadline) {
					ttl := time.Duration(pick(r, []int{15, 40, 120, 2000})) * time.Millisecond
					e := lcEvent{K: "ev", W: wk, Op: "dequeue"}
					e.G, e.TG = atomic.AddInt64(&seq, 1), time.Now().UnixNano()
					resp, err := store.Dequeue(queue.DequeueRequest{Route: "/r", Target: "pull", Batch: 1 + r.intn(3), LeaseTTL: ttl})
					e.TR, e.R = time.Now().UnixNano(), atomic.AddInt64(&seq, 1)
					e.OK = err == nil
					for _, it := range resp.Items {
						e.Items = append(e.Items, lcItem{it.ID, it.LeaseID, it.Attempt, it.LeaseUntil.UnixNano()})
					}
					record(e)
					for _, it := range resp.Items {
						l := it.LeaseID
						switch r.weighted([]int{25, 25, 15, 15, 10, 10}) {
						case 0: // settle at once
							call("ack", l, 0, func() error { return store.Ack(l) })
						case 1: // give back quickly
							call("nack", l, 0, func() error { return store.Nack(l, 0) })
						case 2: // hold past the lease, then try to settle (must conflict)
							time.Sleep(ttl + 5*time.Millisecond)
							call("ack", l, 0, func() error { return store.Ack(l) })
						case 3: // extend, work, settle
							if call("extend", l, 50*time.Millisecond, func() error { return store.Extend(l, 50*time.Millisecond) }) {
								time.Sleep(time.Duration(r.intn(20)) * time.Millisecond)
							}
							call("nack", l, 0, func() error { return store.Nack(l, 0) })
						case 4: // abandon: the lease lapses by itself
						case 5:
							time.Sleep(time.Duration(r.intn(10)) * time.Millisecond)
							call("ack", l, 0, func() error { return store.Ack(l) })
						}
					}
					if len(resp.Items) == 0 {
						time.Sleep(time.Millisecond)
					}
				}
			}(wk)
		}
		wg.Wait()
		b, _ := json.Marshal(map[string]interface{}{"k": "conc", "run": run, "backend": backendName, "workers": *workers, "events": events})
		out.Write(b)
		out.WriteByte('\n')
	}
	return nil
}
