package main

import (
	"bufio"
	"bytes"
	"context"
	"encoding/json"
	"flag"
	"fmt"
	"io"
	"os"
	"path/filepath"
	"strconv"
	"strings"
	"time"

	"github.com/nuetzliches/hookaido/internal/mcp"
	"github.com/nuetzliches/hookaido/internal/queue"
)

var mcpTools = []string{"config_parse", "config_validate", "config_compile", "config_fmt_preview", "config_diff", "config_apply", "admin_health", "management_model",
	"management_endpoint_upsert", "management_endpoint_delete", "backlog_top_queued", "backlog_oldest_queued", "backlog_aging_summary", "backlog_trends",
	"messages_list", "attempts_list", "dlq_list", "dlq_requeue", "dlq_delete", "messages_cancel", "messages_requeue", "messages_resume", "messages_publish",
	"messages_cancel_by_filter", "messages_requeue_by_filter", "messages_resume_by_filter", "instance_start", "instance_status", "instance_logs_tail", "instance_stop", "instance_reload",
	"no_such_tool", "Config_Parse", "dlq_delete ", " messages_cancel", "dlq_requeue\n"}

const mcpConfig = `pull_api {
  auth token raw:pulltok
}
/hooks/a {
  application "app1"
  endpoint_name "ep1"
  pull { path /pull/a }
}
/hooks/b {
  pull { path /pull/b }
}
`

// every client opens with the handshake; what it says about itself (here: the name an operator might configure as
// principal) is not a credential
var mcpHello = frame(map[string]interface{}{"jsonrpc": "2.0", "id": 0, "method": "initialize", "params": map[string]interface{}{
	"protocolVersion": "2024-11-05", "capabilities": map[string]interface{}{}, "clientInfo": map[string]interface{}{"name": "ops@example", "version": "1"}}})

func frame(v interface{}) []byte {
	p, _ := json.Marshal(v)
	return append([]byte(fmt.Sprintf("Content-Length: %d\r\n\r\n", len(p))), p...)
}

func readFrames(b []byte) []map[string]interface{} {
	var out []map[string]interface{}
	r := bufio.NewReader(bytes.NewReader(b))
	for {
		n := -1
		for {
			line, err := r.ReadString('\n')
			if err != nil {
				return out
			}
			line = strings.TrimRight(line, "\r\n")
			if line == "" {
				break
			}
			if i := strings.IndexByte(line, ':'); i > 0 && strings.EqualFold(strings.TrimSpace(line[:i]), "Content-Length") {
				n, _ = strconv.Atoi(strings.TrimSpace(line[i+1:]))
			}
		}
		if n < 0 {
			return out
		}
		p := make([]byte, n)
		if _, err := io.ReadFull(r, p); err != nil {
			return out
		}
		var m map[string]interface{}
		if json.Unmarshal(p, &m) == nil {
			out = append(out, m)
		}
	}
}

func dbKey(path string) string {
	st, err := queue.NewSQLiteStore(path)
	if err != nil {
		return "open-error:" + err.Error()
	}
	defer st.Close()
	envs, err := st.VerifSnapshot()
	if err != nil {
		return "snap-error"
	}
	var b strings.Builder
	for _, e := range envs {
		fmt.Fprintf(&b, "%s/%s/%s;", e.ID, e.State, e.Route)
	}
	return b.String()
}

func minimalArgs(tool, cfgPath, pidFile string) map[string]interface{} {
	switch strings.TrimSpace(tool) { // a padded name gets the arguments of the tool it resembles
	case "config_diff":
		return map[string]interface{}{"content": mcpConfig}
	case "config_apply":
		return map[string]interface{}{"content": mcpConfig, "mode": "preview_only"}
	case "management_endpoint_upsert":
		return map[string]interface{}{"application": "app2", "endpoint_name": "ep2", "route": "/hooks/b", "reason": "verif", "mode": "preview_only"}
	case "management_endpoint_delete":
		return map[string]interface{}{"application": "app1", "endpoint_name": "ep1", "reason": "verif", "mode": "preview_only"}
	case "dlq_requeue", "dlq_delete", "messages_cancel", "messages_requeue", "messages_resume":
		return map[string]interface{}{"ids": []string{"evt_nope"}, "reason": "verif"}
	case "messages_cancel_by_filter", "messages_requeue_by_filter", "messages_resume_by_filter":
		return map[string]interface{}{"route": "/hooks/a", "limit": 1, "reason": "verif", "preview_only": true}
	case "messages_publish":
		return map[string]interface{}{"items": []map[string]interface{}{{"id": "pub1", "route": "/hooks/b", "target": "pull", "payload_b64": "e30="}}, "reason": "verif"}
	case "instance_start", "instance_stop", "instance_reload":
		// a pid_file that is not the configured one: refused by the tool itself before touching any process
		return map[string]interface{}{"pid_file": pidFile + ".foreign"}
	case "instance_status", "instance_logs_tail":
		return map[string]interface{}{}
	}
	return map[string]interface{}{}
}

func cmdMCP(args []string) error {
	fs := flag.NewFlagSet("mcp", flag.ExitOnError)
	outPath := fs.String("out", "-", "output")
	_ = fs.Uint64("seed", 1, "seed (unused: the table is enumerated exhaustively)")
	rolesFlag := fs.String("roles", "read,operate,admin", "roles to enumerate (sharding)")
	fs.Parse(args)
	w := os.Stdout
	if *outPath != "-" {
		f, err := os.Create(*outPath)
		if err != nil {
			return err
		}
		defer f.Close()
		w = f
	}
	out := bufio.NewWriterSize(w, 1<<20)
	defer out.Flush()
	emit := func(v interface{}) {
		b, _ := json.Marshal(v)
		out.Write(b)
		out.WriteByte('\n')
	}
	dir, err := scratchDir()
	if err != nil {
		return err
	}
	defer os.RemoveAll(dir)
	// dir/cfg/Hookaidofile is the configured file; dir/other/Hookaidofile is foreign;
	// dir/cfg/link -> dir/other/sub, so "dir/cfg/link/../Hookaidofile" cleans to the configured path but opens the foreign file
	cfgPath := filepath.Join(dir, "cfg", "Hookaidofile")
	foreign := filepath.Join(dir, "other", "Hookaidofile")
	os.MkdirAll(filepath.Dir(cfgPath), 0o755)
	os.MkdirAll(filepath.Join(dir, "other", "sub"), 0o755)
	_ = os.Symlink(filepath.Join(dir, "other", "sub"), filepath.Join(dir, "cfg", "link"))
	sneaky := filepath.Join(dir, "cfg", "link") + "/../Hookaidofile"
	dbPath := filepath.Join(dir, "hookaido.db")
	pidFile := filepath.Join(dir, "hookaido.pid")
	reset := func() error {
		if err := os.WriteFile(cfgPath, []byte(mcpConfig), 0o600); err != nil {
			return err
		}
		if err := os.WriteFile(foreign, []byte("# foreign file\n"), 0o600); err != nil {
			return err
		}
		os.Remove(dbPath)
		os.Remove(dbPath + "-wal")
		os.Remove(dbPath + "-shm")
		st, err := queue.NewSQLiteStore(dbPath)
		if err != nil {
			return err
		}
		_ = st.Enqueue(queue.Envelope{ID: "q1", Route: "/hooks/a", Target: "pull", Payload: []byte("x")})
		_ = st.Enqueue(queue.Envelope{ID: "d1", Route: "/hooks/a", Target: "pull", State: queue.StateDead, DeadReason: "no_retry"})
		return st.Close()
	}
	for _, role := range strings.Split(*rolesFlag, ",") {
		for _, mu := range []bool{false, true} {
			for _, rt := range []bool{false, true} {
				for _, principal := range []string{"", "ops@example"} {
					newServer := func(in io.Reader, outB, audit io.Writer) *mcp.Server {
						return mcp.NewServer(in, outB, cfgPath, dbPath,
							mcp.WithRole(mcp.Role(role)), mcp.WithMutationsEnabled(mu), mcp.WithRuntimeControlEnabled(rt), mcp.WithPrincipal(principal),
							mcp.WithAuditWriter(audit), mcp.WithRuntimeControlPIDFile(pidFile), mcp.WithRuntimeControlRunBinary("/bin/false"))
					}
					base := map[string]interface{}{"role": role, "mut": mu, "rt": rt, "principal": principal != ""}
					// tools/list
					{
						var ob, ab bytes.Buffer
						s := newServer(bytes.NewReader(append(append([]byte{}, mcpHello...), frame(map[string]interface{}{"jsonrpc": "2.0", "id": 1, "method": "tools/list"})...)), &ob, &ab)
						_ = s.Serve(context.Background())
						var names []string
						for _, fr := range readFrames(ob.Bytes()) {
							if res, ok := fr["result"].(map[string]interface{}); ok {
								if ts, ok := res["tools"].([]interface{}); ok {
									for _, t := range ts {
										names = append(names, t.(map[string]interface{})["name"].(string))
									}
								}
							}
						}
						if names == nil {
							names = []string{}
						}
						rec := map[string]interface{}{"k": "list", "tools": names}
						for k, v := range base {
							rec[k] = v
						}
						emit(rec)
					}
					for _, tool := range mcpTools {
						variants := []string{"minimal", "hostile-path", "symlink-dotdot-path", "actor-mismatch", "actor-case-variant", "actor-prefix", "actor-superstring", "unknown-key", "write-fails", "write-ok"}
						for _, variant := range variants {
							if err := reset(); err != nil {
								return err
							}
							a := minimalArgs(tool, cfgPath, pidFile)
							switch variant {
							case "hostile-path":
								a["path"] = foreign
								if tool == "config_apply" {
									a["mode"] = "write_only"
								}
								if strings.HasPrefix(tool, "management_endpoint_") {
									a["mode"] = "write_only"
								}
							case "symlink-dotdot-path":
								a["path"] = sneaky
								if tool == "config_apply" || strings.HasPrefix(tool, "management_endpoint_") {
									a["mode"] = "write_only"
								}
							case "actor-mismatch":
								a["actor"] = "someone-else"
							case "actor-case-variant":
								a["actor"] = "OPS@Example"
							case "actor-prefix":
								a["actor"] = "ops@exampl"
							case "actor-superstring":
								a["actor"] = "ops@example.evil"
							case "unknown-key":
								a["definitely_not_a_key"] = true
							case "write-ok":
								// a config-writing tool really writes (the minimal call only previews): the configured file changes,
								// nothing else appears next to it
								if tool == "config_apply" {
									a["mode"] = "write_only"
									a["content"] = mcpConfig + "\n# edited through the tool\n"
								}
								if strings.HasPrefix(tool, "management_endpoint_") {
									a["mode"] = "write_only"
								}
							case "write-fails":
								// the configured path cannot be replaced (it is a non-empty directory): whatever a config-writing
								// tool stages next to it must be gone when the call has failed
								os.Remove(cfgPath)
								os.MkdirAll(filepath.Join(cfgPath, "occupied"), 0o755)
								if tool == "config_apply" || strings.HasPrefix(tool, "management_endpoint_") {
									a["mode"] = "write_only"
								}
							}
							cfgBefore, _ := os.ReadFile(cfgPath)
							dbBefore := dbKey(dbPath)
							var ob, ab bytes.Buffer
							s := newServer(bytes.NewReader(append(append([]byte{}, mcpHello...), frame(map[string]interface{}{"jsonrpc": "2.0", "id": 7, "method": "tools/call",
								"params": map[string]interface{}{"name": tool, "arguments": a}})...)), &ob, &ab)
							done := make(chan struct{})
							go func() { _ = s.Serve(context.Background()); close(done) }()
							select {
							case <-done:
							case <-time.After(20 * time.Second):
							}
							isErr, text, rpcErr := false, "", false
							for _, fr := range readFrames(ob.Bytes()) {
								if _, ok := fr["error"]; ok {
									rpcErr = true
								}
								if res, ok := fr["result"].(map[string]interface{}); ok {
									if b, ok := res["isError"].(bool); ok {
										isErr = b
									}
									if cs, ok := res["content"].([]interface{}); ok && len(cs) > 0 {
										text, _ = cs[0].(map[string]interface{})["text"].(string)
									}
								}
							}
							var audits []map[string]interface{}
							for _, line := range strings.Split(ab.String(), "\n") {
								if strings.TrimSpace(line) == "" {
									continue
								}
								var m map[string]interface{}
								if json.Unmarshal([]byte(line), &m) == nil {
									fields := []string{}
									for _, f := range []string{"timestamp", "principal", "role", "tool", "input_hash", "result", "duration_ms"} {
										if _, ok := m[f]; ok {
											fields = append(fields, f)
										}
									}
									audits = append(audits, map[string]interface{}{"result": m["result"], "tool": m["tool"], "principal": m["principal"], "role": m["role"], "fields": len(fields)})
								}
							}
							if audits == nil {
								audits = []map[string]interface{}{}
							}
							// anything in the configuration's directory (and the foreign one) that was not there before the call
							var strays []string
							for _, d := range []string{filepath.Dir(cfgPath), filepath.Dir(foreign)} {
								ents, _ := os.ReadDir(d)
								for _, e := range ents {
									if n := e.Name(); n != "Hookaidofile" && n != "link" && n != "sub" {
										strays = append(strays, n)
										os.RemoveAll(filepath.Join(d, n))
									}
								}
							}
							if strays == nil {
								strays = []string{}
							}
							if variant == "write-fails" {
								os.RemoveAll(cfgPath)
							}
							cfgAfter, _ := os.ReadFile(cfgPath)
							foreignAfter, _ := os.ReadFile(foreign)
							_, pidErr := os.Stat(pidFile)
							if len(text) > 160 {
								text = text[:160]
							}
							rec := map[string]interface{}{"k": "call", "tool": tool, "variant": variant, "isError": isErr, "rpcError": rpcErr, "text": text, "audit": audits,
								"cfgChanged": !bytes.Equal(cfgBefore, cfgAfter), "dbChanged": dbKey(dbPath) != dbBefore, "foreignChanged": string(foreignAfter) != "# foreign file\n",
								"pidFileExists": pidErr == nil, "strays": strays}
							for k, v := range base {
								rec[k] = v
							}
							emit(rec)
						}
					}
				}
			}
		}
	}
	return nil
}
