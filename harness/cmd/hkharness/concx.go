package main

// Concurrent requests through the real handlers (C09, C12, C15): scenarios whose outcome is DEFINITE whatever the schedule —
// of N simultaneous copies of one signed request exactly one is accepted; a full queue admits nothing more however many
// goroutines push; a bucket with a negligible refill admits at most its burst; of N simultaneous publishes of one id exactly
// one is stored. The theorems behind them are about sequential histories (each handler decision is one critical section);
// this harness samples schedules to see whether the critical sections are what they are assumed to be. It cannot prove
// their absence of races; it can only fail on a schedule that breaks the bound.

import (
	"strings"
	"encoding/hex"
	"net"
	"database/sql"
	"bufio"
	"bytes"
	"context"
	"encoding/base64"
	"encoding/json"
	"flag"
	"fmt"
	"net/http"
	"net/http/httptest"
	"os"
	"path/filepath"
	"sort"
	"sync"
	"sync/atomic"
	"syscall"
	"time"

	"github.com/nuetzliches/hookaido/internal/app"
	"github.com/nuetzliches/hookaido/internal/mcp"
	"github.com/nuetzliches/hookaido/internal/pullapi"
	"github.com/nuetzliches/hookaido/internal/queue"
)

// slowAckStore makes Ack take a while (a slow disk, a busy database): time for a duplicate of the call to arrive
type slowAckStore struct {
	queue.Store
	d time.Duration
}

func (s *slowAckStore) Ack(leaseID string) error {
	time.Sleep(s.d)
	return s.Store.Ack(leaseID)
}

func cmdConcX(args []string) error {
	fs := flag.NewFlagSet("concx", flag.ExitOnError)
	seed := fs.Uint64("seed", 1, "seed")
	rounds := fs.Int("rounds", 12, "rounds per scenario")
	outPath := fs.String("out", "-", "output")
	fs.Parse(args)
	w := os.Stdout
	if *outPath != "-" {
		f, err := os.Create(*outPath)
		if err != nil {
			return err
		}
		defer f.Close()
		w = f
	}
	out := bufio.NewWriterSize(w, 1<<20)
	defer out.Flush()
	emit := func(v interface{}) {
		b, _ := json.Marshal(v)
		out.Write(b)
		out.WriteByte('\n')
	}
	r := newRng(*seed)
	dir, err := scratchDir()
	if err != nil {
		return err
	}
	defer os.RemoveAll(dir)
	newStore := func(backend, name string, opts func() (queue.Store, error)) (queue.Store, func()) {
		st, err := opts()
		if err != nil {
			return nil, func() {}
		}
		return st, func() {
			if c, ok := st.(interface{ Close() error }); ok {
				_ = c.Close()
			}
			p := filepath.Join(dir, name)
			os.Remove(p)
			os.Remove(p + "-wal")
			os.Remove(p + "-shm")
		}
	}
	// fire runs n goroutines that all start at the same instant
	fire := func(n int, fn func(i int)) {
		var wg sync.WaitGroup
		start := make(chan struct{})
		for i := 0; i < n; i++ {
			wg.Add(1)
			go func(i int) {
				defer wg.Done()
				<-start
				fn(i)
			}(i)
		}
		close(start)
		wg.Wait()
	}

	for round := 0; round < *rounds; round++ {
		backend := []string{"memory", "sqlite"}[round%2]
		k := pick(r, []int{4, 8, 16, 32})

		// ---- (1) the same signed request, k copies at once
		{
			targets := 1 + round%2
			var b bytes.Buffer
			b.WriteString("pull_api {\n  auth token raw:t\n}\n/h {\n  auth hmac {\n    secret raw:concx-key\n    tolerance 300s\n  }\n")
			if targets == 1 {
				b.WriteString("  pull { path /pull/h }\n}\n")
			} else {
				b.WriteString("  deliver \"http://127.0.0.1:9/a\" { timeout 1s }\n  deliver \"http://127.0.0.1:9/b\" { timeout 1s }\n}\n")
			}
			compiled, err := compileText(b.String())
			if err != nil {
				return err
			}
			// every other round the clock takes a while to answer (a clock is a system call; it may be slow)
			var clockFn func() time.Time
			if round%2 == 1 {
				clockFn = func() time.Time { time.Sleep(150 * time.Microsecond); return time.Now() }
			}
			rt, err := app.VerifNewRuntime(compiled, clockFn)
			if err != nil {
				return err
			}
			name := fmt.Sprintf("cx-n-%d.db", round)
			st, done := newStore(backend, name, func() (queue.Store, error) {
				if backend == "memory" {
					return queue.NewMemoryStore(), nil
				}
				return queue.NewSQLiteStore(filepath.Join(dir, name))
			})
			if st == nil {
				continue
			}
			srv := rt.IngressServer(st)
			accepted := 0
			var mu sync.Mutex
			ts := fmt.Sprint(time.Now().Unix())
			body := []byte(fmt.Sprintf("{\"round\":%d}", round))
			sig := signIngress([]byte("concx-key"), ts, "POST", "/h", body)
			sameBody := round%3 != 2
			fire(k, func(i int) {
				bd := body
				sg := sig
				if !sameBody {
					// the same nonce under fresh signatures over different bodies: still one nonce
					bd = []byte(fmt.Sprintf("{\"round\":%d,\"i\":%d}", round, i))
					sg = signIngress([]byte("concx-key"), ts, "POST", "/h", bd)
				}
				req := httptest.NewRequest("POST", "http://ex/h", bytes.NewReader(bd))
				req.Header.Set("X-Signature", sg)
				req.Header.Set("X-Timestamp", ts)
				req.Header.Set("X-Nonce", fmt.Sprintf("cx-%d-%d", *seed, round))
				rr := httptest.NewRecorder()
				srv.ServeHTTP(rr, req)
				if rr.Code == 202 {
					mu.Lock()
					accepted++
					mu.Unlock()
				}
			})
			stored := 0
			if l, err := st.ListMessages(queue.MessageListRequest{Limit: 1000}); err == nil {
				stored = len(l.Items)
			}
			emit(map[string]interface{}{"k": "cx", "scenario": "nonce", "backend": backend, "goroutines": k, "targets": targets, "sameBody": sameBody, "accepted": accepted, "stored": stored})
			done()
		}

		// ---- (2) a queue with room for d messages, k goroutines pushing
		{
			d := pick(r, []int{1, 2, 3, 5})
			drop := round%4 >= 2
			policy := "reject"
			if drop {
				policy = "drop_oldest"
			}
			name := fmt.Sprintf("cx-d-%d.db", round)
			st, done := newStore(backend, name, func() (queue.Store, error) {
				if backend == "memory" {
					return queue.NewMemoryStore(queue.WithQueueLimits(d, policy)), nil
				}
				return queue.NewSQLiteStore(filepath.Join(dir, name), queue.WithSQLiteQueueLimits(d, policy))
			})
			if st == nil {
				continue
			}
			compiled, err := compileText("pull_api {\n  auth token raw:t\n}\n/q {\n  pull { path /pull/q }\n}\n")
			if err != nil {
				return err
			}
			rt, err := app.VerifNewRuntime(compiled, nil)
			if err != nil {
				return err
			}
			srv := rt.IngressServer(st)
			okN, fullN, otherN := 0, 0, 0
			var mu sync.Mutex
			per := 3
			fire(k, func(i int) {
				for j := 0; j < per; j++ {
					rr := httptest.NewRecorder()
					srv.ServeHTTP(rr, httptest.NewRequest("POST", "http://ex/q", bytes.NewReader([]byte(fmt.Sprintf("%d-%d", i, j)))))
					mu.Lock()
					switch rr.Code {
					case 202:
						okN++
					case 503, 429:
						fullN++
					default:
						otherN++
					}
					mu.Unlock()
				}
			})
			active := 0
			if s, err := st.Stats(); err == nil {
				active = s.ByState[queue.StateQueued] + s.ByState[queue.StateLeased]
			}
			emit(map[string]interface{}{"k": "cx", "scenario": "depth", "backend": backend, "goroutines": k, "sent": k * per, "maxDepth": d, "dropOldest": drop, "accepted": okN, "refused": fullN, "other": otherN, "active": active})
			done()
		}

		// ---- (2b) a foreign process holds the write lock of the database file while requests arrive (SQLite rounds): as
		// `hookaido mcp serve --db` or a backup tool may. A request that cannot write must not be acknowledged: every 202 / 200
		// stands for messages that are in the file (C01). Both enqueue paths: unlimited queue (autocommit INSERT) and limited
		// queue (BEGIN IMMEDIATE), ingress fan-out and Admin publish.
		if backend == "sqlite" && round%8 == 1 { // each case waits out the store's busy budget several times: one round in eight
			for _, depth := range []int{0, 50} {
				name := fmt.Sprintf("cx-fl-%d-%d.db", round, depth)
				path := filepath.Join(dir, name)
				st, done := newStore(backend, name, func() (queue.Store, error) {
					return queue.NewSQLiteStore(path, queue.WithSQLiteQueueLimits(depth, "reject"))
				})
				if st == nil {
					continue
				}
				_ = st.(*queue.SQLiteStore).VerifSetBusyTimeout(30)
				compiled, err := compileText("pull_api {\n  auth token raw:t\n}\n/f {\n  deliver \"http://127.0.0.1:9/a\" { timeout 1s }\n  deliver \"http://127.0.0.1:9/b\" { timeout 1s }\n}\n")
				if err != nil {
					return err
				}
				rt, err := app.VerifNewRuntime(compiled, nil)
				if err != nil {
					return err
				}
				srv := rt.IngressServer(st)
				// one request before the lock is taken (must be accepted), then the foreign writer, then requests under the lock
				pre := httptest.NewRecorder()
				srv.ServeHTTP(pre, httptest.NewRequest("POST", "http://ex/f", bytes.NewReader([]byte("before"))))
				raw, err := sql.Open("sqlite", path)
				if err != nil {
					done()
					continue
				}
				locked := false
				if _, err := raw.Exec("PRAGMA busy_timeout=2000;"); err == nil {
					if _, err := raw.Exec("BEGIN IMMEDIATE;"); err == nil {
						locked = true
					}
				}
				acked := 0
				statuses := []int{}
				for i := 0; i < 3; i++ {
					rr := httptest.NewRecorder()
					srv.ServeHTTP(rr, httptest.NewRequest("POST", "http://ex/f", bytes.NewReader([]byte(fmt.Sprintf("locked-%d", i)))))
					statuses = append(statuses, rr.Code)
					if rr.Code == 202 {
						acked++
					}
				}
				if locked {
					_, _ = raw.Exec("ROLLBACK;")
				}
				_ = raw.Close()
				// what is in the file, read through a fresh handle (as after a restart)
				_ = st.(interface{ Close() error }).Close()
				stored := -1
				if st2, err := queue.NewSQLiteStore(path); err == nil {
					if envs, err := st2.VerifSnapshot(); err == nil {
						stored = len(envs)
					}
					_ = st2.Close()
				}
				preAck := 0
				if pre.Code == 202 {
					preAck = 1
				}
				emit(map[string]interface{}{"k": "cx", "scenario": "foreign-lock", "backend": backend, "maxDepth": depth, "locked": locked, "targets": 2,
					"ackedBefore": preAck, "ackedUnderLock": acked, "statuses": statuses, "stored": stored})
				done()
			}
		}

		// ---- (2c) an upload that dies half way: a real TCP connection announces N bytes (or opens a chunked body), sends a part
		// and closes its sending side. Nobody sent that part as a message: whatever the answer, nothing may be stored (C01 "a
		// half-written message", C07 "byte-identical to the request body").
		{
			name := fmt.Sprintf("cx-au-%d.db", round)
			st, done := newStore(backend, name, func() (queue.Store, error) {
				if backend == "memory" {
					return queue.NewMemoryStore(), nil
				}
				return queue.NewSQLiteStore(filepath.Join(dir, name))
			})
			if st != nil {
				compiled, err := compileText("pull_api {\n  auth token raw:t\n}\n/u {\n  max_body 4096\n  pull { path /pull/u }\n}\n")
				if err != nil {
					return err
				}
				rt, err := app.VerifNewRuntime(compiled, nil)
				if err != nil {
					return err
				}
				ts := httptest.NewServer(rt.IngressServer(st))
				full := []byte(fmt.Sprintf("{\"event\":\"invoice.paid\",\"round\":%d,\"pad\":\"%s\"}", round, strings.Repeat("p", r.intn(200))))
				sent := 1 + r.intn(len(full)-1)
				chunked := round%3 == 2
				status := 0
				if conn, err := net.Dial("tcp", ts.Listener.Addr().String()); err == nil {
					if chunked {
						fmt.Fprintf(conn, "POST /u HTTP/1.1\r\nHost: ex\r\nTransfer-Encoding: chunked\r\nContent-Type: application/json\r\n\r\n%x\r\n", len(full))
					} else {
						fmt.Fprintf(conn, "POST /u HTTP/1.1\r\nHost: ex\r\nContent-Length: %d\r\nContent-Type: application/json\r\n\r\n", len(full))
					}
					conn.Write(full[:sent])
					if tc, ok := conn.(*net.TCPConn); ok {
						tc.CloseWrite()
					}
					conn.SetReadDeadline(time.Now().Add(2 * time.Second))
					if resp, err := http.ReadResponse(bufio.NewReader(conn), nil); err == nil {
						status = resp.StatusCode
						resp.Body.Close()
					}
					conn.Close()
				}
				// a complete request afterwards (the server must still work, and its message is the only one)
				okStatus := 0
				if resp, err := http.Post(ts.URL+"/u", "application/json", bytes.NewReader(full)); err == nil {
					okStatus = resp.StatusCode
					resp.Body.Close()
				}
				ts.Close()
				var payloads []string
				if l, err := st.ListMessages(queue.MessageListRequest{Limit: 100, IncludePayload: true}); err == nil {
					for _, it := range l.Items {
						payloads = append(payloads, hex.EncodeToString(it.Payload))
					}
				}
				sort.Strings(payloads)
				emit(map[string]interface{}{"k": "cx", "scenario": "aborted-upload", "backend": backend, "chunked": chunked, "declared": len(full), "sent": sent,
					"status": status, "completeStatus": okStatus, "full": hex.EncodeToString(full), "stored": payloads})
				done()
			}
		}

		// ---- (2d) a fan-out refused part-way, then other traffic (memory and SQLite): the copy stored for the earlier target keeps
		// the bytes that were sent for it, whatever is received afterwards (C07; C02 "no operation alters payload"; C12 keeps it)
		{
			name := fmt.Sprintf("cx-pf-%d.db", round)
			d := 3
			st, done := newStore(backend, name, func() (queue.Store, error) {
				if backend == "memory" {
					return queue.NewMemoryStore(queue.WithQueueLimits(d, "reject")), nil
				}
				return queue.NewSQLiteStore(filepath.Join(dir, name), queue.WithSQLiteQueueLimits(d, "reject"))
			})
			if st != nil {
				compiled, err := compileText("pull_api {\n  auth token raw:t\n}\n/two {\n  deliver \"http://127.0.0.1:9/a\" { timeout 1s }\n  deliver \"http://127.0.0.1:9/b\" { timeout 1s }\n}\n/one {\n  pull { path /pull/one }\n}\n")
				if err != nil {
					return err
				}
				rt, err := app.VerifNewRuntime(compiled, nil)
				if err != nil {
					return err
				}
				srv := rt.IngressServer(st)
				width := 24 + r.intn(40)
				body := func(tag string) []byte {
					b := []byte(fmt.Sprintf("%s-%d-", tag, round))
					for len(b) < width {
						b = append(b, byte('a'+len(b)%26))
					}
					return b
				}
				type sentReq struct {
					Path   string `json:"path"`
					Body   string `json:"body"`
					Status int    `json:"status"`
				}
				var reqs []sentReq
				firstSeen := map[string]string{}
				post := func(path string, b []byte) {
					rr := httptest.NewRecorder()
					srv.ServeHTTP(rr, httptest.NewRequest("POST", "http://ex"+path, bytes.NewReader(b)))
					reqs = append(reqs, sentReq{path, hex.EncodeToString(b), rr.Code})
					if l, err := st.ListMessages(queue.MessageListRequest{Limit: 100, IncludePayload: true}); err == nil {
						for _, it := range l.Items {
							if _, ok := firstSeen[it.ID]; !ok {
								firstSeen[it.ID] = hex.EncodeToString(it.Payload)
							}
						}
					}
				}
				post("/two", body("full-a")) // 2 of 3
				post("/two", body("part-b")) // third slot: first target stored, second refused
				post("/one", body("late-c")) // refused (full) — but received
				post("/two", body("late-d")) // refused before anything is stored
				// a consumer takes one away, then more traffic is accepted
				if dq, err := st.Dequeue(queue.DequeueRequest{Batch: 1}); err == nil && len(dq.Items) == 1 {
					_ = st.Ack(dq.Items[0].LeaseID)
				}
				post("/one", body("more-e"))
				post("/one", body("more-f"))
				changed := []map[string]string{}
				if l, err := st.ListMessages(queue.MessageListRequest{Limit: 100, IncludePayload: true}); err == nil {
					for _, it := range l.Items {
						if was, ok := firstSeen[it.ID]; ok && was != hex.EncodeToString(it.Payload) {
							changed = append(changed, map[string]string{"id": it.ID, "was": was, "now": hex.EncodeToString(it.Payload)})
						}
					}
				}
				sentBodies := []string{}
				for _, q := range reqs {
					sentBodies = append(sentBodies, q.Body)
				}
				first := []string{}
				for _, v := range firstSeen {
					first = append(first, v)
				}
				sort.Strings(first)
				emit(map[string]interface{}{"k": "cx", "scenario": "partial-fanout-payload", "backend": backend, "requests": reqs, "sentBodies": sentBodies,
					"storedWhenFirstSeen": first, "changed": changed})
				done()
			}
		}

		// ---- (3) one bucket, k goroutines asking at once (refill negligible: 1 token per 10000 s)
		{
			burst := pick(r, []int{1, 2, 3, 7})
			text := fmt.Sprintf("pull_api {\n  auth token raw:t\n}\ningress {\n  rate_limit {\n    rps 0.0001\n    burst %d\n  }\n}\n/a {\n  pull { path /pull/a }\n}\n/b {\n  pull { path /pull/b }\n}\n", burst)
			compiled, err := compileText(text)
			if err != nil {
				return err
			}
			rt, err := app.VerifNewRuntime(compiled, nil)
			if err != nil {
				return err
			}
			st := queue.NewMemoryStore()
			srv := rt.IngressServer(st)
			okN := 0
			var mu sync.Mutex
			fire(k, func(i int) {
				for j := 0; j < 4; j++ {
					rr := httptest.NewRecorder()
					srv.ServeHTTP(rr, httptest.NewRequest("POST", "http://ex"+[]string{"/a", "/b"}[(i+j)%2], bytes.NewReader([]byte("x"))))
					if rr.Code == 202 {
						mu.Lock()
						okN++
						mu.Unlock()
					}
				}
			})
			emit(map[string]interface{}{"k": "cx", "scenario": "rate", "goroutines": k, "sent": 4 * k, "burst": burst, "accepted": okN})
		}

		// ---- (4) the same id published k times at once
		{
			name := fmt.Sprintf("cx-p-%d.db", round)
			st, done := newStore(backend, name, func() (queue.Store, error) {
				if backend == "memory" {
					return queue.NewMemoryStore(), nil
				}
				return queue.NewSQLiteStore(filepath.Join(dir, name))
			})
			if st == nil {
				continue
			}
			compiled, err := compileText("pull_api {\n  auth token raw:t\n}\n/p {\n  pull { path /pull/p }\n}\n")
			if err != nil {
				return err
			}
			rt, err := app.VerifNewRuntime(compiled, nil)
			if err != nil {
				return err
			}
			adm := rt.AdminServer(st)
			okN, dupN, otherN := 0, 0, 0
			var mu sync.Mutex
			id := fmt.Sprintf("dup-%d-%d", *seed, round)
			fire(k, func(i int) {
				// every publisher brings the contested id and one of its own: all-or-nothing per call
				body, _ := json.Marshal(map[string]interface{}{"items": []map[string]string{
					{"id": fmt.Sprintf("own-%d-%d", round, i), "route": "/p", "payload_b64": base64.StdEncoding.EncodeToString([]byte("o"))},
					{"id": id, "route": "/p", "payload_b64": base64.StdEncoding.EncodeToString([]byte(fmt.Sprint(i)))}}})
				req := httptest.NewRequest("POST", "http://ex/messages/publish", bytes.NewReader(body))
				req.Header.Set("X-Hookaido-Audit-Reason", "verif")
				rr := httptest.NewRecorder()
				adm.ServeHTTP(rr, req)
				mu.Lock()
				switch rr.Code {
				case http.StatusOK:
					okN++
				case http.StatusConflict:
					dupN++
				default:
					otherN++
				}
				mu.Unlock()
			})
			contested, own := 0, 0
			if l, err := st.ListMessages(queue.MessageListRequest{Limit: 1000}); err == nil {
				for _, it := range l.Items {
					if it.ID == id {
						contested++
					} else {
						own++
					}
				}
			}
			emit(map[string]interface{}{"k": "cx", "scenario": "publish-dup", "backend": backend, "goroutines": k, "accepted": okN, "conflict": dupN, "other": otherN, "contestedStored": contested, "ownStored": own})
			done()
		}

		// ---- (5) the bucket object itself, many times: k goroutines ask at one instant
		{
			burst := pick(r, []int{1, 2, 3})
			worst := 0
			now := time.Unix(1_700_000_000, 0)
			for it := 0; it < 300; it++ {
				b := app.VerifNewTokenBucket(0.0001, burst, now)
				okN := 0
				var mu sync.Mutex
				fire(k, func(i int) {
					if b.AllowAt(now) {
						mu.Lock()
						okN++
						mu.Unlock()
					}
				})
				if okN > worst {
					worst = okN
				}
			}
			emit(map[string]interface{}{"k": "cx", "scenario": "bucket", "goroutines": k, "iterations": 300, "burst": burst, "sent": k, "accepted": worst})
		}

		// ---- (6) near-full queue under reject, k publishers with batches that fit alone but not together
		{
			name := fmt.Sprintf("cx-b-%d.db", round)
			const depth, prefill, batch = 10, 6, 3
			st, done := newStore(backend, name, func() (queue.Store, error) {
				if backend == "memory" {
					return queue.NewMemoryStore(queue.WithQueueLimits(depth, "reject")), nil
				}
				return queue.NewSQLiteStore(filepath.Join(dir, name), queue.WithSQLiteQueueLimits(depth, "reject"))
			})
			if st == nil {
				continue
			}
			for i := 0; i < prefill; i++ {
				_ = st.Enqueue(queue.Envelope{ID: fmt.Sprintf("pre-%d", i), Route: "/p", Target: "pull", Payload: []byte("x")})
			}
			compiled, err := compileText("pull_api {\n  auth token raw:t\n}\n/p {\n  pull { path /pull/p }\n}\n")
			if err != nil {
				return err
			}
			rt, err := app.VerifNewRuntime(compiled, nil)
			if err != nil {
				return err
			}
			adm := rt.AdminServer(st)
			okN, fullN, otherN := 0, 0, 0
			var mu sync.Mutex
			fire(k, func(i int) {
				var items []map[string]string
				for j := 0; j < batch; j++ {
					items = append(items, map[string]string{"id": fmt.Sprintf("b-%d-%d-%d", round, i, j), "route": "/p", "payload_b64": "eA=="})
				}
				body, _ := json.Marshal(map[string]interface{}{"items": items})
				req := httptest.NewRequest("POST", "http://ex/messages/publish", bytes.NewReader(body))
				req.Header.Set("X-Hookaido-Audit-Reason", "verif")
				rr := httptest.NewRecorder()
				adm.ServeHTTP(rr, req)
				mu.Lock()
				switch rr.Code {
				case 200:
					okN++
				case 503:
					fullN++
				default:
					otherN++
				}
				mu.Unlock()
			})
			active := 0
			if s, err := st.Stats(); err == nil {
				active = s.ByState[queue.StateQueued] + s.ByState[queue.StateLeased]
			}
			emit(map[string]interface{}{"k": "cx", "scenario": "depth-batch", "backend": backend, "goroutines": k, "maxDepth": depth, "prefilled": prefill, "batch": batch, "accepted": okN, "refused": fullN, "other": otherN, "active": active})
			done()
		}

		// ---- (7) a consumer's batch ack and an operator's cancel of the same message at once: exactly one of them wins
		{
			name := fmt.Sprintf("cx-a-%d.db", round)
			st, done := newStore(backend, name, func() (queue.Store, error) {
				if backend == "memory" {
					return queue.NewMemoryStore(), nil
				}
				return queue.NewSQLiteStore(filepath.Join(dir, name))
			})
			if st == nil {
				continue
			}
			n := 24
			for i := 0; i < n; i++ {
				_ = st.Enqueue(queue.Envelope{ID: fmt.Sprintf("ac-%d", i), Route: "/p", Target: "pull", Payload: []byte("x")})
			}
			resp, err := st.Dequeue(queue.DequeueRequest{Route: "/p", Target: "pull", Batch: n, LeaseTTL: time.Minute})
			if err != nil || len(resp.Items) != n {
				done()
				continue
			}
			ackOK := make([]bool, n)
			cancelOK := make([]bool, n)
			lb, _ := st.(queue.LeaseBatchStore)
			fire(2*n, func(g int) {
				i := g / 2
				it := resp.Items[i]
				if g%2 == 0 {
					if lb != nil {
						br, err := lb.AckBatch([]string{it.LeaseID})
						ackOK[i] = err == nil && br.Succeeded == 1
					} else {
						ackOK[i] = st.Ack(it.LeaseID) == nil
					}
				} else {
					cr, err := st.CancelMessages(queue.MessageCancelRequest{IDs: []string{it.ID}})
					cancelOK[i] = err == nil && cr.Canceled == 1
				}
			})
			both, neither, wrongState := 0, 0, 0
			look, _ := st.LookupMessages(queue.MessageLookupRequest{IDs: func() []string {
				var ids []string
				for _, it := range resp.Items {
					ids = append(ids, it.ID)
				}
				return ids
			}()})
			state := map[string]queue.State{}
			for _, it := range look.Items {
				state[it.ID] = it.State
			}
			for i, it := range resp.Items {
				switch {
				case ackOK[i] && cancelOK[i]:
					both++
				case !ackOK[i] && !cancelOK[i]:
					neither++
				case cancelOK[i] && state[it.ID] != queue.StateCanceled:
					wrongState++
				case ackOK[i] && (state[it.ID] == queue.StateCanceled || state[it.ID] == queue.StateQueued || state[it.ID] == queue.StateLeased):
					wrongState++
				}
			}
			emit(map[string]interface{}{"k": "cx", "scenario": "ack-vs-cancel", "backend": backend, "messages": n, "both": both, "neither": neither, "wrongState": wrongState})
			done()
		}

		// ---- (8) the same stale lease acked k times at once against a slow store: every answer is a conflict
		{
			st := queue.NewMemoryStore()
			_ = st.Enqueue(queue.Envelope{ID: "s1", Route: "/p", Target: "pull", Payload: []byte("x")})
			r1, _ := st.Dequeue(queue.DequeueRequest{Route: "/p", Target: "pull", Batch: 1, LeaseTTL: time.Minute})
			if len(r1.Items) == 1 {
				stale := r1.Items[0].LeaseID
				_ = st.Nack(stale, 0)
				_, _ = st.Dequeue(queue.DequeueRequest{Route: "/p", Target: "pull", Batch: 1, LeaseTTL: time.Minute}) // re-leased under another id
				srv := pullapi.NewServer(&slowAckStore{Store: st, d: 2 * time.Millisecond})
				srv.ResolveRoute = func(endpoint string) (string, bool) { return "/p", true }
				okN := 0
				var mu sync.Mutex
				fire(k, func(i int) {
					time.Sleep(time.Duration(i%4) * 500 * time.Microsecond)
					if oe := srv.AckSingle("/p", stale); oe == nil {
						mu.Lock()
						okN++
						mu.Unlock()
					}
				})
				emit(map[string]interface{}{"k": "cx", "scenario": "stale-ack", "goroutines": k, "answeredSuccess": okN})
			}
		}

		// ---- (10) pull callers while the configuration flips between X and Y, which swap endpoint AND token between two routes:
		// under X and under Y alike /e1 takes only tokA and /e2 only tokB; a decision that mixes the two takes the other
		if round%2 == 0 {
			mk := func(e1of, e2of string) string {
				tokOf := map[string]string{"/e1": "tokA", "/e2": "tokB"}
				pathOf := map[string]string{e1of: "/e1", e2of: "/e2"}
				var b bytes.Buffer
				b.WriteString("pull_api {\n  auth token raw:unused\n}\n")
				for _, rt := range []string{"/a", "/b"} {
					fmt.Fprintf(&b, "%s {\n  pull {\n    path %s\n    auth token raw:%s\n  }\n}\n", rt, pathOf[rt], tokOf[pathOf[rt]])
				}
				return b.String()
			}
			x, y := mk("/a", "/b"), mk("/b", "/a")
			compiled, err := compileText(x)
			if err != nil {
				return err
			}
			rt, err := app.VerifNewRuntime(compiled, nil)
			if err != nil {
				return err
			}
			px, py := filepath.Join(dir, fmt.Sprintf("cxX%d", round)), filepath.Join(dir, fmt.Sprintf("cxY%d", round))
			_ = os.WriteFile(px, []byte(x), 0o600)
			_ = os.WriteFile(py, []byte(y), 0o600)
			var stop atomic.Bool
			var wrongAccept, wrongRefuse, reloads, asked int64
			var wg sync.WaitGroup
			wg.Add(1)
			go func() {
				defer wg.Done()
				for i := 0; !stop.Load(); i++ {
					if rt.Reload([]string{py, px}[i%2]) {
						atomic.AddInt64(&reloads, 1)
					}
				}
			}()
			for g := 0; g < 8; g++ {
				wg.Add(1)
				go func(g int) {
					defer wg.Done()
					ep := []string{"/e1", "/e2"}[g%2]
					good, bad := map[string]string{"/e1": "tokA", "/e2": "tokB"}[ep], map[string]string{"/e1": "tokB", "/e2": "tokA"}[ep]
					for !stop.Load() {
						rq := httptest.NewRequest("POST", "http://ex"+ep+"/dequeue", nil)
						rq.Header.Set("Authorization", "Bearer "+bad)
						if rt.AuthorizePull(rq) {
							atomic.AddInt64(&wrongAccept, 1)
						}
						rq.Header.Set("Authorization", "Bearer "+good)
						if !rt.AuthorizePull(rq) {
							atomic.AddInt64(&wrongRefuse, 1)
						}
						atomic.AddInt64(&asked, 2)
					}
				}(g)
			}
			// at least 120 ms and at least 20 reloads (on a busy machine the reloader may be starved for a while), at most 5 s
			for began := time.Now(); ; {
				time.Sleep(20 * time.Millisecond)
				el := time.Since(began)
				if (el >= 120*time.Millisecond && atomic.LoadInt64(&reloads) >= 20) || el >= 5*time.Second {
					break
				}
			}
			stop.Store(true)
			wg.Wait()
			emit(map[string]interface{}{"k": "cx", "scenario": "pull-auth-during-reloads", "reloads": reloads, "asked": asked, "otherTokenAccepted": wrongAccept, "ownTokenRefused": wrongRefuse})
		}

		// ---- (11) producers keep a small drop_oldest queue full while consumers lease (1 h) and ack at once: an ack on a fresh
		// lease never fails, because eviction takes queued messages only
		{
			name := fmt.Sprintf("cx-e-%d.db", round)
			st, done := newStore(backend, name, func() (queue.Store, error) {
				if backend == "memory" {
					return queue.NewMemoryStore(queue.WithQueueLimits(4, "drop_oldest")), nil
				}
				return queue.NewSQLiteStore(filepath.Join(dir, name), queue.WithSQLiteQueueLimits(4, "drop_oldest"))
			})
			if st != nil {
				var stop atomic.Bool
				var ackFailed, acked, produced int64
				var wg sync.WaitGroup
				for g := 0; g < 6; g++ {
					wg.Add(2)
					go func(g int) {
						defer wg.Done()
						for i := 0; !stop.Load(); i++ {
							if st.Enqueue(queue.Envelope{ID: fmt.Sprintf("e-%d-%d-%d", round, g, i), Route: "/p", Target: "pull", Payload: []byte("x")}) == nil {
								atomic.AddInt64(&produced, 1)
							}
						}
					}(g)
					go func() {
						defer wg.Done()
						for !stop.Load() {
							resp, err := st.Dequeue(queue.DequeueRequest{Route: "/p", Target: "pull", Batch: 1, LeaseTTL: time.Hour})
							if err != nil {
								continue
							}
							for _, it := range resp.Items {
								if st.Ack(it.LeaseID) != nil {
									atomic.AddInt64(&ackFailed, 1)
								} else {
									atomic.AddInt64(&acked, 1)
								}
							}
						}
					}()
				}
				time.Sleep(80 * time.Millisecond)
				stop.Store(true)
				wg.Wait()
				emit(map[string]interface{}{"k": "cx", "scenario": "evict-vs-consumers", "backend": backend, "produced": produced, "acked": acked, "freshLeaseAckFailed": ackFailed})
				done()
			}
		}

		// ---- (12) several MCP sessions rewrite the same configuration file at once: an observer must only ever see one of the
		// complete texts
		if round%2 == 1 {
			cfgPath := filepath.Join(dir, fmt.Sprintf("Hookaidofile.mcp%d", round))
			texts := []string{"pull_api {\n  auth token raw:t\n}\n/w0 {\n  pull { path /pull/w0 }\n}\n"}
			for i := 1; i <= 4; i++ {
				texts = append(texts, fmt.Sprintf("pull_api {\n  auth token raw:t\n}\n/w%d {\n  pull { path /pull/w%d }\n}\n# %s\n", i, i, string(bytes.Repeat([]byte{'x'}, 2000*i))))
			}
			_ = os.WriteFile(cfgPath, []byte(texts[0]), 0o600)
			known := map[string]bool{}
			for _, t := range texts {
				known[t] = true
			}
			var stop atomic.Bool
			var strange int64
			var owg sync.WaitGroup
			owg.Add(1)
			go func() {
				defer owg.Done()
				for !stop.Load() {
					if b, err := os.ReadFile(cfgPath); err != nil || !known[string(b)] {
						atomic.AddInt64(&strange, 1)
					}
				}
			}()
			failed := int64(0)
			firstErr := ""
			for rep := 0; rep < 10; rep++ {
				fire(4, func(i int) {
					var ob, ab bytes.Buffer
					srv := mcp.NewServer(bytes.NewReader(frame(map[string]interface{}{"jsonrpc": "2.0", "id": 1, "method": "tools/call", "params": map[string]interface{}{"name": "config_apply",
						"arguments": map[string]interface{}{"content": texts[i+1], "mode": "write_only"}}})), &ob, cfgPath, filepath.Join(dir, "none.db"),
						mcp.WithRole(mcp.RoleAdmin), mcp.WithMutationsEnabled(true), mcp.WithPrincipal("ops@example"), mcp.WithAuditWriter(&ab))
					_ = srv.Serve(context.Background())
					for _, fr := range readFrames(ob.Bytes()) {
						if res, ok := fr["result"].(map[string]interface{}); ok {
							if b, _ := res["isError"].(bool); b {
								if atomic.AddInt64(&failed, 1) == 1 {
									if cs, ok := res["content"].([]interface{}); ok && len(cs) > 0 {
										firstErr, _ = cs[0].(map[string]interface{})["text"].(string)
									}
								}
							}
						}
					}
				})
			}
			stop.Store(true)
			owg.Wait()
			final, _ := os.ReadFile(cfgPath)
			leftovers := 0
			if ents, err := os.ReadDir(dir); err == nil {
				for _, e := range ents {
					if len(e.Name()) > 1 && e.Name()[0] == '.' {
						leftovers++
					}
				}
			}
			emit(map[string]interface{}{"k": "cx", "scenario": "mcp-writers", "strangeContentSeen": strange, "writersFailed": failed, "firstError": firstErr, "finalKnown": known[string(final)], "tempLeftovers": leftovers})
		}

		// ---- (13) stale lease operations racing with a re-lease: whoever is handed a lease during the volley and does not settle it
		// still holds it at the end. Variant "expired": the first leases have run out (not yet swept) and their holders send a late
		// batch nack / ack while other workers dequeue. Variant "duplicate": every holder sends the same nack twice while a
		// worker polls.
		for _, variant := range []string{"expired", "duplicate"} {
			clock := &fakeClock{now: 1_700_000_000_000_000_000}
			name := fmt.Sprintf("cx-s-%d-%s.db", round, variant)
			st, done := newStore(backend, name, func() (queue.Store, error) {
				if backend == "memory" {
					return queue.NewMemoryStore(queue.WithNowFunc(clock.Now)), nil
				}
				return queue.NewSQLiteStore(filepath.Join(dir, name), queue.WithSQLiteNowFunc(clock.Now))
			})
			if st == nil {
				continue
			}
			n := 16
			for i := 0; i < n; i++ {
				_ = st.Enqueue(queue.Envelope{ID: fmt.Sprintf("so-%d", i), Route: "/p", Target: "pull", Payload: []byte("x")})
			}
			first, err := st.Dequeue(queue.DequeueRequest{Route: "/p", Target: "pull", Batch: n, LeaseTTL: time.Second})
			if err != nil || len(first.Items) != n {
				done()
				continue
			}
			if variant == "expired" {
				clock.now += int64(2 * time.Second)
			}
			lb, _ := st.(queue.LeaseBatchStore)
			type grant struct{ id, lease string }
			var grants []grant
			var mu sync.Mutex
			fire(3*n, func(g int) {
				i := g / 3
				l1 := first.Items[i].LeaseID
				switch {
				case g%3 == 2: // another worker asks for work
					resp, err := st.Dequeue(queue.DequeueRequest{Route: "/p", Target: "pull", Batch: 1, LeaseTTL: time.Hour})
					if err == nil {
						mu.Lock()
						for _, it := range resp.Items {
							grants = append(grants, grant{it.ID, it.LeaseID})
						}
						mu.Unlock()
					}
				case variant == "expired" && lb != nil:
					if g%3 == 0 {
						_, _ = lb.NackBatch([]string{l1}, 0)
					} else {
						_, _ = lb.AckBatch([]string{l1})
					}
				default:
					_ = st.Nack(l1, 0)
				}
			})
			var snap []queue.Envelope
			switch s := st.(type) {
			case *queue.MemoryStore:
				snap = s.VerifSnapshot()
			case *queue.SQLiteStore:
				snap, _ = s.VerifSnapshot()
			}
			held := map[string]string{}
			for _, e := range snap {
				if e.State == queue.StateLeased {
					held[e.ID] = e.LeaseID
				}
			}
			// a message may have been granted more than once legitimately only if an earlier grant was wiped — which is the defect
			lost := 0
			seen := map[string]bool{}
			for _, gr := range grants {
				if seen[gr.id] || held[gr.id] != gr.lease {
					lost++
				}
				seen[gr.id] = true
			}
			emit(map[string]interface{}{"k": "cx", "scenario": "stale-op-vs-release", "variant": variant, "backend": backend, "messages": n, "grants": len(grants), "grantsLostOrDoubled": lost})
			done()
		}

		// ---- (14) an operator's by-filter operation on SQLite with other requests served in the middle of it. Deterministic: the
		// other requests go through a second handle on the same database file (as `hookaido mcp serve --db` next to `hookaido
		// run` does), issued from inside the first handle's clock callback at its j-th reading. Whatever j, what the worker was
		// told stays true: a nack with a one hour delay that succeeded hides the message for the hour; a lease just granted for
		// an hour can be acknowledged.
		for _, op := range []string{"requeue-dead", "requeue-canceled", "resume-canceled"} {
			for _, inter := range []string{"requeue-lease-nack", "requeue-lease"} {
				for j := 1; j <= 3; j++ {
					name := fmt.Sprintf("cx-i-%d-%s-%s-%d.db", round, op, inter, j)
					path := filepath.Join(dir, name)
					clock := &fakeClock{now: 1_700_000_000_000_000_000}
					reads := 0
					var hook func()
					s1, err1 := queue.NewSQLiteStore(path, queue.WithSQLiteNowFunc(func() time.Time {
						if hook != nil {
							reads++
							if reads == j {
								h := hook
								hook = nil
								h()
							}
						}
						return clock.Now()
					}))
					s2, err2 := queue.NewSQLiteStore(path, queue.WithSQLiteNowFunc(clock.Now))
					if err1 != nil || err2 != nil {
						continue
					}
					n := 1 + r.intn(3)
					setupOK := true
					for i := 0; i < n; i++ {
						id := fmt.Sprintf("ip-%d", i)
						if s1.Enqueue(queue.Envelope{ID: id, Route: "/p", Target: "pull", Payload: []byte("x")}) != nil {
							setupOK = false
						}
					}
					if op == "requeue-dead" {
						resp, err := s1.Dequeue(queue.DequeueRequest{Route: "/p", Target: "pull", Batch: n, LeaseTTL: time.Minute})
						if err != nil || len(resp.Items) != n {
							setupOK = false
						} else {
							for _, it := range resp.Items {
								if s1.MarkDead(it.LeaseID, "boom") != nil {
									setupOK = false
								}
							}
						}
					} else {
						var ids []string
						for i := 0; i < n; i++ {
							ids = append(ids, fmt.Sprintf("ip-%d", i))
						}
						if cr, err := s1.CancelMessages(queue.MessageCancelRequest{IDs: ids}); err != nil || cr.Canceled != n {
							setupOK = false
						}
					}
					clock.now += int64(time.Minute)
					interOK := true
					var lease string
					fired := false
					snapOf := func(st *queue.SQLiteStore) []jmsg {
						envs, err := st.VerifSnapshot()
						if err != nil {
							return nil
						}
						out := make([]jmsg, 0, len(envs))
						for _, e := range envs {
							out = append(out, canonEnv(e))
						}
						sort.Slice(out, func(a, b int) bool { return out[a].ID < out[b].ID })
						return out
					}
					q0 := snapOf(s2)
					qMid := q0
					hook = func() {
						fired = true
						defer func() { qMid = snapOf(s2) }()
						rq, err := s2.RequeueMessages(queue.MessageRequeueRequest{IDs: []string{"ip-0"}})
						if err != nil || rq.Requeued != 1 {
							interOK = false
							return
						}
						resp, err := s2.Dequeue(queue.DequeueRequest{Route: "/p", Target: "pull", Batch: 1, LeaseTTL: time.Hour})
						if err != nil || len(resp.Items) != 1 || resp.Items[0].ID != "ip-0" {
							interOK = false
							return
						}
						lease = resp.Items[0].LeaseID
						if inter == "requeue-lease-nack" {
							if s2.Nack(lease, time.Hour) != nil {
								interOK = false
							}
						}
					}
					state := queue.StateDead
					if op != "requeue-dead" {
						state = queue.StateCanceled
					}
					var res queue.MessageRequeueResponse
					var opErr error
					if op == "resume-canceled" {
						var rr queue.MessageResumeResponse
						rr, opErr = s1.ResumeMessagesByFilter(queue.MessageManageFilterRequest{Route: "/p", State: state, Limit: 10})
						res.Requeued, res.Matched = rr.Resumed, rr.Matched
					} else {
						res, opErr = s1.RequeueMessagesByFilter(queue.MessageManageFilterRequest{Route: "/p", State: state, Limit: 10})
					}
					hook = nil
					qAfter := snapOf(s2)
					opNow := clock.now
					early, lateMissing, freshFailed := 0, 0, 0
					if fired && interOK {
						if inter == "requeue-lease-nack" {
							clock.now += int64(time.Minute)
							got, err := s1.Dequeue(queue.DequeueRequest{Route: "/p", Target: "pull", Batch: 10, LeaseTTL: time.Second})
							if err == nil {
								for _, it := range got.Items {
									if it.ID == "ip-0" {
										early++
									}
								}
							}
							clock.now += int64(time.Hour)
							got, err = s1.Dequeue(queue.DequeueRequest{Route: "/p", Target: "pull", Batch: 10, LeaseTTL: time.Second})
							found := false
							if err == nil {
								for _, it := range got.Items {
									if it.ID == "ip-0" {
										found = true
									}
								}
							}
							if !found && early == 0 {
								lateMissing++
							}
						} else {
							clock.now += int64(time.Minute)
							if s2.Ack(lease) != nil {
								freshFailed++
							}
						}
					}
					emit(map[string]interface{}{"k": "cx", "scenario": "interposed", "op": op, "interposed": inter, "atClockReading": j, "messages": n,
						"fired": fired, "setupOK": setupOK, "interposedOK": interOK, "opOK": opErr == nil, "requeued": res.Requeued, "matched": res.Matched,
						"offeredEarly": early, "missingAfterDelay": lateMissing, "freshLeaseAckFailed": freshFailed,
						"now": opNow, "f": map[string]interface{}{"route": "/p", "state": string(state), "limit": 10}, "q0": q0, "q": qMid, "after": qAfter})
					_ = s1.Close()
					_ = s2.Close()
					os.Remove(path)
					os.Remove(path + "-wal")
					os.Remove(path + "-shm")
				}
			}
		}

		// ---- (15) a producer and a consumer at full speed next to a large idle population (the in-memory order list is
		// compacted again and again meanwhile): every accepted message is delivered — none is left queued, due and never offered.
		if round%4 < 2 {
			name := fmt.Sprintf("cx-h-%d.db", round)
			st, done := newStore(backend, name, func() (queue.Store, error) {
				if backend == "memory" {
					return queue.NewMemoryStore(), nil
				}
				return queue.NewSQLiteStore(filepath.Join(dir, name))
			})
			if st == nil {
				continue
			}
			idle, batches, per := 2000, 600, 100
			if backend == "sqlite" {
				idle, batches, per = 500, 30, 50
			}
			bs, _ := st.(queue.BatchEnqueuer)
			lb, _ := st.(queue.LeaseBatchStore)
			fill := func(route, prefix string, count int) int {
				okN := 0
				for at := 0; at < count; at += per {
					var envs []queue.Envelope
					for i := at; i < at+per && i < count; i++ {
						envs = append(envs, queue.Envelope{ID: fmt.Sprintf("%s-%d", prefix, i), Route: route, Target: "pull", Payload: []byte("x")})
					}
					if bs != nil {
						if n, err := bs.EnqueueBatch(envs); err == nil {
							okN += n
						}
					} else {
						for _, e := range envs {
							if st.Enqueue(e) == nil {
								okN++
							}
						}
					}
				}
				return okN
			}
			fill("/idle", "idle", idle)
			var accepted, delivered int64
			var producerDone int32
			fire(2, func(g int) {
				if g == 0 {
					atomic.AddInt64(&accepted, int64(fill("/busy", "busy", batches*per)))
					atomic.StoreInt32(&producerDone, 1)
					return
				}
				for {
					fin := atomic.LoadInt32(&producerDone) == 1
					resp, err := st.Dequeue(queue.DequeueRequest{Route: "/busy", Target: "pull", Batch: per, LeaseTTL: time.Hour})
					if err == nil && len(resp.Items) > 0 {
						var ls []string
						for _, it := range resp.Items {
							ls = append(ls, it.LeaseID)
						}
						if lb != nil {
							if br, err := lb.AckBatch(ls); err == nil {
								atomic.AddInt64(&delivered, int64(br.Succeeded))
							}
						} else {
							for _, l := range ls {
								if st.Ack(l) == nil {
									atomic.AddInt64(&delivered, 1)
								}
							}
						}
						continue
					}
					if fin {
						return
					}
				}
			})
			stuck := 0
			if ls, err := st.ListMessages(queue.MessageListRequest{Route: "/busy", State: queue.StateQueued, Limit: 1000}); err == nil {
				stuck = len(ls.Items)
			}
			emit(map[string]interface{}{"k": "cx", "scenario": "churn", "backend": backend, "idle": idle, "accepted": accepted, "delivered": delivered, "leftQueuedAndDueButNeverOffered": stuck})
			done()
		}

		// ---- (9) a reload that raises the tolerance is held up while loading a later route's secret (a FIFO that nobody
		// writes yet); a signed request is served meanwhile; then the reload completes. The request's replay after the OLD
		// window is still inside the new one and must be refused.
		if round%3 == 0 {
			fifo := filepath.Join(dir, fmt.Sprintf("zsecret-%d", round))
			_ = os.WriteFile(fifo, []byte("zkey\n"), 0o600)
			text := func(tol int) string {
				return fmt.Sprintf("pull_api {\n  auth token raw:t\n}\n/h {\n  auth hmac {\n    secret raw:concx-key\n    tolerance %ds\n  }\n  pull { path /pull/h }\n}\n/z {\n  auth hmac {\n    secret file:%s\n  }\n  pull { path /pull/z }\n}\n", tol, fifo)
			}
			compiled, err := compileText(text(5))
			if err != nil {
				return err
			}
			clock := &fakeClock{now: 1_700_000_000_000_000_000}
			rt, err := app.VerifNewRuntime(compiled, clock.Now)
			if err != nil {
				return err
			}
			st := queue.NewMemoryStore(queue.WithNowFunc(clock.Now))
			cfgPath := filepath.Join(dir, fmt.Sprintf("Hookaidofile.cx%d", round))
			_ = os.WriteFile(cfgPath, []byte(text(300)), 0o600)
			_ = os.Remove(fifo)
			if err := syscall.Mkfifo(fifo, 0o600); err == nil {
				reloaded := make(chan bool, 1)
				go func() { reloaded <- rt.Reload(cfgPath) }()
				time.Sleep(30 * time.Millisecond) // the reload is now waiting for the later route's secret
				ts := fmt.Sprint(clock.now / int64(time.Second))
				body := []byte("{}")
				send := func() int {
					req := httptest.NewRequest("POST", "http://ex/h", bytes.NewReader(body))
					req.Header.Set("X-Signature", signIngress([]byte("concx-key"), ts, "POST", "/h", body))
					req.Header.Set("X-Timestamp", ts)
					req.Header.Set("X-Nonce", fmt.Sprintf("cxr-%d", round))
					rr := httptest.NewRecorder()
					rt.IngressServer(st).ServeHTTP(rr, req)
					return rr.Code
				}
				first := send()
				if f, err := os.OpenFile(fifo, os.O_WRONLY, 0); err == nil {
					f.Write([]byte("zkey\n"))
					f.Close()
				}
				ok := false
				select {
				case ok = <-reloaded:
				case <-time.After(5 * time.Second):
				}
				clock.now += int64(10 * time.Second) // past the old window (5 s), well inside the new one (300 s)
				second := send()
				emit(map[string]interface{}{"k": "cx", "scenario": "reload-raise-inflight", "reloadOK": ok, "first": first, "replay": second})
			}
			os.Remove(fifo)
		}
	}
	return nil
}
