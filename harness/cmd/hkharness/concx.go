package main

// Concurrent requests through the real handlers (C09, C12, C15): scenarios whose outcome is DEFINITE whatever the schedule —
// of N simultaneous copies of one signed request exactly one is accepted; a full queue admits nothing more however many
// goroutines push; a bucket with a negligible refill admits at most its burst; of N simultaneous publishes of one id exactly
// one is stored. The theorems behind them are about sequential histories (each handler decision is one critical section);
// this harness samples schedules to see whether the critical sections are what they are assumed to be. It cannot prove
// their absence of races; it can only fail on a schedule that breaks the bound.

import (
	"bufio"
	"bytes"
	"encoding/base64"
	"encoding/json"
	"flag"
	"fmt"
	"net/http"
	"net/http/httptest"
	"os"
	"path/filepath"
	"sync"
	"time"

	"github.com/nuetzliches/hookaido/internal/app"
	"github.com/nuetzliches/hookaido/internal/queue"
)

func cmdConcX(args []string) error {
	fs := flag.NewFlagSet("concx", flag.ExitOnError)
	seed := fs.Uint64("seed", 1, "seed")
	rounds := fs.Int("rounds", 12, "rounds per scenario")
	outPath := fs.String("out", "-", "output")
	fs.Parse(args)
	w := os.Stdout
	if *outPath != "-" {
		f, err := os.Create(*outPath)
		if err != nil {
			return err
		}
		defer f.Close()
		w = f
	}
	out := bufio.NewWriterSize(w, 1<<20)
	defer out.Flush()
	emit := func(v interface{}) {
		b, _ := json.Marshal(v)
		out.Write(b)
		out.WriteByte('\n')
	}
	r := newRng(*seed)
	dir, err := scratchDir()
	if err != nil {
		return err
	}
	defer os.RemoveAll(dir)
	newStore := func(backend, name string, opts func() (queue.Store, error)) (queue.Store, func()) {
		st, err := opts()
		if err != nil {
			return nil, func() {}
		}
		return st, func() {
			if c, ok := st.(interface{ Close() error }); ok {
				_ = c.Close()
			}
			p := filepath.Join(dir, name)
			os.Remove(p)
			os.Remove(p + "-wal")
			os.Remove(p + "-shm")
		}
	}
	// fire runs n goroutines that all start at the same instant
	fire := func(n int, fn func(i int)) {
		var wg sync.WaitGroup
		start := make(chan struct{})
		for i := 0; i < n; i++ {
			wg.Add(1)
			go func(i int) {
				defer wg.Done()
				<-start
				fn(i)
			}(i)
		}
		close(start)
		wg.Wait()
	}

	for round := 0; round < *rounds; round++ {
		backend := []string{"memory", "sqlite"}[round%2]
		k := pick(r, []int{4, 8, 16, 32})

		// ---- (1) the same signed request, k copies at once
		{
			targets := 1 + round%2
			var b bytes.Buffer
			b.WriteString("pull_api {\n  auth token raw:t\n}\n/h {\n  auth hmac {\n    secret raw:concx-key\n    tolerance 300s\n  }\n")
			if targets == 1 {
				b.WriteString("  pull { path /pull/h }\n}\n")
			} else {
				b.WriteString("  deliver \"http://127.0.0.1:9/a\" { timeout 1s }\n  deliver \"http://127.0.0.1:9/b\" { timeout 1s }\n}\n")
			}
			compiled, err := compileText(b.String())
			if err != nil {
				return err
			}
			rt, err := app.VerifNewRuntime(compiled, nil)
			if err != nil {
				return err
			}
			name := fmt.Sprintf("cx-n-%d.db", round)
			st, done := newStore(backend, name, func() (queue.Store, error) {
				if backend == "memory" {
					return queue.NewMemoryStore(), nil
				}
				return queue.NewSQLiteStore(filepath.Join(dir, name))
			})
			if st == nil {
				continue
			}
			srv := rt.IngressServer(st)
			accepted := 0
			var mu sync.Mutex
			ts := fmt.Sprint(time.Now().Unix())
			body := []byte(fmt.Sprintf("{\"round\":%d}", round))
			sig := signIngress([]byte("concx-key"), ts, "POST", "/h", body)
			sameBody := round%3 != 2
			fire(k, func(i int) {
				bd := body
				sg := sig
				if !sameBody {
					// the same nonce under fresh signatures over different bodies: still one nonce
					bd = []byte(fmt.Sprintf("{\"round\":%d,\"i\":%d}", round, i))
					sg = signIngress([]byte("concx-key"), ts, "POST", "/h", bd)
				}
				req := httptest.NewRequest("POST", "http://ex/h", bytes.NewReader(bd))
				req.Header.Set("X-Signature", sg)
				req.Header.Set("X-Timestamp", ts)
				req.Header.Set("X-Nonce", fmt.Sprintf("cx-%d-%d", *seed, round))
				rr := httptest.NewRecorder()
				srv.ServeHTTP(rr, req)
				if rr.Code == 202 {
					mu.Lock()
					accepted++
					mu.Unlock()
				}
			})
			stored := 0
			if l, err := st.ListMessages(queue.MessageListRequest{Limit: 1000}); err == nil {
				stored = len(l.Items)
			}
			emit(map[string]interface{}{"k": "cx", "scenario": "nonce", "backend": backend, "goroutines": k, "targets": targets, "sameBody": sameBody, "accepted": accepted, "stored": stored})
			done()
		}

		// ---- (2) a queue with room for d messages, k goroutines pushing
		{
			d := pick(r, []int{1, 2, 3, 5})
			drop := round%4 >= 2
			policy := "reject"
			if drop {
				policy = "drop_oldest"
			}
			name := fmt.Sprintf("cx-d-%d.db", round)
			st, done := newStore(backend, name, func() (queue.Store, error) {
				if backend == "memory" {
					return queue.NewMemoryStore(queue.WithQueueLimits(d, policy)), nil
				}
				return queue.NewSQLiteStore(filepath.Join(dir, name), queue.WithSQLiteQueueLimits(d, policy))
			})
			if st == nil {
				continue
			}
			compiled, err := compileText("pull_api {\n  auth token raw:t\n}\n/q {\n  pull { path /pull/q }\n}\n")
			if err != nil {
				return err
			}
			rt, err := app.VerifNewRuntime(compiled, nil)
			if err != nil {
				return err
			}
			srv := rt.IngressServer(st)
			okN, fullN, otherN := 0, 0, 0
			var mu sync.Mutex
			per := 3
			fire(k, func(i int) {
				for j := 0; j < per; j++ {
					rr := httptest.NewRecorder()
					srv.ServeHTTP(rr, httptest.NewRequest("POST", "http://ex/q", bytes.NewReader([]byte(fmt.Sprintf("%d-%d", i, j)))))
					mu.Lock()
					switch rr.Code {
					case 202:
						okN++
					case 503, 429:
						fullN++
					default:
						otherN++
					}
					mu.Unlock()
				}
			})
			active := 0
			if s, err := st.Stats(); err == nil {
				active = s.ByState[queue.StateQueued] + s.ByState[queue.StateLeased]
			}
			emit(map[string]interface{}{"k": "cx", "scenario": "depth", "backend": backend, "goroutines": k, "sent": k * per, "maxDepth": d, "dropOldest": drop, "accepted": okN, "refused": fullN, "other": otherN, "active": active})
			done()
		}

		// ---- (3) one bucket, k goroutines asking at once (refill negligible: 1 token per 10000 s)
		{
			burst := pick(r, []int{1, 2, 3, 7})
			text := fmt.Sprintf("pull_api {\n  auth token raw:t\n}\ningress {\n  rate_limit {\n    rps 0.0001\n    burst %d\n  }\n}\n/a {\n  pull { path /pull/a }\n}\n/b {\n  pull { path /pull/b }\n}\n", burst)
			compiled, err := compileText(text)
			if err != nil {
				return err
			}
			rt, err := app.VerifNewRuntime(compiled, nil)
			if err != nil {
				return err
			}
			st := queue.NewMemoryStore()
			srv := rt.IngressServer(st)
			okN := 0
			var mu sync.Mutex
			fire(k, func(i int) {
				for j := 0; j < 4; j++ {
					rr := httptest.NewRecorder()
					srv.ServeHTTP(rr, httptest.NewRequest("POST", "http://ex"+[]string{"/a", "/b"}[(i+j)%2], bytes.NewReader([]byte("x"))))
					if rr.Code == 202 {
						mu.Lock()
						okN++
						mu.Unlock()
					}
				}
			})
			emit(map[string]interface{}{"k": "cx", "scenario": "rate", "goroutines": k, "sent": 4 * k, "burst": burst, "accepted": okN})
		}

		// ---- (4) the same id published k times at once
		{
			name := fmt.Sprintf("cx-p-%d.db", round)
			st, done := newStore(backend, name, func() (queue.Store, error) {
				if backend == "memory" {
					return queue.NewMemoryStore(), nil
				}
				return queue.NewSQLiteStore(filepath.Join(dir, name))
			})
			if st == nil {
				continue
			}
			compiled, err := compileText("pull_api {\n  auth token raw:t\n}\n/p {\n  pull { path /pull/p }\n}\n")
			if err != nil {
				return err
			}
			rt, err := app.VerifNewRuntime(compiled, nil)
			if err != nil {
				return err
			}
			adm := rt.AdminServer(st)
			okN, dupN, otherN := 0, 0, 0
			var mu sync.Mutex
			id := fmt.Sprintf("dup-%d-%d", *seed, round)
			fire(k, func(i int) {
				// every publisher brings the contested id and one of its own: all-or-nothing per call
				body, _ := json.Marshal(map[string]interface{}{"items": []map[string]string{
					{"id": fmt.Sprintf("own-%d-%d", round, i), "route": "/p", "payload_b64": base64.StdEncoding.EncodeToString([]byte("o"))},
					{"id": id, "route": "/p", "payload_b64": base64.StdEncoding.EncodeToString([]byte(fmt.Sprint(i)))}}})
				req := httptest.NewRequest("POST", "http://ex/messages/publish", bytes.NewReader(body))
				req.Header.Set("X-Hookaido-Audit-Reason", "verif")
				rr := httptest.NewRecorder()
				adm.ServeHTTP(rr, req)
				mu.Lock()
				switch rr.Code {
				case http.StatusOK:
					okN++
				case http.StatusConflict:
					dupN++
				default:
					otherN++
				}
				mu.Unlock()
			})
			contested, own := 0, 0
			if l, err := st.ListMessages(queue.MessageListRequest{Limit: 1000}); err == nil {
				for _, it := range l.Items {
					if it.ID == id {
						contested++
					} else {
						own++
					}
				}
			}
			emit(map[string]interface{}{"k": "cx", "scenario": "publish-dup", "backend": backend, "goroutines": k, "accepted": okN, "conflict": dupN, "other": otherN, "contestedStored": contested, "ownStored": own})
			done()
		}
	}
	return nil
}
