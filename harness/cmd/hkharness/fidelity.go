package main

import (
	"bufio"
	"bytes"
	"context"
	"encoding/base64"
	"encoding/hex"
	"encoding/json"
	"flag"
	"fmt"
	"io"
	"net/http"
	"net/http/httptest"
	"os"
	"path/filepath"
	"sort"
	"strings"
	"time"

	"github.com/nuetzliches/hookaido/internal/app"
	"github.com/nuetzliches/hookaido/internal/config"
	"github.com/nuetzliches/hookaido/internal/dispatcher"
	"github.com/nuetzliches/hookaido/internal/queue"
	workerapipb "github.com/nuetzliches/hookaido/internal/workerapi/proto"
	"google.golang.org/grpc/metadata"
)

func mapPairs(m map[string]string) [][2]string {
	keys := make([]string, 0, len(m))
	for k := range m {
		keys = append(keys, k)
	}
	sort.Strings(keys)
	out := make([][2]string, 0, len(keys))
	for _, k := range keys {
		out = append(out, [2]string{k, m[k]})
	}
	return out
}

func cmdFidelity(args []string) error {
	fs := flag.NewFlagSet("fidelity", flag.ExitOnError)
	seed := fs.Uint64("seed", 1, "seed")
	n := fs.Int("n", 200, "cases")
	outPath := fs.String("out", "-", "output")
	fs.Parse(args)
	w := os.Stdout
	if *outPath != "-" {
		f, err := os.Create(*outPath)
		if err != nil {
			return err
		}
		defer f.Close()
		w = f
	}
	out := bufio.NewWriterSize(w, 1<<20)
	defer out.Flush()
	emit := func(v interface{}) {
		b, _ := json.Marshal(v)
		out.Write(b)
		out.WriteByte('\n')
	}
	r := newRng(*seed)
	dir, err := scratchDir()
	if err != nil {
		return err
	}
	defer os.RemoveAll(dir)
	clock := &fakeClock{now: 1_700_000_000_000_000_000}

	// push target capturing what arrives
	type got struct {
		body []byte
		hdr  http.Header
	}
	var lastPush *got
	target := httptest.NewServer(http.HandlerFunc(func(w http.ResponseWriter, req *http.Request) {
		b, _ := io.ReadAll(req.Body)
		lastPush = &got{body: b, hdr: req.Header.Clone()}
		w.WriteHeader(200)
	}))
	defer target.Close()
	authStub := httptest.NewServer(http.HandlerFunc(func(w http.ResponseWriter, req *http.Request) {
		w.Header().Set("X-User-Id", "u42")
		w.Header().Add("X-Org", "o1")
		w.Header().Add("X-Org", "o2")
		w.WriteHeader(200)
	}))
	defer authStub.Close()

	for i := 0; i < *n; i++ {
		maxBody := pick(r, []int{64, 1000, 70000})
		maxHdr := pick(r, []int{60, 200, 65536})
		mode := pick(r, []string{"pull", "pull", "grpc", "push", "publish"})
		backend := pick(r, []string{"memory", "sqlite"})
		var text string
		if mode == "push" {
			text = fmt.Sprintf("/f {\n  max_body %d\n  max_headers %d\n  deliver \"%s/t\" { timeout 2s }\n}\n", maxBody, maxHdr, target.URL)
		} else {
			text = fmt.Sprintf("pull_api {\n  auth token raw:t\n}\n/f {\n  max_body %d\n  max_headers %d\n  pull { path /pull/f }\n}\n", maxBody, maxHdr)
		}
		var extra [][2]string
		if mode == "pull" && r.chance(35) {
			text = fmt.Sprintf("pull_api {\n  auth token raw:t\n}\n/f {\n  max_body %d\n  max_headers %d\n  auth forward \"%s/check\" {\n    copy_headers \"X-User-Id\"\n    copy_headers \"x-org\"\n    copy_headers \"X-Absent\"\n  }\n  pull { path /pull/f }\n}\n", maxBody, maxHdr, authStub.URL)
			extra = [][2]string{{"X-User-Id", "u42"}, {"X-Org", "o1,o2"}}
		}
		cfg, err := config.Parse([]byte(text))
		if err != nil {
			emit(map[string]interface{}{"k": "cfgerror", "stage": "parse", "err": err.Error(), "text": text})
			continue
		}
		compiled, res := config.Compile(cfg)
		if !res.OK {
			emit(map[string]interface{}{"k": "cfgerror", "stage": "compile", "err": strings.Join(res.Errors, ";"), "text": text})
			continue
		}
		rt, err := app.VerifNewRuntime(compiled, clock.Now)
		if err != nil {
			return err
		}
		var store queue.Store
		var sq *queue.SQLiteStore
		dbPath := filepath.Join(dir, fmt.Sprintf("f%d.db", i))
		if backend == "memory" {
			store = queue.NewMemoryStore(queue.WithNowFunc(clock.Now))
		} else {
			sq, err = queue.NewSQLiteStore(dbPath, queue.WithSQLiteNowFunc(clock.Now))
			if err != nil {
				return err
			}
			store = sq
		}
		// body: sizes around max_body, all byte values, NUL runs, invalid UTF-8
		ln := pick(r, []int{0, 1, 2, 3, 17, 255, 256, maxBody - 1, maxBody, maxBody + 1})
		if ln < 0 {
			ln = 0
		}
		body := make([]byte, ln)
		switch r.intn(4) {
		case 0:
			for k := range body {
				body[k] = byte(k)
			}
		case 1:
			for k := range body {
				body[k] = byte(r.intn(256))
			}
		case 2: // NUL runs and invalid UTF-8
			for k := range body {
				body[k] = pick(r, []byte{0, 0, 0xff, 0xc3, 0x28, 0x80})
			}
		default:
			copy(body, []byte(strings.Repeat("{\"k\":\"v\"}", ln/9+1)))
		}
		// headers: repeats, mixed case, the sensitive names in odd casings
		hdr := http.Header{}
		names := []string{"X-A", "x-b", "X-LONG-NAME", "Content-Type", "Authorization", "authorization", "PROXY-AUTHORIZATION", "Cookie", "cOOkie", "X-Hook-Sig", "Accept", "X_under.score", "x-123"}
		for k := 0; k < r.intn(6); k++ {
			name := pick(r, names)
			for v := 0; v < 1+r.intn(2); v++ {
				hdr.Add(name, pick(r, []string{"v", "a, b", "", "ü-ñ", strings.Repeat("z", 1+r.intn(40)), "Bearer secret",
					// valid UTF-8 that text encoders treat specially: astral code points that are not printable (tag characters, private
					// use planes, the last code point), the JSON-escaped separators, quote and backslash, a byte-order mark
					"flag-\U0001F3F4\U000E0067\U000E0062\U000E007F", "pua-\U000F0000-\U0010FFFD", "max-\U0010FFFF", "sep-\u2028-\u2029", "q\"b\\c", "bom-\uFEFF", "emoji-\U0001F600"}))
			}
		}
		if r.chance(35) {
			// the content types HTTP libraries treat specially (a form body is something net/http offers to parse — and consume)
			hdr.Set("Content-Type", pick(r, []string{"application/x-www-form-urlencoded", "application/x-www-form-urlencoded; charset=UTF-8", "multipart/form-data; boundary=xyz",
				"application/json", "text/plain", "APPLICATION/X-WWW-FORM-URLENCODED"}))
			if r.chance(50) && len(body) >= 7 {
				copy(body, []byte("a=1&b=2"))
			}
		}
		rec := map[string]interface{}{"k": "fid", "mode": mode, "backend": backend, "maxBody": maxBody, "maxHeaders": maxHdr, "body": hex.EncodeToString(body), "extra": extra, "forwardAuth": extra != nil}
		if extra == nil {
			rec["extra"] = [][2]string{}
		}
		if mode == "publish" {
			// publish through the real Admin handler
			item := map[string]interface{}{"id": fmt.Sprintf("pub%d", i), "route": "/f", "target": "pull", "payload_b64": base64.StdEncoding.EncodeToString(body)}
			ph := map[string]string{}
			if r.chance(50) {
				ph["X-Pub"] = pick(r, []string{"1", "a b", "ü", "pua-\U000F0000", "tag-\U000E0067", "sep-\u2028", "q\"b\\c"})
				item["headers"] = ph
			}
			pb, _ := json.Marshal(map[string]interface{}{"items": []interface{}{item}})
			req := httptest.NewRequest("POST", "http://ex/messages/publish", bytes.NewReader(pb))
			req.Header.Set("X-Hookaido-Audit-Reason", "verif")
			rr := httptest.NewRecorder()
			rt.AdminServer(store).ServeHTTP(rr, req)
			rec["status"] = rr.Code
			rec["reqHeaders"] = [][]interface{}{}
			rec["pubHeaders"] = mapPairs(ph)
		} else {
			req := httptest.NewRequest("POST", "http://ex/f", bytes.NewReader(body))
			for k, v := range hdr {
				req.Header[k] = v // as given: non-canonical keys stay as they are (net/http servers canonicalise; here the handler must cope)
			}
			rec["reqHeaders"] = sortedPairs(req.Header.Clone()) // what was received, recorded before the handler can touch it
			rr := httptest.NewRecorder()
			rt.IngressServer(store).ServeHTTP(rr, req)
			rec["status"] = rr.Code
		}
		// restart the durable store before reading
		if sq != nil && r.chance(60) {
			sq.Close()
			sq, err = queue.NewSQLiteStore(dbPath, queue.WithSQLiteNowFunc(clock.Now))
			if err != nil {
				return err
			}
			store = sq
			rec["restarted"] = true
		}
		var snap []queue.Envelope
		if sq != nil {
			snap, _ = sq.VerifSnapshot()
		} else {
			snap = store.(*queue.MemoryStore).VerifSnapshot()
		}
		rec["stored"] = len(snap)
		if len(snap) == 1 {
			rec["storedPayload"] = hex.EncodeToString(snap[0].Payload)
			rec["storedHeaders"] = mapPairs(snap[0].Headers)
			// consume, twice when nacked in between (redelivery must be identical)
			rounds := 1
			if r.chance(40) {
				rounds = 2
			}
			var deliveries []map[string]interface{}
			for round := 0; round < rounds; round++ {
				d := map[string]interface{}{}
				switch mode {
				case "pull", "publish":
					preq := httptest.NewRequest("POST", "http://ex/pull/f/dequeue", bytes.NewReader([]byte(`{"batch":1}`)))
					preq.Header.Set("Authorization", "Bearer t")
					prr := httptest.NewRecorder()
					rt.PullServer(store).ServeHTTP(prr, preq)
					var resp struct {
						Items []struct {
							LeaseID    string            `json:"lease_id"`
							PayloadB64 string            `json:"payload_b64"`
							Headers    map[string]string `json:"headers"`
						} `json:"items"`
					}
					json.Unmarshal(prr.Body.Bytes(), &resp)
					if len(resp.Items) == 1 {
						d["b64"] = resp.Items[0].PayloadB64
						d["headers"] = mapPairs(resp.Items[0].Headers)
						_ = store.Nack(resp.Items[0].LeaseID, 0)
					} else {
						d["missing"] = true
					}
				case "grpc":
					ctx := metadata.NewIncomingContext(context.Background(), metadata.Pairs("authorization", "Bearer t"))
					ws := rt.WorkerServer(rt.PullServer(store))
					resp, gerr := ws.Dequeue(ctx, &workerapipb.DequeueRequest{Endpoint: "/pull/f", Batch: 1})
					if gerr == nil && len(resp.GetItems()) == 1 {
						d["payload"] = hex.EncodeToString(resp.GetItems()[0].GetPayload())
						d["headers"] = mapPairs(resp.GetItems()[0].GetHeaders())
						_ = store.Nack(resp.GetItems()[0].GetLeaseId(), 0)
					} else {
						d["missing"] = true
					}
				case "push":
					lastPush = nil
					dq, _ := store.Dequeue(queue.DequeueRequest{Route: "/f", Batch: 1, LeaseTTL: time.Minute})
					if len(dq.Items) == 1 {
						hd := dispatcher.NewHTTPDeliverer(&http.Client{Timeout: 3 * time.Second}, dispatcher.EgressPolicy{})
						pd := &dispatcher.PushDispatcher{Store: store, Deliverer: hd}
						// a failing first round (target still answers 200; we nack ourselves afterwards to force a redelivery)
						pd.VerifClassify(dq.Items[0], dispatcher.TargetConfig{URL: target.URL + "/t", Timeout: 2 * time.Second, Retry: dispatcher.RetryConfig{Max: 3, Base: time.Second, Cap: time.Minute}})
						if lastPush != nil {
							d["payload"] = hex.EncodeToString(lastPush.body)
							hm := map[string]string{}
							for k, v := range lastPush.hdr {
								hm[k] = strings.Join(v, ",")
							}
							d["headers"] = mapPairs(hm)
						} else {
							d["missing"] = true
						}
						_ = store.Nack(dq.Items[0].LeaseID, 0)
					} else {
						d["missing"] = true
					}
				}
				deliveries = append(deliveries, d)
			}
			rec["deliveries"] = deliveries
		}
		if sq != nil {
			sq.Close()
			os.Remove(dbPath)
			os.Remove(dbPath + "-wal")
			os.Remove(dbPath + "-shm")
		}
		emit(rec)
	}

	// several messages accepted back to back, then ONE batch read: what a consumer gets for each of them must be what was
	// accepted for that one (the multi-row lease path of the durable store, buffers re-used between requests, and a sender
	// supplying a header the auth service is configured to set)
	for i := 0; i < *n/3; i++ {
		backend := pick(r, []string{"memory", "sqlite"})
		via := pick(r, []string{"http", "grpc"})
		fwd := r.chance(40)
		text := "pull_api {\n  auth token raw:t\n}\n/f {\n  pull { path /pull/f }\n}\n"
		var extra [][2]string
		if fwd {
			text = fmt.Sprintf("pull_api {\n  auth token raw:t\n}\n/f {\n  auth forward \"%s/check\" {\n    copy_headers \"X-User-Id\"\n    copy_headers \"x-org\"\n  }\n  pull { path /pull/f }\n}\n", authStub.URL)
			extra = [][2]string{{"X-User-Id", "u42"}, {"X-Org", "o1,o2"}}
		}
		compiled, err := compileText(text)
		if err != nil {
			emit(map[string]interface{}{"k": "cfgerror", "stage": "fidmulti", "err": err.Error(), "text": text})
			continue
		}
		rt, err := app.VerifNewRuntime(compiled, clock.Now)
		if err != nil {
			return err
		}
		var store queue.Store
		dbPath := filepath.Join(dir, fmt.Sprintf("fm%d.db", i))
		if backend == "memory" {
			store = queue.NewMemoryStore(queue.WithNowFunc(clock.Now))
		} else {
			sq, err := queue.NewSQLiteStore(dbPath, queue.WithSQLiteNowFunc(clock.Now))
			if err != nil {
				return err
			}
			store = sq
		}
		k := 2 + r.intn(3)
		var sent []map[string]interface{}
		ing := rt.IngressServer(store)
		for m := 0; m < k; m++ {
			// same length on purpose in half of the cases: a re-used buffer would fit exactly
			ln := pick(r, []int{8, 8, 8, 3, 40})
			body := make([]byte, ln)
			for x := range body {
				body[x] = byte('a' + (m*7+x)%26)
			}
			req := httptest.NewRequest("POST", "http://ex/f", bytes.NewReader(body))
			req.Header.Set("X-Msg", fmt.Sprint(m))
			if r.chance(30) {
				req.Header.Set("Content-Type", pick(r, []string{"application/x-www-form-urlencoded", "application/x-www-form-urlencoded; charset=UTF-8", "multipart/form-data; boundary=xyz"}))
			}
			if r.chance(50) {
				req.Header.Set("X-User-Id", "sender-says-admin") // the name the auth service sets
			}
			if r.chance(30) {
				req.Header.Add("X-Org", "sender-org")
			}
			hdrs := sortedPairs(req.Header.Clone())
			rr := httptest.NewRecorder()
			ing.ServeHTTP(rr, req)
			sent = append(sent, map[string]interface{}{"body": hex.EncodeToString(body), "reqHeaders": hdrs, "status": rr.Code})
		}
		var got []map[string]interface{}
		if via == "http" {
			preq := httptest.NewRequest("POST", "http://ex/pull/f/dequeue", bytes.NewReader([]byte(fmt.Sprintf(`{"batch":%d}`, k))))
			preq.Header.Set("Authorization", "Bearer t")
			prr := httptest.NewRecorder()
			rt.PullServer(store).ServeHTTP(prr, preq)
			var resp struct {
				Items []struct {
					PayloadB64 string            `json:"payload_b64"`
					Headers    map[string]string `json:"headers"`
					Trace      map[string]string `json:"trace"`
				} `json:"items"`
			}
			json.Unmarshal(prr.Body.Bytes(), &resp)
			for _, it := range resp.Items {
				p, _ := base64.StdEncoding.DecodeString(it.PayloadB64)
				got = append(got, map[string]interface{}{"payload": hex.EncodeToString(p), "headers": mapPairs(it.Headers), "trace": mapPairs(it.Trace)})
			}
		} else {
			ctx := metadata.NewIncomingContext(context.Background(), metadata.Pairs("authorization", "Bearer t"))
			resp, gerr := rt.WorkerServer(rt.PullServer(store)).Dequeue(ctx, &workerapipb.DequeueRequest{Endpoint: "/pull/f", Batch: uint32(k)})
			if gerr == nil {
				for _, it := range resp.GetItems() {
					got = append(got, map[string]interface{}{"payload": hex.EncodeToString(it.GetPayload()), "headers": mapPairs(it.GetHeaders()), "trace": mapPairs(it.GetTrace())})
				}
			}
		}
		if got == nil {
			got = []map[string]interface{}{}
		}
		if extra == nil {
			extra = [][2]string{}
		}
		emit(map[string]interface{}{"k": "fidmulti", "backend": backend, "via": via, "forwardAuth": fwd, "extra": extra, "sent": sent, "got": got})
		if c, ok := store.(interface{ Close() error }); ok {
			_ = c.Close()
			os.Remove(dbPath)
			os.Remove(dbPath + "-wal")
			os.Remove(dbPath + "-shm")
		}
	}
	return nil
}
