package main

import (
	"bufio"
	"context"
	"crypto/tls"
	"encoding/json"
	"errors"
	"flag"
	"fmt"
	"io"
	"math/big"
	"net"
	"net/http"
	"net/http/httptest"
	"net/netip"
	"net/url"
	"os"
	"strings"
	"sync"
	"time"

	"github.com/nuetzliches/hookaido/internal/app"
	"github.com/nuetzliches/hookaido/internal/dispatcher"
	"github.com/nuetzliches/hookaido/internal/queue"
)

type jip struct {
	V4 bool     `json:"v4"`
	N  *big.Int `json:"n"`
}

func ipJSON(ip net.IP) jip {
	if v4 := ip.To4(); v4 != nil {
		return jip{V4: true, N: new(big.Int).SetBytes(v4)}
	}
	return jip{V4: false, N: new(big.Int).SetBytes(ip.To16())}
}

type jrule struct {
	Host   string   `json:"host"`
	Sub    bool     `json:"sub"`
	IsCIDR bool     `json:"isCIDR"`
	CidrV4 bool     `json:"cidrV4"`
	Base   *big.Int `json:"base"`
	Bits   int      `json:"bits"`
}

type jpolicy struct {
	HTTPSOnly bool    `json:"httpsOnly"`
	Redirects bool    `json:"redirects"`
	Rebind    bool    `json:"rebind"`
	Allow     []jrule `json:"allow"`
	Deny      []jrule `json:"deny"`
}

func ruleJSON(r dispatcher.EgressRule) jrule {
	j := jrule{Host: r.Host, Sub: r.Subdomains, IsCIDR: r.IsCIDR, Base: big.NewInt(0), CidrV4: true}
	if r.IsCIDR {
		a := r.CIDR.Addr()
		j.CidrV4 = a.Is4()
		j.Base = new(big.Int).SetBytes(a.AsSlice())
		j.Bits = r.CIDR.Bits()
	}
	return j
}

func policyJSON(p dispatcher.EgressPolicy) jpolicy {
	j := jpolicy{HTTPSOnly: p.HTTPSOnly, Redirects: p.Redirects, Rebind: p.DNSRebindProtection, Allow: []jrule{}, Deny: []jrule{}}
	for _, r := range p.Allow {
		j.Allow = append(j.Allow, ruleJSON(r))
	}
	for _, r := range p.Deny {
		j.Deny = append(j.Deny, ruleJSON(r))
	}
	return j
}

var rulePool = []dispatcher.EgressRule{
	{Host: "example.com"}, {Host: "a.example.com"}, {Host: "*"}, {Host: "example.com", Subdomains: true},
	{Host: "internal.corp", Subdomains: true}, {Host: "internal.corp"}, {Host: "evil.test"}, {Host: "10.0.0.5"}, {Host: "Example.com"},
	{IsCIDR: true, CIDR: netip.MustParsePrefix("93.184.216.0/24")}, {IsCIDR: true, CIDR: netip.MustParsePrefix("10.0.0.0/8")},
	{IsCIDR: true, CIDR: netip.MustParsePrefix("8.8.8.8/32")}, {IsCIDR: true, CIDR: netip.MustParsePrefix("2606:4700::/32")},
	{IsCIDR: true, CIDR: netip.MustParsePrefix("::ffff:10.0.0.0/104")}, {IsCIDR: true, CIDR: netip.MustParsePrefix("0.0.0.0/0")},
	{IsCIDR: true, CIDR: netip.MustParsePrefix("fc00::/7")}, {IsCIDR: true, CIDR: netip.MustParsePrefix("192.168.1.1/32")},
}

var publicIPs = []string{"93.184.216.34", "8.8.8.8", "2606:4700::1111", "1.1.1.1", "2001:db8::1", "100.64.0.1", "198.51.100.7"}
var privateIPs = []string{"10.0.0.5", "192.168.1.1", "127.0.0.1", "169.254.169.254", "::1", "fc00::1", "fe80::1", "::ffff:10.0.0.1", "224.0.0.1", "0.0.0.0",
	"172.16.0.1", "172.31.255.255", "ff02::1", "::", "255.255.255.255", "fd12:3456::1", "127.255.255.254", "::ffff:127.0.0.1", "239.1.2.3", "febf::1"}

func genPolicy(r *rng) dispatcher.EgressPolicy {
	p := dispatcher.EgressPolicy{HTTPSOnly: r.chance(20), Redirects: r.chance(70), DNSRebindProtection: r.chance(50)}
	if r.chance(45) {
		for i := 0; i < 1+r.intn(2); i++ {
			p.Allow = append(p.Allow, pick(r, rulePool))
		}
	}
	if r.chance(40) {
		for i := 0; i < 1+r.intn(2); i++ {
			p.Deny = append(p.Deny, pick(r, rulePool))
		}
	}
	return p
}

func genAnswers(r *rng) []net.IP {
	if r.chance(6) {
		return nil // lookup error
	}
	n := 1 + r.intn(3)
	var out []net.IP
	for i := 0; i < n; i++ {
		if r.chance(70) {
			out = append(out, net.ParseIP(pick(r, publicIPs)))
		} else {
			out = append(out, net.ParseIP(pick(r, privateIPs)))
		}
	}
	return out
}

func normHostGo(h string) string {
	return strings.TrimSuffix(strings.ToLower(strings.TrimSpace(h)), ".")
}

func literalOf(hostname string) interface{} {
	if addr, err := netip.ParseAddr(normHostGo(hostname)); err == nil {
		return ipJSON(net.IP(addr.AsSlice()))
	}
	return nil
}

func answersJSON(ips []net.IP) interface{} {
	if ips == nil {
		return nil
	}
	out := make([]jip, 0, len(ips))
	for _, ip := range ips {
		out = append(out, ipJSON(ip))
	}
	return out
}

func verdictOf(err error) string {
	switch {
	case err == nil:
		return "allowed"
	case errors.Is(err, dispatcher.ErrPolicyDenied):
		return "denied"
	}
	return "error"
}

// resolver stub: per normalised host a queue of answers, one per lookup
type stubResolver struct {
	mu   sync.Mutex
	ans  map[string][][]net.IP
	orig map[string][][]net.IP
}

// reset restores the answer queues to what they were at the first lookup after set-up
func (s *stubResolver) reset() {
	s.mu.Lock()
	defer s.mu.Unlock()
	if s.orig == nil {
		return
	}
	s.ans = map[string][][]net.IP{}
	for k, v := range s.orig {
		s.ans[k] = append([][]net.IP(nil), v...)
	}
}

func (s *stubResolver) lookup(ctx context.Context, host string) ([]net.IPAddr, error) {
	s.mu.Lock()
	defer s.mu.Unlock()
	if s.orig == nil {
		s.orig = map[string][][]net.IP{}
		for k, v := range s.ans {
			s.orig[k] = append([][]net.IP(nil), v...)
		}
	}
	q := s.ans[host]
	if len(q) == 0 {
		return nil, fmt.Errorf("no such host %q", host)
	}
	a := q[0]
	if len(q) > 1 {
		s.ans[host] = q[1:]
	}
	if a == nil {
		return nil, fmt.Errorf("lookup %s: server misbehaving", host)
	}
	out := make([]net.IPAddr, 0, len(a))
	for _, ip := range a {
		out = append(out, net.IPAddr{IP: ip})
	}
	return out, nil
}

func cmdEgress(args []string) error {
	fs := flag.NewFlagSet("egress", flag.ExitOnError)
	seed := fs.Uint64("seed", 1, "seed")
	scenarioNo := 0
	n := fs.Int("n", 3000, "random check cases")
	nr := fs.Int("redirects", 150, "redirect scenarios")
	outPath := fs.String("out", "-", "output")
	fs.Parse(args)
	w := os.Stdout
	if *outPath != "-" {
		f, err := os.Create(*outPath)
		if err != nil {
			return err
		}
		defer f.Close()
		w = f
	}
	out := bufio.NewWriterSize(w, 1<<20)
	defer out.Flush()
	emit := func(v interface{}) {
		b, _ := json.Marshal(v)
		out.Write(b)
		out.WriteByte('\n')
	}
	r := newRng(*seed)
	ctx := context.Background()

	// (a) address classes: every class edge and a lattice of addresses
	var edge []net.IP
	for _, c := range []string{"127.0.0.0/8", "10.0.0.0/8", "172.16.0.0/12", "192.168.0.0/16", "169.254.0.0/16", "224.0.0.0/4", "224.0.0.0/24", "0.0.0.0/32", "255.255.255.255/32",
		"::1/128", "::/128", "fc00::/7", "fe80::/10", "ff00::/8", "ff02::/16", "::ffff:10.0.0.0/104", "::ffff:127.0.0.0/104", "100.64.0.0/10", "2001:db8::/32"} {
		p := netip.MustParsePrefix(c)
		first := p.Masked().Addr()
		b := first.AsSlice()
		last := make([]byte, len(b))
		copy(last, b)
		for i := p.Bits(); i < len(b)*8; i++ {
			last[i/8] |= 1 << (7 - uint(i%8))
		}
		lastA, _ := netip.AddrFromSlice(last)
		for _, a := range []netip.Addr{first, first.Next(), first.Prev(), lastA, lastA.Next(), lastA.Prev()} {
			if a.IsValid() {
				edge = append(edge, net.IP(a.AsSlice()))
			}
		}
	}
	for _, s := range append(append([]string{}, publicIPs...), privateIPs...) {
		edge = append(edge, net.ParseIP(s))
	}
	for i := 0; i < *n/4; i++ {
		b := make([]byte, pick(r, []int{4, 16}))
		for k := range b {
			b[k] = byte(r.intn(256))
		}
		if len(b) == 16 && r.chance(40) {
			b[0] = pick(r, []byte{0xfc, 0xfd, 0xfe, 0xff, 0x20, 0x00})
			b[1] = pick(r, []byte{0x80, 0xbf, 0xc0, 0x02, 0x00, 0x7f})
		}
		edge = append(edge, net.IP(b))
	}
	for _, ip := range edge {
		emit(map[string]interface{}{"k": "ipclass", "ip": ipJSON(ip), "s": ip.String(), "got": dispatcher.VerifIsAllowedIP(ip)})
	}

	// (b) host rules
	hosts := []string{"example.com", "a.example.com", "a.b.example.com", "evilexample.com", "evil-example.com", ".example.com", "example.com.evil.test", "internal.corp", "x.internal.corp",
		"notinternal.corp", "", "*", "10.0.0.5", "com", "xample.com", "EXAMPLE.com"}
	for _, h := range hosts {
		for _, rule := range rulePool {
			if rule.IsCIDR {
				continue
			}
			emit(map[string]interface{}{"k": "hostrule", "host": h, "rule": ruleJSON(rule), "got": dispatcher.VerifMatchHostRule(h, rule)})
		}
	}

	// (c) policy checks on raw URLs
	schemes := []string{"http", "https", "https", "http", "HTTP", "Https", "ftp", "file", "javascript", "ws", "gopher"}
	hostForms := []string{"example.com", "a.example.com", "EXAMPLE.com", "example.com.", "a.Example.Com.", "evil.test", "internal.corp", "x.internal.corp", "evilexample.com",
		"127.0.0.1", "10.0.0.5", "[::1]", "[::ffff:10.0.0.1]", "[fe80::1%25eth0]", "[2606:4700::1111]", "93.184.216.34", "2130706433", "0x7f.1", "127.1", "0177.0.0.1",
		"example.com..", "8.8.8.8", "[fc00::1]", "192.168.1.1", "[::ffff:8.8.8.8]", "169.254.169.254", "0.0.0.0", "[::]"}
	for i := 0; i < *n; i++ {
		p := genPolicy(r)
		raw := pick(r, schemes) + "://"
		if r.chance(15) {
			raw += "user:pw@"
		}
		h := pick(r, hostForms)
		raw += h
		if r.chance(40) {
			raw += pick(r, []string{":80", ":443", ":8080", ":"})
		}
		raw += pick(r, []string{"", "/", "/hook", "/a/../b?x=1"})
		if r.chance(3) {
			raw = pick(r, []string{"", "://", "http://", "http:///path", "example.com/path", "http://exa mple.com/", "http://[::1", "%zz"})
		}
		answers := genAnswers(r)
		stub := &stubResolver{ans: map[string][][]net.IP{}}
		u, perr := url.Parse(raw)
		rec := map[string]interface{}{"k": "check", "raw": raw, "policy": policyJSON(p)}
		if perr != nil {
			rec["parseError"] = true
		} else {
			rec["scheme"], rec["hostname"] = u.Scheme, u.Hostname()
			rec["literal"] = literalOf(u.Hostname())
			rec["answers"] = answersJSON(answers)
			stub.ans[normHostGo(u.Hostname())] = [][]net.IP{answers}
		}
		err := dispatcher.VerifCheckEgressPolicy(ctx, raw, p, stub.lookup)
		rec["got"] = verdictOf(err)
		emit(rec)
	}

	// (d) redirect chains through the real HTTPDeliverer and the real classifier
	hopHosts := []string{"a.example.com", "b.example.com", "example.com", "evil.test", "internal.corp", "x.internal.corp", "A.Example.com", "evilexample.com", "10.0.0.5", "93.184.216.34"}
	for i := 0; i < *nr; i++ {
		p := genPolicy(r)
		if r.chance(75) {
			p.Redirects = true
		}
		if r.chance(60) {
			p.HTTPSOnly = false
		}
		nh := pick(r, []int{1, 2, 2, 3, 4, 12})
		scenarioNo++
		scenarioTag := fmt.Sprintf("s%d-%d-%d", *seed, os.Getpid(), scenarioNo)
		type hop struct {
			scheme, host string
			answers      []net.IP
			srv          *httptest.Server
			arrived      int
		}
		hops := make([]*hop, nh)
		var mu sync.Mutex
		for k := range hops {
			h := &hop{scheme: "http", host: pick(r, hopHosts)}
			if k > 0 && r.chance(35) {
				h.host = hops[k-1].host // same host again (answer may flip)
			}
			if r.chance(25) {
				h.scheme = "https"
			}
			h.answers = genAnswers(r)
			if r.chance(60) {
				h.answers = []net.IP{net.ParseIP(pick(r, publicIPs))}
			}
			hops[k] = h
		}
		urls := make([]string, nh)
		for k := nh - 1; k >= 0; k-- {
			k := k
			h := hops[k]
			handler := http.HandlerFunc(func(w http.ResponseWriter, req *http.Request) {
				if req.URL.Path != fmt.Sprintf("/%s/hop%d", scenarioTag, k) {
					// not a request of this scenario (a port re-used from another process or an earlier scenario)
					w.WriteHeader(http.StatusGone)
					return
				}
				mu.Lock()
				h.arrived++
				mu.Unlock()
				if k+1 < nh {
					w.Header().Set("Location", urls[k+1])
					w.WriteHeader(http.StatusTemporaryRedirect)
					return
				}
				w.WriteHeader(200)
			})
			if h.scheme == "https" {
				h.srv = httptest.NewTLSServer(handler)
			} else {
				h.srv = httptest.NewServer(handler)
			}
			_, port, _ := net.SplitHostPort(h.srv.Listener.Addr().String())
			urls[k] = fmt.Sprintf("%s://%s:%s/%s/hop%d", h.scheme, h.host, port, scenarioTag, k)
		}
		stub := &stubResolver{ans: map[string][][]net.IP{}}
		for _, h := range hops {
			nhost := normHostGo(h.host)
			if _, err := netip.ParseAddr(nhost); err == nil {
				continue
			}
			if p.DNSRebindProtection || hasCIDR(p) {
				stub.ans[nhost] = append(stub.ans[nhost], h.answers)
			}
		}
		client := &http.Client{Timeout: 20 * time.Second, Transport: &http.Transport{
			TLSClientConfig: &tls.Config{InsecureSkipVerify: true},
			DialContext: func(ctx context.Context, network, addr string) (net.Conn, error) {
				_, port, _ := net.SplitHostPort(addr)
				return (&net.Dialer{}).DialContext(ctx, "tcp", "127.0.0.1:"+port)
			},
			DisableKeepAlives: true,
		}}
		hd := dispatcher.NewHTTPDeliverer(client, p)
		hd.Resolver = dispatcher.VerifLookup(stub.lookup)
		st := queue.NewMemoryStore()
		rec := &recDeliverer{inner: hd}
		d := &dispatcher.PushDispatcher{Store: st, Deliverer: rec}
		a := d.VerifClassify(queue.Envelope{ID: "e", Route: "/r", Target: urls[0], Attempt: 1, LeaseID: "l", Payload: []byte("x")},
			dispatcher.TargetConfig{URL: urls[0], Timeout: 20 * time.Second, Retry: dispatcher.RetryConfig{Max: 3, Base: time.Second, Cap: time.Minute}})
		// the targets answer 307 or 200 only: a "retry" outcome can only come from a transport error (TLS handshake or client
		// time-out on a loaded machine) — the scenario is inconclusive then and is run again
		for try := 0; try < 3 && strings.HasPrefix(actStr(a), "retry"); try++ {
			mu.Lock()
			for _, h := range hops {
				h.arrived = 0
			}
			mu.Unlock()
			stub.reset()
			a = d.VerifClassify(queue.Envelope{ID: "e", Route: "/r", Target: urls[0], Attempt: 1, LeaseID: "l", Payload: []byte("x")},
				dispatcher.TargetConfig{URL: urls[0], Timeout: 20 * time.Second, Retry: dispatcher.RetryConfig{Max: 3, Base: time.Second, Cap: time.Minute}})
		}
		arrived := 0
		jh := make([]map[string]interface{}, 0, nh)
		for _, h := range hops {
			arrived += h.arrived
			jh = append(jh, map[string]interface{}{"scheme": h.scheme, "hostname": h.host, "literal": literalOf(h.host), "answers": answersJSON(h.answers)})
			h.srv.Close()
		}
		client.CloseIdleConnections()
		emit(map[string]interface{}{"k": "redirect", "policy": policyJSON(p), "hops": jh, "arrived": arrived, "action": actStr(a), "urls": urls, "err": rec.lastErr, "status": rec.lastStatus})
	}
	// (e) one deliverer, the same URL delivered to several times while the resolver's answer (and so the verdict) changes:
	// the policy is enforced on every delivery, with the addresses the host resolves to at that time
	for i := 0; i < *nr; i++ {
		p := genPolicy(r)
		p.HTTPSOnly = false
		if r.chance(70) {
			p.DNSRebindProtection = true
		}
		host := pick(r, hopHosts[:8])
		raw := "http://" + host + pick(r, []string{"", ":8080"}) + "/hook"
		phases := make([][]net.IP, 2+r.intn(2))
		for k := range phases {
			phases[k] = genAnswers(r)
			if k == 0 && r.chance(70) {
				phases[k] = []net.IP{net.ParseIP(pick(r, publicIPs))}
			}
		}
		phase, sentN := 0, 0
		client := &http.Client{Transport: roundTripFunc(func(req *http.Request) (*http.Response, error) {
			sentN++
			return &http.Response{StatusCode: 200, Body: io.NopCloser(strings.NewReader("")), Header: http.Header{}, Request: req}, nil
		})}
		hd := dispatcher.NewHTTPDeliverer(client, p)
		hd.Resolver = dispatcher.VerifLookup(func(ctx context.Context, h string) ([]net.IPAddr, error) {
			a := phases[phase]
			if a == nil {
				return nil, fmt.Errorf("lookup %s: server misbehaving", h)
			}
			out := make([]net.IPAddr, 0, len(a))
			for _, ip := range a {
				out = append(out, net.IPAddr{IP: ip})
			}
			return out, nil
		})
		u, _ := url.Parse(raw)
		for phase = 0; phase < len(phases); phase++ {
			sentN = 0
			res := hd.Deliver(ctx, dispatcher.Delivery{ID: "e", Target: raw, URL: raw, Body: []byte("x")})
			got := verdictOf(res.Err)
			if sentN > 0 {
				got = "allowed" // a request left the deliverer, whatever it reports
			}
			emit(map[string]interface{}{"k": "check", "via": "deliver", "delivery": phase + 1, "raw": raw, "policy": policyJSON(p), "scheme": u.Scheme, "hostname": u.Hostname(),
				"literal": literalOf(u.Hostname()), "answers": answersJSON(phases[phase]), "got": got})
		}
	}
	// (f) the policy as the running gateway builds it: rule TEXTS in a configuration file -> real parser / compiler ->
	// run()'s mapping -> real check. The expected rule of a text is derived here independently (stdlib netip): a prefix is
	// that prefix, a bare address is exactly that address, "*.d" covers sub-domains of d only, anything else is that host.
	ruleTexts := []string{"example.com", "*.example.com", "*", "Example.COM", "a.example.com", "internal.corp", "*.internal.corp", "evil.test", "10.0.0.0/8", "93.184.216.0/24",
		"8.8.8.8", "10.0.0.5", "2606:4700::1111", "2606:4700::/32", "2001:db8::1", "::ffff:10.0.0.1", "fc00::/7", "::1", "192.168.1.1", "0.0.0.0/0", "fd12:3456::1", "198.51.100.7"}
	expectRule := func(t string) dispatcher.EgressRule {
		if pfx, err := netip.ParsePrefix(t); err == nil {
			return dispatcher.EgressRule{IsCIDR: true, CIDR: pfx}
		}
		if a, err := netip.ParseAddr(t); err == nil {
			return dispatcher.EgressRule{IsCIDR: true, CIDR: netip.PrefixFrom(a, a.BitLen())}
		}
		if strings.HasPrefix(t, "*.") {
			return dispatcher.EgressRule{Host: strings.ToLower(t[2:]), Subdomains: true}
		}
		return dispatcher.EgressRule{Host: strings.ToLower(t)}
	}
	nearIPs := []string{"2606:4700::1", "2606:4700:1::1", "2606:4701::1111", "2001:db8::2", "2001:db8:1::1", "8.8.8.9", "10.0.0.6", "198.51.100.8", "fd12:3456::2", "fd12:3457::1", "192.168.1.2"}
	for i := 0; i < *n/4; i++ {
		var allow, deny []string
		if r.chance(60) {
			for k := 0; k < 1+r.intn(2); k++ {
				allow = append(allow, pick(r, ruleTexts))
			}
		}
		if r.chance(50) {
			for k := 0; k < 1+r.intn(2); k++ {
				deny = append(deny, pick(r, ruleTexts))
			}
		}
		onoff := func(b bool) string {
			if b {
				return "on"
			}
			return "off"
		}
		want := dispatcher.EgressPolicy{HTTPSOnly: r.chance(15), Redirects: r.chance(50), DNSRebindProtection: r.chance(40)}
		var b strings.Builder
		b.WriteString("pull_api {\n  auth token raw:t\n}\ndefaults {\n  egress {\n")
		for _, t := range allow {
			fmt.Fprintf(&b, "    allow \"%s\"\n", t)
			want.Allow = append(want.Allow, expectRule(t))
		}
		for _, t := range deny {
			fmt.Fprintf(&b, "    deny \"%s\"\n", t)
			want.Deny = append(want.Deny, expectRule(t))
		}
		fmt.Fprintf(&b, "    https_only %s\n    redirects %s\n    dns_rebind_protection %s\n  }\n}\n/d {\n  deliver \"https://t.example.com/x\" {\n  }\n}\n",
			onoff(want.HTTPSOnly), onoff(want.Redirects), onoff(want.DNSRebindProtection))
		compiled, err := compileText(b.String())
		if err != nil {
			emit(map[string]interface{}{"k": "cfgerror", "stage": "egress-config", "err": err.Error(), "text": b.String()})
			continue
		}
		ep := compiled.Defaults.EgressPolicy
		impl := dispatcher.EgressPolicy{HTTPSOnly: ep.HTTPSOnly, Redirects: ep.Redirects, DNSRebindProtection: ep.DNSRebindProtection,
			Allow: app.VerifMapEgressRules(ep.Allow), Deny: app.VerifMapEgressRules(ep.Deny)}
		for q := 0; q < 6; q++ {
			h := pick(r, hostForms)
			if r.chance(35) {
				ip := pick(r, append(append([]string{}, nearIPs...), publicIPs...))
				if strings.Contains(ip, ":") {
					h = "[" + ip + "]"
				} else {
					h = ip
				}
			}
			raw := pick(r, []string{"https", "https", "http"}) + "://" + h + pick(r, []string{"", ":8443", "/hook"})
			answers := genAnswers(r)
			if r.chance(50) {
				answers = []net.IP{net.ParseIP(pick(r, append(append([]string{}, nearIPs...), publicIPs...)))}
			}
			stub := &stubResolver{ans: map[string][][]net.IP{}}
			u, perr := url.Parse(raw)
			if perr != nil {
				continue
			}
			stub.ans[normHostGo(u.Hostname())] = [][]net.IP{answers}
			err := dispatcher.VerifCheckEgressPolicy(ctx, raw, impl, stub.lookup)
			emit(map[string]interface{}{"k": "check", "via": "config", "allowText": allow, "denyText": deny, "raw": raw, "policy": policyJSON(want), "scheme": u.Scheme, "hostname": u.Hostname(),
				"literal": literalOf(u.Hostname()), "answers": answersJSON(answers), "got": verdictOf(err)})
		}
	}
	return nil
}

type roundTripFunc func(*http.Request) (*http.Response, error)

func (f roundTripFunc) RoundTrip(r *http.Request) (*http.Response, error) { return f(r) }

type recDeliverer struct {
	inner      dispatcher.Deliverer
	lastErr    string
	lastStatus int
}

func (r *recDeliverer) Deliver(ctx context.Context, d dispatcher.Delivery) dispatcher.Result {
	res := r.inner.Deliver(ctx, d)
	r.lastErr, r.lastStatus = "", res.StatusCode
	if res.Err != nil {
		r.lastErr = res.Err.Error()
	}
	return res
}

func hasCIDR(p dispatcher.EgressPolicy) bool {
	for _, r := range p.Allow {
		if r.IsCIDR {
			return true
		}
	}
	for _, r := range p.Deny {
		if r.IsCIDR {
			return true
		}
	}
	return false
}
