// hkharness drives the real hookaido packages (built from /repo's working tree with -tags verif)
// and writes one JSON record per step for the Lean driver.
//
//go:debug randseednop=0
package main

import (
	"fmt"
	"os"

	_ "modernc.org/sqlite"
)

func main() {
	if len(os.Args) < 2 {
		fmt.Fprintln(os.Stderr, "usage: hkharness <subcommand> [flags]")
		os.Exit(2)
	}
	var err error
	switch os.Args[1] {
	case "queue":
		err = cmdQueue(os.Args[2:])
	case "dispatch":
		err = cmdDispatch(os.Args[2:])
	case "egress":
		err = cmdEgress(os.Args[2:])
	case "ingress":
		err = cmdIngress(os.Args[2:])
	case "auth":
		err = cmdAuth(os.Args[2:])
	case "signing":
		err = cmdSigning(os.Args[2:])
	case "apiauth":
		err = cmdAPIAuth(os.Args[2:])
	case "mcp":
		err = cmdMCP(os.Args[2:])
	case "lockstep":
		err = cmdLockstep(os.Args[2:])
	case "limits":
		err = cmdLimits(os.Args[2:])
	case "fidelity":
		err = cmdFidelity(os.Args[2:])
	case "drun":
		err = cmdDRun(os.Args[2:])
	case "concx":
		err = cmdConcX(os.Args[2:])
	case "opfront":
		err = cmdOpFront(os.Args[2:])
	case "longpoll":
		err = cmdLongPoll(os.Args[2:])
	case "leaseconc":
		err = cmdLeaseConc(os.Args[2:])
	case "pullops":
		err = cmdPullOps(os.Args[2:])
	case "crash":
		err = cmdCrash(os.Args[2:])
	case "crash-child":
		err = cmdCrashChild(os.Args[2:])
	case "cfgfmt":
		err = cmdCfgFmt(os.Args[2:])
	case "publish":
		err = cmdPublish(os.Args[2:])
	case "reload":
		err = cmdReload(os.Args[2:])
	case "wfa-child":
		err = cmdWfaChild(os.Args[2:])
	default:
		err = fmt.Errorf("unknown subcommand %q", os.Args[1])
	}
	if err != nil {
		fmt.Fprintln(os.Stderr, "hkharness:", err)
		os.Exit(3)
	}
}
