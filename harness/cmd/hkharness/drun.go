package main

// C06 (the dispatcher as it runs): configuration text -> compiler -> run()'s dispatch route table -> the real
// PushDispatcher with its worker goroutines, micro-batches and batched lease mutations, on real memory and SQLite
// stores in real time (retry base 1 ms), with a scripted deliverer keyed by (message, target).  After the queue has
// settled every (message, target) pair reports: sends, the attempt numbers the attempt log holds, the final state and
// dead-letter reason.  The driver runs the Lean delivery cycle on the same script with the retry budget the
// configuration *text* gives that target.

import (
	"bufio"
	"context"
	"encoding/json"
	"flag"
	"fmt"
	"os"
	"path/filepath"
	"sort"
	"strings"
	"sync"
	"time"

	"github.com/nuetzliches/hookaido/internal/app"
	"github.com/nuetzliches/hookaido/internal/dispatcher"
	"github.com/nuetzliches/hookaido/internal/queue"
)

type drunDeliverer struct {
	mu     sync.Mutex
	script map[string][]dres // key: message id + "\x00" + target url
	sends  map[string]int
	// what every send carried: sorted "name=value" header list and the body, per key
	carried map[string][]string
}

func (d *drunDeliverer) Deliver(ctx context.Context, dl dispatcher.Delivery) dispatcher.Result {
	key := dl.ID + "\x00" + dl.URL
	d.mu.Lock()
	n := d.sends[key]
	d.sends[key] = n + 1
	var hs []string
	for k, v := range dl.Header {
		hs = append(hs, k+"="+strings.Join(v, ","))
	}
	sort.Strings(hs)
	d.carried[key] = append(d.carried[key], strings.Join(hs, ";")+"|"+string(dl.Body))
	beh := d.script[key]
	d.mu.Unlock()
	if n < len(beh) {
		return beh[n].result()
	}
	return dispatcher.Result{StatusCode: 500} // beyond the script: keeps failing
}

func cmdDRun(args []string) error {
	fs := flag.NewFlagSet("drun", flag.ExitOnError)
	seed := fs.Uint64("seed", 1, "seed")
	runs := fs.Int("runs", 8, "dispatcher runs")
	outPath := fs.String("out", "-", "output")
	fs.Parse(args)
	w := os.Stdout
	if *outPath != "-" {
		f, err := os.Create(*outPath)
		if err != nil {
			return err
		}
		defer f.Close()
		w = f
	}
	out := bufio.NewWriterSize(w, 1<<20)
	defer out.Flush()
	emit := func(v interface{}) {
		b, _ := json.Marshal(v)
		out.Write(b)
		out.WriteByte('\n')
	}
	dir, err := scratchDir()
	if err != nil {
		return err
	}
	defer os.RemoveAll(dir)
	r := newRng(*seed)
	terminal := []dres{{Res: "status", N: 200}, {Res: "status", N: 204}, {Res: "status", N: 404}, {Res: "status", N: 400}, {Res: "status", N: 301}, {Res: "policy"}}
	transient := []dres{{Res: "status", N: 500}, {Res: "status", N: 503}, {Res: "status", N: 429}, {Res: "err"}, {Res: "status", N: 408}}
	for run := 0; run < *runs; run++ {
		backendName := []string{"memory", "sqlite"}[run%2]
		conc := pick(r, []int{1, 2, 2, 4})
		defMax := 1 + r.intn(3)
		// one route, 1-3 targets; the first may carry its own retry budget, later ones may not (they take the default)
		nt := 1 + r.intn(3)
		// run 0 is the long one: more than a thousand messages to one target on the memory store (its internal order list is
		// compacted while messages are in flight), the last ones failing before they succeed
		bulk := run == 0
		if bulk {
			nt = 1
		}
		type tspec struct {
			url string
			max int
		}
		var targets []tspec
		var b strings.Builder
		fmt.Fprintf(&b, "defaults {\n  deliver {\n    retry exponential max %d base 1ms cap 4ms jitter 0\n    timeout 1s\n    concurrency %d\n  }\n}\n", defMax, conc)
		b.WriteString("pull_api {\n  auth token raw:t\n}\n/d {\n")
		for k := 0; k < nt; k++ {
			ts := tspec{url: fmt.Sprintf("http://127.0.0.1:9/t%d", k), max: defMax}
			fmt.Fprintf(&b, "  deliver \"%s\" {\n", ts.url)
			if r.chance(45) {
				ts.max = 1 + r.intn(5)
				fmt.Fprintf(&b, "    retry exponential max %d base 1ms cap 4ms jitter 0\n", ts.max)
			}
			b.WriteString("  }\n")
			targets = append(targets, ts)
		}
		b.WriteString("}\n")
		compiled, err := compileText(b.String())
		if err != nil {
			emit(map[string]interface{}{"k": "cfgerror", "err": err.Error(), "text": b.String()})
			continue
		}
		routes := app.VerifBuildDispatchRoutes(compiled)
		var store qstore
		if backendName == "memory" {
			store = queue.NewMemoryStore()
		} else {
			s, err := queue.NewSQLiteStore(filepath.Join(dir, fmt.Sprintf("drun%d.db", run)))
			if err != nil {
				return err
			}
			store = s
		}
		dl := &drunDeliverer{script: map[string][]dres{}, sends: map[string]int{}, carried: map[string][]string{}}
		type mspec struct {
			ID     string `json:"id"`
			Target string `json:"target"`
			Max    int    `json:"max"`
			Beh    []dres `json:"beh"`
			Sends  int    `json:"sends"`
			Final  string `json:"final"`
			Atts   []int  `json:"attempts"`
			Reason string `json:"attemptDeadReasons"`
			// Stored: what the message was stored with ("name=value;…|body"); Carried: the same of every send
			Stored  string   `json:"stored"`
			Carried []string `json:"carried"`
		}
		var msgs []*mspec
		nm := 2 + r.intn(6)
		if bulk {
			nm = 1100
		}
		for i := 0; i < nm; i++ {
			for _, ts := range targets {
				m := &mspec{ID: fmt.Sprintf("e%d", i), Target: ts.url, Max: ts.max}
				// some transient failures, then something decisive (or failures beyond the budget)
				for k := 0; k < r.intn(ts.max+3) && !bulk; k++ {
					m.Beh = append(m.Beh, pick(r, transient))
				}
				if bulk {
					if i >= 600 && i%2 == 0 {
						m.Beh = append(m.Beh, pick(r, transient))
					}
					m.Beh = append(m.Beh, dres{Res: "status", N: 200})
				} else if r.chance(80) {
					m.Beh = append(m.Beh, pick(r, terminal))
				}
				if m.Beh == nil {
					m.Beh = []dres{}
				}
				dl.script[m.ID+"\x00"+m.Target] = m.Beh
				// every message has its own payload and its own set of header names
				hdr := map[string]string{"X-Msg": m.ID}
				for _, hn := range []string{"X-Tenant", "X-Sig", "X-Trace", "Content-Type"} {
					if r.chance(40) {
						hdr[hn] = fmt.Sprintf("%s-of-%s", strings.ToLower(hn), m.ID)
					}
				}
				body := fmt.Sprintf("payload-of-%s-%d", m.ID, len(msgs))
				var hs []string
				for k, v := range hdr {
					hs = append(hs, k+"="+v)
				}
				sort.Strings(hs)
				m.Stored = strings.Join(hs, ";") + "|" + body
				if err := store.Enqueue(queue.Envelope{ID: m.ID + "@" + fmt.Sprint(len(msgs)), Route: "/d", Target: ts.url, Payload: []byte(body), Headers: hdr}); err != nil {
					return err
				}
				msgs = append(msgs, m)
			}
		}
		// the deliverer is keyed by the store id: rewrite the keys
		dl.script = map[string][]dres{}
		for i, m := range msgs {
			dl.script[m.ID+"@"+fmt.Sprint(i)+"\x00"+m.Target] = m.Beh
		}
		d := &dispatcher.PushDispatcher{Store: store, Deliverer: dl, Routes: routes, MaxWait: 20 * time.Millisecond}
		d.Start()
		deadline := time.Now().Add(8 * time.Second)
		if bulk {
			deadline = time.Now().Add(30 * time.Second)
		}
		for time.Now().Before(deadline) {
			st, err := store.Stats()
			if err == nil && st.ByState[queue.StateQueued]+st.ByState[queue.StateLeased] == 0 {
				break
			}
			time.Sleep(10 * time.Millisecond)
		}
		settled := d.Drain(2 * time.Second)
		for i, m := range msgs {
			id := m.ID + "@" + fmt.Sprint(i)
			m.Sends = dl.sends[id+"\x00"+m.Target]
			m.Carried = dl.carried[id+"\x00"+m.Target]
			if m.Carried == nil {
				m.Carried = []string{}
			}
			look, _ := store.LookupMessages(queue.MessageLookupRequest{IDs: []string{id}})
			switch {
			case len(look.Items) == 0:
				m.Final = "ack"
			case look.Items[0].State == queue.StateDead:
				m.Final = "dead:" + deadReasonOf(store, id)
			default:
				m.Final = "state:" + string(look.Items[0].State)
			}
			atts, _ := store.ListAttempts(queue.AttemptListRequest{EventID: id, Limit: 1000})
			for _, a := range atts.Items {
				m.Atts = append(m.Atts, a.Attempt)
			}
			sortInts(m.Atts)
			if m.Atts == nil {
				m.Atts = []int{}
			}
		}
		emit(map[string]interface{}{"k": "drun", "run": run, "backend": backendName, "concurrency": conc, "settled": settled, "targets": len(targets), "msgs": msgs, "text": b.String()})
		if c, ok := store.(interface{ Close() error }); ok {
			_ = c.Close()
		}
	}
	return nil
}

func deadReasonOf(store qstore, id string) string {
	resp, err := store.ListDead(queue.DeadListRequest{Limit: 1000})
	if err != nil {
		return "?"
	}
	for _, it := range resp.Items {
		if it.ID == id {
			return it.DeadReason
		}
	}
	return "?"
}

func sortInts(xs []int) {
	for i := 1; i < len(xs); i++ {
		for j := i; j > 0 && xs[j-1] > xs[j]; j-- {
			xs[j-1], xs[j] = xs[j], xs[j-1]
		}
	}
}
