package main

import (
	"bufio"
	"context"
	"encoding/json"
	"errors"
	"flag"
	"fmt"
	"io"
	"math/big"
	"math/rand"
	"net"
	"net/http"
	"net/url"
	"os"
	"strings"
	"time"

	"github.com/nuetzliches/hookaido/internal/dispatcher"
	"github.com/nuetzliches/hookaido/internal/queue"
)

// scripted deliverer: answers from a list of behaviours, counts sends
type scriptDeliverer struct {
	beh   []dres
	sends int
}

type dres struct {
	Res string `json:"res"` // status|err|policy
	N   int    `json:"n,omitempty"`
	sub string
}

func (d dres) result() dispatcher.Result {
	switch d.Res {
	case "status":
		return dispatcher.Result{StatusCode: d.N}
	case "policy":
		switch d.sub {
		case "wrapped":
			return dispatcher.Result{Err: &url.Error{Op: "Post", URL: "http://x", Err: fmt.Errorf("hop: %w", dispatcher.ErrPolicyDenied)}}
		}
		return dispatcher.Result{Err: fmt.Errorf("%w: test", dispatcher.ErrPolicyDenied)}
	}
	switch d.sub {
	case "timeout":
		return dispatcher.Result{Err: context.DeadlineExceeded}
	case "status+err":
		return dispatcher.Result{StatusCode: 200, Err: errors.New("body read failed")}
	}
	return dispatcher.Result{Err: errors.New("connection refused")}
}

func (s *scriptDeliverer) Deliver(ctx context.Context, d dispatcher.Delivery) dispatcher.Result {
	i := s.sends
	s.sends++
	if i < len(s.beh) {
		return s.beh[i].result()
	}
	return dispatcher.Result{Err: errors.New("script exhausted")}
}

func actStr(a dispatcher.VerifAction) string {
	if a.Kind == "dead" {
		return "dead:" + a.Reason
	}
	return a.Kind
}

func ratOf(f float64) (*big.Int, *big.Int) {
	r := new(big.Rat)
	if r.SetFloat64(f) == nil {
		return big.NewInt(0), big.NewInt(1)
	}
	return new(big.Int).Set(r.Num()), new(big.Int).Set(r.Denom())
}

func cmdDispatch(args []string) error {
	fs := flag.NewFlagSet("dispatch", flag.ExitOnError)
	seed := fs.Uint64("seed", 1, "seed")
	n := fs.Int("n", 2000, "random cases per family")
	outPath := fs.String("out", "-", "output")
	fs.Parse(args)
	w := os.Stdout
	if *outPath != "-" {
		f, err := os.Create(*outPath)
		if err != nil {
			return err
		}
		defer f.Close()
		w = f
	}
	out := bufio.NewWriterSize(w, 1<<20)
	defer out.Flush()
	emit := func(v interface{}) {
		b, _ := json.Marshal(v)
		out.Write(b)
		out.WriteByte('\n')
	}
	r := newRng(*seed)

	// (1) exhaustive classification table through the real classifyDelivery
	store := queue.NewMemoryStore()
	kinds := []dres{{Res: "err"}, {Res: "err", sub: "timeout"}, {Res: "err", sub: "status+err"}, {Res: "policy"}, {Res: "policy", sub: "wrapped"}}
	for _, mx := range []int{1, 2, 8} {
		for attempt := 0; attempt <= mx+2; attempt++ {
			cases := make([]dres, 0, 1100)
			for code := 0; code <= 999; code++ {
				cases = append(cases, dres{Res: "status", N: code})
			}
			cases = append(cases, kinds...)
			for _, c := range cases {
				sd := &scriptDeliverer{beh: []dres{c}}
				d := &dispatcher.PushDispatcher{Store: store, Deliverer: sd}
				a := d.VerifClassify(queue.Envelope{ID: "e", Route: "/r", Target: "http://t", Attempt: attempt, LeaseID: "l"},
					dispatcher.TargetConfig{URL: "http://t", Retry: dispatcher.RetryConfig{Max: mx, Base: time.Second, Cap: time.Minute}})
				emit(map[string]interface{}{"k": "classify", "res": c.Res, "n": c.N, "sub": c.sub, "attempt": attempt, "max": mx, "got": actStr(a)})
			}
		}
	}

	// (1b) the same table entry reached through the real HTTP deliverer when the target's answer is cut short: status line
	// and headers arrive, the announced body does not (connection closed early, or broken chunking). The status is what the
	// target answered; it decides.
	for _, code := range []int{200, 201, 204, 301, 400, 404, 408, 429, 500, 503} {
		for _, mode := range []string{"short-content-length", "broken-chunk"} {
			if code == 204 && mode == "short-content-length" {
				continue // a 204 has no body to cut
			}
			ln, err := net.Listen("tcp", "127.0.0.1:0")
			if err != nil {
				return err
			}
			go func() {
				for {
					c, err := ln.Accept()
					if err != nil {
						return
					}
					go func(c net.Conn) {
						defer c.Close()
						br := bufio.NewReader(c)
						// read the request head and body (Content-Length is small)
						cl := 0
						for {
							line, err := br.ReadString('\n')
							if err != nil {
								return
							}
							if strings.HasPrefix(strings.ToLower(line), "content-length:") {
								fmt.Sscan(strings.TrimSpace(line[15:]), &cl)
							}
							if line == "\r\n" {
								break
							}
						}
						io.CopyN(io.Discard, br, int64(cl))
						if mode == "short-content-length" {
							fmt.Fprintf(c, "HTTP/1.1 %d X\r\nContent-Length: 64\r\nConnection: close\r\n\r\n1234567", code)
						} else {
							fmt.Fprintf(c, "HTTP/1.1 %d X\r\nTransfer-Encoding: chunked\r\nConnection: close\r\n\r\n7\r\n1234567\r\nzz\r\n", code)
						}
					}(c)
				}
			}()
			hd := dispatcher.NewHTTPDeliverer(&http.Client{Timeout: 5 * time.Second, Transport: &http.Transport{DisableKeepAlives: true}}, dispatcher.EgressPolicy{})
			d := &dispatcher.PushDispatcher{Store: store, Deliverer: hd}
			url := "http://" + ln.Addr().String() + "/t"
			for _, attempt := range []int{1, 3} {
				a := d.VerifClassify(queue.Envelope{ID: "e", Route: "/r", Target: url, Attempt: attempt, LeaseID: "l", Payload: []byte("x")},
					dispatcher.TargetConfig{URL: url, Timeout: 5 * time.Second, Retry: dispatcher.RetryConfig{Max: 2, Base: time.Second, Cap: time.Minute}})
				emit(map[string]interface{}{"k": "classify", "res": "status", "n": code, "sub": "real-http-" + mode, "attempt": attempt, "max": 2, "got": actStr(a)})
			}
			ln.Close()
		}
	}

	// (2) retry delay: Go float result vs exact model, same random draw (global source reseeded)
	bases := []time.Duration{1, time.Millisecond, 250 * time.Millisecond, time.Second, 7 * time.Second, time.Minute, time.Hour, 24 * time.Hour}
	jitters := []float64{0, 0.1, 0.2, 0.25, 0.5, 0.75, 1, 0.3333, 0.999}
	for i := 0; i < *n; i++ {
		base := pick(r, bases) * time.Duration(1+r.intn(9))
		cp := base * time.Duration(1<<uint(r.intn(12)))
		if r.chance(20) {
			cp = base
		}
		attempt := 1 + r.intn(12)
		if r.chance(30) {
			attempt = 1 + r.intn(90)
		}
		if r.chance(5) {
			attempt = 1000 + r.intn(2000)
		}
		j := pick(r, jitters)
		s := int64(r.u64() >> 1)
		rand.Seed(s)
		u := rand.Float64()
		rand.Seed(s)
		got := dispatcher.VerifRetryDelay(attempt, dispatcher.RetryConfig{Type: "exponential", Max: 5, Base: base, Cap: cp, Jitter: j})
		jn, jd := ratOf(j)
		un, ud := ratOf(u)
		emit(map[string]interface{}{"k": "delay", "base": int64(base), "cap": int64(cp), "attempt": attempt, "jn": jn, "jd": jd, "un": un, "ud": ud, "got": int64(got)})
	}

	// (3) delivery cycles: scripted target behaviours through the real handleDelivery + real memory store
	behPool := []dres{{Res: "status", N: 200}, {Res: "status", N: 204}, {Res: "status", N: 500}, {Res: "status", N: 503}, {Res: "status", N: 429}, {Res: "status", N: 408},
		{Res: "status", N: 404}, {Res: "status", N: 400}, {Res: "status", N: 301}, {Res: "status", N: 100}, {Res: "err"}, {Res: "err", sub: "timeout"}, {Res: "policy"}, {Res: "status", N: 599}, {Res: "status", N: 600}}
	for i := 0; i < *n/4; i++ {
		mx := 1 + r.intn(6)
		ln := mx + 4
		beh := make([]dres, ln)
		for k := range beh {
			if r.chance(65) {
				beh[k] = pick(r, []dres{{Res: "status", N: 500}, {Res: "status", N: 503}, {Res: "err"}, {Res: "status", N: 429}})
			} else {
				beh[k] = pick(r, behPool)
			}
		}
		clock := &fakeClock{now: 1_700_000_000_000_000_000}
		st := queue.NewMemoryStore(queue.WithNowFunc(clock.Now))
		sd := &scriptDeliverer{beh: beh}
		d := &dispatcher.PushDispatcher{Store: st, Deliverer: sd}
		target := dispatcher.TargetConfig{URL: "http://t", Retry: dispatcher.RetryConfig{Type: "exponential", Max: mx, Base: time.Second, Cap: time.Minute, Jitter: pick(r, []float64{0, 0.2, 1})}}
		if err := st.Enqueue(queue.Envelope{ID: "e1", Route: "/r", Target: "http://t"}); err != nil {
			return err
		}
		final := "none"
		for step := 0; step < ln+2; step++ {
			resp, err := st.Dequeue(queue.DequeueRequest{Route: "/r", Batch: 1, LeaseTTL: time.Minute})
			if err != nil {
				return err
			}
			if len(resp.Items) == 0 {
				break
			}
			d.VerifHandleDelivery(resp.Items[0], target)
			clock.now += int64(10 * time.Minute) // past any back-off
		}
		snap := st.VerifSnapshot()
		switch {
		case len(snap) == 0:
			final = "ack"
		case snap[0].State == queue.StateDead:
			final = "dead:" + snap[0].DeadReason
		default:
			final = "state:" + string(snap[0].State)
		}
		atts, _ := st.ListAttempts(queue.AttemptListRequest{EventID: "e1", Limit: 1000})
		if len(atts.Items) != sd.sends {
			final = fmt.Sprintf("attempt-rows:%d-sends:%d", len(atts.Items), sd.sends)
		}
		emit(map[string]interface{}{"k": "cycle", "beh": beh, "max": mx, "attempt0": 0, "sends": sd.sends, "final": final})
	}

	// (4) lease budget
	for i := 0; i < *n/4; i++ {
		nt := 1 + r.intn(3)
		ts := make([]int64, nt)
		tcs := make([]dispatcher.TargetConfig, nt)
		for k := range ts {
			ts[k] = pick(r, []int64{0, -1, int64(time.Second), int64(10 * time.Second), int64(45 * time.Second), int64(2 * time.Minute)})
			tcs[k] = dispatcher.TargetConfig{URL: fmt.Sprint("http://t", k), Timeout: time.Duration(ts[k])}
		}
		slack := pick(r, []int64{int64(30 * time.Second), int64(time.Second), int64(5 * time.Minute)})
		c := r.intn(10)
		b := dispatcher.VerifRouteDequeueBatch(c, nt)
		emit(map[string]interface{}{"k": "dbatch", "c": c, "n": nt, "got": b})
		bb := pick(r, []int{b, 0, -1, 1, 4})
		emit(map[string]interface{}{"k": "ttl", "timeouts": ts, "slack": slack, "batch": bb, "got": int64(dispatcher.VerifRouteLeaseTTL(tcs, time.Duration(slack), bb))})
	}
	return nil
}
