package main

// C18: configuration reloads and config-file replacement against the real code.
//
//   reload cases — a running runtime under configuration A; the file is replaced by B (or by something that cannot
//   be read / parsed / compiled / whose secrets cannot be loaded / that needs a restart) and the real reloadConfig
//   runs.  A fixed probe set (ingress requests, pull/worker/admin authorisations, publish) is evaluated before,
//   after, on fresh runtimes of A and B, and — through the verifhook points — at every instant between two
//   write-lock sections of the reload.
//
//   request cases — one ingress request is held between two of its accessor calls while a complete reload runs.
//
//   file cases — writeFileAtomic (app and MCP variants), the management rewrite and MCP config_apply with the
//   directory observed at every hook point; crash variants kill a child process at the point.

import (
	"bufio"
	"bytes"
	"context"
	"encoding/base64"
	"encoding/json"
	"flag"
	"fmt"
	"io"
	"net"
	"net/http"
	"net/http/httptest"
	"os"
	"os/exec"
	"path/filepath"
	"sort"
	"strings"
	"sync"
	"time"

	"github.com/nuetzliches/hookaido/internal/admin"
	"github.com/nuetzliches/hookaido/internal/app"
	"github.com/nuetzliches/hookaido/internal/config"
	"github.com/nuetzliches/hookaido/internal/ingress"
	"github.com/nuetzliches/hookaido/internal/mcp"
	"github.com/nuetzliches/hookaido/internal/queue"
	"github.com/nuetzliches/hookaido/internal/verifhook"
	"google.golang.org/grpc/metadata"
)

type rlRoute struct {
	Path     string
	BasicU   string
	BasicP   string
	HMAC     string
	MaxBody  int
	PullPath string
	PullTok  string
	Burst    int
	Method   string
}

type rlSpec struct {
	Routes      []rlRoute
	PullTok     string
	AdminTok    string
	GlobalBurst int
	MaxBatch    int
	SecretFile  string // pull token comes from file:<SecretFile> when set
	Backpress   int    // 0 = block absent, 1 = adaptive_backpressure on with low thresholds (sheds under the attached pressure store), 2 = off
	PullExtra   string // extra lines inside pull_api (restart-requiring settings)
	AdminExtra  string // extra lines inside admin_api
	TopExtra    string // extra top-level blocks (restart-requiring settings)
}

func (s rlSpec) text() string {
	var b strings.Builder
	if s.GlobalBurst > 0 {
		fmt.Fprintf(&b, "ingress {\n  rate_limit {\n    rps 0.0001\n    burst %d\n  }\n}\n", s.GlobalBurst)
	}
	if s.Backpress > 0 {
		on := "on"
		if s.Backpress == 2 {
			on = "off"
		}
		fmt.Fprintf(&b, "defaults {\n  adaptive_backpressure {\n    enabled %s\n    min_total 2\n    queued_percent 10\n  }\n}\n", on)
	}
	b.WriteString(s.TopExtra)
	b.WriteString("pull_api {\n")
	b.WriteString(s.PullExtra)
	if s.SecretFile != "" {
		fmt.Fprintf(&b, "  auth token \"file:%s\"\n", s.SecretFile)
	} else {
		fmt.Fprintf(&b, "  auth token raw:%s\n", s.PullTok)
	}
	if s.MaxBatch > 0 {
		fmt.Fprintf(&b, "  max_batch %d\n", s.MaxBatch)
	}
	b.WriteString("}\n")
	if s.AdminTok != "" || s.AdminExtra != "" {
		b.WriteString("admin_api {\n")
		if s.AdminTok != "" {
			fmt.Fprintf(&b, "  auth token raw:%s\n", s.AdminTok)
		}
		b.WriteString(s.AdminExtra)
		b.WriteString("}\n")
	}
	for _, rt := range s.Routes {
		fmt.Fprintf(&b, "%s {\n", rt.Path)
		if rt.Method != "" {
			fmt.Fprintf(&b, "  match {\n    method %s\n  }\n", rt.Method)
		}
		if rt.BasicU != "" {
			fmt.Fprintf(&b, "  auth basic \"%s\" \"%s\"\n", rt.BasicU, rt.BasicP)
		}
		if rt.HMAC != "" {
			fmt.Fprintf(&b, "  auth hmac raw:%s\n", rt.HMAC)
		}
		if rt.MaxBody > 0 {
			fmt.Fprintf(&b, "  max_body %d\n", rt.MaxBody)
		}
		if rt.Burst > 0 {
			fmt.Fprintf(&b, "  rate_limit {\n    rps 0.0001\n    burst %d\n  }\n", rt.Burst)
		}
		b.WriteString("  pull {\n")
		fmt.Fprintf(&b, "    path %s\n", rt.PullPath)
		if rt.PullTok != "" {
			fmt.Fprintf(&b, "    auth token raw:%s\n", rt.PullTok)
		}
		b.WriteString("  }\n}\n")
	}
	return b.String()
}

var rlPaths = []string{"/r0", "/r1", "/r2", "/r3"}
var rlPulls = []string{"/pull/p0", "/pull/p1", "/pull/p2", "/pull/p3", "/pull/p4"}

func genRlRoute(r *rng, p string, pull string) rlRoute {
	rt := rlRoute{Path: p, PullPath: pull}
	switch r.weighted([]int{30, 40, 30}) {
	case 1:
		rt.BasicU, rt.BasicP = pick(r, []string{"u1", "u2"}), pick(r, []string{"pw1", "pw2"})
	case 2:
		rt.HMAC = pick(r, []string{"hk1", "hk2"})
	}
	if r.chance(50) {
		rt.MaxBody = pick(r, []int{8, 64})
	}
	if r.chance(35) {
		rt.PullTok = pick(r, []string{"rtokA", "rtokB"})
	}
	if r.chance(20) {
		rt.Burst = pick(r, []int{2, 5})
	}
	if r.chance(15) {
		rt.Method = pick(r, []string{"POST", "PUT"})
	}
	return rt
}

func genRlSpec(r *rng) rlSpec {
	s := rlSpec{PullTok: pick(r, []string{"gtokA", "gtokB"})}
	if r.chance(70) {
		s.AdminTok = pick(r, []string{"atokA", "atokB"})
	}
	if r.chance(12) {
		s.GlobalBurst = pick(r, []int{3, 7})
	}
	if r.chance(25) {
		s.Backpress = 1 + r.intn(2)
	}
	perm := append([]string(nil), rlPulls...)
	for i := len(perm) - 1; i > 0; i-- {
		j := r.intn(i + 1)
		perm[i], perm[j] = perm[j], perm[i]
	}
	n := 1 + r.intn(len(rlPaths))
	for i := 0; i < n; i++ {
		s.Routes = append(s.Routes, genRlRoute(r, rlPaths[i], perm[i]))
	}
	return s
}

// an edited copy that still reloads live (no listener / pull_api / defaults change)
func mutateRlSpec(r *rng, a rlSpec) rlSpec {
	b := rlSpec{PullTok: a.PullTok, AdminTok: a.AdminTok, GlobalBurst: a.GlobalBurst, MaxBatch: a.MaxBatch, SecretFile: a.SecretFile,
		Backpress: a.Backpress, PullExtra: a.PullExtra, TopExtra: a.TopExtra, AdminExtra: a.AdminExtra}
	if a.Backpress > 0 && r.chance(50) {
		b.Backpress = 3 - a.Backpress // admission control switched on <-> off: applies live
	}
	b.Routes = append([]rlRoute(nil), a.Routes...)
	edits := 1 + r.intn(4)
	for e := 0; e < edits; e++ {
		switch r.weighted([]int{18, 14, 14, 10, 10, 10, 8, 8, 8}) {
		case 0: // new credentials on a route
			if len(b.Routes) > 0 {
				i := r.intn(len(b.Routes))
				nr := genRlRoute(r, b.Routes[i].Path, b.Routes[i].PullPath)
				b.Routes[i] = nr
			}
		case 1: // remove a route
			if len(b.Routes) > 1 {
				i := r.intn(len(b.Routes))
				b.Routes = append(b.Routes[:i:i], b.Routes[i+1:]...)
			}
		case 2: // add a route
			used := map[string]bool{}
			usedPull := map[string]bool{}
			for _, rt := range b.Routes {
				used[rt.Path] = true
				usedPull[rt.PullPath] = true
			}
			for _, p := range rlPaths {
				if !used[p] {
					for _, pp := range rlPulls {
						if !usedPull[pp] {
							b.Routes = append(b.Routes, genRlRoute(r, p, pp))
							break
						}
					}
					break
				}
			}
		case 3: // swap the pull endpoints of two routes
			if len(b.Routes) > 1 {
				i, j := r.intn(len(b.Routes)), r.intn(len(b.Routes))
				b.Routes[i].PullPath, b.Routes[j].PullPath = b.Routes[j].PullPath, b.Routes[i].PullPath
			}
		case 4:
			b.PullTok = pick(r, []string{"gtokA", "gtokB"})
		case 5:
			b.AdminTok = pick(r, []string{"atokA", "atokB", ""})
		case 6: // body limit
			if len(b.Routes) > 0 {
				i := r.intn(len(b.Routes))
				b.Routes[i].MaxBody = pick(r, []int{0, 8, 64})
			}
		case 7: // rate limit
			if len(b.Routes) > 0 {
				i := r.intn(len(b.Routes))
				b.Routes[i].Burst = pick(r, []int{0, 2, 5})
			}
		case 8:
			b.GlobalBurst = pick(r, []int{0, 3, 7})
		}
	}
	return b
}

type rlProbe struct {
	Kind   string // ing, pull, worker, admin, publish
	Method string
	Path   string
	BasicU string
	BasicP string
	HMAC   string
	Body   int
	Token  string
}

func (p rlProbe) String() string {
	return fmt.Sprintf("%s %s %s basic=%s:%s hmac=%s body=%d tok=%s", p.Kind, p.Method, p.Path, p.BasicU, p.BasicP, p.HMAC, p.Body, p.Token)
}

func buildRlProbes(a, b rlSpec) []rlProbe {
	var out []rlProbe
	type cred struct{ u, p, h string }
	for _, p := range append(append([]string(nil), rlPaths...), "/nowhere") {
		creds := []cred{{}}
		seen := map[cred]bool{{}: true}
		bodies := map[int]bool{4: true}
		methods := map[string]bool{"POST": true}
		for _, s := range []rlSpec{a, b} {
			for _, rt := range s.Routes {
				if rt.Path != p {
					continue
				}
				c := cred{rt.BasicU, rt.BasicP, rt.HMAC}
				if !seen[c] {
					seen[c] = true
					creds = append(creds, c)
				}
				if rt.MaxBody > 0 {
					bodies[rt.MaxBody+1] = true
				}
				if rt.Method != "" {
					methods["GET"] = true
					methods[rt.Method] = true
				}
			}
		}
		var bs []int
		for k := range bodies {
			bs = append(bs, k)
		}
		sort.Ints(bs)
		var ms []string
		for m := range methods {
			ms = append(ms, m)
		}
		sort.Strings(ms)
		for _, c := range creds {
			for _, bl := range bs {
				for _, m := range ms {
					out = append(out, rlProbe{Kind: "ing", Method: m, Path: p, BasicU: c.u, BasicP: c.p, HMAC: c.h, Body: bl})
				}
			}
		}
		out = append(out, rlProbe{Kind: "publish", Path: p})
	}
	toks := []string{"gtokA", "gtokB", "rtokA", "rtokB", ""}
	for _, ep := range append(append([]string(nil), rlPulls...), "/pull/none") {
		for _, t := range toks {
			out = append(out, rlProbe{Kind: "pull", Path: ep, Token: t})
		}
		for _, t := range toks[:4] {
			out = append(out, rlProbe{Kind: "worker", Path: ep, Token: t})
		}
	}
	for _, t := range []string{"atokA", "atokB", ""} {
		out = append(out, rlProbe{Kind: "admin", Token: t})
	}
	return out
}

type recStore struct {
	queue.Store
	mu  sync.Mutex
	log []string
}

func (s *recStore) Enqueue(env queue.Envelope) error {
	s.mu.Lock()
	s.log = append(s.log, env.Route+">"+env.Target)
	s.mu.Unlock()
	return s.Store.Enqueue(env)
}

func (s *recStore) take() string {
	s.mu.Lock()
	defer s.mu.Unlock()
	out := strings.Join(s.log, ",")
	s.log = nil
	return out
}

var rlNonce int

func rlIngressRequest(p rlProbe) *http.Request {
	body := bytes.Repeat([]byte("x"), p.Body)
	req := httptest.NewRequest(p.Method, "http://ex"+p.Path, bytes.NewReader(body))
	if p.BasicU != "" {
		req.SetBasicAuth(p.BasicU, p.BasicP)
	}
	if p.HMAC != "" {
		rlNonce++
		ts := fmt.Sprint(time.Now().Unix())
		req.Header.Set("X-Timestamp", ts)
		req.Header.Set("X-Nonce", fmt.Sprintf("n%d", rlNonce))
		req.Header.Set("X-Signature", signIngress([]byte(p.HMAC), ts, p.Method, p.Path, body))
	}
	return req
}

// evaluate the probe set against the runtime as it is right now
func runRlProbes(rt *app.VerifRuntime, probes []rlProbe) []string {
	mem := queue.NewMemoryStore()
	store := &recStore{Store: mem}
	ing := rt.IngressServer(store)
	pull := rt.PullServer(store)
	adm := rt.AdminServer(store)
	out := make([]string, 0, len(probes))
	for _, p := range probes {
		switch p.Kind {
		case "ing":
			rr := httptest.NewRecorder()
			ing.ServeHTTP(rr, rlIngressRequest(p))
			out = append(out, fmt.Sprintf("%d[%s]", rr.Code, store.take()))
		case "publish":
			rlNonce++
			body := fmt.Sprintf(`{"items":[{"id":"pub%d","route":%q,"payload_b64":"eA=="}]}`, rlNonce, p.Path)
			req := httptest.NewRequest("POST", "http://ex/messages/publish", strings.NewReader(body))
			req.Header.Set("X-Hookaido-Audit-Reason", "verif")
			for _, t := range []string{"atokA", "atokB"} {
				if rt.AuthorizeAdmin(withBearer(t)) {
					req.Header.Set("Authorization", "Bearer "+t)
				}
			}
			rr := httptest.NewRecorder()
			adm.ServeHTTP(rr, req)
			var resp struct {
				Code string `json:"code"`
			}
			_ = json.Unmarshal(rr.Body.Bytes(), &resp)
			out = append(out, fmt.Sprintf("%d %s[%s]", rr.Code, resp.Code, store.take()))
		case "pull":
			req := httptest.NewRequest("POST", "http://ex"+p.Path+"/dequeue", strings.NewReader(`{"batch":1,"max_wait":"0s"}`))
			if p.Token != "" {
				req.Header.Set("Authorization", "Bearer "+p.Token)
			}
			rr := httptest.NewRecorder()
			pull.ServeHTTP(rr, req)
			route, ok := rt.ResolvePull(p.Path)
			out = append(out, fmt.Sprintf("%d %v %s", rr.Code, ok, route))
		case "worker":
			ctx := metadata.NewIncomingContext(context.Background(), metadata.Pairs("authorization", "Bearer "+p.Token))
			out = append(out, fmt.Sprint(rt.AuthorizeWorker(ctx, p.Path)))
		case "admin":
			req := httptest.NewRequest("GET", "http://ex/healthz", nil)
			if p.Token != "" {
				req.Header.Set("Authorization", "Bearer "+p.Token)
			}
			rr := httptest.NewRecorder()
			adm.ServeHTTP(rr, req)
			out = append(out, fmt.Sprint(rr.Code))
		}
	}
	// leave every rate-limit bucket empty, so that a pass over a runtime that already served one is independent of
	// how many probes happened to hit each bucket (the refill rate is one token per 10000 s)
	for _, p := range append(append([]string(nil), rlPaths...), "/nowhere") {
		for _, m := range []string{"POST", "PUT", "GET"} {
			for i := 0; i < 8; i++ {
				ing.ServeHTTP(httptest.NewRecorder(), httptest.NewRequest(m, "http://ex"+p, strings.NewReader("x")))
			}
		}
	}
	store.take()
	return out
}

func withBearer(t string) *http.Request {
	req := httptest.NewRequest("GET", "http://ex/healthz", nil)
	req.Header.Set("Authorization", "Bearer "+t)
	return req
}

func compileText(text string) (config.Compiled, error) {
	cfg, err := config.Parse([]byte(text))
	if err != nil {
		return config.Compiled{}, err
	}
	compiled, res := config.Compile(cfg)
	if !res.OK {
		return config.Compiled{}, fmt.Errorf("%s", strings.Join(res.Errors, "; "))
	}
	return compiled, nil
}

// a store with standing backlog: what the adaptive admission controller of every runtime in these cases reads
var rlPressureStore = func() queue.Store {
	st := queue.NewMemoryStore()
	for i := 0; i < 6; i++ {
		_ = st.Enqueue(queue.Envelope{ID: fmt.Sprintf("bp%d", i), Route: "/bp", Target: "pull"})
	}
	return st
}()

func newRlRuntime(text string) (*app.VerifRuntime, error) {
	compiled, err := compileText(text)
	if err != nil {
		return nil, err
	}
	rt, err := app.VerifNewRuntime(compiled, nil)
	if err == nil {
		rt.SetQueueStore(rlPressureStore)
	}
	return rt, err
}

type rlMid struct {
	Label string   `json:"label"`
	V     []string `json:"v"`
}

func cmdReload(args []string) error {
	fs := flag.NewFlagSet("reload", flag.ExitOnError)
	seed := fs.Uint64("seed", 1, "seed")
	nc := fs.Int("cases", 60, "reload cases")
	nf := fs.Int("files", 40, "file replacement cases")
	crash := fs.Bool("crash", false, "also kill child processes at every point of the file replacement")
	scratch := fs.String("scratch", "", "scratch directory")
	outPath := fs.String("out", "-", "output")
	fs.Parse(args)
	w := os.Stdout
	if *outPath != "-" {
		f, err := os.Create(*outPath)
		if err != nil {
			return err
		}
		defer f.Close()
		w = f
	}
	out := bufio.NewWriterSize(w, 1<<20)
	defer out.Flush()
	emit := func(v interface{}) {
		b, _ := json.Marshal(v)
		out.Write(b)
		out.WriteByte('\n')
		out.Flush()
	}
	dir := *scratch
	if dir == "" {
		d, err := os.MkdirTemp(os.Getenv("VERIF_SCRATCH"), "hkreload")
		if err != nil {
			return err
		}
		dir = d
	}
	if err := os.MkdirAll(dir, 0o755); err != nil {
		return err
	}
	defer os.RemoveAll(dir)
	r := newRng(*seed)

	for c := 0; c < *nc; c++ {
		rlReloadCase(r, c, dir, emit)
	}
	for i := range rlRestartEdits {
		rlReloadCaseWith(r, 1000+i, dir, emit, i)
	}
	rlDispatcherRestartSweep(dir, emit)
	for c := 0; c < *nc/2; c++ {
		rlRequestCase(r, c, dir, emit)
	}
	for c := 0; c < *nc/2; c++ {
		rlTwinCase(r, c, dir, emit)
	}
	for c := 0; c < *nf; c++ {
		rlFileCase(r, c, dir, emit, *crash)
	}
	return nil
}

// settings that requiresRestartForReload must refuse to apply live, one at a time
var rlRestartEdits = []struct{ name, pull, top, admin string }{
	{"pull_api.max_batch", "  max_batch 7\n", "", ""},
	{"pull_api.default_lease_ttl", "  default_lease_ttl 11s\n", "", ""},
	{"pull_api.max_lease_ttl", "  max_lease_ttl 95s\n", "", ""},
	{"pull_api.default_max_wait", "  default_max_wait 1s\n", "", ""},
	{"pull_api.max_wait", "  max_wait 3s\n", "", ""},
	{"pull_api.prefix", "  prefix /papi\n", "", ""},
	{"pull_api.listen", "  listen :19443\n", "", ""},
	{"pull_api.grpc_listen", "  grpc_listen :19444\n", "", ""},
	{"admin_api.listen", "", "", "  listen :12019\n"},
	{"admin_api.prefix", "", "", "  prefix /adm\n"},
	{"defaults.max_body", "", "defaults {\n  max_body 1mb\n}\n", ""},
	{"defaults.max_headers", "", "defaults {\n  max_headers 32kb\n}\n", ""},
	{"defaults.publish_policy", "", "defaults {\n  publish_policy {\n    direct off\n  }\n}\n", ""},
	{"queue_limits", "", "queue_limits {\n  max_depth 77\n}\n", ""},
	{"queue_retention", "", "queue_retention {\n  max_age 1d\n}\n", ""},
	{"delivered_retention", "", "delivered_retention {\n  max_age 1h\n}\n", ""},
	{"dlq_retention", "", "dlq_retention {\n  max_age 2d\n}\n", ""},
	{"observability", "", "observability {\n  access_log off\n}\n", ""},
}

// The push dispatcher (targets, retry, timeout, concurrency, signing, egress policy) is built once at start: a reload
// that changes any of it cannot be applied and must be refused. Every edit below changes exactly one such value that is
// present before and after (the additive sweep above only adds settings).
const rlDispatcherBase = `pull_api {
  auth token raw:t
}
secrets {
  secret "D1" {
    value raw:dk1
    valid_from "2020-01-01T00:00:00Z"
    valid_until "2031-01-01T00:00:00Z"
  }
  secret "D2" {
    value raw:dk2
    valid_from "2021-01-01T00:00:00Z"
    valid_until "2032-01-01T00:00:00Z"
  }
}
defaults {
  egress {
    allow "*.example.com"
    deny "169.254.0.0/16"
    https_only off
    redirects off
    dns_rebind_protection on
  }
  deliver {
    retry exponential max 8 base 2s cap 2m jitter 0.2
    timeout 10s
    concurrency 20
  }
}
/p {
  pull { path /pull/p }
}
/d {
  deliver_concurrency 5
  deliver "http://t1.example.com/a" {
    retry exponential max 3 base 1s cap 1m jitter 0.1
    timeout 4s
    sign hmac secret_ref "D1"
    sign hmac secret_ref "D2"
    sign secret_selection newest_valid
    sign signature_header "X-Sig"
    sign timestamp_header "X-Ts"
  }
  deliver "http://t2.example.com/b" {
    timeout 2s
  }
}
/e {
  deliver "http://t3.example.com/c" {
  }
}
`

var rlDispatcherEdits = []struct{ name, from, to string }{
	{"deliver.url", `"http://t1.example.com/a"`, `"http://t1.example.com/a2"`},
	{"deliver.timeout", "timeout 4s", "timeout 5s"},
	{"deliver.retry.max", "max 3 base 1s", "max 4 base 1s"},
	{"deliver.retry.base", "base 1s cap 1m", "base 3s cap 1m"},
	{"deliver.retry.cap", "cap 1m jitter 0.1", "cap 5m jitter 0.1"},
	{"deliver.retry.jitter", "jitter 0.1", "jitter 0.3"},
	{"deliver.sign.secret_ref removed", "    sign hmac secret_ref \"D2\"\n", ""},
	{"deliver.sign.secret_ref order", "    sign hmac secret_ref \"D1\"\n    sign hmac secret_ref \"D2\"\n", "    sign hmac secret_ref \"D2\"\n    sign hmac secret_ref \"D1\"\n"},
	{"deliver.sign.secret_selection", "newest_valid", "oldest_valid"},
	{"deliver.sign.signature_header", `"X-Sig"`, `"X-Sig2"`},
	{"deliver.sign.timestamp_header", `"X-Ts"`, `"X-Ts2"`},
	{"signing secret valid_until moved earlier", `valid_until "2031-01-01T00:00:00Z"`, `valid_until "2030-06-01T00:00:00Z"`},
	{"signing secret valid_until moved later", `valid_until "2032-01-01T00:00:00Z"`, `valid_until "2033-01-01T00:00:00Z"`},
	{"signing secret valid_until removed", "    valid_until \"2031-01-01T00:00:00Z\"\n", ""},
	{"signing secret valid_from moved", `valid_from "2021-01-01T00:00:00Z"`, `valid_from "2021-06-01T00:00:00Z"`},
	{"signing secret value", "value raw:dk1", "value raw:dk1x"},
	{"route.deliver_concurrency", "deliver_concurrency 5", "deliver_concurrency 6"},
	{"second target removed", "  deliver \"http://t2.example.com/b\" {\n    timeout 2s\n  }\n", ""},
	{"second target timeout", "timeout 2s", "timeout 3s"},
	{"defaults.deliver.timeout", "timeout 10s", "timeout 11s"},
	{"defaults.deliver.retry", "max 8 base 2s", "max 9 base 2s"},
	{"defaults.deliver.concurrency", "concurrency 20", "concurrency 21"},
	{"defaults.egress.allow", `allow "*.example.com"`, `allow "*.example.org"`},
	{"defaults.egress.allow added", "    allow \"*.example.com\"\n", "    allow \"*.example.com\"\n    allow \"other.example.net\"\n"},
	{"defaults.egress.deny", `deny "169.254.0.0/16"`, `deny "169.254.0.0/17"`},
	{"defaults.egress.redirects", "redirects off", "redirects on"},
	{"defaults.egress.dns_rebind_protection", "dns_rebind_protection on", "dns_rebind_protection off"},
	{"deliver route removed (not the last)", "/e {\n  deliver \"http://t3.example.com/c\" {\n  }\n}\n", ""},
}

// What the queue store and the Admin server are built from at start (limits, retention, publish policy): every value is
// stated in the base and changed alone.
const rlSettingsBase = `pull_api {
  auth token raw:t
}
queue_limits {
  max_depth 500
  drop_policy reject
}
queue_retention {
  max_age 2d
  prune_interval 3m
}
delivered_retention {
  max_age 6h
}
dlq_retention {
  max_age 9d
  max_depth 700
}
defaults {
  publish_policy {
    direct on
    managed on
    allow_pull_routes on
    allow_deliver_routes on
    require_actor off
    require_request_id off
    fail_closed off
    actor_allow "ci-bot"
    actor_prefix "deploy-"
  }
}
/p {
  pull { path /pull/p }
}
`

var rlSettingsEdits = []struct{ name, from, to string }{
	{"queue_limits.max_depth", "max_depth 500", "max_depth 501"},
	{"queue_limits.drop_policy", "drop_policy reject", "drop_policy drop_oldest"},
	{"queue_retention.max_age", "max_age 2d", "max_age 3d"},
	{"queue_retention.prune_interval", "prune_interval 3m", "prune_interval 4m"},
	{"delivered_retention.max_age", "max_age 6h", "max_age 7h"},
	{"delivered_retention.max_age off", "max_age 6h", "max_age off"},
	{"dlq_retention.max_age", "max_age 9d", "max_age 8d"},
	{"dlq_retention.max_depth", "max_depth 700", "max_depth 0"},
	{"defaults.publish_policy.direct", "direct on", "direct off"},
	{"defaults.publish_policy.managed", "managed on", "managed off"},
	{"defaults.publish_policy.allow_pull_routes", "allow_pull_routes on", "allow_pull_routes off"},
	{"defaults.publish_policy.allow_deliver_routes", "allow_deliver_routes on", "allow_deliver_routes off"},
	{"defaults.publish_policy.require_actor", "require_actor off", "require_actor on"},
	{"defaults.publish_policy.require_request_id", "require_request_id off", "require_request_id on"},
	{"defaults.publish_policy.fail_closed", "fail_closed off", "fail_closed on"},
	{"defaults.publish_policy.actor_allow", `actor_allow "ci-bot"`, `actor_allow "ci-bot2"`},
	{"defaults.publish_policy.actor_prefix", `actor_prefix "deploy-"`, `actor_prefix "release-"`},
}

func rlDispatcherRestartSweep(dir string, emit func(interface{})) {
	rlRestartSweepOver(dir, emit, "dispatcher", rlDispatcherBase, rlDispatcherEdits, 2000)
	rlRestartSweepOver(dir, emit, "dispatcher-settings", rlSettingsBase, rlSettingsEdits, 3000)
}

func rlRestartSweepOver(dir string, emit func(interface{}), stage, rlDispatcherBase string, rlDispatcherEdits []struct{ name, from, to string }, caseBase int) {
	cfgPath := filepath.Join(dir, "Hookaidofile.disp")
	defer os.Remove(cfgPath)
	if _, err := compileText(rlDispatcherBase); err != nil {
		emit(map[string]interface{}{"k": "cfgerror", "stage": stage + "-base", "err": err.Error(), "text": rlDispatcherBase})
		return
	}
	// control: the same configuration with an edit that IS applied live (a pull route's path) reloads
	if rt, err := newRlRuntime(rlDispatcherBase); err == nil {
		_ = os.WriteFile(cfgPath, []byte(strings.Replace(rlDispatcherBase, "path /pull/p", "path /pull/p2", 1)), 0o600)
		if !rt.Reload(cfgPath) {
			emit(map[string]interface{}{"k": "cfgerror", "stage": stage + "-control", "err": "a live-reloadable edit of the base configuration was refused", "text": rlDispatcherBase})
			return
		}
	}
	for i, e := range rlDispatcherEdits {
		if strings.Count(rlDispatcherBase, e.from) != 1 {
			emit(map[string]interface{}{"k": "cfgerror", "stage": stage + "-edit:" + e.name, "err": "edit does not apply exactly once", "text": e.from})
			continue
		}
		newText := strings.Replace(rlDispatcherBase, e.from, e.to, 1)
		if _, err := compileText(newText); err != nil {
			emit(map[string]interface{}{"k": "cfgerror", "stage": stage + "-edit:" + e.name, "err": err.Error(), "text": newText})
			continue
		}
		rt, err := newRlRuntime(rlDispatcherBase)
		if err != nil {
			continue
		}
		_ = os.WriteFile(cfgPath, []byte(newText), 0o600)
		ok := rt.Reload(cfgPath)
		emit(map[string]interface{}{"k": "reload", "case": caseBase + i, "fail": "restart", "restartEdit": e.name, "oldText": rlDispatcherBase, "newText": newText,
			"probes": []string{}, "before": []string{}, "after": []string{}, "n1": []string{}, "n2": []string{}, "ok": ok})
	}
}

var rlFailKinds = []string{"none", "none", "none", "none", "unreadable", "parse", "compile", "secret", "restart"}

func rlReloadCase(r *rng, c int, dir string, emit func(interface{})) {
	rlReloadCaseWith(r, c, dir, emit, -1)
}

// forceRestart ≥ 0: a restart case with that entry of rlRestartEdits (the sweep over all of them)
func rlReloadCaseWith(r *rng, c int, dir string, emit func(interface{}), forceRestart int) {
	a := genRlSpec(r)
	kind := pick(r, rlFailKinds)
	if forceRestart >= 0 {
		kind = "restart"
		a.Backpress = 0
	}
	secretPath := filepath.Join(dir, fmt.Sprintf("tok%d", c))
	if kind == "secret" {
		_ = os.WriteFile(secretPath, []byte(a.PullTok), 0o600)
		a.SecretFile = secretPath
	}
	b := mutateRlSpec(r, a)
	cfgPath := filepath.Join(dir, fmt.Sprintf("Hookaidofile.r%d", c))
	newText := b.text()
	restartEdit := ""
	switch kind {
	case "parse":
		newText = newText + "\n/broken {\n  pull {\n"
	case "compile":
		newText = newText + "\n/dup {\n  pull { path " + b.Routes[0].PullPath + " }\n}\n/nopull {\n}\n"
	case "restart":
		// exactly one restart-requiring setting differs (next to whatever live-reloadable edits b carries)
		bb := b
		v := pick(r, rlRestartEdits)
		for a.Backpress > 0 && strings.HasPrefix(v.top, "defaults") {
			v = pick(r, rlRestartEdits)
		}
		if forceRestart >= 0 {
			v = rlRestartEdits[forceRestart]
		}
		bb.PullExtra += v.pull
		bb.TopExtra += v.top
		bb.AdminExtra += v.admin
		newText = bb.text()
		restartEdit = v.name
	}
	if kind == "restart" {
		if _, err := compileText(newText); err != nil {
			emit(map[string]interface{}{"k": "cfgerror", "stage": "restart:" + restartEdit, "err": err.Error(), "text": newText})
			return
		}
	}
	base := map[string]interface{}{"k": "reload", "case": c, "fail": kind, "restartEdit": restartEdit, "oldText": a.text(), "newText": newText}
	rtA, err := newRlRuntime(a.text())
	if err != nil {
		emit(map[string]interface{}{"k": "cfgerror", "stage": "old", "err": err.Error(), "text": a.text()})
		return
	}
	probes := buildRlProbes(a, b)
	names := make([]string, len(probes))
	for i, p := range probes {
		names[i] = p.String()
	}
	base["probes"] = names
	_ = runRlProbes(rtA, probes) // first pass drains fresh rate-limit buckets
	before := runRlProbes(rtA, probes)
	base["before"] = before

	var n1, n2 []string
	if kind == "none" {
		rtB, err := newRlRuntime(newText)
		if err != nil {
			emit(map[string]interface{}{"k": "cfgerror", "stage": "new", "err": err.Error(), "text": newText})
			return
		}
		n1 = runRlProbes(rtB, probes)
		n2 = runRlProbes(rtB, probes)
	}
	base["n1"], base["n2"] = n1, n2

	switch kind {
	case "unreadable":
		_ = os.Remove(cfgPath)
		_ = os.Mkdir(cfgPath, 0o755) // reading a directory fails
	default:
		_ = os.WriteFile(cfgPath, []byte(newText), 0o600)
	}
	if kind == "secret" {
		_ = os.Remove(secretPath)
	}

	// run A: no observers — what the reload reports and what the runtime answers afterwards
	ok := rtA.Reload(cfgPath)
	base["ok"] = ok
	base["after"] = runRlProbes(rtA, probes)

	// run B: a second runtime under A, observed at every instant between two write-lock sections of the reload
	var mids []rlMid
	if kind == "none" || kind == "secret" {
		if kind == "secret" {
			_ = os.WriteFile(secretPath, []byte(a.PullTok), 0o600)
		}
		rtA2, err := newRlRuntime(a.text())
		if kind == "secret" {
			_ = os.Remove(secretPath)
		}
		if err == nil {
			_ = runRlProbes(rtA2, probes)
			_ = runRlProbes(rtA2, probes)
			verifhook.Reset()
			verifhook.Set("*", func(label string, hit int) {
				if label == "state.write_unlocked" { // every instant at which the reload released the write lock
					mids = append(mids, rlMid{Label: label, V: runRlProbes(rtA2, probes)})
				}
			})
			ok2 := rtA2.Reload(cfgPath)
			verifhook.Reset()
			base["ok2"] = ok2
		}
	}
	if mids == nil {
		mids = []rlMid{}
	}
	base["mid"] = mids
	emit(base)
	_ = os.RemoveAll(cfgPath)
}

// A failed reload must leave *stateful* behaviour untouched too: two runtimes under the same configuration and clock
// serve the same request script; one of them attempts a reload that fails in between. Their answers must be equal.
func rlTwinCase(r *rng, c int, dir string, emit func(interface{})) {
	kind := pick(r, []string{"unreadable", "parse", "compile", "secret", "secret", "restart"})
	tolOld := pick(r, []int{2, 5})
	tolNew := pick(r, []int{60, 300, 300, 1})
	secretPath := filepath.Join(dir, fmt.Sprintf("twintok%d", c))
	_ = os.WriteFile(secretPath, []byte("kb"), 0o600)
	defer os.Remove(secretPath)
	text := func(tol int, extra string) string {
		return fmt.Sprintf("pull_api {\n  auth token raw:t\n%s}\n/ha {\n  auth hmac {\n    secret raw:ka\n    tolerance %ds\n  }\n  pull {\n    path /pull/ha\n  }\n}\n"+
			"/rl {\n  rate_limit {\n    rps 0.0001\n    burst 3\n  }\n  pull {\n    path /pull/rl\n  }\n}\n"+
			"/hb {\n  auth hmac {\n    secret \"file:%s\"\n  }\n  pull {\n    path /pull/hb\n  }\n}\n", extra, tol, secretPath)
	}
	oldText := text(tolOld, "")
	newText := text(tolNew, "")
	cfgPath := filepath.Join(dir, fmt.Sprintf("Hookaidofile.t%d", c))
	switch kind {
	case "parse":
		newText += "\n/broken {\n  pull {\n"
	case "compile":
		newText += "\n/dup {\n  pull { path /pull/ha }\n}\n"
	case "restart":
		newText = text(tolNew, "  max_batch 7\n")
	}
	compiled, err := compileText(oldText)
	if err != nil {
		emit(map[string]interface{}{"k": "cfgerror", "stage": "twin", "err": err.Error(), "text": oldText})
		return
	}
	clock := &fakeClock{now: 1_700_000_000_000_000_000 + int64(c)*int64(time.Hour)}
	mk := func() (*app.VerifRuntime, *recStore) {
		rt, err := app.VerifNewRuntime(compiled, clock.Now)
		if err != nil {
			return nil, nil
		}
		return rt, &recStore{Store: queue.NewMemoryStore(queue.WithNowFunc(clock.Now))}
	}
	rtU, stU := mk()
	rtT, stT := mk()
	if rtU == nil || rtT == nil {
		return
	}
	send := func(rt *app.VerifRuntime, st *recStore, p string, nonce string, ts int64, secret string) string {
		body := []byte("payload")
		req := httptest.NewRequest("POST", "http://ex"+p, bytes.NewReader(body))
		if secret != "" {
			tss := fmt.Sprint(ts)
			req.Header.Set("X-Timestamp", tss)
			req.Header.Set("X-Nonce", nonce)
			req.Header.Set("X-Signature", signIngress([]byte(secret), tss, "POST", p, body))
		}
		rr := httptest.NewRecorder()
		rt.IngressServer(st).ServeHTTP(rr, req)
		return fmt.Sprintf("%d[%s]", rr.Code, st.take())
	}
	var outU, outT []string
	both := func(p, nonce string, ts int64, secret string) {
		outU = append(outU, send(rtU, stU, p, nonce, ts, secret))
		outT = append(outT, send(rtT, stT, p, nonce, ts, secret))
	}
	t0 := clock.now / int64(time.Second)
	both("/ha", "n1", t0, "ka")
	both("/hb", "m1", t0, "kb")
	both("/rl", "", 0, "")
	both("/rl", "", 0, "")
	switch kind {
	case "unreadable":
		_ = os.Mkdir(cfgPath, 0o755)
	default:
		_ = os.WriteFile(cfgPath, []byte(newText), 0o600)
	}
	if kind == "secret" {
		_ = os.Remove(secretPath)
	}
	attempts := 1 + r.intn(2)
	ok := false
	for i := 0; i < attempts; i++ {
		ok = rtT.Reload(cfgPath) || ok
	}
	_ = os.RemoveAll(cfgPath)
	clock.now += int64(tolOld+3) * int64(time.Second)
	t1 := clock.now / int64(time.Second)
	both("/ha", "n1", t1, "ka") // the nonce again after its window closed
	both("/ha", "n1", t0, "ka") // the captured request itself
	both("/ha", "n2", t1, "ka")
	both("/ha", "n2", t1, "ka") // immediate replay
	both("/hb", "m1", t1, "kb")
	both("/hb", "m2", t1, "kb")
	for i := 0; i < 3; i++ {
		both("/rl", "", 0, "")
	}
	clock.now += int64(tolNew+3) * int64(time.Second)
	t2 := clock.now / int64(time.Second)
	both("/ha", "n1", t2, "ka")
	both("/ha", "n2", t2, "ka")
	emit(map[string]interface{}{"k": "twin", "case": c, "fail": kind, "ok": ok, "attempts": attempts, "tolOld": tolOld, "tolNew": tolNew,
		"u": outU, "t": outT, "oldText": oldText, "newText": newText})
}

// one ingress request held between two accessor calls while a complete reload runs: every ingress probe at every gate
func rlRequestCase(r *rng, c int, dir string, emit func(interface{})) {
	a := genRlSpec(r)
	a.GlobalBurst = 0
	for i := range a.Routes {
		a.Routes[i].Burst = 0
	}
	b := mutateRlSpec(r, a)
	b.GlobalBurst = 0
	for i := range b.Routes {
		b.Routes[i].Burst = 0
	}
	cfgPath := filepath.Join(dir, fmt.Sprintf("Hookaidofile.q%d", c))
	rtA, err := newRlRuntime(a.text())
	if err != nil {
		return
	}
	rtB, err := newRlRuntime(b.text())
	if err != nil {
		return
	}
	_ = os.WriteFile(cfgPath, []byte(b.text()), 0o600)
	defer os.Remove(cfgPath)
	gates := []string{"ResolveRoute", "AllowRequestFor", "BasicAuthFor", "LimitsFor", "HMACAuthFor", "TargetsFor"}

	serve := func(rt *app.VerifRuntime, p rlProbe, gate string, hold func()) string {
		store := &recStore{Store: queue.NewMemoryStore()}
		srv := rt.IngressServer(store)
		fired := false
		fire := func() {
			if !fired && hold != nil {
				fired = true
				hold()
			}
		}
		switch gate {
		case "ResolveRoute":
			f := srv.ResolveRoute
			srv.ResolveRoute = func(req *http.Request, p string) (string, bool) { a, b := f(req, p); fire(); return a, b }
		case "AllowRequestFor":
			f := srv.AllowRequestFor
			srv.AllowRequestFor = func(route string) bool { v := f(route); fire(); return v }
		case "BasicAuthFor":
			f := srv.BasicAuthFor
			srv.BasicAuthFor = func(route string) *ingress.BasicAuth { v := f(route); fire(); return v }
		case "LimitsFor":
			f := srv.LimitsFor
			srv.LimitsFor = func(route string) (int64, int) { a, b := f(route); fire(); return a, b }
		case "HMACAuthFor":
			f := srv.HMACAuthFor
			srv.HMACAuthFor = func(route string) *ingress.HMACAuth { v := f(route); fire(); return v }
		case "TargetsFor":
			f := srv.TargetsFor
			srv.TargetsFor = func(route string) []string { v := f(route); fire(); return v }
		}
		rr := httptest.NewRecorder()
		srv.ServeHTTP(rr, rlIngressRequest(p))
		return fmt.Sprintf("%d[%s]", rr.Code, store.take())
	}
	type mix struct {
		Probe string `json:"probe"`
		Gate  string `json:"gate"`
		Old   string `json:"old"`
		New   string `json:"new"`
		Got   string `json:"got"`
	}
	mixes := []mix{}
	tried := 0
	aCompiled, _ := compileText(a.text())
	for _, p := range buildRlProbes(a, b) {
		if p.Kind != "ing" {
			continue
		}
		oldOut := serve(rtA, p, "", nil)
		newOut := serve(rtB, p, "", nil)
		for _, gate := range gates {
			rt, err := app.VerifNewRuntime(aCompiled, nil)
			if err != nil {
				continue
			}
			tried++
			got := serve(rt, p, gate, func() { rt.Reload(cfgPath) })
			if got != oldOut && got != newOut && len(mixes) < 6 {
				mixes = append(mixes, mix{p.String(), gate, oldOut, newOut, got})
			}
		}
	}
	emit(map[string]interface{}{"k": "request", "case": c, "tried": tried, "mix": mixes, "oldText": a.text(), "newText": b.text()})
}

type rlSnap struct {
	Label    string   `json:"label"`
	Target   *string  `json:"target"`
	Temps    []string `json:"temps"`
	Compiles bool     `json:"compiles"`
}

func snapDir(dir, base, label string) rlSnap {
	s := rlSnap{Label: label, Temps: []string{}}
	ents, _ := os.ReadDir(dir)
	for _, e := range ents {
		b, err := os.ReadFile(filepath.Join(dir, e.Name()))
		if err != nil {
			continue
		}
		if e.Name() == base {
			t := string(b)
			s.Target = &t
			_, err := compileText(t)
			s.Compiles = err == nil
		} else {
			s.Temps = append(s.Temps, string(b))
		}
	}
	sort.Strings(s.Temps)
	return s
}

func rlFileCase(r *rng, c int, root string, emit func(interface{}), crash bool) {
	dir := filepath.Join(root, fmt.Sprintf("f%d", c))
	_ = os.MkdirAll(dir, 0o755)
	defer os.RemoveAll(dir)
	cfgPath := filepath.Join(dir, "Hookaidofile")
	a := genRlSpec(r)
	for i := range a.Routes { // file cases exercise the management rewrite: keep routes publishable and unlimited
		a.Routes[i].Burst = 0
	}
	a.GlobalBurst = 0
	b := mutateRlSpec(r, a)
	oldText, newText := a.text(), b.text()
	variant := pick(r, []string{"app.raw", "mcp.write_only", "mcp.reload_ok", "mcp.reload_fail", "mcp.invalid", "mgmt.upsert", "mgmt.upsert_reload_fail", "mgmt.delete",
		"mgmt.delete_validate_fail", "mgmt.move", "mgmt.move_validate_fail", "app.raw_new", "app.rename_fails", "mcp.rename_fails", "mgmt.upsert_pending_restart"})
	base := map[string]interface{}{"k": "file", "case": c, "variant": variant, "old": oldText}
	if variant == "app.raw_new" {
		base["old"] = nil
	} else {
		_ = os.WriteFile(cfgPath, []byte(oldText), 0o640)
	}
	var snaps []rlSnap
	prefix := "app.wfa."
	if strings.HasPrefix(variant, "mcp.") {
		prefix = "mcp.wfa."
	}
	verifhook.Reset()
	verifhook.Set("*", func(label string, hit int) {
		if strings.HasPrefix(label, prefix) {
			snaps = append(snaps, snapDir(dir, "Hookaidofile", strings.TrimPrefix(label, prefix)))
		}
	})
	outcome := "applied"
	var errText string
	if strings.HasSuffix(variant, ".rename_fails") {
		// the temp file disappears just before the rename: the replacement must fail and leave the old content in place
		verifhook.Set(prefix+"closed", func(label string, hit int) {
			snaps = append(snaps, snapDir(dir, "Hookaidofile", "closed"))
			ents, _ := os.ReadDir(dir)
			for _, e := range ents {
				if e.Name() != "Hookaidofile" {
					_ = os.Remove(filepath.Join(dir, e.Name()))
				}
			}
		})
	}
	switch variant {
	case "app.rename_fails":
		base["new"] = newText
		if err := app.VerifWriteFileAtomic(cfgPath, []byte(newText)); err != nil {
			outcome, errText = "error", err.Error()
		}
	case "mcp.rename_fails":
		base["new"] = newText
		res := mcpCall(cfgPath, "config_apply", map[string]interface{}{"path": cfgPath, "content": newText, "mode": "write_only"})
		base["mcp"] = res
		if res["is_error"] == true || res["applied"] != true {
			outcome = "error"
		}
	case "app.raw", "app.raw_new":
		base["new"] = newText
		if err := app.VerifWriteFileAtomic(cfgPath, []byte(newText)); err != nil {
			outcome, errText = "error", err.Error()
		}
	case "mcp.write_only", "mcp.reload_ok", "mcp.reload_fail", "mcp.invalid":
		content := newText
		mode := "write_only"
		args := map[string]interface{}{"path": cfgPath}
		var hs *httptest.Server
		switch variant {
		case "mcp.invalid":
			content = newText + "\n/dup {\n}\n"
			mode = pick(r, []string{"write_only", "write_and_reload"})
		case "mcp.reload_ok", "mcp.reload_fail":
			mode = "write_and_reload"
			args["reload_timeout"] = "300ms"
			failStatus := pick(r, []int{503, 500, 401, 403, 404, 429, 204})
			base["healthStatus"] = failStatus
			hs = httptest.NewUnstartedServer(http.HandlerFunc(func(w http.ResponseWriter, req *http.Request) {
				if variant == "mcp.reload_ok" {
					w.WriteHeader(200)
				} else {
					// the instance did not take the candidate over: it is down, or it still runs the old configuration and
					// answers the health probe (sent with the candidate's token) with a refusal
					w.WriteHeader(failStatus)
				}
			}))
			l, err := net.Listen("tcp", "127.0.0.1:0")
			if err != nil {
				verifhook.Reset()
				return
			}
			hs.Listener = l
			hs.Start()
			content = fmt.Sprintf("admin_api {\n  listen %s\n}\n", l.Addr().String()) + stripAdmin(newText)
		}
		args["content"] = content
		args["mode"] = mode
		base["new"] = content
		res := mcpCall(cfgPath, "config_apply", args)
		if hs != nil {
			hs.Close()
		}
		base["mcp"] = res
		switch {
		case res["rolled_back"] == true:
			outcome = "failed"
		case res["applied"] == true:
			outcome = "applied"
		default:
			outcome = "rejected"
		}
	case "mgmt.upsert", "mgmt.upsert_reload_fail", "mgmt.delete", "mgmt.delete_validate_fail", "mgmt.move", "mgmt.move_validate_fail", "mgmt.upsert_pending_restart":
		secretPath := filepath.Join(root, fmt.Sprintf("ftok%d", c))
		if variant == "mgmt.upsert_reload_fail" {
			_ = os.WriteFile(secretPath, []byte(a.PullTok), 0o600)
			a.SecretFile = secretPath
			oldText = a.text()
			base["old"] = oldText
		}
		labelled := variant != "mgmt.upsert" && variant != "mgmt.upsert_reload_fail" && variant != "mgmt.upsert_pending_restart"
		if labelled { // the endpoint app1/ep1 already exists on the first route
			oldText = strings.Replace(oldText, a.Routes[0].Path+" {\n", a.Routes[0].Path+" {\n  application app1\n  endpoint_name ep1\n", 1)
			base["old"] = oldText
		}
		_ = os.WriteFile(cfgPath, []byte(oldText), 0o640)
		rt, err := newRlRuntime(oldText)
		if err != nil {
			verifhook.Reset()
			emit(map[string]interface{}{"k": "cfgerror", "stage": "mgmt", "err": err.Error(), "text": oldText})
			return
		}
		if variant == "mgmt.upsert_reload_fail" {
			_ = os.Remove(secretPath)
		}
		if variant == "mgmt.upsert_pending_restart" {
			// an operator has edited the file with a setting that needs a restart and has not restarted yet (a reload of it is
			// refused): the file is ahead of the running configuration when the management request arrives
			pending := a
			pending.PullExtra += "  max_batch 7\n"
			if _, err := compileText(pending.text()); err != nil || rt.Reload(cfgPath) == false {
				verifhook.Reset()
				return
			}
			oldText = pending.text()
			_ = os.WriteFile(cfgPath, []byte(oldText), 0o640)
			base["old"] = oldText
			if rt.Reload(cfgPath) {
				verifhook.Reset()
				emit(map[string]interface{}{"k": "cfgerror", "stage": "mgmt-pending", "err": "the pending edit was not refused", "text": oldText})
				return
			}
		}
		// what the running process answers for the managed endpoint: an endpoint-scoped publish (status, code, route reached)
		live := func() string {
			rlNonce++
			st := &recStore{Store: queue.NewMemoryStore()}
			req := httptest.NewRequest("POST", "http://ex/applications/app1/endpoints/ep1/messages/publish",
				strings.NewReader(fmt.Sprintf(`{"items":[{"id":"live%d","payload_b64":"eA=="}]}`, rlNonce)))
			req.Header.Set("X-Hookaido-Audit-Reason", "verif")
			for _, t := range []string{"atokA", "atokB"} {
				if rt.AuthorizeAdmin(withBearer(t)) {
					req.Header.Set("Authorization", "Bearer "+t)
				}
			}
			rr := httptest.NewRecorder()
			mem := queue.NewMemoryStore()
			rt.AdminServer(mem).ServeHTTP(rr, req)
			var resp struct {
				Code string `json:"code"`
			}
			_ = json.Unmarshal(rr.Body.Bytes(), &resp)
			routes := []string{}
			if l, err := mem.ListMessages(queue.MessageListRequest{Limit: 10}); err == nil {
				for _, it := range l.Items {
					routes = append(routes, it.Route)
				}
			}
			_ = st
			return fmt.Sprintf("%d %s %v", rr.Code, resp.Code, routes)
		}
		base["liveBefore"] = live()
		store := queue.NewMemoryStore()
		if strings.HasSuffix(variant, "_validate_fail") {
			// a message for the endpoint's current route arrives after the first backlog check, while the file is being replaced
			fired := false
			verifhook.Set("app.wfa.renamed", func(label string, hit int) {
				snaps = append(snaps, snapDir(dir, "Hookaidofile", "renamed"))
				if !fired {
					fired = true
					_ = store.Enqueue(queue.Envelope{ID: "late", Route: a.Routes[0].Path, Target: "pull", Payload: []byte("x")})
				}
			})
		}
		var res admin.ManagementEndpointMutationResult
		switch {
		case strings.HasPrefix(variant, "mgmt.delete"):
			res, err = rt.DeleteManagedEndpoint(cfgPath, admin.ManagementEndpointDeleteRequest{Application: "app1", EndpointName: "ep1"}, store)
		case strings.HasPrefix(variant, "mgmt.move"):
			to := a.Routes[len(a.Routes)-1].Path
			res, err = rt.UpsertManagedEndpoint(cfgPath, admin.ManagementEndpointUpsertRequest{Application: "app1", EndpointName: "ep1", Route: to}, store)
		default:
			res, err = rt.UpsertManagedEndpoint(cfgPath, admin.ManagementEndpointUpsertRequest{Application: "app1", EndpointName: "ep1", Route: a.Routes[0].Path}, store)
		}
		base["applied"] = res.Applied
		base["action"] = res.Action
		switch {
		case err != nil && len(snaps) > 0:
			outcome, errText = "failed", err.Error()
		case err != nil:
			outcome, errText = "rejected", err.Error()
		case !res.Applied:
			outcome = "rejected"
		}
		base["liveAfter"] = live()
		// the content the rewrite put in place is whatever the first completed replacement wrote
		for _, s := range snaps {
			if s.Label == "renamed" && s.Target != nil {
				base["new"] = *s.Target
				break
			}
		}
	}
	verifhook.Reset()
	if snaps == nil {
		snaps = []rlSnap{}
	}
	base["outcome"] = outcome
	base["err"] = errText
	base["points"] = snaps
	base["final"] = snapDir(dir, "Hookaidofile", "final")
	emit(base)

	if crash && (variant == "app.raw" || variant == "mcp.write_only") {
		for _, pt := range []string{"created", "chmod", "written", "synced", "closed", "renamed"} {
			_ = os.WriteFile(cfgPath, []byte(oldText), 0o640)
			ents, _ := os.ReadDir(dir)
			for _, e := range ents {
				if e.Name() != "Hookaidofile" {
					_ = os.Remove(filepath.Join(dir, e.Name()))
				}
			}
			self, _ := os.Executable()
			cmd := exec.Command(self, "wfa-child", strings.SplitN(variant, ".", 2)[0], cfgPath)
			cmd.Stdin = strings.NewReader(newText)
			cmd.Env = append(os.Environ(), "HOOKAIDO_VERIF_CRASH="+prefix+pt+":1")
			err := cmd.Run()
			killed := err != nil && strings.Contains(err.Error(), "killed")
			emit(map[string]interface{}{"k": "crash", "case": c, "variant": variant, "point": pt, "killed": killed, "old": oldText, "new": newText,
				"final": snapDir(dir, "Hookaidofile", "crash")})
		}
	}
}

func stripAdmin(text string) string {
	i := strings.Index(text, "admin_api {")
	if i < 0 {
		return text
	}
	j := strings.Index(text[i:], "}\n")
	return text[:i] + text[i+j+2:]
}

// one MCP tools/call against a fresh admin-role server with mutations enabled; returns the structured result
func mcpCall(cfgPath, tool string, args map[string]interface{}) map[string]interface{} {
	var outB bytes.Buffer
	srv := mcp.NewServer(bytes.NewReader(frame(map[string]interface{}{"jsonrpc": "2.0", "id": 1, "method": "tools/call",
		"params": map[string]interface{}{"name": tool, "arguments": args}})), &outB, cfgPath, filepath.Join(filepath.Dir(cfgPath), "q.db"),
		mcp.WithRole(mcp.Role("admin")), mcp.WithMutationsEnabled(true), mcp.WithPrincipal("verif"), mcp.WithAuditWriter(io.Discard))
	_ = srv.Serve(context.Background())
	out := map[string]interface{}{}
	isErr := false
	for _, fr := range readFrames(outB.Bytes()) {
		if _, ok := fr["error"]; ok {
			isErr = true
			out["rpc_error"] = fr["error"]
		}
		if res, ok := fr["result"].(map[string]interface{}); ok {
			if b, ok := res["isError"].(bool); ok && b {
				isErr = true
			}
			if sc, ok := res["structuredContent"].(map[string]interface{}); ok {
				for k, v := range sc {
					out[k] = v
				}
			} else if cs, ok := res["content"].([]interface{}); ok && len(cs) > 0 {
				text, _ := cs[0].(map[string]interface{})["text"].(string)
				var m map[string]interface{}
				if json.Unmarshal([]byte(text), &m) == nil {
					for k, v := range m {
						out[k] = v
					}
				} else {
					out["text"] = text
				}
			}
		}
	}
	out["is_error"] = isErr
	return out
}

// child process for crash variants: replace the file and get killed at the point named in HOOKAIDO_VERIF_CRASH
func cmdWfaChild(args []string) error {
	if len(args) != 2 {
		return fmt.Errorf("usage: wfa-child app|mcp <path>")
	}
	data, err := io.ReadAll(os.Stdin)
	if err != nil {
		return err
	}
	if args[0] == "app" {
		return app.VerifWriteFileAtomic(args[1], data)
	}
	res := mcpCall(args[1], "config_apply", map[string]interface{}{"path": args[1], "content": string(data), "mode": "write_only"})
	if res["applied"] != true {
		return fmt.Errorf("config_apply did not apply: %v", res)
	}
	return nil
}

var _ = base64.StdEncoding
