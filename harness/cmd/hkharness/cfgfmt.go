package main

// C19: `config fmt` round trip.
//
//   lex / quote records — the real lexer's token stream and the real quoting helpers on generated texts and values,
//   compared with the Lean model (for which the round-trip theorems are proved).
//
//   roundtrip records — Parse / Format / Parse / Compile on configuration texts: the repository's own corpus (every string
//   literal of its tests and every fenced block of its docs that the parser accepts, read from /repo at run time) and
//   token-level mutations of it (re-quoting, escapes, placeholders, comments, spliced blocks).  No model: differential.

import (
	"bufio"
	"bytes"
	"context"
	"encoding/json"
	"flag"
	"fmt"
	"go/ast"
	"go/parser"
	"go/token"
	"os"
	"os/exec"
	"path/filepath"
	"reflect"
	"regexp"
	"sort"
	"strconv"
	"strings"

	"github.com/nuetzliches/hookaido/internal/config"
	"github.com/nuetzliches/hookaido/internal/mcp"
)

// canonical, address-free rendering of any value (maps sorted, pointers followed, funcs by nil-ness)
func canonDump(v reflect.Value, b *strings.Builder, depth int) {
	if depth > 40 {
		b.WriteString("<deep>")
		return
	}
	if !v.IsValid() {
		b.WriteString("<invalid>")
		return
	}
	switch v.Kind() {
	case reflect.Ptr, reflect.Interface:
		if v.IsNil() {
			b.WriteString("nil")
			return
		}
		b.WriteString("&")
		canonDump(v.Elem(), b, depth+1)
	case reflect.Struct:
		t := v.Type()
		b.WriteString(t.Name())
		b.WriteString("{")
		for i := 0; i < v.NumField(); i++ {
			b.WriteString(t.Field(i).Name)
			b.WriteString(":")
			canonDump(v.Field(i), b, depth+1)
			b.WriteString(",")
		}
		b.WriteString("}")
	case reflect.Slice, reflect.Array:
		if v.Kind() == reflect.Slice && v.IsNil() {
			b.WriteString("[]")
			return
		}
		b.WriteString("[")
		for i := 0; i < v.Len(); i++ {
			canonDump(v.Index(i), b, depth+1)
			b.WriteString(",")
		}
		b.WriteString("]")
	case reflect.Map:
		keys := v.MapKeys()
		ks := make([]string, len(keys))
		idx := map[string]reflect.Value{}
		for i, k := range keys {
			var kb strings.Builder
			canonDump(k, &kb, depth+1)
			ks[i] = kb.String()
			idx[ks[i]] = v.MapIndex(k)
		}
		sort.Strings(ks)
		b.WriteString("map{")
		for _, k := range ks {
			b.WriteString(k)
			b.WriteString("=>")
			canonDump(idx[k], b, depth+1)
			b.WriteString(",")
		}
		b.WriteString("}")
	case reflect.Func, reflect.Chan, reflect.UnsafePointer:
		if v.IsNil() {
			b.WriteString("nilfunc")
		} else {
			b.WriteString("func")
		}
	case reflect.String:
		b.WriteString(strconv.Quote(v.String()))
	case reflect.Bool:
		fmt.Fprint(b, v.Bool())
	case reflect.Int, reflect.Int8, reflect.Int16, reflect.Int32, reflect.Int64:
		fmt.Fprint(b, v.Int())
	case reflect.Uint, reflect.Uint8, reflect.Uint16, reflect.Uint32, reflect.Uint64, reflect.Uintptr:
		fmt.Fprint(b, v.Uint())
	case reflect.Float32, reflect.Float64:
		fmt.Fprint(b, v.Float())
	default:
		fmt.Fprintf(b, "<%s>", v.Kind())
	}
}

func dumpOf(x interface{}) string {
	var b strings.Builder
	canonDump(reflect.ValueOf(x), &b, 0)
	return b.String()
}

// validation result with messages sorted: their order follows Go map iteration in places (vars cycles)
func resDump(res config.ValidationResult) string {
	e := append([]string(nil), res.Errors...)
	w := append([]string(nil), res.Warnings...)
	sort.Strings(e)
	sort.Strings(w)
	return fmt.Sprintf("ok=%v errors=%q warnings=%q", res.OK, e, w)
}

// the first place two dumps differ, with context
func dumpDiff(a, b string) string {
	n := len(a)
	if len(b) < n {
		n = len(b)
	}
	i := 0
	for i < n && a[i] == b[i] {
		i++
	}
	lo := i - 120
	if lo < 0 {
		lo = 0
	}
	ha, hb := i+120, i+120
	if ha > len(a) {
		ha = len(a)
	}
	if hb > len(b) {
		hb = len(b)
	}
	return fmt.Sprintf("original: …%s… | after fmt: …%s…", a[lo:ha], b[lo:hb])
}

var fenceRe = regexp.MustCompile("(?s)```[a-zA-Z]*\n(.*?)```")

// every text under /repo that the parser accepts: string literals of Go files (tests included), fenced doc blocks, Hookaidofile
func collectCorpus(repo string) ([]string, []string) {
	seen := map[string]bool{}
	var out, fragments []string
	add := func(s string) {
		if len(s) < 8 || len(s) > 20000 || !strings.Contains(s, "{") || seen[s] {
			return
		}
		seen[s] = true
		if _, err := config.Parse([]byte(s)); err == nil {
			out = append(out, s)
		} else if strings.Contains(s, "\n") {
			fragments = append(fragments, s) // not a whole configuration (doc excerpt, negative test): its directives are still spellings
		}
	}
	_ = filepath.Walk(repo, func(p string, info os.FileInfo, err error) error {
		if err != nil {
			return nil
		}
		if info.IsDir() {
			if info.Name() == ".git" || info.Name() == "node_modules" {
				return filepath.SkipDir
			}
			return nil
		}
		switch {
		case strings.HasSuffix(p, ".go"):
			fset := token.NewFileSet()
			f, err := parser.ParseFile(fset, p, nil, 0)
			if err != nil {
				return nil
			}
			ast.Inspect(f, func(n ast.Node) bool {
				if bl, ok := n.(*ast.BasicLit); ok && bl.Kind == token.STRING {
					if s, err := strconv.Unquote(bl.Value); err == nil {
						add(s)
					}
				}
				return true
			})
		case strings.HasSuffix(p, ".md"):
			b, err := os.ReadFile(p)
			if err == nil {
				for _, m := range fenceRe.FindAllStringSubmatch(string(b), -1) {
					add(m[1])
				}
			}
		case strings.HasPrefix(info.Name(), "Hookaidofile"):
			if b, err := os.ReadFile(p); err == nil {
				add(string(b))
			}
		}
		return nil
	})
	sort.Strings(out)
	sort.Strings(fragments)
	return out, fragments
}

var specialValues = []string{"nb\u00a0sp", "zw\u200bsp", "del\x7f", "bel\a", "vt\v", "ff\f", "ls\u2028", "bom\ufeff", "esc\x1b", "nul\x00", "emoji😀", " ", "\t", `a b`, `a"b`, `a\b`, "tab\there", "nl\nhere", `#hash`, `{env.HOME}`, `{$VAR}`, `{file./etc/x}`, `{vars.X}`, `{x}`, `{}`, `ünï`, `a{b`, `a}b`, `x#y`, ``, `"`, `\`, `\"`, `{env.A} b`, `{$A}{$B}`, `{env.A}x`, `x{env.A}`, "cr\rhere", `a\nb`}

// token-level mutation of a config text; the result is kept only if the parser accepts it
func mutateConfigText(r *rng, src string, corpus []string) string {
	toks, err := config.VerifLex(src)
	if err != nil || len(toks) == 0 {
		return src
	}
	type tk = config.VerifToken
	toks = append([]tk(nil), toks...)
	for e := 0; e < 1+r.intn(3); e++ {
		i := r.intn(len(toks))
		switch r.weighted([]int{30, 20, 20, 10, 10, 10, 25}) {
		case 6: // flip a boolean word (defaults hide a dropped `on`, not a dropped `off`)
			for k := 0; k < len(toks); k++ {
				j := (i + k) % len(toks)
				if to, ok := flipRe[toks[j].Text]; ok && toks[j].Kind == "ident" {
					toks[j].Text = to
					break
				}
			}
		case 0: // quote an unquoted word / unquote a quoted one
			if toks[i].Kind == "ident" {
				toks[i].Kind = "str"
			} else if toks[i].Kind == "str" && config.VerifIsUnquotedValueSafe(toks[i].Text) {
				toks[i].Kind = "ident"
			}
		case 1: // a special value in place of a quoted value
			if toks[i].Kind == "str" {
				toks[i].Text = pick(r, specialValues)
			}
		case 2: // a special value in place of a word that follows another word (likely an argument, not a keyword)
			if toks[i].Kind == "ident" && i > 0 && toks[i-1].Kind == "ident" {
				toks[i] = tk{Kind: "str", Text: pick(r, specialValues)}
			}
		case 3: // a comment
			toks = append(toks[:i:i], append([]tk{{Kind: "comment", Text: pick(r, []string{"# note", "#", "# { } \" \\", "#ü"})}}, toks[i:]...)...)
		case 4: // append the blocks of another corpus text
			other, err := config.VerifLex(pick(r, corpus))
			if err == nil {
				toks = append(toks, other...)
			}
		case 5: // duplicate a token (multi-value directives, repeated directives)
			toks = append(toks[:i:i], append([]tk{toks[i]}, toks[i:]...)...)
		}
	}
	// print: one token per "word"; a line break after `{`, `}` and comments and — by a coin flip per run — between directives
	var b strings.Builder
	wide := r.chance(50)
	for i, t := range toks {
		switch t.Kind {
		case "ident":
			b.WriteString(t.Text)
		case "str":
			b.WriteString(config.VerifQuoteString(t.Text))
		case "lbrace":
			b.WriteString("{")
		case "rbrace":
			b.WriteString("}")
		case "comment":
			b.WriteString(t.Text)
		}
		nl := t.Kind == "comment" || t.Kind == "lbrace" || t.Kind == "rbrace"
		if !nl && i+1 < len(toks) && (toks[i+1].Kind == "rbrace") {
			nl = true
		}
		if nl {
			b.WriteString("\n")
		} else if wide && r.chance(15) {
			b.WriteString("\t ")
		} else {
			b.WriteString(" ")
		}
	}
	return b.String()
}

type lexRec struct {
	K    string      `json:"k"`
	Src  string      `json:"src"`
	Toks [][2]string `json:"toks"`
	Err  string      `json:"err"`
}

func lexRecord(src string) lexRec {
	toks, err := config.VerifLex(src)
	rec := lexRec{K: "lex", Src: src, Toks: [][2]string{}}
	for _, t := range toks {
		rec.Toks = append(rec.Toks, [2]string{t.Kind, t.Text})
	}
	if err != nil {
		rec.Toks = [][2]string{}
		switch {
		case strings.HasPrefix(err.Error(), "unterminated string"):
			rec.Err = "unterminated string"
		case strings.HasPrefix(err.Error(), "unterminated escape"):
			rec.Err = "unterminated escape"
		default:
			rec.Err = err.Error()
		}
	}
	return rec
}

var lexAlphabet = []string{"\u00a0", "\u200b", "\x7f", "\a", "\v", "\f", "\u2028", "\ufeff", "\x1b", "\x00", "😀", "a", "b", "path", "/x", "on", " ", " ", "\t", "\n", "\n", "\r", "{", "}", "\"", "\"", "#", "\\", "\\n", "\\\"", "\\\\", "\\q", "{$A}", "{env.B}", "{file./p}", "{vars.X}", "{x}", "{$", "{env.", "ü", "€", "{ ", "$", "."}

func randFromAlphabet(r *rng, n int) string {
	var b strings.Builder
	for i := 0; i < n; i++ {
		b.WriteString(pick(r, lexAlphabet))
	}
	return b.String()
}

type rtRec struct {
	K       string `json:"k"`
	Origin  string `json:"origin"`
	Src     string `json:"src"`
	Fmt1    string `json:"fmt1"`
	FmtErr  string `json:"fmtErr"`
	Parse2  string `json:"parse2Err"`
	Same    bool   `json:"same"`
	Diff    string `json:"diff"`
	Idem    bool   `json:"idem"`
	OK1     bool   `json:"ok1"`
	NRoutes int    `json:"nroutes"`
}

// the oracle of the property on one text the parser accepts
func roundTrip(src, origin string) (rtRec, bool) {
	rec := rtRec{K: "roundtrip", Origin: origin, Src: src}
	cfg1, err := config.Parse([]byte(src))
	if err != nil {
		return rec, false
	}
	c1, res1 := config.Compile(cfg1)
	rec.OK1 = res1.OK
	rec.NRoutes = len(c1.Routes)
	d1 := dumpOf(c1) + "|" + resDump(res1)
	f1, err := config.Format(cfg1)
	if err != nil {
		rec.FmtErr = err.Error()
		return rec, true
	}
	rec.Fmt1 = string(f1)
	cfg2, err := config.Parse(f1)
	if err != nil {
		rec.Parse2 = err.Error()
		return rec, true
	}
	c2, res2 := config.Compile(cfg2)
	d2 := dumpOf(c2) + "|" + resDump(res2)
	rec.Same = d1 == d2
	if !rec.Same {
		rec.Diff = dumpDiff(d1, d2)
	}
	f2, err := config.Format(cfg2)
	rec.Idem = err == nil && string(f2) == string(f1)
	return rec, true
}

func cmdCfgFmt(args []string) error {
	fs := flag.NewFlagSet("cfgfmt", flag.ExitOnError)
	seed := fs.Uint64("seed", 1, "seed")
	n := fs.Int("n", 2000, "mutated configuration texts")
	nlex := fs.Int("lex", 3000, "random lexer inputs")
	nq := fs.Int("quote", 3000, "random values for the quoting helpers")
	shard := fs.Int("shard", 0, "shard")
	shards := fs.Int("shards", 1, "number of shards (the corpus itself is split across them)")
	repo := fs.String("repo", "/repo", "repository root (corpus source)")
	outPath := fs.String("out", "-", "output")
	file := fs.String("file", "", "only run the round-trip oracle on this one file (replay)")
	perFamily := fs.Int("perfamily", 30, "spellings per directive family in the pair sweep")
	cli := fs.String("cli", "", "path of the real hookaido binary: `config fmt` is also run through it and through the MCP tool")
	fs.Parse(args)
	if *file != "" {
		b, err := os.ReadFile(*file)
		if err != nil {
			return err
		}
		rec, ok := roundTrip(string(b), "file")
		if !ok {
			return fmt.Errorf("the parser rejects %s", *file)
		}
		j, _ := json.Marshal(rec)
		fmt.Println(string(j))
		return nil
	}
	w := os.Stdout
	if *outPath != "-" {
		f, err := os.Create(*outPath)
		if err != nil {
			return err
		}
		defer f.Close()
		w = f
	}
	out := bufio.NewWriterSize(w, 1<<20)
	defer out.Flush()
	emit := func(v interface{}) {
		b, _ := json.Marshal(v)
		out.Write(b)
		out.WriteByte('\n')
	}
	r := newRng(*seed)
	corpus, fragments := collectCorpus(*repo)
	emit(map[string]interface{}{"k": "corpus", "texts": len(corpus)})
	if len(corpus) == 0 {
		return fmt.Errorf("no configuration text found under %s", *repo)
	}
	// the corpus itself
	for i, src := range corpus {
		if i%*shards != *shard {
			continue
		}
		if rec, ok := roundTrip(src, "corpus"); ok {
			emit(rec)
			if rec.Fmt1 != "" {
				emit(lexRecord(rec.Fmt1))
			}
		}
		emit(lexRecord(src))
	}
	// the front ends of the formatter: the `hookaido config fmt` command of the real binary and the MCP tool
	// config_fmt_preview must print exactly what the formatter produces for the file they are given, and refuse (printing
	// nothing) what does not parse
	if *cli != "" {
		fdir, err := scratchDir()
		if err != nil {
			return err
		}
		defer os.RemoveAll(fdir)
		fpath := filepath.Join(fdir, "Hookaidofile")
		texts := []string{"", "/broken {\n", "# only a comment\n"}
		for i, src := range corpus {
			if i%*shards == *shard && len(texts) < 90 {
				texts = append(texts, src, "# head\r\n"+src, strings.ReplaceAll(src, "\n", "\r\n"))
			}
		}
		for _, src := range texts {
			if err := os.WriteFile(fpath, []byte(src), 0o600); err != nil {
				return err
			}
			want, wantOK := "", false
			if cfg, err := config.Parse([]byte(src)); err == nil {
				if f, err := config.Format(cfg); err == nil {
					want, wantOK = string(f), true
				}
			}
			cmd := exec.Command(*cli, "config", "fmt", "-config", fpath)
			var so, se bytes.Buffer
			cmd.Stdout, cmd.Stderr = &so, &se
			runErr := cmd.Run()
			code := 0
			if ee, ok := runErr.(*exec.ExitError); ok {
				code = ee.ExitCode()
			} else if runErr != nil {
				code = -1
			}
			after, _ := os.ReadFile(fpath)
			// the MCP tool on the same file
			var ob, ab bytes.Buffer
			srv := mcp.NewServer(bytes.NewReader(frame(map[string]interface{}{"jsonrpc": "2.0", "id": 1, "method": "tools/call",
				"params": map[string]interface{}{"name": "config_fmt_preview", "arguments": map[string]interface{}{}}})), &ob, fpath, filepath.Join(fdir, "none.db"), mcp.WithAuditWriter(&ab))
			_ = srv.Serve(context.Background())
			mcpOut, mcpErr := "", true
			for _, fr := range readFrames(ob.Bytes()) {
				if res, ok := fr["result"].(map[string]interface{}); ok {
					if b, _ := res["isError"].(bool); !b {
						if sc, ok := res["structuredContent"].(map[string]interface{}); ok {
							mcpOut, _ = sc["formatted"].(string)
							mcpErr = false
						}
					}
				}
			}
			emit(map[string]interface{}{"k": "fmtfront", "src": src, "parses": wantOK, "cliExit": code, "cliSame": so.String() == want, "cliPrinted": so.Len(), "fileUntouched": string(after) == src,
				"mcpRefused": mcpErr, "mcpSame": mcpOut == want})
		}
	}
	// mutations
	pools := unitPools{}
	chains := unitChains{}
	structured := 0
	for _, src := range corpus {
		if us, ok := parseUnits(src); ok {
			structured++
			pools.collectChains("", us, nil, chains)
		}
	}
	for _, src := range fragments {
		if us, ok := parseUnits(src); ok {
			pools.collectChains("", us, nil, chains)
		}
	}
	// every ordered pair of spellings of one directive family, in a minimal host
	hosts := pairHosts(corpus, func(src string) bool { _, err := compileText(src); return err == nil })
	pairs := pairTexts(pools, chains, hosts, *perFamily)
	accepted := 0
	for i, src := range pairs {
		if i%*shards != *shard {
			continue
		}
		if rec, ok := roundTrip(src, "pair"); ok {
			accepted++
			emit(rec)
		}
	}
	blanks := blankTexts(pools, hosts)
	blankAccepted := 0
	for i, src := range blanks {
		if i%*shards != *shard {
			continue
		}
		if rec, ok := roundTrip(src, "blank"); ok {
			blankAccepted++
			emit(rec)
		}
	}
	// line endings: CR, CRLF and a lone CR in the places where a line end means something (the leading comment block, between
	// directives, inside a block): what is a comment when the file is read must still be a comment after it is written
	crAccepted := 0
	for i, src := range corpus {
		if i%*shards != *shard || i >= 120 {
			continue
		}
		for _, pre := range []string{"# note\rstill the note?\n", "# x\r/evilcr {\n  pull { path /pull/evilcr }\n}\n", "# crlf\r\n# second\r\n", "\r# after a bare CR\n", "# a\r\r\nb-is-not-a-directive\n"} {
			if rec, ok := roundTrip(pre+src, "line-ends"); ok {
				crAccepted++
				emit(rec)
			}
		}
		if rec, ok := roundTrip(strings.ReplaceAll(src, "\n", "\r\n"), "line-ends"); ok {
			crAccepted++
			emit(rec)
		}
		if rec, ok := roundTrip(strings.Replace(src, "\n", "\r", 1), "line-ends"); ok {
			crAccepted++
			emit(rec)
		}
	}
	emit(map[string]interface{}{"k": "corpus", "lineEndVariantsAcceptedThisShard": crAccepted})
	// every sequence of up to four routes over the channel kinds and their two spellings (prefix form, wrapper block):
	// what the formatter groups, splits or re-orders must compile to the same routes in the same order
	seqs := routeSequenceTexts()
	seqAccepted := 0
	for i, src := range seqs {
		if i%*shards != *shard {
			continue
		}
		if rec, ok := roundTrip(src, "routeseq"); ok {
			seqAccepted++
			emit(rec)
		}
	}
	emit(map[string]interface{}{"k": "corpus", "structured": structured, "pools": len(pools), "pairs": len(pairs), "pairsAcceptedThisShard": accepted,
		"routeSequences": len(seqs), "routeSequencesAcceptedThisShard": seqAccepted, "blanks": len(blanks), "blanksAcceptedThisShard": blankAccepted})
	made := 0
	for tries := 0; made < *n && tries < *n*20; tries++ {
		src := pick(r, corpus)
		if r.chance(60) {
			if s2, ok := mutateStructure(r, src, pools); ok {
				src = s2
			}
			if r.chance(40) {
				src = mutateConfigText(r, src, corpus)
			}
		} else {
			src = mutateConfigText(r, src, corpus)
		}
		rec, ok := roundTrip(src, "mutated")
		if !ok {
			continue
		}
		made++
		emit(rec)
		if made%4 == 0 && rec.Fmt1 != "" {
			emit(lexRecord(rec.Fmt1))
		}
	}
	// lexer inputs
	for i := 0; i < *nlex; i++ {
		emit(lexRecord(randFromAlphabet(r, 1+r.intn(12))))
	}
	// quoting helpers
	for i := 0; i < *nq; i++ {
		v := randFromAlphabet(r, r.intn(5))
		if r.chance(30) {
			v = pick(r, specialValues)
		}
		if r.chance(10) {
			v = "/" + v
		}
		q := r.chance(40)
		fv := config.VerifFormatValue(v, q)
		fp := config.VerifFormatRoutePath(v, q)
		emit(map[string]interface{}{"k": "quote", "v": v, "quoted": q, "qs": config.VerifQuoteString(v), "fv": fv, "fp": fp,
			"safe": config.VerifIsUnquotedValueSafe(v), "pathSafe": config.VerifIsUnquotedPathSafe(v), "lexfv": lexRecord(fv), "lexfp": lexRecord(fp)})
	}
	return nil
}

func routeSequenceTexts() []string {
	kinds := []string{"bare", "inbound", "outbound", "internal", "inbound{}", "outbound{}", "internal{}"}
	unit := func(kind string, n int) string {
		body := fmt.Sprintf("pull { path /pull/r%d }", n)
		ch := strings.TrimSuffix(kind, "{}")
		if ch == "outbound" {
			body = fmt.Sprintf("deliver \"https://t%d.example.com/x\" { }", n)
		}
		route := fmt.Sprintf("/r%d {\n  %s\n}\n", n, body)
		switch {
		case kind == "bare":
			return route
		case strings.HasSuffix(kind, "{}"):
			return ch + " {\n" + route + "}\n"
		}
		return ch + " " + route
	}
	var out []string
	var rec func(prefix []string)
	rec = func(prefix []string) {
		if len(prefix) >= 2 {
			var b strings.Builder
			b.WriteString("pull_api { auth token \"raw:t\" }\n")
			for i, k := range prefix {
				b.WriteString(unit(k, i+1))
			}
			out = append(out, b.String())
		}
		if len(prefix) == 4 {
			return
		}
		for _, k := range kinds {
			rec(append(append([]string{}, prefix...), k))
		}
	}
	rec(nil)
	return out
}
