package main

// C05 (bounded delay for a waiting consumer): real-time scenarios on real stores. A consumer is already waiting in a
// long-poll Dequeue when a message becomes due — because a lease held by a crashed consumer runs out, a nack delay
// elapses, a scheduled time arrives, or a message is enqueued. The waiting consumer must be handed the message; the
// record carries how long after the due instant that happened.

import (
	"bufio"
	"encoding/json"
	"flag"
	"fmt"
	"os"
	"path/filepath"
	"sync"
	"time"

	"github.com/nuetzliches/hookaido/internal/queue"
)

func cmdLongPoll(args []string) error {
	fs := flag.NewFlagSet("longpoll", flag.ExitOnError)
	reps := fs.Int("reps", 2, "repetitions of every scenario per backend")
	outPath := fs.String("out", "-", "output")
	_ = fs.Uint64("seed", 1, "unused (real-time scenarios)")
	fs.Parse(args)
	w := os.Stdout
	if *outPath != "-" {
		f, err := os.Create(*outPath)
		if err != nil {
			return err
		}
		defer f.Close()
		w = f
	}
	out := bufio.NewWriterSize(w, 1<<20)
	defer out.Flush()
	dir, err := scratchDir()
	if err != nil {
		return err
	}
	defer os.RemoveAll(dir)
	var mu sync.Mutex
	emit := func(v interface{}) {
		b, _ := json.Marshal(v)
		mu.Lock()
		out.Write(b)
		out.WriteByte('\n')
		mu.Unlock()
	}
	const maxWait = 3 * time.Second
	var wg sync.WaitGroup
	n := 0
	for rep := 0; rep < *reps; rep++ {
		for _, backendName := range []string{"memory", "sqlite"} {
			for _, scenario := range []string{"lease-expires", "nack-delay-elapses", "scheduled-time-arrives", "enqueued-meanwhile"} {
				n++
				wg.Add(1)
				go func(id int, backendName, scenario string) {
					defer wg.Done()
					var store qstore
					if backendName == "memory" {
						store = queue.NewMemoryStore()
					} else {
						s, err := queue.NewSQLiteStore(filepath.Join(dir, fmt.Sprintf("lp%d.db", id)))
						if err != nil {
							emit(map[string]interface{}{"k": "lperror", "err": err.Error()})
							return
						}
						defer s.Close()
						store = s
					}
					var due time.Time
					switch scenario {
					case "lease-expires":
						_ = store.Enqueue(queue.Envelope{ID: "m", Route: "/r", Target: "pull"})
						resp, _ := store.Dequeue(queue.DequeueRequest{Route: "/r", Target: "pull", Batch: 1, LeaseTTL: 250 * time.Millisecond})
						if len(resp.Items) == 1 {
							due = resp.Items[0].LeaseUntil
						}
					case "nack-delay-elapses":
						_ = store.Enqueue(queue.Envelope{ID: "m", Route: "/r", Target: "pull"})
						resp, _ := store.Dequeue(queue.DequeueRequest{Route: "/r", Target: "pull", Batch: 1, LeaseTTL: time.Minute})
						if len(resp.Items) == 1 {
							due = time.Now().Add(300 * time.Millisecond)
							_ = store.Nack(resp.Items[0].LeaseID, 300*time.Millisecond)
						}
					case "scheduled-time-arrives":
						due = time.Now().Add(300 * time.Millisecond)
						_ = store.Enqueue(queue.Envelope{ID: "m", Route: "/r", Target: "pull", NextRunAt: due})
					case "enqueued-meanwhile":
						due = time.Now().Add(200 * time.Millisecond)
						go func() {
							time.Sleep(time.Until(due))
							_ = store.Enqueue(queue.Envelope{ID: "m", Route: "/r", Target: "pull"})
						}()
					}
					if due.IsZero() {
						emit(map[string]interface{}{"k": "lperror", "err": "set-up failed", "scenario": scenario, "backend": backendName})
						return
					}
					start := time.Now()
					resp, err := store.Dequeue(queue.DequeueRequest{Route: "/r", Target: "pull", Batch: 2, LeaseTTL: time.Minute, MaxWait: maxWait})
					end := time.Now()
					rec := map[string]interface{}{"k": "longpoll", "backend": backendName, "scenario": scenario, "maxWaitMs": maxWait.Milliseconds(),
						"dueAfterStartMs": due.Sub(start).Milliseconds(), "returnedAfterMs": end.Sub(start).Milliseconds(), "got": err == nil && len(resp.Items) == 1}
					if err != nil {
						rec["err"] = err.Error()
					}
					if len(resp.Items) == 1 {
						rec["afterDueMs"] = end.Sub(due).Milliseconds()
					}
					emit(rec)
				}(n, backendName, scenario)
			}
		}
	}
	wg.Wait()
	return nil
}
