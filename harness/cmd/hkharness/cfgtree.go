package main

// line-structured view of a configuration text: units (one directive, or one block with its body) keyed by the path of
// block keywords above them, so that directives can be moved between blocks of the same kind across the corpus.

import (
	"sort"
	"strings"

	"github.com/nuetzliches/hookaido/internal/config"
)

type cunit struct {
	lines   []string // header line (block) or all lines (plain unit)
	key     string
	body    []*cunit
	closing string
	block   bool
}

func normKey(first config.VerifToken) string {
	t := first.Text
	switch {
	case first.Kind == "comment":
		return "#"
	case strings.HasPrefix(t, "/"):
		return "ROUTE"
	case t == "inbound" || t == "outbound" || t == "internal":
		return "CHANNEL"
	}
	return t
}

// parseUnits splits src into a unit tree; ok=false when the text is not laid out one directive per line
func parseUnits(src string) ([]*cunit, bool) {
	toks, err := config.VerifLex(src)
	if err != nil {
		return nil, false
	}
	lines := strings.Split(src, "\n")
	n := len(lines)
	delta := make([]int, n+2)
	first := make([]*config.VerifToken, n+2)
	last := make([]*config.VerifToken, n+2)
	for i := range toks {
		t := &toks[i]
		if t.Line < 1 || t.Line > n {
			return nil, false
		}
		if first[t.Line] == nil {
			first[t.Line] = t
		}
		last[t.Line] = t
		switch t.Kind {
		case "lbrace":
			delta[t.Line]++
		case "rbrace":
			delta[t.Line]--
		}
		if t.Kind == "str" && strings.Contains(t.Text, "\n") {
			return nil, false // a string spanning lines: keep such texts out of the line-based mutator
		}
	}
	var parse func(lo, hi int) ([]*cunit, bool)
	parse = func(lo, hi int) ([]*cunit, bool) {
		var out []*cunit
		for i := lo; i <= hi; {
			if first[i] == nil {
				i++
				continue
			}
			sum, j := delta[i], i
			for sum != 0 && j < hi {
				j++
				sum += delta[j]
			}
			if sum != 0 {
				return nil, false
			}
			u := &cunit{key: normKey(*first[i])}
			if j > i && last[i].Kind == "lbrace" && first[j] != nil && first[j].Kind == "rbrace" && first[j] == last[j] {
				body, ok := parse(i+1, j-1)
				if !ok {
					return nil, false
				}
				u.block, u.lines, u.body, u.closing = true, []string{lines[i-1]}, body, lines[j-1]
				// `CHANNEL /path {` is a route, `CHANNEL {` a wrapper of routes
				if u.key == "CHANNEL" {
					cnt := 0
					for k := range toks {
						if toks[k].Line == i {
							cnt++
						}
					}
					if cnt >= 3 {
						u.key = "ROUTE"
					}
				}
			} else {
				for k := i; k <= j; k++ {
					u.lines = append(u.lines, lines[k-1])
				}
			}
			out = append(out, u)
			i = j + 1
		}
		return out, true
	}
	return parse(1, n)
}

func printUnits(us []*cunit, b *strings.Builder) {
	for _, u := range us {
		for _, l := range u.lines {
			b.WriteString(l)
			b.WriteString("\n")
		}
		if u.block {
			printUnits(u.body, b)
			b.WriteString(u.closing)
			b.WriteString("\n")
		}
	}
}

type unitPools map[string][]*cunit

// for every block path one example of the enclosing block headers (outermost first)
type unitChains map[string][]*cunit

func (p unitPools) collect(path string, us []*cunit) {
	p.collectChains(path, us, nil, nil)
}

func (p unitPools) collectChains(path string, us []*cunit, chain []*cunit, chains unitChains) {
	if chains != nil {
		if _, ok := chains[path]; !ok {
			chains[path] = append([]*cunit(nil), chain...)
		}
	}
	for _, u := range us {
		if u.key != "#" {
			p[path] = append(p[path], u)
		}
		if u.block {
			p.collectChains(path+"/"+u.key, u.body, append(append([]*cunit(nil), chain...), u), chains)
		}
	}
}

func unitText(u *cunit) string {
	var b strings.Builder
	printUnits([]*cunit{u}, &b)
	return b.String()
}

func unitNorm(u *cunit) string {
	return strings.Join(strings.Fields(unitText(u)), " ")
}

// index chain of the first block with the given path ("" = top level)
func findBlockPath(us []*cunit, cur, want string) ([]int, bool) {
	if cur == want {
		return []int{}, true
	}
	for i, u := range us {
		if u.block {
			p := cur + "/" + u.key
			if strings.HasPrefix(want, p) {
				if rest, ok := findBlockPath(u.body, p, want); ok {
					return append([]int{i}, rest...), true
				}
			}
		}
	}
	return nil, false
}

type pairHost struct {
	units []*cunit
	idx   []int
}

// hosts: for every block path a whole configuration (preferring one that compiles) containing such a block
func pairHosts(corpus []string, compiles func(string) bool) map[string]pairHost {
	hosts := map[string]pairHost{}
	good := map[string]bool{}
	for _, src := range corpus {
		us, ok := parseUnits(src)
		if !ok {
			continue
		}
		isGood := compiles(src)
		var blocks []blockRef
		allBlocks("", &us, &blocks)
		for _, bl := range blocks {
			if _, have := hosts[bl.path]; have && (good[bl.path] || !isGood) {
				continue
			}
			if idx, ok := findBlockPath(us, "", bl.path); ok {
				hosts[bl.path] = pairHost{us, idx}
				good[bl.path] = isGood
			}
		}
	}
	return hosts
}

// every ordered pair of distinct spellings of the same directive family inside the same kind of block, each pair put
// at the start of such a block inside a whole host configuration (or, without a host, inside the bare block headers)
func pairTexts(pools unitPools, chains unitChains, hosts map[string]pairHost, maxPerFamily int) []string {
	var out []string
	var paths []string
	for p := range pools {
		paths = append(paths, p)
	}
	sortStrings(paths)
	for _, path := range paths {
		fams := map[string][]*cunit{}
		seen := map[string]bool{}
		var order []string
		var cands []*cunit
		for _, u := range pools[path] {
			cands = append(cands, u)
		}
		// a block with several directives also counts once per single directive it contains (`publish { enabled off }`
		// out of `publish { enabled off direct on managed off }`)
		for _, u := range pools[path] {
			if u.block && len(u.body) >= 2 && len(u.body) <= 6 && path != "" {
				for _, child := range u.body {
					if child.key == "#" {
						continue
					}
					c := *u
					c.body = []*cunit{child}
					cands = append(cands, &c)
				}
			}
		}
		for _, u := range cands {
			n := unitNorm(u)
			if seen[n] {
				continue
			}
			seen[n] = true
			f := strings.SplitN(u.key, ".", 2)[0]
			if _, ok := fams[f]; !ok {
				order = append(order, f)
			}
			if len(fams[f]) < maxPerFamily {
				fams[f] = append(fams[f], u)
			}
		}
		render := func(a, b string) string {
			if h, ok := hosts[path]; ok {
				us := cloneUnits(h.units)
				list := &us
				for _, i := range h.idx {
					list = &(*list)[i].body
				}
				ins := []*cunit{{lines: strings.Split(strings.TrimRight(a, "\n"), "\n")}, {lines: strings.Split(strings.TrimRight(b, "\n"), "\n")}}
				*list = append(ins, *list...)
				var sb strings.Builder
				printUnits(us, &sb)
				return sb.String()
			}
			var sb strings.Builder
			chain := chains[path]
			for _, h := range chain {
				sb.WriteString(h.lines[0])
				sb.WriteString("\n")
			}
			sb.WriteString(a)
			sb.WriteString(b)
			for i := len(chain) - 1; i >= 0; i-- {
				sb.WriteString(chain[i].closing)
				sb.WriteString("\n")
			}
			return sb.String()
		}
		for _, f := range order {
			us := fams[f]
			for _, a := range us {
				for _, b := range us {
					ta, tb := unitText(a), unitText(b)
					fa, fb := flipBooleans(ta), flipBooleans(tb)
					out = append(out, render(ta, tb))
					if fa != ta {
						out = append(out, render(fa, tb))
					}
					if fb != tb {
						out = append(out, render(ta, fb))
					}
					if fa != ta && fb != tb {
						out = append(out, render(fa, fb))
					}
				}
			}
		}
	}
	return out
}

var flipRe = map[string]string{"on": "off", "off": "on", "true": "false", "false": "true"}

// the same text with every boolean word flipped (defaults hide a dropped `on`; they do not hide a dropped `off`)
func flipBooleans(src string) string {
	toks, err := config.VerifLex(src)
	if err != nil {
		return src
	}
	lines := strings.Split(src, "\n")
	changed := false
	for _, t := range toks {
		if t.Kind != "ident" || t.Line < 1 || t.Line > len(lines) {
			continue
		}
		if to, ok := flipRe[t.Text]; ok {
			// replace the first whole-word occurrence on that line
			f := strings.Fields(lines[t.Line-1])
			for i, w := range f {
				if w == t.Text {
					f[i] = to
					changed = true
					break
				}
			}
			lines[t.Line-1] = strings.Join(f, " ")
		}
	}
	if !changed {
		return src
	}
	return strings.Join(lines, "\n")
}

type blockRef struct {
	path string
	list *[]*cunit
}

func allBlocks(path string, list *[]*cunit, out *[]blockRef) {
	*out = append(*out, blockRef{path, list})
	for _, u := range *list {
		if u.block {
			allBlocks(path+"/"+u.key, &u.body, out)
		}
	}
}

func cloneUnits(us []*cunit) []*cunit {
	out := make([]*cunit, len(us))
	for i, u := range us {
		c := *u
		c.body = cloneUnits(u.body)
		out[i] = &c
	}
	return out
}

// structural mutation: directives inserted from the same kind of block elsewhere in the corpus, deleted, duplicated, reordered
func mutateStructure(r *rng, src string, pools unitPools) (string, bool) {
	us, ok := parseUnits(src)
	if !ok || len(us) == 0 {
		return "", false
	}
	us = cloneUnits(us)
	for e := 0; e < 1+r.intn(3); e++ {
		var blocks []blockRef
		allBlocks("", &us, &blocks)
		bl := pick(r, blocks)
		list := *bl.list
		switch r.weighted([]int{55, 10, 15, 20}) {
		case 0: // insert a unit of the same kind of block from the corpus
			pool := pools[bl.path]
			if len(pool) == 0 {
				continue
			}
			if len(list) > 0 && r.chance(50) {
				// prefer another spelling of a directive the block already has (publish / publish.direct, shorthand and
				// block forms, repeated directives): that is where parser and formatter tables can disagree
				fam := strings.SplitN(pick(r, list).key, ".", 2)[0]
				var same []*cunit
				for _, c := range pool {
					if strings.SplitN(c.key, ".", 2)[0] == fam {
						same = append(same, c)
					}
				}
				if len(same) > 0 {
					pool = same
				}
			}
			u := cloneUnits([]*cunit{pick(r, pool)})[0]
			i := r.intn(len(list) + 1)
			list = append(list[:i:i], append([]*cunit{u}, list[i:]...)...)
		case 1: // delete
			if len(list) > 0 {
				i := r.intn(len(list))
				list = append(list[:i:i], list[i+1:]...)
			}
		case 2: // duplicate
			if len(list) > 0 {
				i := r.intn(len(list))
				u := cloneUnits([]*cunit{list[i]})[0]
				list = append(list[:i:i], append([]*cunit{u}, list[i:]...)...)
			}
		case 3: // reorder
			if len(list) > 1 {
				i, j := r.intn(len(list)), r.intn(len(list))
				list[i], list[j] = list[j], list[i]
			}
		}
		*bl.list = list
	}
	var b strings.Builder
	printUnits(us, &b)
	return b.String(), true
}

func sortStrings(xs []string) { sort.Strings(xs) }

// deterministic printer of a token list: one space between words, a line break after `{`, `}` and comments and before `}`
func printToks(toks []config.VerifToken) string {
	var b strings.Builder
	for i, t := range toks {
		switch t.Kind {
		case "ident":
			b.WriteString(t.Text)
		case "str":
			b.WriteString(config.VerifQuoteString(t.Text))
		case "lbrace":
			b.WriteString("{")
		case "rbrace":
			b.WriteString("}")
		case "comment":
			b.WriteString(t.Text)
		}
		nl := t.Kind == "comment" || t.Kind == "lbrace" || t.Kind == "rbrace"
		if !nl && i+1 < len(toks) && toks[i+1].Kind == "rbrace" {
			nl = true
		}
		if nl {
			b.WriteString("\n")
		} else {
			b.WriteString(" ")
		}
	}
	return b.String()
}

// every spelling of every directive with one of its values replaced by a blank one ("" and " "), inside a whole host
// configuration: blank values parse, fail validation, and must not be lost by the formatter
func blankTexts(pools unitPools, hosts map[string]pairHost) []string {
	var out []string
	var paths []string
	for p := range pools {
		paths = append(paths, p)
	}
	sortStrings(paths)
	for _, path := range paths {
		h, ok := hosts[path]
		if !ok {
			continue
		}
		seen := map[string]bool{}
		for _, u := range pools[path] {
			n := unitNorm(u)
			if seen[n] {
				continue
			}
			seen[n] = true
			toks, err := config.VerifLex(unitText(u))
			if err != nil {
				continue
			}
			for j := 1; j < len(toks); j++ {
				if toks[j].Kind != "ident" && toks[j].Kind != "str" {
					continue
				}
				// blank values, and quoted values that must stay quoted: a single placeholder-shaped word the lexer would split
				// when written bare, and a value with a space
				for _, blank := range []string{"", " ", "{vars.X}", "a b"} {
					mod := append([]config.VerifToken(nil), toks...)
					mod[j] = config.VerifToken{Kind: "str", Text: blank}
					us := cloneUnits(h.units)
					list := &us
					for _, i := range h.idx {
						list = &(*list)[i].body
					}
					ins := &cunit{lines: strings.Split(strings.TrimRight(printToks(mod), "\n"), "\n")}
					*list = append([]*cunit{ins}, *list...)
					var sb strings.Builder
					printUnits(us, &sb)
					out = append(out, sb.String())
				}
			}
		}
	}
	return out
}
