package main

import (
	"bufio"
	"context"
	"encoding/hex"
	"encoding/json"
	"flag"
	"fmt"
	"io"
	"net/http"
	"net/http/httptest"
	"net/url"
	"os"
	"strings"
	"sync"
	"time"

	"github.com/nuetzliches/hookaido/internal/dispatcher"
)

type jsv struct {
	ID    string `json:"id"`
	Ref   string `json:"ref"`
	From  *int64 `json:"from"`
	Until *int64 `json:"until"`
}

type capture struct {
	mu   sync.Mutex
	reqs []map[string]interface{}
}

func cmdSigning(args []string) error {
	fs := flag.NewFlagSet("signing", flag.ExitOnError)
	seed := fs.Uint64("seed", 1, "seed")
	n := fs.Int("n", 600, "cases")
	outPath := fs.String("out", "-", "output")
	fs.Parse(args)
	w := os.Stdout
	if *outPath != "-" {
		f, err := os.Create(*outPath)
		if err != nil {
			return err
		}
		defer f.Close()
		w = f
	}
	out := bufio.NewWriterSize(w, 1<<20)
	defer out.Flush()
	emit := func(v interface{}) {
		b, _ := json.Marshal(v)
		out.Write(b)
		out.WriteByte('\n')
	}
	r := newRng(*seed)
	cap := &capture{}
	var redirectTo string
	redirectCode := http.StatusTemporaryRedirect
	srv := httptest.NewServer(http.HandlerFunc(func(w http.ResponseWriter, req *http.Request) {
		body, _ := io.ReadAll(req.Body)
		cap.mu.Lock()
		cap.reqs = append(cap.reqs, map[string]interface{}{"method": req.Method, "escapedPath": req.URL.EscapedPath(), "sig": strings.Join(req.Header.Values("X-Hookaido-Signature"), ","),
			"ts": strings.Join(req.Header.Values("X-Hookaido-Timestamp"), ","), "body": hex.EncodeToString(body), "sigAlt": strings.Join(req.Header.Values("X-Sig"), ","), "tsAlt": strings.Join(req.Header.Values("X-Ts"), ",")})
		rt := redirectTo
		redirectTo = ""
		cap.mu.Unlock()
		if rt != "" {
			w.Header().Set("Location", rt)
			w.WriteHeader(redirectCode)
			return
		}
		w.WriteHeader(200)
	}))
	defer srv.Close()
	sec := int64(time.Second)
	paths := []string{"/hook", "", "/", "/a b", "/a%20b", "/ü", "/x/../y", "/p?q=1&r=2", "/a+b", "/%2F", "/very/long/path/segment"}
	for i := 0; i < *n; i++ {
		base := int64(1_700_000_000) * sec
		nv := pick(r, []int{0, 1, 2, 3, 3, 4})
		var versions []dispatcher.HMACSigningSecretVersion
		var jv []jsv
		keys := map[string]interface{}{}
		for k := 0; k < nv; k++ {
			id := pick(r, []string{"a", "b", "aa", "S1", "S2", "0", "z"}) + fmt.Sprint(k)
			ref := fmt.Sprintf("raw:k-%s-%x", id, r.u64()&0xfff)
			keys[ref] = hex.EncodeToString([]byte(ref[4:]))
			v := dispatcher.HMACSigningSecretVersion{ID: id, Ref: ref}
			j := jsv{ID: id, Ref: ref}
			if !r.chance(5) {
				f := base + int64(pick(r, []int{-100, -50, -10, 0, 0, 10, 50}))*sec
				v.ValidFrom = time.Unix(0, f).UTC()
				j.From = &f
				if r.chance(60) {
					u := f + int64(pick(r, []int{10, 50, 60, 100, 150}))*sec
					v.ValidUntil, v.HasUntil = time.Unix(0, u).UTC(), true
					j.Until = &u
				}
			}
			if r.chance(4) {
				v.Ref, j.Ref = "", ""
			} else if r.chance(4) {
				v.Ref, j.Ref = "env:HOOKAIDO_VERIF_UNSET_"+id, "env:HOOKAIDO_VERIF_UNSET_"+id
				keys[j.Ref] = nil
			}
			versions = append(versions, v)
			jv = append(jv, j)
		}
		direct := ""
		if nv == 0 || r.chance(15) {
			direct = fmt.Sprintf("raw:direct-%x", r.u64()&0xfff)
			keys[direct] = hex.EncodeToString([]byte(direct[4:]))
			if r.chance(8) {
				direct = ""
			}
		}
		mode := pick(r, []string{"newest_valid", "oldest_valid", "", "NEWEST_VALID "})
		// signing instant: on and next to every window boundary
		var instants []int64
		for _, j := range jv {
			if j.From != nil {
				instants = append(instants, *j.From, *j.From-1, *j.From+1, *j.From-sec, *j.From+sec)
			}
			if j.Until != nil {
				instants = append(instants, *j.Until, *j.Until-1, *j.Until+1, *j.Until-sec)
			}
		}
		instants = append(instants, base, base+5*sec+123456789)
		now := pick(r, instants)
		p := pick(r, paths)
		method := pick(r, []string{"POST", "POST", "post", "PUT", ""})
		body := []byte(pick(r, []string{"", "{}", "payload \x00\xff", "{\"k\":\"v\"}"}))
		cfg := &dispatcher.HMACSigningConfig{SecretRef: direct, SecretVersions: versions, SecretSelection: mode,
			SignatureHeader: "X-Hookaido-Signature", TimestampHeader: "X-Hookaido-Timestamp"}
		alt := r.chance(15)
		if alt {
			cfg.SignatureHeader, cfg.TimestampHeader = " X-Sig ", "X-Ts"
		}
		redirect := r.chance(12)
		hd := dispatcher.NewHTTPDeliverer(&http.Client{Timeout: 3 * time.Second}, dispatcher.EgressPolicy{Redirects: redirect})
		// one delivery in five runs on a clock that moves with every reading (starting just before the chosen instant): stamp,
		// signature and the choice of the version must still all belong to ONE of the instants that were read
		var reads []int64
		ticking := r.chance(20)
		if ticking {
			start, stepNS := now-100*int64(time.Millisecond), pick(r, []int64{300, 700, 1000})*int64(time.Millisecond)
			hd.Now = func() time.Time {
				t := start + int64(len(reads))*stepNS
				reads = append(reads, t)
				return time.Unix(0, t).UTC()
			}
		} else {
			hd.Now = func() time.Time { return time.Unix(0, now).UTC() }
		}
		target := srv.URL + p
		u, perr := url.Parse(target)
		cap.mu.Lock()
		cap.reqs = nil
		if redirect {
			redirectTo = srv.URL + "/redirected/elsewhere"
			// 307/308 repeat method and body; 301/302/303 turn a POST into a bodyless GET
			redirectCode = pick(r, []int{307, 307, 308, 301, 302, 303})
		}
		cap.mu.Unlock()
		hdr := http.Header{"Content-Type": {"application/json"}}
		if cfg != nil && r.chance(30) {
			// the stored message already carries headers with the signing header names (a chained gateway, or the sender's own)
			hdr.Set(strings.TrimSpace(cfg.SignatureHeader), "stale-signature-from-upstream")
			hdr.Set(strings.TrimSpace(cfg.TimestampHeader), "1")
		}
		res := hd.Deliver(context.Background(), dispatcher.Delivery{ID: "e", Target: target, Method: method, URL: target, Header: hdr, Body: body, Sign: cfg})
		cap.mu.Lock()
		got := append([]map[string]interface{}{}, cap.reqs...)
		redirectTo = ""
		cap.mu.Unlock()
		if alt {
			for _, g := range got {
				g["sig"], g["ts"] = g["sigAlt"], g["tsAlt"]
			}
		}
		rec := map[string]interface{}{"k": "sign", "mode": mode, "versions": jv, "direct": direct, "now": now, "method": method, "body": hex.EncodeToString(body), "keys": keys,
			"requests": got, "status": res.StatusCode, "redirect": redirect}
		if perr == nil {
			rec["escapedPath"] = u.EscapedPath()
		}
		if ticking {
			if reads == nil {
				reads = []int64{}
			}
			rec["reads"] = reads
		}
		if res.Err != nil {
			rec["err"] = res.Err.Error()
		}
		if jv == nil {
			rec["versions"] = []jsv{}
		}
		emit(rec)
	}
	return nil
}
