package main

// The pull layer (internal/pullapi: Server.Dequeue / AckSingle / AckBatch / NackSingle / NackBatch / Extend with the
// recently-completed-lease idempotency cache) on top of the real memory and SQLite stores, driven operation by
// operation with an injected clock.  Every step records the answer, the number of store calls it made, the complete
// queue content and the complete cache afterwards.  Store-level operations in between (enqueue, operator cancel /
// requeue) are recorded as queue steps.  Plus: the configured-maximum scenario through the real configuration wiring.

import (
	"bufio"
	"bytes"
	"context"
	"encoding/json"
	"flag"
	"fmt"
	"net/http/httptest"
	"os"
	"path/filepath"
	"strings"
	"time"

	"github.com/nuetzliches/hookaido/internal/app"
	"github.com/nuetzliches/hookaido/internal/pullapi"
	"github.com/nuetzliches/hookaido/internal/queue"
	"github.com/nuetzliches/hookaido/internal/workerapi"
	workerapipb "github.com/nuetzliches/hookaido/internal/workerapi/proto"
	"google.golang.org/grpc/codes"
	"google.golang.org/grpc/status"
	"google.golang.org/protobuf/types/known/durationpb"
)

type countStore struct {
	qstore
	calls int
}

func (c *countStore) Dequeue(r queue.DequeueRequest) (queue.DequeueResponse, error) {
	c.calls++
	return c.qstore.Dequeue(r)
}
func (c *countStore) Ack(l string) error                   { c.calls++; return c.qstore.Ack(l) }
func (c *countStore) Nack(l string, d time.Duration) error { c.calls++; return c.qstore.Nack(l, d) }
func (c *countStore) Extend(l string, d time.Duration) error {
	c.calls++
	return c.qstore.Extend(l, d)
}
func (c *countStore) MarkDead(l string, r string) error { c.calls++; return c.qstore.MarkDead(l, r) }
func (c *countStore) AckBatch(ls []string) (queue.LeaseBatchResult, error) {
	c.calls++
	return c.qstore.AckBatch(ls)
}
func (c *countStore) NackBatch(ls []string, d time.Duration) (queue.LeaseBatchResult, error) {
	c.calls++
	return c.qstore.NackBatch(ls, d)
}
func (c *countStore) MarkDeadBatch(ls []string, r string) (queue.LeaseBatchResult, error) {
	c.calls++
	return c.qstore.MarkDeadBatch(ls, r)
}

type jpcfg struct {
	MaxBatch   int   `json:"maxBatch"`
	DefaultTTL int64 `json:"defaultTTL"`
	MaxTTL     int64 `json:"maxTTL"`
	RecentTTL  int64 `json:"recentTTL"`
	RecentCap  int   `json:"recentCap"`
}

type jpop struct {
	T      string   `json:"t"`
	Route  string   `json:"route,omitempty"`
	Batch  int      `json:"batch"`
	TTL    *int64   `json:"ttl"`
	L      string   `json:"l"`
	Ls     []string `json:"ls"`
	Dead   bool     `json:"dead"`
	Reason string   `json:"reason"`
	Delay  int64    `json:"delay"`
	By     int64    `json:"by"`
}

type jpresp struct {
	Status     int              `json:"status"`
	Succeeded  int              `json:"succeeded"`
	Conflicts  [][2]interface{} `json:"conflicts"`
	Picks      [][2]string      `json:"picks"`
	StoreCalls int              `json:"storeCalls"`
}

func cmdPullOps(args []string) error {
	fs := flag.NewFlagSet("pullops", flag.ExitOnError)
	seed := fs.Uint64("seed", 1, "seed")
	traces := fs.Int("traces", 20, "traces")
	steps := fs.Int("steps", 120, "steps per trace")
	outPath := fs.String("out", "-", "output")
	fs.Parse(args)
	w := os.Stdout
	if *outPath != "-" {
		f, err := os.Create(*outPath)
		if err != nil {
			return err
		}
		defer f.Close()
		w = f
	}
	out := bufio.NewWriterSize(w, 1<<20)
	defer out.Flush()
	emit := func(v interface{}) {
		b, _ := json.Marshal(v)
		out.Write(b)
		out.WriteByte('\n')
	}
	dir, err := scratchDir()
	if err != nil {
		return err
	}
	defer os.RemoveAll(dir)

	for t := 0; t < *traces; t++ {
		r := newRng(*seed*7919 + uint64(t))
		clock := &fakeClock{now: 1_700_000_000_000_000_000 + int64(t)*int64(time.Hour)}
		qc := jcfg{Backend: pick(r, []string{"memory", "sqlite"})}
		qc.Memory = qc.Backend == "memory"
		if !qc.Memory {
			qc.Sweep = int64(10 * time.Millisecond)
		}
		if r.chance(30) {
			qc.DeliveredRet, qc.PruneInterval = int64(300e9), int64(5e9)
		}
		if r.chance(25) {
			qc.DlqRet, qc.DlqDepth, qc.PruneInterval = int64(300e9), 50, int64(5e9)
		}
		qc.PressureItems = effectivePressure(qc)
		be := &backend{cfg: qc, clock: clock, path: filepath.Join(dir, fmt.Sprintf("pull%d.db", t))}
		if err := be.open(); err != nil {
			return err
		}
		cs := &countStore{qstore: be.store()}
		pc := jpcfg{MaxBatch: pick(r, []int{100, 100, 3, 5, 0, 250}), DefaultTTL: pick(r, []int64{int64(30 * time.Second), int64(30 * time.Second), int64(45 * time.Second), int64(2 * time.Minute)}), MaxTTL: pick(r, []int64{0, 0, int64(20 * time.Second)}),
			RecentTTL: pick(r, []int64{int64(2 * time.Minute), int64(10 * time.Second), int64(10 * time.Second), 0}), RecentCap: pick(r, []int{20000, 20000, 3, 2, 0})}
		srv := pullapi.NewServer(cs)
		srv.MaxBatch, srv.DefaultLeaseTTL, srv.MaxLeaseTTL = pc.MaxBatch, time.Duration(pc.DefaultTTL), time.Duration(pc.MaxTTL)
		srv.RecentLeaseOpTTL, srv.RecentLeaseOpCap = time.Duration(pc.RecentTTL), pc.RecentCap
		srv.VerifSetNow(clock.Now)
		srv.ResolveRoute = func(endpoint string) (string, bool) { return "/r", endpoint == "/pull/r" }
		// batch operations go through the real HTTP handler: ids reach the pull layer the way a transport hands them over
		// (trimmed, blanks dropped, first occurrences only); what the layer receives is what the record carries
		httpBatch := func(opName string, raw []string, extra map[string]interface{}) (norm []string, code int, succeeded int, conflicts [][2]interface{}) {
			seen := map[string]bool{}
			for _, x := range raw {
				id := strings.TrimSpace(x)
				if id == "" || seen[id] {
					continue
				}
				seen[id] = true
				norm = append(norm, id)
			}
			body := map[string]interface{}{"lease_ids": raw}
			for k, v := range extra {
				body[k] = v
			}
			b, _ := json.Marshal(body)
			req := httptest.NewRequest("POST", "http://ex/pull/r/"+opName, bytes.NewReader(b))
			rr := httptest.NewRecorder()
			srv.ServeHTTP(rr, req)
			var out struct {
				Acked     int `json:"acked"`
				Succeeded int `json:"succeeded"`
				Conflicts []struct {
					LeaseID string `json:"lease_id"`
					Reason  string `json:"reason"`
				} `json:"conflicts"`
			}
			_ = json.Unmarshal(rr.Body.Bytes(), &out)
			for _, c := range out.Conflicts {
				conflicts = append(conflicts, [2]interface{}{c.LeaseID, c.Reason == "lease_expired"})
			}
			return norm, rr.Code, out.Acked + out.Succeeded, conflicts
		}
		ws := workerapi.NewServer(srv)
		ws.ResolveRoute = srv.ResolveRoute
		grpcStatus := func(err error) int {
			switch status.Code(err) {
			case codes.OK:
				return 204
			case codes.InvalidArgument:
				return 400
			case codes.FailedPrecondition:
				return 409
			case codes.Unavailable:
				return 503
			case codes.NotFound:
				return 404
			}
			return 500
		}
		// a single operation through the real HTTP handler
		httpSingle := func(opName string, body map[string]interface{}) int {
			b, _ := json.Marshal(body)
			req := httptest.NewRequest("POST", "http://ex/pull/r/"+opName, bytes.NewReader(b))
			rr := httptest.NewRecorder()
			srv.ServeHTTP(rr, req)
			return rr.Code
		}
		emit(map[string]interface{}{"k": "pcfg", "trace": t, "cfg": qc, "pcfg": pc})

		var leases []string // every lease id ever issued, oldest first
		live := map[string]string{}
		nextID := 0
		snapshot := func() []jmsg {
			s, _ := be.snapshot()
			return s
		}
		qstep := func(op jop) {
			resp := be.exec(op)
			emit(map[string]interface{}{"k": "qstep", "now": clock.now, "op": op, "resp": resp, "after": snapshot()})
		}
		someLease := func() string {
			switch k := r.weighted([]int{55, 18, 10, 10, 7}); {
			case k == 0 && len(live) > 0:
				ids := make([]string, 0, len(live))
				for _, l := range leases {
					if _, ok := live[l]; ok {
						ids = append(ids, l)
					}
				}
				if len(ids) > 0 {
					return pick(r, ids)
				}
			case k == 1 && len(leases) > 0:
				return pick(r, leases) // possibly an earlier epoch, possibly already settled
			case k == 2:
				return fmt.Sprintf("lease_unknown_%d", r.intn(5))
			case k == 3 && len(leases) > 0:
				return pick(r, []string{" ", "\t", ""}) + pick(r, leases) + pick(r, []string{" ", "\n", ""})
			case k == 4:
				return pick(r, []string{"", " ", "\t "})
			}
			if len(leases) > 0 {
				return pick(r, leases)
			}
			return "lease_none"
		}
		for i := 0; i < *steps; i++ {
			switch r.weighted([]int{50, 14, 10, 10, 8, 8}) {
			case 0:
				clock.now += int64(r.intn(3000)) * int64(time.Millisecond)
			case 1:
				clock.now += int64(r.intn(20)) * int64(time.Millisecond)
			case 2:
				clock.now += int64(8+r.intn(6)) * int64(time.Second)
			case 3:
				clock.now += int64(28+r.intn(5)) * int64(time.Second)
			case 4:
				clock.now += pc.RecentTTL - int64(time.Second) + int64(r.intn(3))*int64(time.Second)
			case 5:
			}
			if clock.now < 0 {
				clock.now = 0
			}
			switch k := r.weighted([]int{22, 4, 3, 18, 14, 9, 10, 7, 7, 6}); k {
			case 0: // enqueue
				e := jenv{ID: fmt.Sprintf("m%d", nextID), Route: pick(r, []string{"/r", "/r", "/s"}), Target: "pull", Payload: "00"}
				nextID++
				if r.chance(15) {
					e.Next = clock.now + int64(1+r.intn(8))*int64(time.Second)
				}
				qstep(jop{T: "enqueue", E: &e})
			case 1, 2: // operator voids or requeues messages (possibly leased ones)
				snap := snapshot()
				if len(snap) == 0 {
					continue
				}
				ids := []string{pick(r, snap).ID}
				if k == 1 {
					qstep(jop{T: "cancel", IDs: ids})
				} else {
					qstep(jop{T: "requeue", IDs: ids})
				}
			default:
				var op jpop
				var resp jpresp
				http := 0
				via := "ops"
				cs.calls = 0
				single := func(oe *pullapi.OpError) {
					resp.Status = 204
					if oe != nil {
						resp.Status = oe.StatusCode
					}
				}
				switch k {
				case 3: // dequeue
					op = jpop{T: "dequeue", Route: pick(r, []string{"/r", "/r", "/s"}), Batch: pick(r, []int{1, 1, 2, 3, 5, 0, -1, 101, 150, 300})}
					params := pullapi.DequeueParams{Batch: op.Batch, HasMaxWait: true}
					if r.chance(50) {
						ttl := pick(r, []int64{int64(10 * time.Second), int64(10500 * time.Millisecond), int64(30 * time.Second), int64(5 * time.Minute), 0})
						op.TTL = &ttl
						params.LeaseTTL, params.HasLeaseTTL = time.Duration(ttl), true
					}
					var items []queue.Envelope
					resp.Status = 200
					if op.Route == "/r" && op.Batch >= 0 && r.chance(35) {
						via = "grpc"
						req := &workerapipb.DequeueRequest{Endpoint: "/pull/r", Batch: uint32(op.Batch)}
						if r.chance(50) {
							req.MaxWait = durationpb.New(0) // present or absent: the default wait is zero either way
						}
						if op.TTL != nil {
							req.LeaseTtl = durationpb.New(time.Duration(*op.TTL))
						}
						out, err := ws.Dequeue(context.Background(), req)
						if err != nil {
							resp.Status = grpcStatus(err)
						} else {
							for _, it := range out.Items {
								items = append(items, queue.Envelope{ID: it.Id, LeaseID: it.LeaseId})
							}
						}
					} else {
						res, oe := srv.Dequeue(op.Route, params)
						if oe != nil {
							resp.Status = oe.StatusCode
						}
						items = res.Items
					}
					for _, it := range items {
						resp.Picks = append(resp.Picks, [2]string{it.ID, it.LeaseID})
						leases = append(leases, it.LeaseID)
						live[it.LeaseID] = it.ID
					}
				case 4:
					op = jpop{T: "ack", L: someLease()}
					switch via = pick(r, []string{"ops", "http", "grpc"}); via {
					case "http":
						resp.Status = httpSingle("ack", map[string]interface{}{"lease_id": op.L})
					case "grpc":
						_, err := ws.Ack(context.Background(), &workerapipb.AckRequest{Endpoint: "/pull/r", LeaseId: op.L})
						resp.Status = grpcStatus(err)
					default:
						single(srv.AckSingle("/r", op.L))
					}
				case 5:
					op = jpop{T: "nack", L: someLease(), Dead: r.chance(25), Reason: "verif", Delay: pick(r, []int64{0, int64(750 * time.Millisecond), int64(1500 * time.Millisecond), int64(2 * time.Second), int64(10 * time.Second), -int64(time.Second)})}
					via = pick(r, []string{"ops", "http", "grpc"})
					if op.Delay < 0 {
						via = "ops" // the transports have their own rules for malformed durations
					}
					switch via {
					case "http":
						body := map[string]interface{}{"lease_id": op.L, "delay": time.Duration(op.Delay).String()}
						if op.Dead {
							body["dead"], body["reason"] = true, op.Reason
						}
						resp.Status = httpSingle("nack", body)
					case "grpc":
						_, err := ws.Nack(context.Background(), &workerapipb.NackRequest{Endpoint: "/pull/r", LeaseId: op.L, Delay: durationpb.New(time.Duration(op.Delay)), Dead: op.Dead, Reason: op.Reason})
						resp.Status = grpcStatus(err)
					default:
						single(srv.NackSingle("/r", op.L, op.Dead, op.Reason, time.Duration(op.Delay)))
					}
				case 6:
					op = jpop{T: "extend", L: someLease(), By: pick(r, []int64{int64(10 * time.Second), int64(30 * time.Second), int64(5 * time.Minute), int64(1250 * time.Millisecond), int64(time.Second), int64(500 * time.Millisecond), int64(999 * time.Millisecond), 1, 0, -int64(time.Second)})}
					via = pick(r, []string{"ops", "http", "grpc"})
					if op.By <= 0 {
						via = "ops"
					}
					switch via {
					case "http":
						resp.Status = httpSingle("extend", map[string]interface{}{"lease_id": op.L, "extend_by": time.Duration(op.By).String()})
					case "grpc":
						_, err := ws.Extend(context.Background(), &workerapipb.ExtendRequest{Endpoint: "/pull/r", LeaseId: op.L, ExtendBy: durationpb.New(time.Duration(op.By))})
						resp.Status = grpcStatus(err)
					default:
						single(srv.Extend("/r", op.L, time.Duration(op.By)))
					}
				case 7, 8, 9:
					var raw []string
					for j := 0; j < 1+r.intn(5); j++ {
						raw = append(raw, someLease())
					}
					if r.chance(20) && len(raw) > 1 {
						raw[len(raw)-1] = raw[0]
					}
					name, extra := "ack", map[string]interface{}{}
					op = jpop{T: "ack_batch"}
					if k == 9 {
						name = "nack"
						op = jpop{T: "nack_batch", Dead: r.chance(25), Reason: "verif", Delay: pick(r, []int64{0, int64(2 * time.Second), int64(10 * time.Second)})}
						extra["delay"] = time.Duration(op.Delay).String()
						if op.Dead {
							extra["dead"], extra["reason"] = true, op.Reason
						}
					}
					norm, code, succ, conf := httpBatch(name, raw, extra)
					if len(norm) == 0 {
						// nothing to hand over: the transport answers 400 without consulting the layer
						emit(map[string]interface{}{"k": "pbad", "now": clock.now, "raw": raw, "http": code, "storeCalls": cs.calls, "after": snapshot()})
						continue
					}
					op.Ls = norm
					http = code
					resp.Status, resp.Succeeded, resp.Conflicts = 200, succ, conf
					if code != 200 && code != 409 {
						resp.Status = code
					}
				}
				if op.Ls == nil {
					op.Ls = []string{}
				}
				if resp.Conflicts == nil {
					resp.Conflicts = [][2]interface{}{}
				}
				if resp.Picks == nil {
					resp.Picks = [][2]string{}
				}
				resp.StoreCalls = cs.calls
				// keep the generator's idea of "currently held" leases roughly right (bias only)
				if (op.T == "ack" || op.T == "nack") && resp.Status == 204 {
					delete(live, strings.TrimSpace(op.L))
				}
				if op.T == "ack_batch" || op.T == "nack_batch" {
					bad := map[string]bool{}
					for _, c := range resp.Conflicts {
						bad[fmt.Sprint(c[0])] = true
					}
					for _, l := range op.Ls {
						if !bad[l] {
							delete(live, l)
						}
					}
				}
				cache := [][3]interface{}{}
				for _, e := range srv.VerifRecentLeaseOps() {
					cache = append(cache, [3]interface{}{e.LeaseID, e.Op, e.ExpiresAt.UnixNano()})
				}
				emit(map[string]interface{}{"k": "pstep", "now": clock.now, "op": op, "resp": resp, "http": http, "via": via, "after": snapshot(), "cache": cache})
			}
		}
		be.close()
		_ = os.Remove(be.path)
	}

	// the configured maximum through the real wiring: config text -> compile -> PullServer; N ready messages, one dequeue
	for _, mb := range []int{0, 1, 7, 100, 101, 250, 500} {
		text := "pull_api {\n  auth token raw:t\n"
		if mb > 0 {
			text += fmt.Sprintf("  max_batch %d\n", mb)
		}
		text += "}\n/r {\n  pull {\n    path /pull/r\n  }\n}\n"
		compiled, err := compileText(text)
		if err != nil {
			emit(map[string]interface{}{"k": "cfgerror", "err": err.Error(), "text": text})
			continue
		}
		rt, err := app.VerifNewRuntime(compiled, nil)
		if err != nil {
			continue
		}
		for _, ready := range []int{0, 5, 99, 100, 101, 150, 320} {
			for _, batch := range []int{0, 1, 50, 100, 101, 200, 1000} {
				store := queue.NewMemoryStore()
				for i := 0; i < ready; i++ {
					_ = store.Enqueue(queue.Envelope{ID: fmt.Sprintf("m%d", i), Route: "/r", Target: "pull"})
				}
				res, oe := rt.PullServer(store).Dequeue("/r", pullapi.DequeueParams{Batch: batch, HasMaxWait: true})
				status := 200
				if oe != nil {
					status = oe.StatusCode
				}
				emit(map[string]interface{}{"k": "maxbatch", "configured": mb, "compiledMax": compiled.PullAPI.MaxBatch, "ready": ready, "batch": batch, "status": status, "got": len(res.Items)})
			}
		}
	}
	return nil
}
