package main

import (
	"bufio"
	"bytes"
	"encoding/json"
	"flag"
	"fmt"
	"math/big"
	"net"
	"net/http"
	"net/http/httptest"
	"net/netip"
	"net/url"
	"os"
	"path"
	"sort"
	"strings"
	"time"

	"github.com/nuetzliches/hookaido/internal/app"
	"github.com/nuetzliches/hookaido/internal/config"
	"github.com/nuetzliches/hookaido/internal/queue"
)

type jprefix struct {
	V4   bool     `json:"v4"`
	Base *big.Int `json:"base"`
	Bits int      `json:"bits"`
}

type jroute struct {
	Channel      string      `json:"channel"`
	Path         string      `json:"path"`
	Methods      []string    `json:"methods"`
	Hosts        []string    `json:"hosts"`
	Headers      [][2]string `json:"headers"`
	HeaderExists []string    `json:"headerExists"`
	Query        [][2]string `json:"query"`
	QueryExists  []string    `json:"queryExists"`
	RemoteIPs    []jprefix   `json:"remoteIPs"`
	Targets      []string    `json:"targets"`
}

func routeJSON(rt config.CompiledRoute, pullTarget string) jroute {
	j := jroute{Channel: string(rt.ChannelType), Path: rt.Path, Methods: append([]string{}, rt.Match.Methods...), Hosts: append([]string{}, rt.Match.Hosts...),
		Headers: [][2]string{}, HeaderExists: append([]string{}, rt.Match.HeaderExists...), Query: [][2]string{}, QueryExists: append([]string{}, rt.Match.QueryExists...),
		RemoteIPs: []jprefix{}, Targets: []string{}}
	for _, h := range rt.Match.Headers {
		j.Headers = append(j.Headers, [2]string{h.Name, h.Value})
	}
	for _, q := range rt.Match.Query {
		j.Query = append(j.Query, [2]string{q.Name, q.Value})
	}
	for _, p := range rt.Match.RemoteIPs {
		a := p.Addr()
		j.RemoteIPs = append(j.RemoteIPs, jprefix{V4: a.Is4(), Base: new(big.Int).SetBytes(a.AsSlice()), Bits: p.Bits()})
	}
	for _, d := range rt.Deliveries {
		j.Targets = append(j.Targets, d.URL)
	}
	if len(j.Targets) == 0 {
		j.Targets = []string{pullTarget}
	}
	return j
}

type jreq struct {
	RawPath string              `json:"rawPath"`
	Path    string              `json:"path"` // path.Clean(r.URL.Path), as the handler computes it
	Method  string              `json:"method"`
	Host    string              `json:"host"`
	Headers [][]interface{}     `json:"headers"` // [name, [values]]
	Query   [][]interface{}     `json:"query"`
	Remote  interface{}         `json:"remote"` // parsed remote ip or null
	RemoteS string              `json:"remoteAddr"`
	hdr     map[string][]string `json:"-"`
}

// independent re-implementation of "what is the client's IP" (host part of RemoteAddr, brackets stripped, unmapped)
func remoteIPOf(remoteAddr string) interface{} {
	raw := strings.TrimSpace(remoteAddr)
	if raw == "" {
		return nil
	}
	if h, _, err := net.SplitHostPort(raw); err == nil {
		raw = h
	}
	raw = strings.Trim(raw, "[]")
	a, err := netip.ParseAddr(raw)
	if err != nil {
		return nil
	}
	a = a.Unmap()
	if a.Zone() != "" {
		return map[string]interface{}{"v4": false, "n": new(big.Int).SetBytes(a.AsSlice()), "zone": a.Zone()}
	}
	return ipJSON(net.IP(a.AsSlice()))
}

func sortedPairs(m map[string][]string) [][]interface{} {
	keys := make([]string, 0, len(m))
	for k := range m {
		keys = append(keys, k)
	}
	sort.Strings(keys)
	out := make([][]interface{}, 0, len(keys))
	for _, k := range keys {
		out = append(out, []interface{}{k, m[k]})
	}
	return out
}

var cfgPaths = []string{"/a", "/a/b", "/a-b", "/", "/jobs", "/int", "/x/y/z", "/hooks", "/A"}
var cfgHosts = []string{"example.com", "*.example.com", "api.example.com", "*", "EXAMPLE.org", "[::1]", "localhost", "*.b.example.com", "*.example.com.", "example.org.", "*.B.Example.com."}
var cfgMethods = []string{"POST", "PUT", "GET", "DELETE", "PATCH"}

// one match block as generated: the text of its directives and what it means
type genMatch struct {
	lines []string
	m     jroute // only the match fields are used
}

// what a host pattern of a `match { host … }` directive means, stated here independently of the compiler: case does not
// matter, a trailing dot (FQDN form) does not matter, `*` alone is every host, `*.d` is the sub-domains of d, an IPv6
// literal may be bracketed. (The generator never writes ports or URLs into patterns.)
func normHostPattern(h string) string {
	v := strings.TrimSuffix(strings.ToLower(strings.TrimSpace(h)), ".")
	if strings.HasPrefix(v, "[") && strings.HasSuffix(v, "]") {
		v = strings.Trim(v, "[]")
	}
	return v
}

func genMatchBlock(r *rng, indent string) genMatch {
	g := genMatch{}
	if r.chance(50) {
		for k := 0; k < 1+r.intn(3); k++ {
			m := pick(r, cfgMethods)
			g.lines = append(g.lines, fmt.Sprintf("%smethod %s\n", indent, m))
			g.m.Methods = append(g.m.Methods, m)
		}
	}
	if r.chance(45) {
		for k := 0; k < 1+r.intn(3); k++ {
			h := pick(r, cfgHosts)
			g.lines = append(g.lines, fmt.Sprintf("%shost \"%s\"\n", indent, h))
			g.m.Hosts = append(g.m.Hosts, normHostPattern(h))
		}
	}
	if r.chance(25) {
		n, v := pick(r, []string{"X-Event", "x-event", "X-Kind"}), pick(r, []string{"push", "pull", "a b"})
		g.lines = append(g.lines, fmt.Sprintf("%sheader \"%s\" \"%s\"\n", indent, n, v))
		g.m.Headers = append(g.m.Headers, [2]string{http.CanonicalHeaderKey(n), v})
	}
	if r.chance(15) {
		n := pick(r, []string{"X-Delivery", "x-event"})
		g.lines = append(g.lines, fmt.Sprintf("%sheader_exists \"%s\"\n", indent, n))
		g.m.HeaderExists = append(g.m.HeaderExists, http.CanonicalHeaderKey(n))
	}
	if r.chance(20) {
		n, v := pick(r, []string{"env", "k"}), pick(r, []string{"prod", "v"})
		g.lines = append(g.lines, fmt.Sprintf("%squery \"%s\" \"%s\"\n", indent, n, v))
		g.m.Query = append(g.m.Query, [2]string{n, v})
	}
	if r.chance(12) {
		n := pick(r, []string{"token", "env"})
		g.lines = append(g.lines, fmt.Sprintf("%squery_exists \"%s\"\n", indent, n))
		g.m.QueryExists = append(g.m.QueryExists, n)
	}
	if r.chance(25) {
		for k := 0; k < 1+r.intn(2); k++ {
			t := pick(r, []string{"203.0.113.0/24", "10.0.0.0/8", "2001:db8::/32", "127.0.0.1/32", "::1/128", "0.0.0.0/0", "198.51.100.1", "2001:db8::5"})
			g.lines = append(g.lines, fmt.Sprintf("%sremote_ip \"%s\"\n", indent, t))
			var pfx netip.Prefix
			if p, err := netip.ParsePrefix(t); err == nil {
				pfx = p.Masked()
			} else {
				a := netip.MustParseAddr(t)
				pfx = netip.PrefixFrom(a, a.BitLen())
			}
			a := pfx.Addr()
			g.m.RemoteIPs = append(g.m.RemoteIPs, jprefix{V4: a.Is4(), Base: new(big.Int).SetBytes(a.AsSlice()), Bits: pfx.Bits()})
		}
	}
	return g
}

func (j *jroute) addMatch(m jroute) {
	j.Methods = append(j.Methods, m.Methods...)
	j.Hosts = append(j.Hosts, m.Hosts...)
	j.Headers = append(j.Headers, m.Headers...)
	j.HeaderExists = append(j.HeaderExists, m.HeaderExists...)
	j.Query = append(j.Query, m.Query...)
	j.QueryExists = append(j.QueryExists, m.QueryExists...)
	j.RemoteIPs = append(j.RemoteIPs, m.RemoteIPs...)
}

// genRouteConfigText returns a configuration text and the routes it is MEANT to declare (in order), derived from the
// generator's own choices and not from the compiler's output
func genRouteConfigText(r *rng) (string, []jroute) {
	var b strings.Builder
	var want []jroute
	b.WriteString("pull_api {\n  auth token raw:pulltok\n}\n")
	var named []genMatch
	// a family of routes built from one shared matcher plus one specific matcher each, without a block of their own
	family := false
	if r.chance(20) {
		family = true
		named = nil
		kind := pick(r, []string{"method", "host"})
		pool := append([]string{}, cfgMethods...)
		if kind == "host" {
			pool = []string{"example.com", "api.example.com", "localhost", "example.org", "a.b.example.com", "evil.com", "xexample.com"}
		}
		for i := len(pool) - 1; i > 0; i-- {
			j := r.intn(i + 1)
			pool[i], pool[j] = pool[j], pool[i]
		}
		mk := func(items []string) genMatch {
			g := genMatch{}
			for _, it := range items {
				if kind == "host" {
					g.lines = append(g.lines, fmt.Sprintf("  host \"%s\"\n", it))
					g.m.Hosts = append(g.m.Hosts, normHostPattern(it))
				} else {
					g.lines = append(g.lines, fmt.Sprintf("  method %s\n", it))
					g.m.Methods = append(g.m.Methods, it)
				}
			}
			return g
		}
		nshared := pick(r, []int{1, 2, 3, 3, 3})
		if nshared > len(pool)-2 {
			nshared = len(pool) - 2
		}
		named = append(named, mk(pool[:nshared]))
		for k := nshared; k < len(pool) && k < nshared+3; k++ {
			named = append(named, mk(pool[k:k+1]))
		}
		for k, g := range named {
			fmt.Fprintf(&b, "@m%d {\n%s}\n", k, strings.Join(g.lines, ""))
		}
	}
	// named matchers, referenced by `match @a @b` (their lists are concatenated with the route's own block)
	if r.chance(45) && false == (len(named) > 0) {
		for k := 0; k < 1+r.intn(3); k++ {
			g := genMatchBlock(r, "  ")
			if len(g.lines) == 0 {
				g.lines = []string{"  method POST\n"}
				g.m.Methods = []string{"POST"}
			}
			fmt.Fprintf(&b, "@m%d {\n%s}\n", k, strings.Join(g.lines, ""))
			named = append(named, g)
		}
	}
	n := 1 + r.intn(7)
	used := map[string]bool{}
	pullN := 0
	empty := func() jroute {
		return jroute{Methods: []string{}, Hosts: []string{}, Headers: [][2]string{}, HeaderExists: []string{}, Query: [][2]string{}, QueryExists: []string{}, RemoteIPs: []jprefix{}, Targets: []string{}}
	}
	for i := 0; i < n; i++ {
		p := pick(r, cfgPaths)
		if used[p] {
			continue
		}
		used[p] = true
		ch := r.weighted([]int{60, 8, 16, 16}) // bare, inbound, outbound, internal
		w := empty()
		w.Path = p
		switch ch {
		case 2:
			fmt.Fprintf(&b, "outbound %s {\n  deliver \"http://127.0.0.1:9/out%d\" { timeout 1s }\n}\n", p, i)
			w.Channel, w.Targets = "outbound", []string{fmt.Sprintf("http://127.0.0.1:9/out%d", i)}
			want = append(want, w)
			continue
		case 3:
			pullN++
			fmt.Fprintf(&b, "internal %s {\n  pull { path /pull/p%d }\n}\n", p, pullN)
			w.Channel, w.Targets = "internal", []string{"pull"}
			want = append(want, w)
			continue
		case 1:
			b.WriteString("inbound ")
		}
		w.Channel = "inbound"
		fmt.Fprintf(&b, "%s {\n", p)
		if family && len(named) >= 2 && r.chance(75) {
			x := 1 + r.intn(len(named)-1)
			fmt.Fprintf(&b, "  match @m0 @m%d\n", x)
			w.addMatch(named[0].m)
			w.addMatch(named[x].m)
		} else if r.chance(60) {
			g := genMatchBlock(r, "    ")
			fmt.Fprintf(&b, "  match {\n%s  }\n", strings.Join(g.lines, ""))
			w.addMatch(g.m)
		}
		if !family && len(named) > 0 && r.chance(60) {
			b.WriteString("  match")
			for k := 0; k < 1+r.intn(2); k++ {
				x := r.intn(len(named))
				fmt.Fprintf(&b, " @m%d", x)
				w.addMatch(named[x].m)
			}
			b.WriteString("\n")
		}
		if r.chance(50) {
			pullN++
			fmt.Fprintf(&b, "  pull { path /pull/p%d }\n", pullN)
			w.Targets = []string{"pull"}
		} else {
			for k := 0; k < 1+r.intn(2); k++ {
				fmt.Fprintf(&b, "  deliver \"http://127.0.0.1:9/t%d_%d\" { timeout 1s }\n", i, k)
				w.Targets = append(w.Targets, fmt.Sprintf("http://127.0.0.1:9/t%d_%d", i, k))
			}
		}
		b.WriteString("}\n")
		want = append(want, w)
	}
	return b.String(), want
}

func genRouteRequest(r *rng, want []jroute) *http.Request {
	rawPaths := []string{"/a", "/a/", "/a//b", "/a/./b", "/a/../a/b", "/a-b", "/ab", "/A", "/jobs", "/jobs/x", "/int", "/int/x", "/", "/x/y/z/w", "/x/y", "/hooks", "/hooks/../a", "/a/b/c", "//a", "/a%2Fb", "/none"}
	rp := pick(r, rawPaths)
	var aimed *jroute
	if len(want) > 0 && r.chance(50) {
		// aimed at one of the declared routes: its path (or below it), and often one of its hosts / methods
		aimed = &want[r.intn(len(want))]
		rp = aimed.Path + pick(r, []string{"", "", "/x", "/"})
	}
	method := pick(r, []string{"POST", "POST", "POST", "PUT", "GET", "DELETE", "post", "PATCH"})
	req := httptest.NewRequest(method, "http://placeholder"+rp, bytes.NewReader([]byte("{}")))
	if r.chance(40) {
		q := url.Values{}
		for k := 0; k < 1+r.intn(2); k++ {
			q.Add(pick(r, []string{"env", "k", "token"}), pick(r, []string{"prod", "v", "", "x"}))
		}
		req.URL.RawQuery = q.Encode()
	}
	req.Host = pick(r, []string{"example.com", "Example.COM", "api.example.com", "api.example.com:8443", "example.com.", "example.com.:8080", "a.b.example.com", "example.org", "[::1]:8080",
		"[::1]", "localhost", "", "evil.com", "xexample.com", "EXAMPLE.ORG:80", "api.example.com.", "example.com:", "::1"})
	if r.chance(45) {
		req.Header.Add(pick(r, []string{"X-Event", "x-event", "X-EVENT", "X-Kind", "X-Delivery"}), pick(r, []string{"push", "pull", "push, other", "other,push", "a b", ""}))
		if r.chance(30) {
			req.Header.Add("X-Event", pick(r, []string{"push", "zzz"}))
		}
	}
	if aimed != nil {
		if len(aimed.Hosts) > 0 && r.chance(70) {
			h := pick(r, aimed.Hosts)
			if strings.HasPrefix(h, "*.") {
				h = "t." + h[2:]
			}
			if h != "*" {
				req.Host = h
			}
		}
		if len(aimed.Methods) > 0 && r.chance(70) {
			req.Method = pick(r, aimed.Methods)
		}
	}
	req.RemoteAddr = pick(r, []string{"203.0.113.9:5555", "10.1.2.3:80", "[2001:db8::5]:443", "127.0.0.1:1", "[::1]:1", "[::ffff:10.1.2.3]:99", "garbage", "", "198.51.100.1:1", "203.0.113.9", "[fe80::1%eth0]:80"})
	return req
}

func cmdIngress(args []string) error {
	fs := flag.NewFlagSet("ingress", flag.ExitOnError)
	seed := fs.Uint64("seed", 1, "seed")
	nc := fs.Int("configs", 150, "route configurations")
	nreq := fs.Int("requests", 25, "requests per configuration")
	outPath := fs.String("out", "-", "output")
	fs.Parse(args)
	w := os.Stdout
	if *outPath != "-" {
		f, err := os.Create(*outPath)
		if err != nil {
			return err
		}
		defer f.Close()
		w = f
	}
	out := bufio.NewWriterSize(w, 1<<20)
	defer out.Flush()
	emit := func(v interface{}) {
		b, _ := json.Marshal(v)
		out.Write(b)
		out.WriteByte('\n')
	}
	r := newRng(*seed)
	clock := &fakeClock{now: 1_700_000_000_000_000_000}

	// host normalisation on its own
	for _, h := range []string{"example.com", "Example.COM", "example.com.", "example.com:8080", "example.com.:8080", "example.com:8080.", "[::1]:80", "[::1]", "::1", "[::1].", " a.b ", "", "a:b:c", "host:", "[v6", "x]:1", "EXAMPLE.com.:", "a.:1", ".", ".:1"} {
		emit(map[string]interface{}{"k": "normhost", "in": h, "got": app.VerifNormalizeHost(h)})
	}

	for c := 0; c < *nc; c++ {
		text, want := genRouteConfigText(r)
		cfg, err := config.Parse([]byte(text))
		if err != nil {
			emit(map[string]interface{}{"k": "cfgerror", "stage": "parse", "err": err.Error(), "text": text})
			continue
		}
		rewritten := false
		if r.chance(30) {
			// the file as a management mutation leaves it: parsed, formatted, written, parsed again
			if f, err := config.Format(cfg); err == nil {
				if cfg2, err := config.Parse(f); err == nil {
					cfg, rewritten = cfg2, true
				} else {
					emit(map[string]interface{}{"k": "cfgerror", "stage": "parse-formatted", "err": err.Error(), "text": string(f)})
					continue
				}
			}
		}
		compiled, res := config.Compile(cfg)
		if !res.OK {
			emit(map[string]interface{}{"k": "cfgerror", "stage": "compile", "err": strings.Join(res.Errors, "; "), "text": text})
			continue
		}
		rt, err := app.VerifNewRuntime(compiled, clock.Now)
		if err != nil {
			emit(map[string]interface{}{"k": "cfgerror", "stage": "runtime", "err": err.Error(), "text": text})
			continue
		}
		// the model is given the routes the text was MEANT to declare; the compiler's own view is recorded next to it
		routes := want
		compiledRoutes := make([]jroute, 0, len(compiled.Routes))
		for _, cr := range compiled.Routes {
			compiledRoutes = append(compiledRoutes, routeJSON(cr, "pull"))
		}
		emit(map[string]interface{}{"k": "routecfg", "cfg": c, "text": text, "rewrittenByFmt": rewritten, "want": want, "compiled": compiledRoutes})
		for q := 0; q < *nreq; q++ {
			req := genRouteRequest(r, want)
			hdrBefore := sortedPairs(req.Header.Clone())
			cleaned := path.Clean(req.URL.Path)
			resolved, ok := rt.ResolveIngress(req, cleaned)
			allow := rt.AllowedMethodsFor(req, cleaned)
			store := queue.NewMemoryStore(queue.WithNowFunc(clock.Now))
			rec := httptest.NewRecorder()
			rt.IngressServer(store).ServeHTTP(rec, req)
			var enq [][2]string
			for _, e := range store.VerifSnapshot() {
				enq = append(enq, [2]string{e.Route, e.Target})
			}
			sort.Slice(enq, func(i, j int) bool { return enq[i][0]+"\x00"+enq[i][1] < enq[j][0]+"\x00"+enq[j][1] })
			if enq == nil {
				enq = [][2]string{}
			}
			if allow == nil {
				allow = []string{}
			}
			jr := jreq{RawPath: req.URL.Path, Path: cleaned, Method: req.Method, Host: req.Host, Headers: hdrBefore, Query: sortedPairs(req.URL.Query()),
				Remote: remoteIPOf(req.RemoteAddr), RemoteS: req.RemoteAddr}
			got := map[string]interface{}{"resolved": nil, "allow": allow, "status": rec.Code, "allowHeader": rec.Header().Get("Allow"), "enqueued": enq}
			if ok {
				got["resolved"] = resolved
			}
			emit(map[string]interface{}{"k": "route", "routes": routes, "req": jr, "got": got, "cfg": c})
		}
	}
	_ = time.Second
	return nil
}

// ---------------------------------------------------------------------------------------------
// authentication sequences (C08, C09, C17 inbound): one config, a history of requests and reloads
