package main

import (
	"bufio"
	"bytes"
	"encoding/json"
	"flag"
	"fmt"
	"math/big"
	"net"
	"net/http"
	"net/http/httptest"
	"net/netip"
	"net/url"
	"os"
	"path"
	"sort"
	"strings"
	"time"

	"github.com/nuetzliches/hookaido/internal/app"
	"github.com/nuetzliches/hookaido/internal/config"
	"github.com/nuetzliches/hookaido/internal/queue"
)

type jprefix struct {
	V4   bool     `json:"v4"`
	Base *big.Int `json:"base"`
	Bits int      `json:"bits"`
}

type jroute struct {
	Channel      string      `json:"channel"`
	Path         string      `json:"path"`
	Methods      []string    `json:"methods"`
	Hosts        []string    `json:"hosts"`
	Headers      [][2]string `json:"headers"`
	HeaderExists []string    `json:"headerExists"`
	Query        [][2]string `json:"query"`
	QueryExists  []string    `json:"queryExists"`
	RemoteIPs    []jprefix   `json:"remoteIPs"`
	Targets      []string    `json:"targets"`
}

func routeJSON(rt config.CompiledRoute, pullTarget string) jroute {
	j := jroute{Channel: string(rt.ChannelType), Path: rt.Path, Methods: append([]string{}, rt.Match.Methods...), Hosts: append([]string{}, rt.Match.Hosts...),
		Headers: [][2]string{}, HeaderExists: append([]string{}, rt.Match.HeaderExists...), Query: [][2]string{}, QueryExists: append([]string{}, rt.Match.QueryExists...),
		RemoteIPs: []jprefix{}, Targets: []string{}}
	for _, h := range rt.Match.Headers {
		j.Headers = append(j.Headers, [2]string{h.Name, h.Value})
	}
	for _, q := range rt.Match.Query {
		j.Query = append(j.Query, [2]string{q.Name, q.Value})
	}
	for _, p := range rt.Match.RemoteIPs {
		a := p.Addr()
		j.RemoteIPs = append(j.RemoteIPs, jprefix{V4: a.Is4(), Base: new(big.Int).SetBytes(a.AsSlice()), Bits: p.Bits()})
	}
	for _, d := range rt.Deliveries {
		j.Targets = append(j.Targets, d.URL)
	}
	if len(j.Targets) == 0 {
		j.Targets = []string{pullTarget}
	}
	return j
}

type jreq struct {
	RawPath string              `json:"rawPath"`
	Path    string              `json:"path"` // path.Clean(r.URL.Path), as the handler computes it
	Method  string              `json:"method"`
	Host    string              `json:"host"`
	Headers [][]interface{}     `json:"headers"` // [name, [values]]
	Query   [][]interface{}     `json:"query"`
	Remote  interface{}         `json:"remote"` // parsed remote ip or null
	RemoteS string              `json:"remoteAddr"`
	hdr     map[string][]string `json:"-"`
}

// independent re-implementation of "what is the client's IP" (host part of RemoteAddr, brackets stripped, unmapped)
func remoteIPOf(remoteAddr string) interface{} {
	raw := strings.TrimSpace(remoteAddr)
	if raw == "" {
		return nil
	}
	if h, _, err := net.SplitHostPort(raw); err == nil {
		raw = h
	}
	raw = strings.Trim(raw, "[]")
	a, err := netip.ParseAddr(raw)
	if err != nil {
		return nil
	}
	a = a.Unmap()
	if a.Zone() != "" {
		return map[string]interface{}{"v4": false, "n": new(big.Int).SetBytes(a.AsSlice()), "zone": a.Zone()}
	}
	return ipJSON(net.IP(a.AsSlice()))
}

func sortedPairs(m map[string][]string) [][]interface{} {
	keys := make([]string, 0, len(m))
	for k := range m {
		keys = append(keys, k)
	}
	sort.Strings(keys)
	out := make([][]interface{}, 0, len(keys))
	for _, k := range keys {
		out = append(out, []interface{}{k, m[k]})
	}
	return out
}

var cfgPaths = []string{"/a", "/a/b", "/a-b", "/", "/jobs", "/int", "/x/y/z", "/hooks", "/A"}
var cfgHosts = []string{"example.com", "*.example.com", "api.example.com", "*", "EXAMPLE.org", "[::1]", "localhost", "*.b.example.com"}
var cfgMethods = []string{"POST", "PUT", "GET", "DELETE", "PATCH"}

func genRouteConfigText(r *rng) string {
	var b strings.Builder
	b.WriteString("pull_api {\n  auth token raw:pulltok\n}\n")
	n := 1 + r.intn(7)
	used := map[string]bool{}
	pullN := 0
	for i := 0; i < n; i++ {
		p := pick(r, cfgPaths)
		if used[p] {
			continue
		}
		used[p] = true
		ch := r.weighted([]int{60, 8, 16, 16}) // bare, inbound, outbound, internal
		switch ch {
		case 2:
			fmt.Fprintf(&b, "outbound %s {\n  deliver \"http://127.0.0.1:9/out%d\" { timeout 1s }\n}\n", p, i)
			continue
		case 3:
			pullN++
			fmt.Fprintf(&b, "internal %s {\n  pull { path /pull/p%d }\n}\n", p, pullN)
			continue
		case 1:
			b.WriteString("inbound ")
		}
		fmt.Fprintf(&b, "%s {\n", p)
		if r.chance(65) {
			b.WriteString("  match {\n")
			if r.chance(50) {
				for k := 0; k < 1+r.intn(2); k++ {
					fmt.Fprintf(&b, "    method %s\n", pick(r, cfgMethods))
				}
			}
			if r.chance(45) {
				for k := 0; k < 1+r.intn(2); k++ {
					fmt.Fprintf(&b, "    host \"%s\"\n", pick(r, cfgHosts))
				}
			}
			if r.chance(25) {
				fmt.Fprintf(&b, "    header \"%s\" \"%s\"\n", pick(r, []string{"X-Event", "x-event", "X-Kind"}), pick(r, []string{"push", "pull", "a b"}))
			}
			if r.chance(15) {
				fmt.Fprintf(&b, "    header_exists \"%s\"\n", pick(r, []string{"X-Delivery", "x-event"}))
			}
			if r.chance(20) {
				fmt.Fprintf(&b, "    query \"%s\" \"%s\"\n", pick(r, []string{"env", "k"}), pick(r, []string{"prod", "v"}))
			}
			if r.chance(12) {
				fmt.Fprintf(&b, "    query_exists \"%s\"\n", pick(r, []string{"token", "env"}))
			}
			if r.chance(25) {
				fmt.Fprintf(&b, "    remote_ip \"%s\"\n", pick(r, []string{"203.0.113.0/24", "10.0.0.0/8", "2001:db8::/32", "127.0.0.1/32", "::1/128", "0.0.0.0/0"}))
			}
			b.WriteString("  }\n")
		}
		if r.chance(50) {
			pullN++
			fmt.Fprintf(&b, "  pull { path /pull/p%d }\n", pullN)
		} else {
			for k := 0; k < 1+r.intn(2); k++ {
				fmt.Fprintf(&b, "  deliver \"http://127.0.0.1:9/t%d_%d\" { timeout 1s }\n", i, k)
			}
		}
		b.WriteString("}\n")
	}
	return b.String()
}

func genRouteRequest(r *rng) *http.Request {
	rawPaths := []string{"/a", "/a/", "/a//b", "/a/./b", "/a/../a/b", "/a-b", "/ab", "/A", "/jobs", "/jobs/x", "/int", "/int/x", "/", "/x/y/z/w", "/x/y", "/hooks", "/hooks/../a", "/a/b/c", "//a", "/a%2Fb", "/none"}
	rp := pick(r, rawPaths)
	method := pick(r, []string{"POST", "POST", "POST", "PUT", "GET", "DELETE", "post", "PATCH"})
	req := httptest.NewRequest(method, "http://placeholder"+rp, bytes.NewReader([]byte("{}")))
	if r.chance(40) {
		q := url.Values{}
		for k := 0; k < 1+r.intn(2); k++ {
			q.Add(pick(r, []string{"env", "k", "token"}), pick(r, []string{"prod", "v", "", "x"}))
		}
		req.URL.RawQuery = q.Encode()
	}
	req.Host = pick(r, []string{"example.com", "Example.COM", "api.example.com", "api.example.com:8443", "example.com.", "example.com.:8080", "a.b.example.com", "example.org", "[::1]:8080",
		"[::1]", "localhost", "", "evil.com", "xexample.com", "EXAMPLE.ORG:80", "api.example.com.", "example.com:", "::1"})
	if r.chance(45) {
		req.Header.Add(pick(r, []string{"X-Event", "x-event", "X-EVENT", "X-Kind", "X-Delivery"}), pick(r, []string{"push", "pull", "push, other", "other,push", "a b", ""}))
		if r.chance(30) {
			req.Header.Add("X-Event", pick(r, []string{"push", "zzz"}))
		}
	}
	req.RemoteAddr = pick(r, []string{"203.0.113.9:5555", "10.1.2.3:80", "[2001:db8::5]:443", "127.0.0.1:1", "[::1]:1", "[::ffff:10.1.2.3]:99", "garbage", "", "198.51.100.1:1", "203.0.113.9", "[fe80::1%eth0]:80"})
	return req
}

func cmdIngress(args []string) error {
	fs := flag.NewFlagSet("ingress", flag.ExitOnError)
	seed := fs.Uint64("seed", 1, "seed")
	nc := fs.Int("configs", 150, "route configurations")
	nreq := fs.Int("requests", 25, "requests per configuration")
	outPath := fs.String("out", "-", "output")
	fs.Parse(args)
	w := os.Stdout
	if *outPath != "-" {
		f, err := os.Create(*outPath)
		if err != nil {
			return err
		}
		defer f.Close()
		w = f
	}
	out := bufio.NewWriterSize(w, 1<<20)
	defer out.Flush()
	emit := func(v interface{}) {
		b, _ := json.Marshal(v)
		out.Write(b)
		out.WriteByte('\n')
	}
	r := newRng(*seed)
	clock := &fakeClock{now: 1_700_000_000_000_000_000}

	// host normalisation on its own
	for _, h := range []string{"example.com", "Example.COM", "example.com.", "example.com:8080", "example.com.:8080", "example.com:8080.", "[::1]:80", "[::1]", "::1", "[::1].", " a.b ", "", "a:b:c", "host:", "[v6", "x]:1", "EXAMPLE.com.:", "a.:1", ".", ".:1"} {
		emit(map[string]interface{}{"k": "normhost", "in": h, "got": app.VerifNormalizeHost(h)})
	}

	for c := 0; c < *nc; c++ {
		text := genRouteConfigText(r)
		cfg, err := config.Parse([]byte(text))
		if err != nil {
			emit(map[string]interface{}{"k": "cfgerror", "stage": "parse", "err": err.Error(), "text": text})
			continue
		}
		compiled, res := config.Compile(cfg)
		if !res.OK {
			emit(map[string]interface{}{"k": "cfgerror", "stage": "compile", "err": strings.Join(res.Errors, "; "), "text": text})
			continue
		}
		rt, err := app.VerifNewRuntime(compiled, clock.Now)
		if err != nil {
			emit(map[string]interface{}{"k": "cfgerror", "stage": "runtime", "err": err.Error(), "text": text})
			continue
		}
		routes := make([]jroute, 0, len(compiled.Routes))
		for _, cr := range compiled.Routes {
			routes = append(routes, routeJSON(cr, "pull"))
		}
		for q := 0; q < *nreq; q++ {
			req := genRouteRequest(r)
			hdrBefore := sortedPairs(req.Header.Clone())
			cleaned := path.Clean(req.URL.Path)
			resolved, ok := rt.ResolveIngress(req, cleaned)
			allow := rt.AllowedMethodsFor(req, cleaned)
			store := queue.NewMemoryStore(queue.WithNowFunc(clock.Now))
			rec := httptest.NewRecorder()
			rt.IngressServer(store).ServeHTTP(rec, req)
			var enq [][2]string
			for _, e := range store.VerifSnapshot() {
				enq = append(enq, [2]string{e.Route, e.Target})
			}
			sort.Slice(enq, func(i, j int) bool { return enq[i][0]+"\x00"+enq[i][1] < enq[j][0]+"\x00"+enq[j][1] })
			if enq == nil {
				enq = [][2]string{}
			}
			if allow == nil {
				allow = []string{}
			}
			jr := jreq{RawPath: req.URL.Path, Path: cleaned, Method: req.Method, Host: req.Host, Headers: hdrBefore, Query: sortedPairs(req.URL.Query()),
				Remote: remoteIPOf(req.RemoteAddr), RemoteS: req.RemoteAddr}
			got := map[string]interface{}{"resolved": nil, "allow": allow, "status": rec.Code, "allowHeader": rec.Header().Get("Allow"), "enqueued": enq}
			if ok {
				got["resolved"] = resolved
			}
			emit(map[string]interface{}{"k": "route", "routes": routes, "req": jr, "got": got, "cfg": c})
		}
	}
	_ = time.Second
	return nil
}

// ---------------------------------------------------------------------------------------------
// authentication sequences (C08, C09, C17 inbound): one config, a history of requests and reloads
