package main

// C01: crash durability against the real code and a real process death.
//
// `crash-child` opens the real SQLite store at a path, wires the real ingress, pull and admin handlers to it and serves
// a seeded script of requests in-process, writing a SEND line before and a DONE line after each one to stdout (a pipe:
// what was written before the process dies reaches the parent).  It dies by SIGKILL either at the n-th hit of a
// verifhook point (HOOKAIDO_VERIF_CRASH=label:n) or when the parent kills it at an arbitrary instant.
// `crash` is the parent: it enumerates crash points, reopens the database with the real store, and writes one record
// per crash for the Lean driver, which evaluates `Hk.Crash.crashCheck` on it.

import (
	"bufio"
	"bytes"
	"database/sql"
	"encoding/base64"
	"encoding/json"
	"flag"
	"fmt"
	"io"
	"net/http"
	"net/http/httptest"
	"os"
	"os/exec"
	"path/filepath"
	"sort"
	"strings"
	"syscall"
	"time"

	"github.com/nuetzliches/hookaido/internal/app"
	"github.com/nuetzliches/hookaido/internal/queue"
	"github.com/nuetzliches/hookaido/internal/verifhook"
)

const crashCfgText = `delivered_retention {
  max_age 1h
}
dlq_retention {
  max_age 1h
  max_depth 100000
}
pull_api {
  auth token raw:t
}
/fan {
  deliver "http://127.0.0.1:9/a" {
    timeout 1s
  }
  deliver "http://127.0.0.1:9/b" {
    timeout 1s
  }
  deliver "http://127.0.0.1:9/c" {
    timeout 1s
  }
}
/two {
  deliver "http://127.0.0.1:9/x" {
    timeout 1s
  }
  deliver "http://127.0.0.1:9/y" {
    timeout 1s
  }
}
/one {
  pull {
    path /pull/one
  }
}
/small {
  max_body 64
  pull {
    path /pull/small
  }
}
`

var crashTargets = map[string][]string{
	"/fan":   {"http://127.0.0.1:9/a", "http://127.0.0.1:9/b", "http://127.0.0.1:9/c"},
	"/two":   {"http://127.0.0.1:9/x", "http://127.0.0.1:9/y"},
	"/one":   {"pull"},
	"/small": {"pull"},
}

type crashSend struct {
	I       int      `json:"i"`
	Kind    string   `json:"kind"` // ingress | publish | dequeue | ack | nack | dead
	Route   string   `json:"route,omitempty"`
	Targets []string `json:"targets,omitempty"`
	Body    string   `json:"body,omitempty"`
	IDs     []string `json:"ids,omitempty"`
	Key     string   `json:"key,omitempty"` // the message a lease operation addresses (payload text or publish id)
	Status  int      `json:"status"`
	Done    bool     `json:"done"`
	// Spent: the lease this operation presents was acked (204) just before: it must be refused
	Spent bool `json:"spent,omitempty"`
}

type crashStore interface {
	queue.Store
	queue.BatchEnqueuer
	queue.LeaseBatchStore
	VerifSnapshot() ([]queue.Envelope, error)
	Close() error
}

// seed mod 3 = 0: a store built here without a depth limit (Enqueue takes the autocommit single-INSERT path);
// 1: the store run() builds from the compiled configuration (limits, retention, DLQ wiring; BEGIN IMMEDIATE … COMMIT path);
// 2: the same with `drop_policy drop_oldest`
func openCrashStore(path string, seed uint64) (crashStore, error) {
	if seed%3 == 0 {
		return queue.NewSQLiteStore(path,
			queue.WithSQLiteQueueLimits(0, "reject"),
			queue.WithSQLiteDeliveredRetention(time.Hour),
			queue.WithSQLiteDLQRetention(time.Hour, 100000),
			queue.WithSQLiteCheckpointInterval(3*time.Millisecond))
	}
	text := crashCfgText
	if seed%3 == 2 {
		// drop_oldest configured with a depth that is never reached: the eviction code paths are taken, nothing is evicted
		text = "queue_limits {\n  max_depth 100000\n  drop_policy drop_oldest\n}\n" + text
	}
	compiled, err := compileText(text)
	if err != nil {
		return nil, err
	}
	st, _, err := app.VerifNewQueueStore(compiled, path)
	if err != nil {
		return nil, err
	}
	cs, ok := st.(crashStore)
	if !ok {
		return nil, fmt.Errorf("store %T lacks an interface the harness needs", st)
	}
	return cs, nil
}

// fails the n-th Enqueue call the way a full queue does (a transient refusal between the per-target enqueues of a fan-out)
type faultStore struct {
	crashStore
	calls, failAt int
}

func (f *faultStore) Enqueue(env queue.Envelope) error {
	f.calls++
	if f.calls == f.failAt {
		return queue.ErrQueueFull
	}
	return f.crashStore.Enqueue(env)
}

func cmdCrashChild(args []string) error {
	fs := flag.NewFlagSet("crash-child", flag.ExitOnError)
	db := fs.String("db", "", "database path")
	seed := fs.Uint64("seed", 1, "script seed")
	nops := fs.Int("ops", 40, "operations")
	failEnq := fs.Int("failenq", 0, "make the n-th Store.Enqueue call fail with ErrQueueFull (0 = never)")
	fs.Parse(args)
	base, err := openCrashStore(*db, *seed)
	if err != nil {
		return err
	}
	var store crashStore = base
	if *failEnq > 0 {
		store = &faultStore{crashStore: base, failAt: *failEnq}
	}
	compiled, err := compileText(crashCfgText)
	if err != nil {
		return err
	}
	rt, err := app.VerifNewRuntime(compiled, nil)
	if err != nil {
		return err
	}
	ing, pull, adm := rt.IngressServer(store), rt.PullServer(store), rt.AdminServer(store)
	say := func(tag string, v interface{}) {
		b, _ := json.Marshal(v)
		os.Stdout.Write(append(append([]byte(tag+" "), b...), '\n'))
	}
	r := newRng(*seed)
	type lease struct{ id, key string }
	var leases []lease
	keyOf := map[string]string{} // message id -> key
	for i := 0; i < *nops; i++ {
		s := crashSend{I: i}
		do := func(h http.Handler, method, url, body string, hdr map[string]string) *httptest.ResponseRecorder {
			req := httptest.NewRequest(method, url, strings.NewReader(body))
			for k, v := range hdr {
				req.Header.Set(k, v)
			}
			rr := httptest.NewRecorder()
			say("SEND", s)
			h.ServeHTTP(rr, req)
			s.Status, s.Done = rr.Code, true
			say("DONE", s)
			return rr
		}
		switch k := r.weighted([]int{34, 18, 18, 30, 8}); {
		case k == 4: // a batch of lease ids nobody holds (a consumer retrying after its own restart): every id conflicts
			s.Kind, s.Route = "ackbatch-unknown", "/one"
			op := pick(r, []string{"ack", "nack"})
			body := fmt.Sprintf(`{"lease_ids":["lease_nobody_%d_a","lease_nobody_%d_b"]}`, i, i)
			if op == "nack" {
				body = fmt.Sprintf(`{"lease_ids":["lease_nobody_%d_a","lease_nobody_%d_b"],"delay":"1h"}`, i, i)
			}
			do(pull, "POST", "http://ex/pull/one/"+op, body, map[string]string{"Authorization": "Bearer t"})
		case k == 0 && r.chance(6): // a body above the route's max_body sent without a declared length: refused, nothing stored
			s.Kind, s.Route = "ingress", "/small"
			s.Targets, s.Body = crashTargets[s.Route], fmt.Sprintf("r%d-%d-%s", *seed, i, strings.Repeat("x", 90))
			req := httptest.NewRequest("POST", "http://ex/small", onlyReader{strings.NewReader(s.Body)})
			req.ContentLength = -1
			rr := httptest.NewRecorder()
			say("SEND", s)
			ing.ServeHTTP(rr, req)
			s.Status, s.Done = rr.Code, true
			say("DONE", s)
		case k == 0: // ingress with fan-out
			s.Kind, s.Route = "ingress", pick(r, []string{"/fan", "/fan", "/two", "/one"})
			s.Targets, s.Body = crashTargets[s.Route], fmt.Sprintf("r%d-%d", *seed, i)
			do(ing, "POST", "http://ex"+s.Route, s.Body, nil)
		case k == 1: // publish a batch
			s.Kind, s.Route, s.Targets = "publish", "/one", []string{"pull"}
			var items []map[string]string
			_ = items
			for j := 0; j < 1+r.intn(4); j++ {
				id := fmt.Sprintf("p%d-%d-%d", *seed, i, j)
				s.IDs = append(s.IDs, id)
				item := map[string]string{"id": id, "route": "/one", "payload_b64": base64.StdEncoding.EncodeToString([]byte(id))}
				if r.chance(50) { // an older event published late: well inside the 7 d retention
					item["received_at"] = time.Now().Add(-time.Duration(10+r.intn(600)) * time.Minute).UTC().Format(time.RFC3339)
				}
				items = append(items, item)
			}
			b, _ := json.Marshal(map[string]interface{}{"items": items})
			do(adm, "POST", "http://ex/messages/publish", string(b), map[string]string{"X-Hookaido-Audit-Reason": "verif"})
		case k == 2: // dequeue from the pull route
			s.Kind, s.Route = "dequeue", "/one"
			rr := do(pull, "POST", "http://ex/pull/one/dequeue", fmt.Sprintf(`{"batch":%d,"lease_ttl":"30s","max_wait":"0s"}`, 1+r.intn(3)), map[string]string{"Authorization": "Bearer t"})
			var resp struct {
				Items []struct {
					ID         string `json:"id"`
					LeaseID    string `json:"lease_id"`
					PayloadB64 string `json:"payload_b64"`
				} `json:"items"`
			}
			_ = json.Unmarshal(rr.Body.Bytes(), &resp)
			for _, it := range resp.Items {
				p, _ := base64.StdEncoding.DecodeString(it.PayloadB64)
				keyOf[it.ID] = string(p)
				leases = append(leases, lease{it.LeaseID, string(p)})
			}
		default: // finish a lease
			if len(leases) == 0 {
				continue
			}
			j := r.intn(len(leases))
			l := leases[j]
			leases = append(leases[:j], leases[j+1:]...)
			s.Route, s.Key, s.Targets = "/one", l.key, []string{"pull"}
			switch r.intn(4) {
			case 3: // the batch form, mixed with an id nobody holds (answers 409 with acked 1: the settled id is acknowledged)
				s.Kind = "ack"
				rr := do(pull, "POST", "http://ex/pull/one/ack", fmt.Sprintf(`{"lease_ids":[%q,"lease_nobody_%d"]}`, l.id, i), map[string]string{"Authorization": "Bearer t"})
				var br struct {
					Acked int `json:"acked"`
				}
				_ = json.Unmarshal(rr.Body.Bytes(), &br)
				if br.Acked == 1 {
					s.Status = 204 // acknowledged for the one lease this record is about
					say("DONE", s)
				}
			case 0:
				s.Kind = "ack"
				rrAck := do(pull, "POST", "http://ex/pull/one/ack", fmt.Sprintf(`{"lease_id":%q}`, l.id), map[string]string{"Authorization": "Bearer t"})
				if rrAck.Code == 204 && r.chance(40) {
					// the consumer (or a second one holding the same lease id) then reports the opposite in the batch form: the
					// lease is spent, so this must not be answered as done — an answer "succeeded" would be an acknowledged nack /
					// dead-letter that no restart can honour
					s = crashSend{I: 100000 + i, Route: "/one", Key: l.key, Targets: []string{"pull"}, Kind: "nack", Spent: true}
					body := fmt.Sprintf(`{"lease_ids":[%q],"delay":"1h"}`, l.id)
					if r.chance(40) {
						s.Kind = "dead"
						body = fmt.Sprintf(`{"lease_ids":[%q],"dead":true,"reason":"verif"}`, l.id)
					}
					rr := do(pull, "POST", "http://ex/pull/one/nack", body, map[string]string{"Authorization": "Bearer t"})
					var br struct {
						Succeeded int `json:"succeeded"`
					}
					_ = json.Unmarshal(rr.Body.Bytes(), &br)
					if br.Succeeded == 1 {
						s.Status = 204 // acknowledged for this lease
						say("DONE", s)
					}
				}
			case 1:
				s.Kind = "nack"
				do(pull, "POST", "http://ex/pull/one/nack", fmt.Sprintf(`{"lease_id":%q,"delay":"1h"}`, l.id), map[string]string{"Authorization": "Bearer t"})
			case 2:
				s.Kind = "dead"
				do(pull, "POST", "http://ex/pull/one/nack", fmt.Sprintf(`{"lease_id":%q,"dead":true,"reason":"verif"}`, l.id), map[string]string{"Authorization": "Bearer t"})
			}
		}
		if r.chance(20) {
			time.Sleep(time.Duration(r.intn(4)) * time.Millisecond) // let the checkpoint loop run between requests
		}
	}
	say("HITS", verifhook.Hits())
	return nil
}

type crashMsg struct {
	Key    string `json:"key"`
	Target string `json:"target"`
	Route  string `json:"route"`
	St     string `json:"st"`
	ID     string `json:"id"`
}

// run one child; kill: "" (run to the end), "label:n" (self-kill at a hook point) or "@lines:us" (parent kills after that many
// stdout lines plus a delay)
func runCrashChild(self, db string, seed uint64, ops int, kill string, failEnq int) (sends []crashSend, hits map[string]int, killed bool, err error) {
	cmd := exec.Command(self, "crash-child", "-db", db, "-seed", fmt.Sprint(seed), "-ops", fmt.Sprint(ops), "-failenq", fmt.Sprint(failEnq))
	cmd.Env = os.Environ()
	killLines, killDelay := -1, time.Duration(0)
	if strings.HasPrefix(kill, "@") {
		var us int
		fmt.Sscanf(kill, "@%d:%d", &killLines, &us)
		killDelay = time.Duration(us) * time.Microsecond
	} else if kill != "" {
		cmd.Env = append(cmd.Env, "HOOKAIDO_VERIF_CRASH="+kill)
	}
	var stderr bytes.Buffer
	cmd.Stderr = &stderr
	out, err := cmd.StdoutPipe()
	if err != nil {
		return nil, nil, false, err
	}
	if err := cmd.Start(); err != nil {
		return nil, nil, false, err
	}
	byI := map[int]*crashSend{}
	var order []int
	rd := bufio.NewReaderSize(out, 1<<20)
	lines := 0
	for {
		line, rerr := rd.ReadString('\n')
		if len(line) > 5 {
			lines++
			tag, rest := line[:4], line[5:]
			switch tag {
			case "SEND", "DONE":
				var s crashSend
				if json.Unmarshal([]byte(rest), &s) == nil {
					if _, ok := byI[s.I]; !ok {
						order = append(order, s.I)
					}
					c := s
					byI[s.I] = &c
				}
			case "HITS":
				_ = json.Unmarshal([]byte(rest), &hits)
			}
			if killLines >= 0 && lines == killLines {
				go func() {
					time.Sleep(killDelay)
					_ = cmd.Process.Signal(syscall.SIGKILL)
				}()
			}
		}
		if rerr != nil {
			break
		}
	}
	werr := cmd.Wait()
	if werr != nil {
		if ee, ok := werr.(*exec.ExitError); ok {
			if ws, ok := ee.Sys().(syscall.WaitStatus); ok && ws.Signaled() && ws.Signal() == syscall.SIGKILL {
				killed = true
			} else {
				return nil, nil, false, fmt.Errorf("child failed: %v: %s", werr, stderr.String())
			}
		}
	}
	for _, i := range order {
		sends = append(sends, *byI[i])
	}
	return sends, hits, killed, nil
}

// what the reopened database holds and offers
func inspectCrashDB(db string, seed uint64) (map[string]interface{}, error) {
	out := map[string]interface{}{"reopen": "ok", "integrity": "ok"}
	raw, err := sql.Open("sqlite", db)
	if err == nil {
		var res string
		if qerr := raw.QueryRow("PRAGMA integrity_check").Scan(&res); qerr != nil {
			out["integrity"] = qerr.Error()
		} else {
			out["integrity"] = res
		}
		raw.Close()
	} else {
		out["integrity"] = err.Error()
	}
	store, err := openCrashStore(db, seed)
	if err != nil {
		out["reopen"] = err.Error()
		out["after"] = []crashMsg{}
		out["offered"] = []string{}
		return out, nil
	}
	defer store.Close()
	// "offered for delivery again": everything that is due is handed out by Dequeue (this is also the first store call after
	// the restart, the one that runs the retention prune)
	offered := []string{}
	for route, targets := range crashTargets {
		for _, t := range targets {
			for {
				resp, err := store.Dequeue(queue.DequeueRequest{Route: route, Target: t, Batch: 100, LeaseTTL: time.Minute})
				if err != nil || len(resp.Items) == 0 {
					break
				}
				for _, it := range resp.Items {
					offered = append(offered, string(it.Payload)+"\x00"+it.Target)
				}
			}
		}
	}
	envs, err := store.VerifSnapshot()
	if err != nil {
		return nil, err
	}
	msgs := make([]crashMsg, 0, len(envs))
	for _, e := range envs {
		st := string(e.State)
		if st == "leased" {
			// leased by the Dequeue above: it was queued and due. Otherwise the claim is the crashed process's own (it lapses).
			for _, o := range offered {
				if o == string(e.Payload)+"\x00"+e.Target {
					st = "queued"
				}
			}
		}
		msgs = append(msgs, crashMsg{Key: string(e.Payload), Target: e.Target, Route: e.Route, St: st, ID: e.ID})
	}
	sort.Slice(msgs, func(i, j int) bool { return msgs[i].Key+"\x00"+msgs[i].Target < msgs[j].Key+"\x00"+msgs[j].Target })
	out["after"] = msgs
	sort.Strings(offered)
	out["offered"] = offered
	return out, nil
}

func cmdCrash(args []string) error {
	fs := flag.NewFlagSet("crash", flag.ExitOnError)
	seed := fs.Uint64("seed", 1, "seed")
	scripts := fs.Int("scripts", 2, "request scripts")
	ops := fs.Int("ops", 30, "requests per script")
	points := fs.Int("points", 40, "hook crash points sampled per script (0 = all)")
	timed := fs.Int("timed", 10, "crashes at arbitrary instants per script")
	faults := fs.Int("faults", 8, "runs per script with one Store.Enqueue call refused")
	outPath := fs.String("out", "-", "output")
	fs.Parse(args)
	w := io.Writer(os.Stdout)
	if *outPath != "-" {
		f, err := os.Create(*outPath)
		if err != nil {
			return err
		}
		defer f.Close()
		w = f
	}
	out := bufio.NewWriterSize(w, 1<<20)
	defer out.Flush()
	emit := func(v interface{}) {
		b, _ := json.Marshal(v)
		out.Write(b)
		out.WriteByte('\n')
	}
	self, err := os.Executable()
	if err != nil {
		return err
	}
	dir, err := os.MkdirTemp(os.Getenv("VERIF_SCRATCH"), "hkcrash")
	if err != nil {
		return err
	}
	defer os.RemoveAll(dir)
	r := newRng(*seed)
	runNo := 0
	one := func(scriptSeed uint64, kill string, failEnq int) error {
		runNo++
		db := filepath.Join(dir, fmt.Sprintf("c%d.db", runNo))
		defer func() {
			for _, suf := range []string{"", "-wal", "-shm", "-journal"} {
				_ = os.Remove(db + suf)
			}
		}()
		sends, _, killed, err := runCrashChild(self, db, scriptSeed, *ops, kill, failEnq)
		if err != nil {
			return err
		}
		info, err := inspectCrashDB(db, scriptSeed)
		if err != nil {
			return err
		}
		if sends == nil {
			sends = []crashSend{}
		}
		rec := map[string]interface{}{"k": "crash", "script": scriptSeed, "kill": kill, "killed": killed, "failenq": failEnq, "sends": sends}
		for k, v := range info {
			rec[k] = v
		}
		emit(rec)
		return nil
	}
	for s := 0; s < *scripts; s++ {
		scriptSeed := *seed*100 + uint64(s)
		// a clean run counts the hook hits
		db := filepath.Join(dir, fmt.Sprintf("clean%d.db", s))
		_, hits, _, err := runCrashChild(self, db, scriptSeed, *ops, "", 0)
		if err != nil {
			return err
		}
		for _, suf := range []string{"", "-wal", "-shm", "-journal"} {
			_ = os.Remove(db + suf)
		}
		if err := one(scriptSeed, "", 0); err != nil { // no crash at all: the property holds trivially, the pipeline is exercised
			return err
		}
		var all []string
		var labels []string
		for l := range hits {
			if strings.HasPrefix(l, "sqlite.") || strings.HasPrefix(l, "ingress.") || strings.HasPrefix(l, "admin.") {
				labels = append(labels, l)
			}
		}
		sort.Strings(labels)
		for _, l := range labels {
			for n := 1; n <= hits[l]; n++ {
				all = append(all, fmt.Sprintf("%s:%d", l, n))
			}
		}
		emit(map[string]interface{}{"k": "crashplan", "script": scriptSeed, "hook_points": len(all), "hits": hits})
		chosen := all
		if *points > 0 && len(all) > *points {
			chosen = nil
			// every label at least once, the rest at random
			seen := map[string]bool{}
			for _, l := range labels {
				chosen = append(chosen, fmt.Sprintf("%s:1", l)) // the first hit (store open / migration, first request)
				if hits[l] > 1 {
					chosen = append(chosen, fmt.Sprintf("%s:%d", l, 2+r.intn(hits[l]-1)))
				}
			}
			for _, c := range chosen {
				seen[c] = true
			}
			for len(chosen) < *points {
				c := pick(r, all)
				if !seen[c] {
					seen[c] = true
					chosen = append(chosen, c)
				}
			}
		}
		for _, c := range chosen {
			if err := one(scriptSeed, c, 0); err != nil {
				return err
			}
		}
		// a refusal by the store between the per-target enqueues of a fan-out, without and with a crash
		enq := hits["ingress.after_target_enqueue"]
		for f := 0; f < *faults && enq > 0; f++ {
			kill := ""
			if r.chance(50) && len(all) > 0 {
				kill = pick(r, all)
			}
			if err := one(scriptSeed, kill, 1+r.intn(enq)); err != nil {
				return err
			}
		}
		for t := 0; t < *timed; t++ {
			if err := one(scriptSeed, fmt.Sprintf("@%d:%d", 1+r.intn(2**ops), r.intn(3000)), 0); err != nil {
				return err
			}
		}
	}
	return nil
}
