package main

// splitmix64: every random choice derives from one state so a run replays exactly.
type rng struct{ s uint64 }

func newRng(seed uint64) *rng { return &rng{s: seed*0x9E3779B97F4A7C15 + 0x1234567} }

func (r *rng) u64() uint64 {
	r.s += 0x9E3779B97F4A7C15
	z := r.s
	z = (z ^ (z >> 30)) * 0xBF58476D1CE4E5B9
	z = (z ^ (z >> 27)) * 0x94D049BB133111EB
	return z ^ (z >> 31)
}
func (r *rng) intn(n int) int {
	if n <= 0 {
		return 0
	}
	return int(r.u64() % uint64(n))
}
func (r *rng) chance(pct int) bool { return r.intn(100) < pct }
func pick[T any](r *rng, xs []T) T { return xs[r.intn(len(xs))] }

// weighted choice over labelled weights
func (r *rng) weighted(w []int) int {
	t := 0
	for _, x := range w {
		t += x
	}
	k := r.intn(t)
	for i, x := range w {
		if k < x {
			return i
		}
		k -= x
	}
	return len(w) - 1
}
