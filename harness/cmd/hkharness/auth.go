package main

import (
	"bufio"
	"bytes"
	"crypto/hmac"
	"crypto/sha256"
	"encoding/base64"
	"encoding/hex"
	"encoding/json"
	"flag"
	"fmt"
	"net/http"
	"net/http/httptest"
	"os"
	"path"
	"path/filepath"
	"regexp"
	"strings"
	"sync"
	"time"

	"github.com/nuetzliches/hookaido/internal/app"
	"github.com/nuetzliches/hookaido/internal/config"
	"github.com/nuetzliches/hookaido/internal/ingress"
	"github.com/nuetzliches/hookaido/internal/queue"
)

type aversion struct {
	ID    string `json:"id"`
	Value string `json:"value"` // hex
	From  int64  `json:"from"`
	Until *int64 `json:"until"`
	raw   string
}

type ahmac struct {
	SigH       string     `json:"sigHeader"`
	TsH        string     `json:"tsHeader"`
	NonceH     string     `json:"nonceHeader"`
	Tol        int64      `json:"tol"`
	Direct     []string   `json:"direct"` // hex
	Versions   []aversion `json:"versions"`
	directRaw  []string
	foreignRaw []string // secrets of ANOTHER hmac route of the same configuration
}

// scripted forward-auth service
type fwdStub struct {
	mu   sync.Mutex
	next string // "200","204","301","401","403","404","500","hang","close"
	srv  *httptest.Server
}

func newFwdStub() *fwdStub {
	f := &fwdStub{next: "200"}
	f.srv = httptest.NewServer(http.HandlerFunc(func(w http.ResponseWriter, r *http.Request) {
		f.mu.Lock()
		n := f.next
		f.mu.Unlock()
		switch n {
		case "hang":
			time.Sleep(400 * time.Millisecond)
			w.WriteHeader(200)
		case "close":
			if hj, ok := w.(http.Hijacker); ok {
				c, _, _ := hj.Hijack()
				c.Close()
			}
		case "301":
			w.Header().Set("Location", "/elsewhere-404")
			w.WriteHeader(301)
		default:
			if r.URL.Path == "/elsewhere-404" {
				w.WriteHeader(404)
				return
			}
			var code int
			fmt.Sscan(n, &code)
			w.Header().Set("X-User-Id", "u42")
			w.WriteHeader(code)
		}
	}))
	return f
}

func rfc3339(ns int64) string { return time.Unix(0, ns).UTC().Format(time.RFC3339) }

type authScenario struct {
	secretFile string // when set, the first direct secret of /h is `file:<this>` (its content can be rotated)
	targets    int    // number of targets of /h (1 = pull)
	text       string
	hm         ahmac
	users      [][2]string
	fwdURL     string
	hasHMAC    bool
}

func genAuthConfig(r *rng, nowNS int64, fwdURL string, variant int) authScenario {
	return genAuthConfigIn(r, nowNS, fwdURL, variant, "")
}

// secretFile != "": the first direct secret of /h may be written as a file: reference to it
func genAuthConfigIn(r *rng, nowNS int64, fwdURL string, variant int, secretFile string) authScenario {
	sc := authScenario{fwdURL: fwdURL, targets: 1}
	var b strings.Builder
	b.WriteString("pull_api {\n  auth token raw:pulltok\n}\n")
	hm := ahmac{SigH: "X-Signature", TsH: "X-Timestamp", NonceH: "X-Nonce", Tol: int64(300 * time.Second), Direct: []string{}, Versions: []aversion{}}
	useVersions := r.chance(55)
	sec := int64(time.Second)
	nowS := nowNS / sec * sec
	if useVersions {
		b.WriteString("secrets {\n")
		nv := 1 + r.intn(3)
		for i := 0; i < nv; i++ {
			v := aversion{ID: fmt.Sprintf("S%d", i+1), raw: fmt.Sprintf("key-%d-%x", i, r.u64()&0xffff)}
			v.Value = hex.EncodeToString([]byte(v.raw))
			// windows around "now": adjacent, overlapping, expired, future
			v.From = nowS + int64(pick(r, []int{-3600, -600, -60, -20, -5, 0, 5, 20, 60}))*sec
			if r.chance(65) {
				u := v.From + int64(pick(r, []int{5, 10, 20, 60, 600, 7200}))*sec
				v.Until = &u
			}
			hm.Versions = append(hm.Versions, v)
		}
		if nv >= 2 && r.chance(35) {
			// rotation layouts: the next secret provisioned ahead of time and listed first; or adjacent windows, old one first
			t := nowS + int64(pick(r, []int{2, 5, 20}))*sec
			if r.chance(50) {
				hm.Versions[0].From, hm.Versions[0].Until = t, nil
				hm.Versions[1].From, hm.Versions[1].Until = nowS-600*sec, nil
				if r.chance(50) {
					hm.Versions[1].Until = &t
				}
			} else {
				hm.Versions[0].From, hm.Versions[0].Until = nowS-600*sec, &t
				hm.Versions[1].From, hm.Versions[1].Until = t, nil
			}
		}
		for _, v := range hm.Versions {
			fmt.Fprintf(&b, "  secret \"%s\" {\n    value raw:%s\n    valid_from \"%s\"\n", v.ID, v.raw, rfc3339(v.From))
			if v.Until != nil {
				fmt.Fprintf(&b, "    valid_until \"%s\"\n", rfc3339(*v.Until))
			}
			b.WriteString("  }\n")
		}
	}
	// a second hmac route with its own secret versions (always valid), declared before or after /h
	other := ""
	if useVersions && r.chance(60) {
		ng := 1 + r.intn(2)
		other = "/g {\n  auth hmac {\n"
		for i := 0; i < ng; i++ {
			raw := fmt.Sprintf("gkey-%d-%x", i, r.u64()&0xffff)
			hm.foreignRaw = append(hm.foreignRaw, raw)
			fmt.Fprintf(&b, "  secret \"G%d\" {\n    value raw:%s\n    valid_from \"%s\"\n  }\n", i+1, raw, rfc3339(nowS-int64(7200+i)*sec))
			other += fmt.Sprintf("    secret_ref \"G%d\"\n", i+1)
		}
		other += "  }\n  pull { path /pull/g }\n}\n"
	}
	if useVersions {
		b.WriteString("}\n")
	}
	otherFirst := r.chance(50)
	if !otherFirst {
		b.WriteString(other)
	}
	b.WriteString("/h {\n  auth hmac {\n")
	if useVersions {
		for _, v := range hm.Versions {
			fmt.Fprintf(&b, "    secret_ref \"%s\"\n", v.ID)
		}
	}
	if !useVersions || r.chance(25) {
		nd := 1 + r.intn(2)
		for i := 0; i < nd; i++ {
			raw := fmt.Sprintf("direct-%d-%x", i, r.u64()&0xffff)
			hm.directRaw = append(hm.directRaw, raw)
			hm.Direct = append(hm.Direct, hex.EncodeToString([]byte(raw)))
			if i == 0 && secretFile != "" && r.chance(50) {
				_ = os.WriteFile(secretFile, []byte(raw+"\n"), 0o600)
				sc.secretFile = secretFile
				fmt.Fprintf(&b, "    secret file:%s\n", secretFile)
				continue
			}
			fmt.Fprintf(&b, "    secret raw:%s\n", raw)
		}
	}
	if r.chance(40) {
		hm.SigH, hm.TsH, hm.NonceH = "X-Hub-Sig", "X-Hub-Time", "X-Hub-Nonce"
		fmt.Fprintf(&b, "    signature_header \"%s\"\n    timestamp_header \"%s\"\n    nonce_header \"%s\"\n", hm.SigH, hm.TsH, hm.NonceH)
	}
	tolS := pick(r, []int{300, 10, 5, 30, 2})
	if variant > 0 {
		tolS = pick(r, []int{300, 10, 5, 30, 2, 7})
	}
	if tolS != 300 || r.chance(50) {
		fmt.Fprintf(&b, "    tolerance %ds\n", tolS)
	}
	hm.Tol = int64(tolS) * sec
	if variant == 0 && r.chance(30) {
		// a push route with two targets: one request stands for two messages
		sc.targets = 2
		b.WriteString("  }\n  deliver \"http://127.0.0.1:9/ha\" { timeout 1s }\n  deliver \"http://127.0.0.1:9/hb\" { timeout 1s }\n}\n")
	} else {
		b.WriteString("  }\n  pull { path /pull/h }\n}\n")
	}
	if otherFirst {
		b.WriteString(other)
	}
	sc.hasHMAC = true
	// basic route
	sc.users = [][2]string{{"alice", "s3cret"}, {"bob", "pw2"}}
	if r.chance(50) {
		sc.users = [][2]string{{"alice", "s3cret"}}
	}
	b.WriteString("/b {\n")
	for _, u := range sc.users {
		fmt.Fprintf(&b, "  auth basic \"%s\" \"%s\"\n", u[0], u[1])
	}
	b.WriteString("  deliver \"http://127.0.0.1:9/t1\" { timeout 1s }\n  deliver \"http://127.0.0.1:9/t2\" { timeout 1s }\n}\n")
	// forward route
	fmt.Fprintf(&b, "/f {\n  auth forward \"%s/check\" {\n    timeout 150ms\n    copy_headers \"X-User-Id\"\n  }\n  pull { path /pull/f }\n}\n", fwdURL)
	// unauthenticated control route
	b.WriteString("/open {\n  pull { path /pull/open }\n}\n")
	sc.text = b.String()
	sc.hm = hm
	return sc
}

// failNthStore refuses the n-th Enqueue it sees (queue full), passing everything else through
type failNthStore struct {
	queue.Store
	failAt, n int
}

func (f *failNthStore) Enqueue(env queue.Envelope) error {
	f.n++
	if f.n == f.failAt {
		return queue.ErrQueueFull
	}
	return f.Store.Enqueue(env)
}

func signIngress(secret []byte, ts, method, p string, body []byte) string {
	h := sha256.Sum256(body)
	m := hmac.New(sha256.New, secret)
	m.Write([]byte(ts + "\n" + method + "\n" + p + "\n" + hex.EncodeToString(h[:])))
	return hex.EncodeToString(m.Sum(nil))
}

func flipBitHex(s string, r *rng) string {
	b, err := hex.DecodeString(s)
	if err != nil || len(b) == 0 {
		return s + "0"
	}
	i := r.intn(len(b))
	b[i] ^= 1 << uint(r.intn(8))
	return hex.EncodeToString(b)
}

func cmdAuth(args []string) error {
	fs := flag.NewFlagSet("auth", flag.ExitOnError)
	seed := fs.Uint64("seed", 1, "seed")
	nc := fs.Int("configs", 40, "scenarios")
	nreq := fs.Int("requests", 60, "requests per scenario")
	outPath := fs.String("out", "-", "output")
	fs.Parse(args)
	w := os.Stdout
	if *outPath != "-" {
		f, err := os.Create(*outPath)
		if err != nil {
			return err
		}
		defer f.Close()
		w = f
	}
	out := bufio.NewWriterSize(w, 1<<20)
	defer out.Flush()
	emit := func(v interface{}) {
		b, _ := json.Marshal(v)
		out.Write(b)
		out.WriteByte('\n')
	}
	r := newRng(*seed)
	dir, err := scratchDir()
	if err != nil {
		return err
	}
	defer os.RemoveAll(dir)
	stub := newFwdStub()
	defer stub.srv.Close()
	sec := int64(time.Second)

	for c := 0; c < *nc; c++ {
		clock := &fakeClock{now: 1_700_000_000_000_000_000 + int64(r.intn(100000))*sec}
		sc := genAuthConfigIn(r, clock.now, stub.srv.URL, 0, filepath.Join(dir, fmt.Sprintf("hsecret%d", c)))
		cfgPath := filepath.Join(dir, fmt.Sprintf("Hookaidofile%d", c))
		if err := os.WriteFile(cfgPath, []byte(sc.text), 0o600); err != nil {
			return err
		}
		cfg, err := config.Parse([]byte(sc.text))
		if err != nil {
			emit(map[string]interface{}{"k": "cfgerror", "stage": "parse", "err": err.Error(), "text": sc.text})
			continue
		}
		compiled, res := config.Compile(cfg)
		if !res.OK {
			emit(map[string]interface{}{"k": "cfgerror", "stage": "compile", "err": strings.Join(res.Errors, "; "), "text": sc.text})
			continue
		}
		rt, err := app.VerifNewRuntime(compiled, clock.Now)
		if err != nil {
			emit(map[string]interface{}{"k": "cfgerror", "stage": "runtime", "err": err.Error(), "text": sc.text})
			continue
		}
		store := queue.NewMemoryStore(queue.WithNowFunc(clock.Now))
		emit(map[string]interface{}{"k": "acfg", "scenario": c, "hmac": sc.hm, "users": sc.users, "targets": sc.targets})
		type sent struct {
			ts, nonce, sig, method, p string
			body                      []byte
		}
		var history []sent
		var retired []string // keys that were valid before a rotation
		nonceN := 0
		// scripted follow-ups (multi-step histories a random walk hardly ever composes): each is sent as the next hmac request,
		// optionally after moving the clock to an absolute instant
		type step struct {
			setNow int64
			s      sent
			// reloadTol > 0: not a request but a reload that sets the tolerance to so many seconds
			reloadTol int
		}
		var pending []step
		// a reload of the configuration file as it stands, optionally with another tolerance on /h or after the content of the
		// secret file changed
		doReload := func(tolS int, inFlight bool) bool {
			newTol := sc.hm.Tol
			if tolS > 0 {
				re := regexp.MustCompile(`(?m)^    tolerance \d+s\n`)
				txt := re.ReplaceAllString(sc.text, "")
				txt = strings.Replace(txt, "/h {\n  auth hmac {\n", fmt.Sprintf("/h {\n  auth hmac {\n    tolerance %ds\n", tolS), 1)
				if err := os.WriteFile(cfgPath, []byte(txt), 0o600); err == nil {
					sc.text = txt
					newTol = int64(tolS) * sec
				}
			}
			ok := rt.Reload(cfgPath)
			if ok {
				sc.hm.Tol = newTol
			}
			rec := map[string]interface{}{"k": "areload", "now": clock.now, "ok": ok, "tol": sc.hm.Tol, "direct": sc.hm.Direct}
			if inFlight {
				rec["inFlight"] = true
			}
			emit(rec)
			return ok
		}
		for q := 0; q < *nreq; q++ {
			var forced *sent
			if len(pending) > 0 {
				st := pending[0]
				pending = pending[1:]
				if st.setNow > clock.now {
					clock.now = st.setNow
				}
				if st.reloadTol > 0 {
					doReload(st.reloadTol, false)
					continue
				}
				forced = &st.s
			}
			// clock: small steps, sometimes to a boundary of an earlier request's window
			move := r.weighted([]int{30, 25, 15, 10, 20})
			if forced != nil {
				move = 0
			}
			switch move {
			case 0:
			case 1:
				clock.now += int64(1+r.intn(900)) * int64(time.Millisecond)
			case 2:
				clock.now += int64(1+r.intn(5)) * sec
			case 3:
				clock.now += int64(10+r.intn(400)) * sec
			case 4:
				if len(history) > 0 {
					h := pick(r, history)
					var tsv int64
					fmt.Sscan(strings.TrimSpace(strings.TrimPrefix(h.ts, "+")), &tsv)
					ms := int64(time.Millisecond)
					b := tsv*sec + sc.hm.Tol + pick(r, []int64{-1, 0, 0, 1, -ms, ms, 500 * ms, 999 * ms, 1000 * ms, 1001 * ms})
					if b > clock.now {
						clock.now = b
						if r.chance(60) {
							forced = &h // the request whose window edge this is, verbatim
						}
					}
				}
			}
			// occasionally reload the configuration: the same file, or the same file with another HMAC tolerance
			if forced == nil && r.chance(7) {
				tolS := 0
				if r.chance(45) {
					tolS = pick(r, []int{2, 5, 10, 30, 300, 420, 720})
				}
				if sc.secretFile != "" && r.chance(40) {
					// the key behind the file: reference is rotated; the configuration text stays as it is
					raw := fmt.Sprintf("rotated-%x", r.u64()&0xffffff)
					_ = os.WriteFile(sc.secretFile, []byte(raw+"\n"), 0o600)
					oldRaw, oldHex := sc.hm.directRaw[0], sc.hm.Direct[0]
					sc.hm.directRaw = append([]string{raw}, sc.hm.directRaw[1:]...)
					sc.hm.Direct = append([]string{hex.EncodeToString([]byte(raw))}, sc.hm.Direct[1:]...)
					retired = append(retired, oldRaw)
					if !doReload(tolS, false) {
						sc.hm.directRaw[0], sc.hm.Direct[0] = oldRaw, oldHex
					}
				} else {
					doReload(tolS, false)
				}
			}
			kind := r.weighted([]int{55, 15, 20, 10}) // hmac, basic, forward, open
			if forced != nil {
				kind = 0
			}
			plain, reloadInFlight := false, false
			body := []byte(pick(r, []string{"{}", "", "{\"a\":1}", "\x00\xff\x10", strings.Repeat("x", 100)}))
			method := "POST"
			var req *http.Request
			rec := map[string]interface{}{"k": "areq", "now": clock.now, "scenario": c}
			switch kind {
			case 0:
				rawPath := pick(r, []string{"/h", "/h/x", "/h/../h", "/h//y"})
				req = httptest.NewRequest(method, "http://ex"+rawPath, bytes.NewReader(body))
				cleaned := path.Clean(req.URL.Path)
				var s sent
				if forced != nil || (len(history) > 0 && r.chance(30)) {
					if forced != nil {
						s = *forced
					} else {
						s = pick(r, history) // replay of an earlier request, verbatim
					}
					req = httptest.NewRequest(s.method, "http://ex"+s.p, bytes.NewReader(s.body))
					cleaned = path.Clean(req.URL.Path)
					body, method = s.body, s.method
				} else {
					nowSec := clock.now / sec
					tolS := sc.hm.Tol / sec
					off := pick(r, []int64{0, 0, 0, -1, 1, -tolS, tolS, -tolS - 1, tolS + 1, -tolS + 1, tolS - 1, -3, 3})
					ts := fmt.Sprint(nowSec + off)
					// choose the signing secret: any configured one, or a wrong one
					var key []byte
					var validNow []aversion
					for _, v := range sc.hm.Versions {
						if tsv := (nowSec + off) * sec; v.From <= tsv && (v.Until == nil || tsv < *v.Until) {
							validNow = append(validNow, v)
						}
					}
					switch {
					case len(retired) > 0 && r.chance(15):
						key = []byte(pick(r, retired)) // the key from before the rotation
					case len(sc.hm.foreignRaw) > 0 && r.chance(6):
						key = []byte(pick(r, sc.hm.foreignRaw)) // valid on another route only
					case len(validNow) > 0 && r.chance(55):
						key = []byte(pick(r, validNow).raw) // a version valid at the signed instant
					case len(sc.hm.Versions) > 0 && r.chance(75):
						key = []byte(pick(r, sc.hm.Versions).raw)
					case len(sc.hm.directRaw) > 0 && r.chance(80):
						key = []byte(pick(r, sc.hm.directRaw))
					default:
						key = []byte("wrong-key")
					}
					nonceN++
					s = sent{ts: ts, nonce: fmt.Sprintf("n%d-%d", c, nonceN), method: method, p: rawPath, body: body}
					if len(history) > 0 && r.chance(10) {
						s.nonce = pick(r, history).nonce // fresh signature, re-used nonce
					}
					signMethod := method
					if r.chance(4) {
						signMethod = "PUT" // signed for another method
					}
					signPath := cleaned
					if r.chance(5) {
						signPath = pick(r, []string{"/h", "/h/x", rawPath, "/", "/h/"}) // signed for another (or the un-cleaned) path
					}
					s.sig = signIngress(key, ts, signMethod, signPath, body)
					// mutations of an otherwise valid request
					mut := r.weighted([]int{62, 4, 4, 4, 5, 4, 3, 3, 3, 3, 3, 2})
					plain = mut == 0 && signMethod == method && signPath == cleaned && string(key) != "wrong-key" && s.nonce == fmt.Sprintf("n%d-%d", c, nonceN)
					reloadInFlight = plain && r.chance(8)
					switch mut {
					case 1:
						s.sig = flipBitHex(s.sig, r)
					case 2:
						body = append(append([]byte{}, body...), 'x')
						req = httptest.NewRequest(method, "http://ex"+rawPath, bytes.NewReader(body))
					case 3:
						s.sig = ""
					case 4:
						s.nonce = ""
					case 5:
						s.ts = pick(r, []string{"", "abc", ts + "x", "1_700", "0x10", ts + ".0"})
					case 6:
						s.sig = strings.ToUpper(s.sig)
					case 7:
						s.sig = " " + s.sig + " "
					case 8:
						s.ts = "+" + ts // ParseInt accepts it, but the signed string differs
					case 9:
						s.sig = s.sig[:len(s.sig)-2]
					case 10:
						s.sig = pick(r, []string{"zz", "0", "deadbeef"})
					case 11:
						s.nonce = " " + s.nonce + " "
					}
					history = append(history, s)
				}
				if s.sig != "" {
					req.Header.Set(sc.hm.SigH, s.sig)
				}
				if s.ts != "" {
					req.Header.Set(sc.hm.TsH, s.ts)
				}
				if s.nonce != "" {
					req.Header.Set(sc.hm.NonceH, s.nonce)
				}
				rec["kind"] = "hmac"
				rec["sig"], rec["ts"], rec["nonce"] = req.Header.Get(sc.hm.SigH), req.Header.Get(sc.hm.TsH), req.Header.Get(sc.hm.NonceH)
				rec["method"], rec["path"], rec["body"] = req.Method, cleaned, hex.EncodeToString(body)
			case 1:
				req = httptest.NewRequest("POST", "http://ex/b", bytes.NewReader(body))
				u := pick(r, []string{"alice", "alice", "alice", "bob", "mallory", "", "Alice"})
				p := pick(r, []string{"s3cret", "s3cret", "s3cret", "pw2", "", "s3cre", "s3cret ", "S3CRET", "x"})
				switch r.weighted([]int{75, 8, 8, 9}) {
				case 0:
					req.SetBasicAuth(u, p)
				case 1:
				case 2:
					req.Header.Set("Authorization", "Bearer "+base64.StdEncoding.EncodeToString([]byte(u+":"+p)))
				case 3:
					req.Header.Set("Authorization", "Basic !!notbase64")
				}
				cu, cp, ok := req.BasicAuth()
				rec["kind"] = "basic"
				if ok {
					rec["cred"] = [2]string{cu, cp}
				} else {
					rec["cred"] = nil
				}
			case 2:
				req = httptest.NewRequest("POST", "http://ex/f", bytes.NewReader(body))
				beh := pick(r, []string{"200", "204", "200", "301", "401", "403", "404", "500", "hang", "close", "302x", "299", "300"})
				if beh == "302x" {
					beh = "418"
				}
				stub.mu.Lock()
				stub.next = beh
				stub.mu.Unlock()
				rec["kind"] = "forward"
				switch beh {
				case "hang", "close":
					rec["fwd"] = "failed"
				case "301":
					rec["fwd"] = 404 // the client follows the redirect; the final answer is 404
				default:
					var code int
					fmt.Sscan(beh, &code)
					rec["fwd"] = code
				}
			default:
				req = httptest.NewRequest("POST", "http://ex/open", bytes.NewReader(body))
				rec["kind"] = "open"
			}
			before := len(store.VerifSnapshot())
			rr := httptest.NewRecorder()
			var useStore queue.Store = store
			storeFail := kind == 0 && plain && forced == nil && sc.targets == 2 && r.chance(25)
			if storeFail {
				// the second message of the fan-out is refused by the store: the request is answered 503 after it authenticated
				useStore = &failNthStore{Store: store, failAt: 2}
			}
			srv := rt.IngressServer(useStore)
			reloaded, reloadOK := false, false
			if reloadInFlight {
				// a complete reload of the same file between the request fetching its authenticator and verifying with it
				f := srv.HMACAuthFor
				srv.HMACAuthFor = func(route string) *ingress.HMACAuth {
					v := f(route)
					if !reloaded {
						reloaded = true
						reloadOK = rt.Reload(cfgPath)
					}
					return v
				}
			}
			srv.ServeHTTP(rr, req)
			after := len(store.VerifSnapshot())
			rec["status"] = rr.Code
			rec["enqueued"] = after - before
			if reloaded {
				rec["reloadInFlight"] = true
			}
			if storeFail {
				rec["storeFail"] = true
			}
			emit(rec)
			if reloaded {
				emit(map[string]interface{}{"k": "areload", "now": clock.now, "ok": reloadOK, "tol": sc.hm.Tol, "inFlight": true})
			}
			if kind == 0 && plain && forced == nil && len(history) > 0 {
				h := history[len(history)-1]
				switch {
				case reloaded:
					pending = append(pending, step{setNow: 0, s: h}) // the request that straddled the reload, replayed
				case storeFail:
					pending = append(pending, step{setNow: 0, s: h}) // the request whose fan-out was only partly stored, sent again
				case rr.Code == 202 && sc.hm.Tol <= 30*sec && r.chance(25):
					// the window of an accepted request closes and another request purges it; then the tolerance is raised twice in
					// a row (the second shortly after the first), so far that the first request's timestamp passes again; replay
					var T int64
					fmt.Sscan(h.ts, &T)
					closed := (T+sc.hm.Tol/sec)*sec + sec
					other := sent{ts: fmt.Sprint(closed / sec), nonce: fmt.Sprintf("purge%d-%d", c, nonceN), method: "POST", p: "/h", body: []byte("{}")}
					key := []byte("wrong-key")
					if len(sc.hm.directRaw) > 0 {
						key = []byte(sc.hm.directRaw[0])
					}
					other.sig = signIngress(key, other.ts, "POST", "/h", other.body)
					pending = append(pending, step{setNow: closed, s: other}, step{setNow: closed + sec, reloadTol: 300}, step{setNow: closed + 2*sec, reloadTol: 720},
						step{setNow: closed + 3*sec, s: h})
				case rr.Code == 202 && r.chance(20):
					// the nonce of an accepted request re-used by a request that is refused anyway (bad signature, or a fresh
					// signature) and carries an older, still tolerated timestamp; then the accepted request is replayed after the
					// refused one's window has closed and before its own has
					var T int64
					fmt.Sscan(h.ts, &T)
					tolS := sc.hm.Tol / sec
					tp := clock.now/sec - tolS + 1
					if T-tp >= 2 {
						poison := sent{ts: fmt.Sprint(tp), nonce: h.nonce, method: h.method, p: h.p, body: h.body}
						key := []byte("wrong-key")
						if r.chance(40) && len(sc.hm.directRaw) > 0 {
							key = []byte(sc.hm.directRaw[0])
						}
						poison.sig = signIngress(key, poison.ts, h.method, path.Clean(h.p), h.body)
						pending = append(pending, step{setNow: 0, s: poison}, step{setNow: (tp+tolS)*sec + pick(r, []int64{1, sec / 2, sec}), s: h})
					}
				}
			}
		}
	}
	return nil
}
