package main

import (
	"bufio"
	"bytes"
	"encoding/hex"
	"encoding/json"
	"flag"
	"fmt"
	"io"
	"net/http/httptest"
	"os"
	"strconv"
	"strings"
	"time"

	"github.com/nuetzliches/hookaido/internal/app"
	"github.com/nuetzliches/hookaido/internal/config"
	"github.com/nuetzliches/hookaido/internal/queue"
)

type onlyReader struct{ r io.Reader } // hides Len(): the request is sent without a declared Content-Length

func (o onlyReader) Read(p []byte) (int, error) { return o.r.Read(p) }

func cmdLimits(args []string) error {
	fs := flag.NewFlagSet("limits", flag.ExitOnError)
	seed := fs.Uint64("seed", 1, "seed")
	n := fs.Int("n", 300, "limiter sequences")
	outPath := fs.String("out", "-", "output")
	fs.Parse(args)
	w := os.Stdout
	if *outPath != "-" {
		f, err := os.Create(*outPath)
		if err != nil {
			return err
		}
		defer f.Close()
		w = f
	}
	out := bufio.NewWriterSize(w, 1<<20)
	defer out.Flush()
	emit := func(v interface{}) {
		b, _ := json.Marshal(v)
		out.Write(b)
		out.WriteByte('\n')
	}
	r := newRng(*seed)

	// (1) token bucket: exact lattice (times multiples of 2^-9 s, dyadic rates: every float operation is exact) and
	// an arbitrary-time stream on which only the bound is checked
	const tick = int64(1953125) // 2^-9 s in ns
	for i := 0; i < *n; i++ {
		exact := !r.chance(25)
		rates := [][2]int{{1, 1}, {2, 1}, {4, 1}, {8, 1}, {16, 1}, {1, 2}, {1, 4}, {64, 1}, {3, 2}, {5, 4}}
		rt := pick(r, rates)
		burst := pick(r, []int{1, 1, 2, 3, 5, 8, 20})
		if !exact {
			rt = pick(r, [][2]int{{1, 3}, {7, 3}, {10, 1}, {100, 1}, {1, 10}, {33, 7}})
		}
		start := int64(1_700_000_000_000_000_000)
		if exact {
			start = start / tick * tick
		}
		b := app.VerifNewTokenBucket(float64(rt[0])/float64(rt[1]), burst, time.Unix(0, start))
		t := start
		var times []int64
		var got []bool
		ln := 20 + r.intn(150)
		for k := 0; k < ln; k++ {
			var d int64
			switch r.weighted([]int{30, 30, 20, 10, 10}) {
			case 0:
				d = 0
			case 1:
				d = tick * int64(1+r.intn(64))
			case 2:
				d = tick * int64(64+r.intn(2000))
			case 3:
				d = tick * 512 * int64(1+r.intn(20))
			case 4:
				d = -tick * int64(1+r.intn(300)) // an out-of-order timestamp (now() sampled before the limiter lock)
			}
			if !exact {
				d = d/tick*1_000_003 + int64(r.intn(999))
				if r.chance(90) && d < 0 {
					d = -d
				}
			}
			t += d
			times = append(times, t)
			got = append(got, b.AllowAt(time.Unix(0, t)))
		}
		emit(map[string]interface{}{"k": "bucket", "num": rt[0], "den": rt[1], "burst": burst, "start": start, "times": times, "got": got, "exact": exact})
	}

	// (2) body size limit through the real ingress handler, with and without a declared Content-Length
	clock := &fakeClock{now: 1_700_000_000_000_000_000}
	for _, mb := range []int{1, 8, 64, 1000} {
		text := fmt.Sprintf("pull_api {\n  auth token raw:t\n}\n/s {\n  max_body %d\n  pull { path /pull/s }\n}\n", mb)
		cfg, err := config.Parse([]byte(text))
		if err != nil {
			emit(map[string]interface{}{"k": "cfgerror", "stage": "parse", "err": err.Error(), "text": text})
			continue
		}
		compiled, res := config.Compile(cfg)
		if !res.OK {
			emit(map[string]interface{}{"k": "cfgerror", "stage": "compile", "err": strings.Join(res.Errors, ";"), "text": text})
			continue
		}
		rt, err := app.VerifNewRuntime(compiled, clock.Now)
		if err != nil {
			return err
		}
		for _, ln := range []int{0, 1, mb - 1, mb, mb + 1, mb + 2, 2 * mb, 3*mb + 7} {
			if ln < 0 {
				continue
			}
			for _, chunked := range []bool{false, true} {
				body := make([]byte, ln)
				for k := range body {
					body[k] = byte(r.intn(256))
				}
				var rd io.Reader = bytes.NewReader(body)
				if chunked {
					rd = onlyReader{bytes.NewReader(body)}
				}
				// the route also serves the paths below it: the route's limit applies there too
				req := httptest.NewRequest("POST", "http://ex"+pick(r, []string{"/s", "/s", "/s/sub", "/s/a/b"}), rd)
				if chunked {
					req.ContentLength = -1
				}
				store := queue.NewMemoryStore(queue.WithNowFunc(clock.Now))
				rec := httptest.NewRecorder()
				rt.IngressServer(store).ServeHTTP(rec, req)
				snap := store.VerifSnapshot()
				stored := ""
				if len(snap) > 0 {
					stored = hex.EncodeToString(snap[0].Payload)
				}
				emit(map[string]interface{}{"k": "bodysize", "maxBody": mb, "len": ln, "chunked": chunked, "status": rec.Code, "enqueued": len(snap),
					"sent": hex.EncodeToString(body), "stored": stored})
			}
		}
	}
	// (3) which bucket a request is charged to, from configuration text through the real runtime and ingress handler: a
	// route's own rate_limit if it declares one, otherwise the ONE global bucket shared by all such routes
	for i := 0; i < *n/4; i++ {
		type lim struct {
			Key   string `json:"key"`
			Num   int    `json:"num"`
			Den   int    `json:"den"`
			Burst int    `json:"burst"`
		}
		rates := [][2]int{{1, 1}, {2, 1}, {4, 1}, {1, 2}, {1, 4}, {8, 1}}
		rpsText := func(rt [2]int) string {
			return strconv.FormatFloat(float64(rt[0])/float64(rt[1]), 'f', -1, 64)
		}
		var lims []lim
		var b strings.Builder
		b.WriteString("pull_api {\n  auth token raw:t\n}\n")
		hasGlobal := r.chance(75)
		if hasGlobal {
			rt := pick(r, rates)
			bu := pick(r, []int{1, 2, 3, 5})
			fmt.Fprintf(&b, "ingress {\n  rate_limit {\n    rps %s\n    burst %d\n  }\n}\n", rpsText(rt), bu)
			lims = append(lims, lim{"global", rt[0], rt[1], bu})
		}
		nr := 2 + r.intn(3)
		keyOf := make([]string, nr)
		for k := 0; k < nr; k++ {
			fmt.Fprintf(&b, "/q%d {\n", k)
			keyOf[k] = "none"
			if hasGlobal {
				keyOf[k] = "global"
			}
			if r.chance(35) {
				rt := pick(r, rates)
				bu := pick(r, []int{1, 2, 4})
				fmt.Fprintf(&b, "  rate_limit {\n    rps %s\n    burst %d\n  }\n", rpsText(rt), bu)
				keyOf[k] = fmt.Sprintf("/q%d", k)
				lims = append(lims, lim{keyOf[k], rt[0], rt[1], bu})
			}
			fmt.Fprintf(&b, "  pull { path /pull/q%d }\n}\n", k)
		}
		compiled, err := compileText(b.String())
		if err != nil {
			emit(map[string]interface{}{"k": "cfgerror", "stage": "ratecfg", "err": err.Error(), "text": b.String()})
			continue
		}
		start := int64(1_700_000_000_000_000_000) / tick * tick
		rclock := &fakeClock{now: start}
		rt, err := app.VerifNewRuntime(compiled, rclock.Now)
		if err != nil {
			return err
		}
		store := queue.NewMemoryStore(queue.WithNowFunc(rclock.Now))
		srv := rt.IngressServer(store)
		type ev struct {
			T       int64  `json:"t"`
			Limiter string `json:"limiter"`
			Route   string `json:"route"`
			Got     bool   `json:"got"`
			Status  int    `json:"status"`
		}
		var evs []ev
		for k := 0; k < 30+r.intn(90); k++ {
			switch r.weighted([]int{40, 35, 20, 5}) {
			case 1:
				rclock.now += tick * int64(1+r.intn(64))
			case 2:
				rclock.now += tick * int64(64+r.intn(1500))
			case 3:
				rclock.now += tick * 512 * int64(1+r.intn(8))
			}
			q := r.intn(nr)
			rec := httptest.NewRecorder()
			srv.ServeHTTP(rec, httptest.NewRequest("POST", fmt.Sprintf("http://ex/q%d", q), bytes.NewReader([]byte("{}"))))
			evs = append(evs, ev{rclock.now, keyOf[q], fmt.Sprintf("/q%d", q), rec.Code == 202, rec.Code})
		}
		if lims == nil {
			lims = []lim{}
		}
		emit(map[string]interface{}{"k": "ratecfg", "text": b.String(), "start": start, "limiters": lims, "events": evs})
	}
	return nil
}
