package main

// Operator mutations through the FRONT ENDS (C14): the MCP tools on a SQLite file (direct mode) and the Admin HTTP API on
// memory and SQLite. The store-level traces (queue.go) start below the code that turns a tool call / request body into a
// filter (managed selector -> route, state / before / limit parsing); this harness starts above it. One record per call:
// the operation as it was MEANT (selector resolved by the harness from its own configuration text), what the front end
// answered, and complete snapshots of the store before and after.

import (
	"bufio"
	"bytes"
	"context"
	"encoding/json"
	"flag"
	"fmt"
	"net/http/httptest"
	"os"
	"path/filepath"
	"sort"
	"strings"
	"time"

	"github.com/nuetzliches/hookaido/internal/app"
	"github.com/nuetzliches/hookaido/internal/mcp"
	"github.com/nuetzliches/hookaido/internal/queue"
)

const opFrontConfig = `pull_api {
  auth token "raw:t"
}
admin_api {
  auth token "raw:adm"
}
"/billing" {
  application "billing"
  endpoint_name "invoice.created"
  pull { path "/e" }
}
"/alerts" {
  application "ops"
  endpoint_name "alerts"
  pull { path "/a" }
}
"/other" {
  pull { path "/o" }
}
`

var opFrontManaged = map[[2]string]string{{"billing", "invoice.created"}: "/billing", {"ops", "alerts"}: "/alerts"}

func snapStore(st queue.Store) []jmsg {
	var envs []queue.Envelope
	switch s := st.(type) {
	case *queue.MemoryStore:
		envs = s.VerifSnapshot()
	case *queue.SQLiteStore:
		envs, _ = s.VerifSnapshot()
	}
	out := make([]jmsg, 0, len(envs))
	for _, e := range envs {
		out = append(out, canonEnv(e))
	}
	sort.Slice(out, func(i, j int) bool { return out[i].ID < out[j].ID })
	return out
}

func cmdOpFront(args []string) error {
	fs := flag.NewFlagSet("opfront", flag.ExitOnError)
	seed := fs.Uint64("seed", 1, "seed")
	n := fs.Int("n", 300, "calls")
	outPath := fs.String("out", "-", "output")
	fs.Parse(args)
	w := os.Stdout
	if *outPath != "-" {
		f, err := os.Create(*outPath)
		if err != nil {
			return err
		}
		defer f.Close()
		w = f
	}
	out := bufio.NewWriterSize(w, 1<<20)
	defer out.Flush()
	emit := func(v interface{}) {
		b, _ := json.Marshal(v)
		out.Write(b)
		out.WriteByte('\n')
	}
	r := newRng(*seed)
	dir, err := scratchDir()
	if err != nil {
		return err
	}
	defer os.RemoveAll(dir)
	cfgPath := filepath.Join(dir, "Hookaidofile")
	if err := os.WriteFile(cfgPath, []byte(opFrontConfig), 0o600); err != nil {
		return err
	}
	compiled, err := compileText(opFrontConfig)
	if err != nil {
		return err
	}
	base := time.Date(2026, 2, 7, 12, 0, 0, 0, time.UTC)

	for c := 0; c < *n; c++ {
		via := pick(r, []string{"mcp-sqlite", "admin-memory", "admin-sqlite"})
		dbPath := filepath.Join(dir, fmt.Sprintf("q%d.db", c))
		var store queue.Store
		if via == "admin-memory" {
			store = queue.NewMemoryStore()
		} else {
			sq, err := queue.NewSQLiteStore(dbPath)
			if err != nil {
				return err
			}
			store = sq
		}
		// queue content: mixed routes, states, timestamps with ties
		nm := 4 + r.intn(10)
		var ids []string
		for i := 0; i < nm; i++ {
			id := fmt.Sprintf("m%02d", i)
			ids = append(ids, id)
			st := pick(r, []queue.State{queue.StateQueued, queue.StateQueued, queue.StateDead, queue.StateDead, queue.StateCanceled, queue.StateCanceled, queue.StateCanceled, queue.StateDelivered})
			env := queue.Envelope{ID: id, Route: pick(r, []string{"/billing", "/billing", "/alerts", "/other", "/other"}), Target: "pull", State: st,
				ReceivedAt: base.Add(-time.Duration(r.intn(6)) * time.Minute), Payload: []byte("x")}
			if st == queue.StateDead {
				env.DeadReason = "max_retries"
			}
			if err := store.Enqueue(env); err != nil {
				return fmt.Errorf("seed %s: %w", id, err)
			}
		}
		if r.chance(40) {
			// one message in flight
			_, _ = store.Dequeue(queue.DequeueRequest{Route: pick(r, []string{"/billing", "/other"}), Target: "pull", Batch: 1, LeaseTTL: time.Hour})
		}
		before := snapStore(store)

		// the call
		kind := pick(r, []string{"cancel_f", "requeue_f", "resume_f", "cancel_f", "requeue_f", "resume_f", "cancel", "requeue", "resume", "dlq_requeue", "dlq_delete"})
		byFilter := strings.HasSuffix(kind, "_f")
		argsM := map[string]interface{}{"reason": "verif"}
		f := jfilter{}
		op := jop{T: map[string]string{"dlq_requeue": "requeue_dead", "dlq_delete": "delete_dead"}[kind]}
		if op.T == "" {
			op.T = kind
		}
		expectRefusal := ""
		app_, name := "", ""
		if byFilter {
			switch r.weighted([]int{8, 40, 45, 7}) {
			case 0: // no selector at all
			case 1:
				f.Route = pick(r, []string{"/other", "/other", "/other", "/other", "/billing", "/alerts", "/nope"})
				argsM["route"] = f.Route
			case 2:
				k := pick(r, [][2]string{{"billing", "invoice.created"}, {"ops", "alerts"}, {"billing", "invoice.created"}, {"ops", "alerts"}})
				app_, name = k[0], k[1]
				f.Route = opFrontManaged[k]
				argsM["application"], argsM["endpoint_name"] = app_, name
			case 3:
				app_, name = "billing", "no.such.endpoint"
				argsM["application"], argsM["endpoint_name"] = app_, name
				expectRefusal = "unknown managed endpoint"
			}
			if r.chance(30) {
				f.Target = pick(r, []string{"pull", "pull", "http://nowhere"})
				argsM["target"] = f.Target
			}
			if r.chance(40) {
				allowed := map[string][]string{"cancel_f": {"queued", "leased", "dead"}, "requeue_f": {"dead", "canceled"}, "resume_f": {"canceled"}}[kind]
				f.State = pick(r, allowed)
				if r.chance(15) {
					f.State = pick(r, []string{"queued", "leased", "dead", "canceled", "delivered"})
				}
				argsM["state"] = f.State
			}
			if r.chance(40) {
				t := base.Add(-time.Duration(r.intn(6)) * time.Minute)
				f.Before = t.UnixNano()
				argsM["before"] = t.Format(time.RFC3339)
			}
			if r.chance(55) {
				f.Limit = pick(r, []int{1, 1, 2, 3, 50, 1000})
				argsM["limit"] = f.Limit
			}
			if r.chance(35) {
				f.Preview = true
				argsM["preview_only"] = true
			}
			op.F = &f
		} else {
			k := 1 + r.intn(4)
			for i := 0; i < k; i++ {
				id := pick(r, ids)
				if r.chance(10) {
					id = "unknown" + fmt.Sprint(i)
				}
				op.IDs = append(op.IDs, id)
			}
			argsM["ids"] = op.IDs
		}

		resp := jresp{T: "err"}
		raw := ""
		switch via {
		case "mcp-sqlite":
			if c, ok := store.(interface{ Close() error }); ok {
				_ = c.Close()
			}
			tool := map[string]string{"cancel_f": "messages_cancel_by_filter", "requeue_f": "messages_requeue_by_filter", "resume_f": "messages_resume_by_filter",
				"cancel": "messages_cancel", "requeue": "messages_requeue", "resume": "messages_resume", "dlq_requeue": "dlq_requeue", "dlq_delete": "dlq_delete"}[kind]
			var ob, ab bytes.Buffer
			s := mcp.NewServer(bytes.NewReader(frame(map[string]interface{}{"jsonrpc": "2.0", "id": 7, "method": "tools/call",
				"params": map[string]interface{}{"name": tool, "arguments": argsM}})), &ob, cfgPath, dbPath,
				mcp.WithRole(mcp.RoleAdmin), mcp.WithMutationsEnabled(true), mcp.WithPrincipal("ops@example"), mcp.WithAuditWriter(&ab))
			_ = s.Serve(context.Background())
			for _, fr := range readFrames(ob.Bytes()) {
				res, ok := fr["result"].(map[string]interface{})
				if !ok {
					continue
				}
				if b, _ := res["isError"].(bool); b {
					if cs, ok := res["content"].([]interface{}); ok && len(cs) > 0 {
						raw, _ = cs[0].(map[string]interface{})["text"].(string)
					}
					continue
				}
				if sc, ok := res["structuredContent"].(map[string]interface{}); ok {
					resp = countResp(sc, kind)
					b, _ := json.Marshal(sc)
					raw = string(b)
				}
			}
			sq, err := queue.NewSQLiteStore(dbPath)
			if err != nil {
				return err
			}
			store = sq
		default:
			rt, err := app.VerifNewRuntime(compiled, nil)
			if err != nil {
				return err
			}
			p := map[string]string{"cancel_f": "/messages/cancel_by_filter", "requeue_f": "/messages/requeue_by_filter", "resume_f": "/messages/resume_by_filter",
				"cancel": "/messages/cancel", "requeue": "/messages/requeue", "resume": "/messages/resume", "dlq_requeue": "/dlq/requeue", "dlq_delete": "/dlq/delete"}[kind]
			body := map[string]interface{}{}
			for k, v := range argsM {
				if k != "reason" {
					body[k] = v
				}
			}
			if app_ != "" && r.chance(50) {
				// the endpoint-scoped form of the same request
				p = "/applications/" + app_ + "/endpoints/" + name + "/messages/" + strings.TrimSuffix(kind, "_f") + "_by_filter"
				delete(body, "application")
				delete(body, "endpoint_name")
			}
			bb, _ := json.Marshal(body)
			req := httptest.NewRequest("POST", "http://ex"+p, bytes.NewReader(bb))
			req.Header.Set("Authorization", "Bearer adm")
			req.Header.Set("Content-Type", "application/json")
			req.Header.Set("X-Hookaido-Audit-Reason", "verif")
			req.Header.Set("X-Hookaido-Audit-Actor", "ops@example")
			req.Header.Set("X-Request-ID", fmt.Sprintf("req-%d", c))
			rr := httptest.NewRecorder()
			rt.AdminServer(store).ServeHTTP(rr, req)
			raw = fmt.Sprintf("%d %s", rr.Code, strings.TrimSpace(rr.Body.String()))
			if rr.Code == 200 {
				var m map[string]interface{}
				if json.Unmarshal(rr.Body.Bytes(), &m) == nil {
					resp = countResp(m, kind)
				}
			}
		}
		after := snapStore(store)
		if c, ok := store.(interface{ Close() error }); ok {
			_ = c.Close()
		}
		os.Remove(dbPath)
		os.Remove(dbPath + "-wal")
		os.Remove(dbPath + "-shm")
		if len(raw) > 300 {
			raw = raw[:300]
		}
		emit(map[string]interface{}{"k": "front", "case": c, "via": via, "op": op, "selector": [2]string{app_, name}, "expectRefusal": expectRefusal, "resp": resp, "raw": raw, "before": before, "after": after})
	}
	return nil
}

func countResp(m map[string]interface{}, kind string) jresp {
	num := func(k string) (int, bool) {
		v, ok := m[k].(float64)
		return int(v), ok
	}
	key := map[string]string{"cancel_f": "canceled", "requeue_f": "requeued", "resume_f": "resumed", "cancel": "canceled", "requeue": "requeued", "resume": "resumed",
		"dlq_requeue": "requeued", "dlq_delete": "deleted"}[kind]
	ch, ok := num(key)
	mt, okm := num("matched")
	if !ok && !okm {
		return jresp{T: "err", Msg: "no " + key + " in the answer"}
	}
	// a zero count is omitted from the answer
	if !okm {
		mt = ch
	}
	pv, _ := m["preview_only"].(bool)
	return jresp{T: "count", Changed: ch, Matched: mt, Preview: pv}
}
