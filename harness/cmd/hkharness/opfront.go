package main

// Operator mutations through the FRONT ENDS (C14): the MCP tools on a SQLite file (direct mode) and the Admin HTTP API on
// memory and SQLite. The store-level traces (queue.go) start below the code that turns a tool call / request body into a
// filter (managed selector -> route, state / before / limit parsing); this harness starts above it. One record per call:
// the operation as it was MEANT (selector resolved by the harness from its own configuration text), what the front end
// answered, and complete snapshots of the store before and after.

import (
	"bufio"
	"bytes"
	"context"
	"encoding/base64"
	"encoding/hex"
	"encoding/json"
	"flag"
	"fmt"
	"net"
	"net/http"
	"net/http/httptest"
	"os"
	"path/filepath"
	"sort"
	"strings"
	"sync"
	"time"

	"github.com/nuetzliches/hookaido/internal/app"
	"github.com/nuetzliches/hookaido/internal/mcp"
	"github.com/nuetzliches/hookaido/internal/queue"
)

const opFrontConfig = `pull_api {
  auth token "raw:t"
}
admin_api {
  auth token "raw:adm"
}
"/billing" {
  application "billing"
  endpoint_name "invoice.created"
  pull { path "/e" }
}
"/alerts" {
  application "ops"
  endpoint_name "alerts"
  pull { path "/a" }
}
"/crm" {
  application "crm"
  endpoint_name "sync"
  pull { path "/c" }
}
"/other" {
  pull { path "/o" }
}
`

var opFrontManaged = map[[2]string]string{{"billing", "invoice.created"}: "/billing", {"ops", "alerts"}: "/alerts", {"crm", "sync"}: "/crm"}

func snapStore(st queue.Store) []jmsg {
	var envs []queue.Envelope
	switch s := st.(type) {
	case *queue.MemoryStore:
		envs = s.VerifSnapshot()
	case *queue.SQLiteStore:
		envs, _ = s.VerifSnapshot()
	}
	out := make([]jmsg, 0, len(envs))
	for _, e := range envs {
		out = append(out, canonEnv(e))
	}
	sort.Slice(out, func(i, j int) bool { return out[i].ID < out[j].ID })
	return out
}

func cmdOpFront(args []string) error {
	fs := flag.NewFlagSet("opfront", flag.ExitOnError)
	seed := fs.Uint64("seed", 1, "seed")
	n := fs.Int("n", 300, "calls")
	outPath := fs.String("out", "-", "output")
	fs.Parse(args)
	w := os.Stdout
	if *outPath != "-" {
		f, err := os.Create(*outPath)
		if err != nil {
			return err
		}
		defer f.Close()
		w = f
	}
	out := bufio.NewWriterSize(w, 1<<20)
	defer out.Flush()
	emit := func(v interface{}) {
		b, _ := json.Marshal(v)
		out.Write(b)
		out.WriteByte('\n')
	}
	r := newRng(*seed)
	dir, err := scratchDir()
	if err != nil {
		return err
	}
	defer os.RemoveAll(dir)
	cfgPath := filepath.Join(dir, "Hookaidofile")
	if err := os.WriteFile(cfgPath, []byte(opFrontConfig), 0o600); err != nil {
		return err
	}
	compiled, err := compileText(opFrontConfig)
	if err != nil {
		return err
	}
	base := time.Date(2026, 2, 7, 12, 0, 0, 0, time.UTC)

	// MCP in admin-proxy mode (memory backend): the tools call the Admin API over TCP. One listener for the whole run; the
	// handler behind it is the Admin server of the case at hand.
	ln, err := net.Listen("tcp", "127.0.0.1:0")
	if err != nil {
		return err
	}
	defer ln.Close()
	var curMu sync.Mutex
	var curAdmin http.Handler
	loseNext := false // the next request is carried out, but its answer never reaches the caller (connection closed)
	dropPublishAt, dropMode, publishSeen := 0, "", 0 // the k-th publish request of the case is NOT carried out: connection closed ("drop") or a 200 with half a body ("half")
	go func() {
		_ = http.Serve(ln, http.HandlerFunc(func(w http.ResponseWriter, req *http.Request) {
			curMu.Lock()
			h := curAdmin
			lose := loseNext && req.Method == http.MethodPost // the first mutating request of the case
			if lose {
				loseNext = false
			}
			mode := ""
			if req.Method == http.MethodPost && strings.HasSuffix(req.URL.Path, "/publish") {
				publishSeen++
				if dropPublishAt != 0 && publishSeen == dropPublishAt {
					mode = dropMode
				}
			}
			curMu.Unlock()
			if mode != "" {
				if hj, ok := w.(http.Hijacker); ok {
					if conn, buf, err := hj.Hijack(); err == nil {
						if mode == "half" {
							buf.WriteString("HTTP/1.1 200 OK\r\nContent-Type: application/json\r\nContent-Length: 64\r\n\r\n{\"published\":")
							buf.Flush()
						}
						conn.Close()
					}
				}
				return
			}
			if h == nil {
				w.WriteHeader(503)
				return
			}
			if lose {
				h.ServeHTTP(httptest.NewRecorder(), req)
				if hj, ok := w.(http.Hijacker); ok {
					if conn, _, err := hj.Hijack(); err == nil {
						conn.Close()
					}
				}
				return
			}
			h.ServeHTTP(w, req)
		}))
	}()
	proxyText := strings.Replace(opFrontConfig, "admin_api {\n", fmt.Sprintf("admin_api {\n  listen %s\n", ln.Addr().String()), 1)
	proxyText = strings.ReplaceAll(proxyText, "  pull { path", "  queue { backend memory }\n  pull { path")
	proxyCfgPath := filepath.Join(dir, "Hookaidofile.proxy")
	if err := os.WriteFile(proxyCfgPath, []byte(proxyText), 0o600); err != nil {
		return err
	}
	compiledProxy, err := compileText(proxyText)
	if err != nil {
		return fmt.Errorf("proxy configuration: %w", err)
	}

	for c := 0; c < *n; c++ {
		via := pick(r, []string{"mcp-sqlite", "admin-memory", "admin-sqlite", "mcp-proxy-memory"})
		dbPath := filepath.Join(dir, fmt.Sprintf("q%d.db", c))
		lostAnswer := via == "mcp-proxy-memory" && r.chance(15)
		var store queue.Store
		if via == "admin-memory" || via == "mcp-proxy-memory" {
			store = queue.NewMemoryStore()
		} else {
			sq, err := queue.NewSQLiteStore(dbPath)
			if err != nil {
				return err
			}
			store = sq
		}
		// queue content: mixed routes, states, timestamps with ties
		nm := 4 + r.intn(10)
		var ids []string
		var recvs []time.Time
		for i := 0; i < nm; i++ {
			id := fmt.Sprintf("m%02d", i)
			ids = append(ids, id)
			st := pick(r, []queue.State{queue.StateQueued, queue.StateQueued, queue.StateDead, queue.StateDead, queue.StateCanceled, queue.StateCanceled, queue.StateCanceled, queue.StateDelivered})
			env := queue.Envelope{ID: id, Route: pick(r, []string{"/billing", "/billing", "/alerts", "/other", "/other", "/crm"}), Target: "pull", State: st,
				ReceivedAt: base.Add(-time.Duration(r.intn(6)) * time.Minute).Add(time.Duration(pick(r, []int{0, 0, 250, 500, 750})) * time.Millisecond), Payload: []byte("x")}
			if st == queue.StateDead {
				env.DeadReason = "max_retries"
			}
			recvs = append(recvs, env.ReceivedAt)
			if err := store.Enqueue(env); err != nil {
				return fmt.Errorf("seed %s: %w", id, err)
			}
		}
		if r.chance(40) {
			// one message in flight
			_, _ = store.Dequeue(queue.DequeueRequest{Route: pick(r, []string{"/billing", "/other"}), Target: "pull", Batch: 1, LeaseTTL: time.Hour})
		}
		before := snapStore(store)

		// the call
		kind := pick(r, []string{"cancel_f", "requeue_f", "resume_f", "cancel_f", "requeue_f", "resume_f", "cancel", "requeue", "resume", "dlq_requeue", "dlq_delete", "publish", "publish", "publish"})
		if via == "mcp-proxy-memory" && !lostAnswer && r.chance(12) {
			kind = "publish3"
		}
		byFilter := strings.HasSuffix(kind, "_f")
		argsM := map[string]interface{}{"reason": "verif"}
		f := jfilter{}
		op := jop{T: map[string]string{"dlq_requeue": "requeue_dead", "dlq_delete": "delete_dead"}[kind]}
		if op.T == "" {
			op.T = kind
		}
		expectRefusal := ""
		app_, name := "", ""
		type pubItem struct {
			ID      string `json:"id"`
			Route   string `json:"route"`
			Payload string `json:"payload"`
			Recv    int64  `json:"recv"`
			Next    int64  `json:"next"`
			Headers string `json:"headers"`
		}
		var pubItems []pubItem
		var pubPayload []map[string]interface{}
		var pub3 []map[string]interface{}
		var pub3Items []pubItem
		pub3DropAt, pub3DropMode := 0, ""
		if kind == "publish3" {
			// ONE messages_publish call with items for three managed endpoints: the tool turns it into three Admin calls. With
			// an id that already exists in the last group the call fails after the first two batches were accepted: none of
			// its items may stay deliverable
			groups := [][2]string{{"billing", "invoice.created"}, {"ops", "alerts"}, {"crm", "sync"}}
			for i := len(groups) - 1; i > 0; i-- {
				j := r.intn(i + 1)
				groups[i], groups[j] = groups[j], groups[i]
			}
			dup := r.chance(45)
			if !dup && r.chance(60) {
				// the Admin API does not answer the publish of the 2nd or 3rd group: the connection is closed, or the answer
				// stops after half a body; that batch is not carried out
				pub3DropAt, pub3DropMode = 2+r.intn(2), pick(r, []string{"drop", "half"})
			}
			for gi, g := range groups {
				id := fmt.Sprintf("p3-%d-%d", c, gi)
				if dup && gi == len(groups)-1 {
					id = ids[0] // already in the queue
				}
				payload := []byte(fmt.Sprintf("p3 %d/%d", c, gi))
				pub3 = append(pub3, map[string]interface{}{"id": id, "application": g[0], "endpoint_name": g[1], "payload_b64": base64.StdEncoding.EncodeToString(payload)})
				pub3Items = append(pub3Items, pubItem{ID: id, Route: opFrontManaged[g], Payload: hex.EncodeToString(payload)})
			}
		}
		if kind == "publish" {
			// 1-3 items for one selector: the unmanaged route, or a managed endpoint
			if r.chance(50) {
				app_, name = "billing", "invoice.created"
				if r.chance(40) {
					app_, name = "ops", "alerts"
				}
			}
			route := "/other"
			if app_ != "" {
				route = opFrontManaged[[2]string{app_, name}]
			}
			for k := 0; k < 1+r.intn(3); k++ {
				it := pubItem{ID: fmt.Sprintf("pub%d-%d", c, k), Route: route}
				payload := []byte(fmt.Sprintf("published %d/%d", c, k))
				it.Payload = hex.EncodeToString(payload)
				rec := map[string]interface{}{"id": it.ID, "payload_b64": base64.StdEncoding.EncodeToString(payload)}
				if r.chance(50) {
					t := base.Add(time.Duration(10+r.intn(600)) * time.Minute) // due in the future
					it.Next = t.UnixNano()
					rec["next_run_at"] = t.Format(time.RFC3339)
				}
				if r.chance(40) {
					t := base.Add(-time.Duration(1+r.intn(300)) * time.Minute)
					it.Recv = t.UnixNano()
					rec["received_at"] = t.Format(time.RFC3339)
				}
				if r.chance(50) {
					h := map[string]string{"X-P": fmt.Sprintf("v%d", k)}
					it.Headers = canonMap(h)
					rec["headers"] = h
				}
				pubItems = append(pubItems, it)
				pubPayload = append(pubPayload, rec)
			}
		}
		if byFilter {
			switch r.weighted([]int{8, 40, 45, 7}) {
			case 0: // no selector at all
			case 1:
				f.Route = pick(r, []string{"/other", "/other", "/other", "/other", "/billing", "/alerts", "/nope"})
				argsM["route"] = f.Route
			case 2:
				k := pick(r, [][2]string{{"billing", "invoice.created"}, {"ops", "alerts"}, {"billing", "invoice.created"}, {"ops", "alerts"}})
				app_, name = k[0], k[1]
				f.Route = opFrontManaged[k]
				argsM["application"], argsM["endpoint_name"] = app_, name
			case 3:
				app_, name = "billing", "no.such.endpoint"
				argsM["application"], argsM["endpoint_name"] = app_, name
				expectRefusal = "unknown managed endpoint"
			}
			if r.chance(30) {
				f.Target = pick(r, []string{"pull", "pull", "http://nowhere"})
				argsM["target"] = f.Target
			}
			if r.chance(40) {
				allowed := map[string][]string{"cancel_f": {"queued", "leased", "dead"}, "requeue_f": {"dead", "canceled"}, "resume_f": {"canceled"}}[kind]
				f.State = pick(r, allowed)
				if r.chance(15) {
					f.State = pick(r, []string{"queued", "leased", "dead", "canceled", "delivered"})
				}
				argsM["state"] = f.State
			}
			if r.chance(40) {
				t := base.Add(-time.Duration(r.intn(6)) * time.Minute)
				if r.chance(50) {
					t = t.Add(time.Duration(1+r.intn(999)) * time.Millisecond) // a cursor as listings return it: with a fraction
				}
				if r.chance(40) {
					// just after one of the messages, inside the same second: a cursor that loses its fraction no longer covers it
					t = pick(r, recvs).Add(time.Duration(pick(r, []int{1, 100, 240})) * time.Millisecond)
				}
				f.Before = t.UnixNano()
				argsM["before"] = t.Format(time.RFC3339Nano)
			}
			if r.chance(55) {
				f.Limit = pick(r, []int{1, 1, 2, 3, 50, 1000})
				argsM["limit"] = f.Limit
			}
			if r.chance(35) {
				f.Preview = true
				argsM["preview_only"] = true
			}
			if lostAnswer {
				// a selection that a second application would extend: one message at a time, no other criterion
				f.Limit, f.Preview, f.State, f.Before, f.Target = 1, false, "", 0, ""
				argsM["limit"] = 1
				delete(argsM, "preview_only")
				delete(argsM, "state")
				delete(argsM, "before")
				delete(argsM, "target")
			}
			op.F = &f
		} else if kind != "publish" && kind != "publish3" {
			k := 1 + r.intn(4)
			for i := 0; i < k; i++ {
				id := pick(r, ids)
				if r.chance(10) {
					id = "unknown" + fmt.Sprint(i)
				}
				op.IDs = append(op.IDs, id)
			}
			argsM["ids"] = op.IDs
		}

		resp := jresp{T: "err"}
		raw := ""
		toolAnswered, toolIsError := false, false // MCP vias: the tool's own verdict on the call, and what it wrote to the audit log
		auditResults := []string{}
		if kind == "publish" || kind == "publish3" {
			delete(argsM, "ids")
		}
		if kind == "publish3" {
			argsM["items"] = pub3
		}
		switch via {
		case "mcp-sqlite", "mcp-proxy-memory":
			if via == "mcp-sqlite" {
				if c, ok := store.(interface{ Close() error }); ok {
					_ = c.Close()
				}
			} else {
				rtp, err := app.VerifNewRuntime(compiledProxy, nil)
				if err != nil {
					return err
				}
				curMu.Lock()
				curAdmin = rtp.AdminServer(store)
				loseNext = lostAnswer
				dropPublishAt, dropMode, publishSeen = pub3DropAt, pub3DropMode, 0
				curMu.Unlock()
			}
			if kind == "publish" {
				var items []map[string]interface{}
				for _, rec := range pubPayload {
					it := map[string]interface{}{}
					for k, v := range rec {
						it[k] = v
					}
					if app_ != "" {
						it["application"], it["endpoint_name"] = app_, name
					} else {
						it["route"] = "/other"
					}
					items = append(items, it)
				}
				argsM["items"] = items
			}
			tool := map[string]string{"cancel_f": "messages_cancel_by_filter", "requeue_f": "messages_requeue_by_filter", "resume_f": "messages_resume_by_filter",
				"cancel": "messages_cancel", "requeue": "messages_requeue", "resume": "messages_resume", "dlq_requeue": "dlq_requeue", "dlq_delete": "dlq_delete", "publish": "messages_publish", "publish3": "messages_publish"}[kind]
			mcpCfg := cfgPath
			if via == "mcp-proxy-memory" {
				mcpCfg = proxyCfgPath
			}
			var ob, ab bytes.Buffer
			s := mcp.NewServer(bytes.NewReader(frame(map[string]interface{}{"jsonrpc": "2.0", "id": 7, "method": "tools/call",
				"params": map[string]interface{}{"name": tool, "arguments": argsM}})), &ob, mcpCfg, dbPath,
				mcp.WithRole(mcp.RoleAdmin), mcp.WithMutationsEnabled(true), mcp.WithPrincipal("ops@example"), mcp.WithAuditWriter(&ab))
			_ = s.Serve(context.Background())
			toolAnswered = true
			for _, line := range strings.Split(ab.String(), "\n") {
				var m map[string]interface{}
				if strings.TrimSpace(line) != "" && json.Unmarshal([]byte(line), &m) == nil {
					res, _ := m["result"].(string)
					auditResults = append(auditResults, res)
				}
			}
			for _, fr := range readFrames(ob.Bytes()) {
				if _, ok := fr["error"]; ok {
					toolIsError = true
				}
				res, ok := fr["result"].(map[string]interface{})
				if !ok {
					continue
				}
				if b, _ := res["isError"].(bool); b {
					toolIsError = true
					if cs, ok := res["content"].([]interface{}); ok && len(cs) > 0 {
						raw, _ = cs[0].(map[string]interface{})["text"].(string)
					}
					continue
				}
				if sc, ok := res["structuredContent"].(map[string]interface{}); ok {
					resp = countResp(sc, kind)
					b, _ := json.Marshal(sc)
					raw = string(b)
				}
			}
			if via == "mcp-sqlite" {
				sq, err := queue.NewSQLiteStore(dbPath)
				if err != nil {
					return err
				}
				store = sq
			}
		default:
			rt, err := app.VerifNewRuntime(compiled, nil)
			if err != nil {
				return err
			}
			p := map[string]string{"cancel_f": "/messages/cancel_by_filter", "requeue_f": "/messages/requeue_by_filter", "resume_f": "/messages/resume_by_filter",
				"cancel": "/messages/cancel", "requeue": "/messages/requeue", "resume": "/messages/resume", "dlq_requeue": "/dlq/requeue", "dlq_delete": "/dlq/delete", "publish": "/messages/publish"}[kind]
			body := map[string]interface{}{}
			for k, v := range argsM {
				if k != "reason" {
					body[k] = v
				}
			}
			if kind == "publish" {
				var items []map[string]interface{}
				for _, rec := range pubPayload {
					it := map[string]interface{}{}
					for k, v := range rec {
						it[k] = v
					}
					if app_ == "" {
						it["route"] = "/other"
					}
					items = append(items, it)
				}
				body = map[string]interface{}{"items": items}
				if app_ != "" {
					p = "/applications/" + app_ + "/endpoints/" + name + "/messages/publish"
				}
			} else if app_ != "" && r.chance(50) {
				// the endpoint-scoped form of the same request
				p = "/applications/" + app_ + "/endpoints/" + name + "/messages/" + strings.TrimSuffix(kind, "_f") + "_by_filter"
				delete(body, "application")
				delete(body, "endpoint_name")
			}
			bb, _ := json.Marshal(body)
			req := httptest.NewRequest("POST", "http://ex"+p, bytes.NewReader(bb))
			req.Header.Set("Authorization", "Bearer adm")
			req.Header.Set("Content-Type", "application/json")
			req.Header.Set("X-Hookaido-Audit-Reason", "verif")
			req.Header.Set("X-Hookaido-Audit-Actor", "ops@example")
			req.Header.Set("X-Request-ID", fmt.Sprintf("req-%d", c))
			rr := httptest.NewRecorder()
			rt.AdminServer(store).ServeHTTP(rr, req)
			raw = fmt.Sprintf("%d %s", rr.Code, strings.TrimSpace(rr.Body.String()))
			if rr.Code == 200 {
				var m map[string]interface{}
				if json.Unmarshal(rr.Body.Bytes(), &m) == nil {
					resp = countResp(m, kind)
				}
			}
		}
		after := snapStore(store)
		if c, ok := store.(interface{ Close() error }); ok {
			_ = c.Close()
		}
		os.Remove(dbPath)
		os.Remove(dbPath + "-wal")
		os.Remove(dbPath + "-shm")
		if len(raw) > 300 {
			raw = raw[:300]
		}
		if kind == "publish3" {
			emit(map[string]interface{}{"k": "frontpub3", "case": c, "via": via, "items": pub3Items, "existing": ids[0], "resp": resp, "raw": raw, "before": before, "after": after,
				"dropAt": pub3DropAt, "dropMode": pub3DropMode, "toolAnswered": toolAnswered, "toolIsError": toolIsError, "audit": auditResults})
			continue
		}
		if kind == "publish" {
			emit(map[string]interface{}{"k": "frontpub", "case": c, "via": via, "lostAnswer": lostAnswer, "items": pubItems, "selector": [2]string{app_, name}, "resp": resp, "raw": raw, "before": before, "after": after,
				"toolAnswered": toolAnswered, "toolIsError": toolIsError, "audit": auditResults})
			continue
		}
		emit(map[string]interface{}{"k": "front", "case": c, "via": via, "lostAnswer": lostAnswer, "op": op, "selector": [2]string{app_, name}, "expectRefusal": expectRefusal, "resp": resp, "raw": raw, "before": before, "after": after,
			"toolAnswered": toolAnswered, "toolIsError": toolIsError, "audit": auditResults})
	}
	return nil
}

func countResp(m map[string]interface{}, kind string) jresp {
	num := func(k string) (int, bool) {
		v, ok := m[k].(float64)
		return int(v), ok
	}
	key := map[string]string{"publish": "published", "publish3": "published", "cancel_f": "canceled", "requeue_f": "requeued", "resume_f": "resumed", "cancel": "canceled", "requeue": "requeued", "resume": "resumed",
		"dlq_requeue": "requeued", "dlq_delete": "deleted"}[kind]
	ch, ok := num(key)
	mt, okm := num("matched")
	if !ok && !okm {
		return jresp{T: "err", Msg: "no " + key + " in the answer"}
	}
	// a zero count is omitted from the answer
	if !okm {
		mt = ch
	}
	pv, _ := m["preview_only"].(bool)
	return jresp{T: "count", Changed: ch, Matched: mt, Preview: pv}
}
