package main

import (
	"bufio"
	"bytes"
	"context"
	"encoding/json"
	"flag"
	"fmt"
	"io"
	"net"
	"net/http"
	"net/http/httptest"
	"os"
	"path"
	"path/filepath"
	"strings"
	"time"

	"github.com/nuetzliches/hookaido/internal/app"
	"github.com/nuetzliches/hookaido/internal/config"
	"github.com/nuetzliches/hookaido/internal/queue"
	workerapipb "github.com/nuetzliches/hookaido/internal/workerapi/proto"
	"google.golang.org/grpc/metadata"
	"google.golang.org/grpc/status"
	"google.golang.org/protobuf/types/known/durationpb"
)

type jpullroute struct {
	Route    string   `json:"route"`
	Endpoint string   `json:"endpoint"`
	Tokens   []string `json:"tokens"`
}

func snapKey(st *queue.MemoryStore) string {
	var b strings.Builder
	for _, e := range st.VerifSnapshot() {
		fmt.Fprintf(&b, "%s/%s/%d/%s;", e.ID, e.State, e.Attempt, e.LeaseID)
	}
	return b.String()
}

func cmdAPIAuth(args []string) error {
	fs := flag.NewFlagSet("apiauth", flag.ExitOnError)
	seed := fs.Uint64("seed", 1, "seed")
	nc := fs.Int("configs", 60, "configurations")
	nreq := fs.Int("requests", 40, "requests per configuration")
	nlive := fs.Int("live", 4, "configurations served by listeners started through the real startServers (over TCP), each reloaded once")
	outPath := fs.String("out", "-", "output")
	fs.Parse(args)
	w := os.Stdout
	if *outPath != "-" {
		f, err := os.Create(*outPath)
		if err != nil {
			return err
		}
		defer f.Close()
		w = f
	}
	out := bufio.NewWriterSize(w, 1<<20)
	defer out.Flush()
	emit := func(v interface{}) {
		b, _ := json.Marshal(v)
		out.Write(b)
		out.WriteByte('\n')
	}
	r := newRng(*seed)
	dir, err := scratchDir()
	if err != nil {
		return err
	}
	defer os.RemoveAll(dir)
	clock := &fakeClock{now: 1_700_000_000_000_000_000}
	tokPool := []string{"tokA", "tokB", "tok", "secret-token-1", "T0k3n", "abc", "abcd"}

	for c := 0; c < *nc; c++ {
		// one route layout, tokens drawn per configuration: B is the configuration in force when the requests arrive; in a
		// third of the cases the process was started with another token set A (same layout) and reloaded to B
		nr := 1 + r.intn(3)
		nested := r.chance(40)
		envN := 0
		tokenRef := func(b *strings.Builder, indent, t string) string {
			// how the token is configured, and the value it is expected to load as
			switch r.weighted([]int{70, 20, 10}) {
			case 1:
				envN++
				name := fmt.Sprintf("HK_VERIF_TOK_%d_%d", c, envN)
				val := t
				switch r.weighted([]int{65, 20, 15}) {
				case 1:
					val = pick(r, []string{" ", "  ", "\t", " \n"}) // set, but blank: nobody can present it
				case 2:
					val = " " + t + " " // not trimmed: the configured token is the padded value, which no header can carry
				}
				os.Setenv(name, val)
				fmt.Fprintf(b, "%sauth token env:%s\n", indent, name)
				return val
			case 2:
				envN++
				fp := filepath.Join(dir, fmt.Sprintf("tok_%d_%d", c, envN))
				_ = os.WriteFile(fp, []byte(pick(r, []string{"", " ", "\n"})+t+pick(r, []string{"", "\n", " \n"})), 0o600)
				fmt.Fprintf(b, "%sauth token file:%s\n", indent, fp)
				return t // file contents are trimmed
			}
			fmt.Fprintf(b, "%sauth token raw:%s\n", indent, t)
			return t
		}
		type apiCfg struct {
			text          string
			global, admin []string
			routes        []jpullroute
		}
		genCfg := func(tag string) apiCfg {
			var b strings.Builder
			var a apiCfg
			ng := pick(r, []int{0, 0, 1, 1, 2})
			b.WriteString("pull_api {\n")
			for i := 0; i < ng; i++ {
				a.global = append(a.global, tokenRef(&b, "  ", pick(r, tokPool)+fmt.Sprintf("%sg%d", tag, i)))
			}
			b.WriteString("}\n")
			na := pick(r, []int{0, 1, 2})
			b.WriteString("admin_api {\n")
			for i := 0; i < na; i++ {
				a.admin = append(a.admin, tokenRef(&b, "  ", pick(r, tokPool)+fmt.Sprintf("%sadm%d", tag, i)))
			}
			b.WriteString("}\n")
			for i := 0; i < nr; i++ {
				jr := jpullroute{Route: fmt.Sprintf("/r%d", i), Endpoint: fmt.Sprintf("/pull/p%d", i), Tokens: []string{}}
				if i == 1 && nested {
					jr.Endpoint = "/pull/p0/sub" // nested endpoint
				}
				fmt.Fprintf(&b, "%s {\n  pull {\n    path %s\n", jr.Route, jr.Endpoint)
				nt := pick(r, []int{0, 0, 1, 2})
				for k := 0; k < nt; k++ {
					jr.Tokens = append(jr.Tokens, tokenRef(&b, "    ", pick(r, tokPool)+fmt.Sprintf("%sr%d_%d", tag, i, k)))
				}
				b.WriteString("  }\n}\n")
				a.routes = append(a.routes, jr)
			}
			a.text = b.String()
			return a
		}
		var old *apiCfg
		if r.chance(35) {
			a := genCfg("old")
			old = &a
		}
		cur := genCfg("")
		text, global, admin, routes := cur.text, cur.global, cur.admin, cur.routes
		base := map[string]interface{}{"global": global, "routes": routes, "admin": admin, "cfg": c, "reloaded": old != nil}
		if global == nil {
			base["global"] = []string{}
		}
		if admin == nil {
			base["admin"] = []string{}
		}
		cfg, err := config.Parse([]byte(text))
		if err != nil {
			emit(map[string]interface{}{"k": "cfgerror", "stage": "parse", "err": err.Error(), "text": text})
			continue
		}
		compiled, res := config.Compile(cfg)
		rec := map[string]interface{}{"k": "compile", "ok": res.OK}
		for k, v := range base {
			rec[k] = v
		}
		emit(rec)
		if !res.OK {
			continue
		}
		var rt *app.VerifRuntime
		if old != nil {
			oldCompiled, err := compileText(old.text)
			if err != nil {
				continue
			}
			rt, err = app.VerifNewRuntime(oldCompiled, clock.Now)
			if err != nil {
				continue // a token of the old configuration does not load
			}
			cfgPath := filepath.Join(dir, fmt.Sprintf("Hookaidofile.%d", c))
			_ = os.WriteFile(cfgPath, []byte(text), 0o600)
			if !rt.Reload(cfgPath) {
				// refused (a token of the new configuration does not load, or a restart is required): nothing to judge against B
				emit(map[string]interface{}{"k": "cfgerror", "stage": "reload", "err": "reload refused", "text": text})
				continue
			}
		} else {
			rt, err = app.VerifNewRuntime(compiled, clock.Now)
			if err != nil {
				emit(map[string]interface{}{"k": "cfgerror", "stage": "runtime", "err": err.Error(), "text": text})
				continue
			}
		}
		allTokens := append(append([]string{}, global...), admin...)
		for _, jr := range routes {
			allTokens = append(allTokens, jr.Tokens...)
		}
		if old != nil {
			// the retired tokens are presented too
			allTokens = append(append(allTokens, old.global...), old.admin...)
			for _, jr := range old.routes {
				allTokens = append(allTokens, jr.Tokens...)
			}
		}
		for i, t := range allTokens {
			if strings.TrimSpace(t) == "" {
				allTokens[i] = "x" // a blank configured token cannot be put into a header
			}
		}
		mutate := func(t string) string {
			switch r.intn(8) {
			case 0:
				return t[:len(t)-1]
			case 1:
				return t + "x"
			case 2:
				return strings.ToUpper(t)
			case 3:
				return strings.ToLower(t)
			case 4:
				return " " + t
			case 5:
				return t[1:]
			case 6:
				return t + " " + t
			}
			return "x" + t
		}
		var pref []string
		authValue := func() string {
			if len(allTokens) == 0 || r.chance(10) {
				return pick(r, []string{"", "Bearer ", "Bearer", "Basic dG9r", "Bearer nope"})
			}
			t := pick(r, allTokens)
			if len(pref) > 0 && r.chance(60) {
				t = pick(r, pref) // a token that governs the addressed endpoint
				if strings.TrimSpace(t) == "" {
					t = "x"
				}
			}
			switch r.weighted([]int{45, 20, 6, 6, 5, 5, 5, 4, 4}) {
			case 0:
				return "Bearer " + t
			case 1:
				return "Bearer " + mutate(t)
			case 2:
				return "bearer " + t
			case 3:
				return "BEARER " + t
			case 4:
				return t
			case 5:
				return "Bearer  " + t + "  "
			case 6:
				return "Token " + t
			case 7:
				return " Bearer " + t
			}
			return "Bearer\t" + t
		}
		for q := 0; q < *nreq; q++ {
			store := queue.NewMemoryStore(queue.WithNowFunc(clock.Now))
			for _, jr := range routes {
				_ = store.Enqueue(queue.Envelope{ID: "m" + jr.Route, Route: jr.Route, Target: "pull", Payload: []byte("x")})
			}
			before := snapKey(store)
			switch r.weighted([]int{55, 30, 15}) {
			case 0: // Pull API over HTTP
				ri := r.intn(len(routes))
				jr := routes[ri]
				pref = jr.Tokens
				if len(pref) == 0 {
					pref = global
				}
				if old != nil && r.chance(35) {
					pref = old.routes[ri].Tokens // what governed this endpoint before the reload
					if len(pref) == 0 {
						pref = old.global
					}
				}
				op := pick(r, []string{"dequeue", "dequeue", "ack", "nack", "extend", "bogus"})
				raw := jr.Endpoint + "/" + op
				switch r.weighted([]int{70, 6, 6, 6, 6, 6}) {
				case 1:
					raw = jr.Endpoint + "//" + op
				case 2:
					raw = jr.Endpoint + "/./" + op
				case 3:
					raw = "/zzz/.." + jr.Endpoint + "/" + op
				case 4:
					raw = jr.Endpoint + "/" + op + "/"
				case 5:
					raw = "/pull/unknown/" + op
				}
				body := `{"batch":1}`
				if op != "dequeue" {
					body = `{"lease_id":"lease_nope"}`
				}
				req := httptest.NewRequest(pick(r, []string{"POST", "POST", "POST", "POST", "POST", "POST", "POST", "POST", "POST", "POST", "POST", "GET"}), "http://ex"+raw, bytes.NewReader([]byte(body)))
				hv := authValue()
				if hv != "" {
					req.Header.Set("Authorization", hv)
				}
				rr := httptest.NewRecorder()
				rt.PullServer(store).ServeHTTP(rr, req)
				rec := map[string]interface{}{"k": "pull", "rawPath": req.URL.Path, "cleanPath": path.Clean(req.URL.Path), "method": req.Method, "auth": req.Header.Get("Authorization"), "status": rr.Code, "changed": snapKey(store) != before}
				for k, v := range base {
					rec[k] = v
				}
				emit(rec)
			case 1: // Worker API (gRPC handlers, metadata in the context)
				ri := r.intn(len(routes))
				jr := routes[ri]
				pref = jr.Tokens
				if len(pref) == 0 {
					pref = global
				}
				if old != nil && r.chance(35) {
					pref = old.routes[ri].Tokens
					if len(pref) == 0 {
						pref = old.global
					}
				}
				ep := jr.Endpoint
				if r.chance(10) {
					ep = " " + ep + " "
				}
				if r.chance(8) {
					ep = "/pull/unknown"
				}
				var vals []string
				for k := 0; k < pick(r, []int{0, 1, 1, 1, 2}); k++ {
					vals = append(vals, authValue())
				}
				ctx := context.Background()
				if vals != nil || r.chance(50) {
					md := metadata.MD{}
					for _, v := range vals {
						md.Append("authorization", v)
					}
					ctx = metadata.NewIncomingContext(ctx, md)
				}
				ws := rt.WorkerServer(rt.PullServer(store))
				var gerr error
				opn := pick(r, []string{"dequeue", "ack", "nack", "extend"})
				switch opn {
				case "dequeue":
					_, gerr = ws.Dequeue(ctx, &workerapipb.DequeueRequest{Endpoint: ep, Batch: 1})
				case "ack":
					_, gerr = ws.Ack(ctx, &workerapipb.AckRequest{Endpoint: ep, LeaseId: "lease_nope"})
				case "nack":
					_, gerr = ws.Nack(ctx, &workerapipb.NackRequest{Endpoint: ep, LeaseId: "lease_nope"})
				case "extend":
					_, gerr = ws.Extend(ctx, &workerapipb.ExtendRequest{Endpoint: ep, LeaseId: "lease_nope", ExtendBy: durationpb.New(time.Second)})
				}
				code := "OK"
				if gerr != nil {
					code = status.Code(gerr).String()
				}
				if vals == nil {
					vals = []string{}
				}
				rec := map[string]interface{}{"k": "worker", "endpoint": ep, "values": vals, "op": opn, "code": code, "changed": snapKey(store) != before}
				for k, v := range base {
					rec[k] = v
				}
				emit(rec)
			case 2: // Admin API
				pref = admin
				p := pick(r, []string{"/healthz", "/messages", "/dlq", "/messages/cancel", "/backlog/summary"})
				method := "GET"
				body := ""
				if p == "/messages/cancel" {
					method, body = "POST", `{"ids":["m/r0"]}`
				}
				req := httptest.NewRequest(method, "http://ex"+p, bytes.NewReader([]byte(body)))
				req.Header.Set("X-Hookaido-Audit-Reason", "verif")
				hv := authValue()
				if hv != "" {
					req.Header.Set("Authorization", hv)
				}
				rr := httptest.NewRecorder()
				rt.AdminServer(store).ServeHTTP(rr, req)
				rec := map[string]interface{}{"k": "admin", "path": p, "auth": req.Header.Get("Authorization"), "status": rr.Code, "changed": snapKey(store) != before}
				for k, v := range base {
					rec[k] = v
				}
				emit(rec)
			}
		}
	}
	// listeners started by run()'s own startServers, asked over TCP before and after a reload that rotates every token: what
	// answers is the wiring of the real binary, not the harness's copy of it
	for c := 0; c < *nlive; c++ {
		ports := make([]int, 3)
		for i := range ports {
			ln, err := net.Listen("tcp", "127.0.0.1:0")
			if err != nil {
				return err
			}
			ports[i] = ln.Addr().(*net.TCPAddr).Port
			ln.Close()
		}
		perRoute := r.chance(60)
		gen := func(tag string) (string, []string, []string, []jpullroute) {
			g, a, rt := []string{"liveG" + tag}, []string{"liveA" + tag}, []string{}
			if perRoute {
				rt = []string{"liveR" + tag}
			}
			var b strings.Builder
			fmt.Fprintf(&b, "ingress {\n  listen 127.0.0.1:%d\n}\npull_api {\n  listen 127.0.0.1:%d\n  auth token raw:%s\n}\nadmin_api {\n  listen 127.0.0.1:%d\n  auth token raw:%s\n}\n/r0 {\n  pull {\n    path /pull/p0\n",
				ports[0], ports[1], g[0], ports[2], a[0])
			for _, t := range rt {
				fmt.Fprintf(&b, "    auth token raw:%s\n", t)
			}
			b.WriteString("  }\n}\n")
			return b.String(), g, a, []jpullroute{{Route: "/r0", Endpoint: "/pull/p0", Tokens: rt}}
		}
		textA, gA, aA, rA := gen("old")
		textB, gB, aB, rB := gen("new")
		compiledA, err := compileText(textA)
		if err != nil {
			emit(map[string]interface{}{"k": "cfgerror", "stage": "live", "err": err.Error(), "text": textA})
			continue
		}
		store := queue.NewMemoryStore()
		live, err := app.VerifStartLive(compiledA, store)
		if err != nil {
			emit(map[string]interface{}{"k": "cfgerror", "stage": "live-start", "err": err.Error(), "text": textA})
			continue
		}
		client := &http.Client{Timeout: 5 * time.Second}
		all := append(append(append(append(append([]string{}, gA...), aA...), gB...), aB...), "nobody")
		all = append(append(all, rA[0].Tokens...), rB[0].Tokens...)
		ask := func(global, admin []string, routes []jpullroute, phase string) {
			base := map[string]interface{}{"global": global, "routes": routes, "admin": admin, "cfg": 100000 + c, "reloaded": phase == "after", "live": true}
			for _, t := range append([]string{""}, all...) {
				_ = store.Enqueue(queue.Envelope{ID: fmt.Sprintf("live-%d-%s-%s", c, phase, t), Route: "/r0", Target: "pull", Payload: []byte("x")})
				hv := ""
				if t != "" {
					hv = "Bearer " + t
				}
				for _, which := range []string{"pull", "admin"} {
					before := snapKey(store)
					var req *http.Request
					if which == "pull" {
						req, _ = http.NewRequest("POST", fmt.Sprintf("http://127.0.0.1:%d/pull/p0/dequeue", ports[1]), strings.NewReader(`{"batch":1,"lease_ttl":"1s"}`))
					} else {
						req, _ = http.NewRequest("GET", fmt.Sprintf("http://127.0.0.1:%d/messages", ports[2]), nil)
					}
					if hv != "" {
						req.Header.Set("Authorization", hv)
					}
					resp, err := client.Do(req)
					if err != nil {
						emit(map[string]interface{}{"k": "cfgerror", "stage": "live-request", "err": err.Error(), "text": textA})
						continue
					}
					io.Copy(io.Discard, resp.Body)
					resp.Body.Close()
					rec := map[string]interface{}{"status": resp.StatusCode, "auth": hv, "changed": snapKey(store) != before}
					if which == "pull" {
						rec["k"], rec["rawPath"], rec["cleanPath"], rec["method"] = "pull", "/pull/p0/dequeue", "/pull/p0/dequeue", "POST"
					} else {
						rec["k"], rec["path"] = "admin", "/messages"
					}
					for k, v := range base {
						rec[k] = v
					}
					emit(rec)
				}
			}
		}
		ask(gA, aA, rA, "before")
		cfgPath := filepath.Join(dir, fmt.Sprintf("Hookaidofile.live%d", c))
		_ = os.WriteFile(cfgPath, []byte(textB), 0o600)
		if !live.Reload(cfgPath) {
			emit(map[string]interface{}{"k": "cfgerror", "stage": "live-reload", "err": "a reload that only rotates tokens was refused", "text": textB})
		} else {
			ask(gB, aB, rB, "after")
		}
		live.Stop()
	}
	return nil
}
