package main

// C15: Admin publish (global direct path and endpoint-scoped path) through the real handler, wired to the real runtime
// state, on memory and SQLite stores with pre-filled queues. One self-contained record per request.

import (
	"bufio"
	"bytes"
	"encoding/base64"
	"encoding/json"
	"flag"
	"fmt"
	"net/http"
	"net/http/httptest"
	"os"
	"path/filepath"
	"strings"
	"time"

	"github.com/nuetzliches/hookaido/internal/app"
	"github.com/nuetzliches/hookaido/internal/queue"
)

type pubRoute struct {
	Path           string   `json:"path"`
	Targets        []string `json:"targets"`
	PublishEnabled bool     `json:"publishEnabled"`
	DirectEnabled  bool     `json:"directEnabled"`
	ManagedEnabled bool     `json:"managedEnabled"`
	Managed        bool     `json:"managed"`
	App            string   `json:"app"`
	Ep             string   `json:"ep"`
	Mode           string   `json:"mode"`
	MaxBody        int      `json:"maxBody"`
	MaxHeaders     int      `json:"maxHeaders"`
}

type pubAuditCfg struct {
	RequireActor     bool     `json:"requireActor"`
	RequireRequestID bool     `json:"requireRequestId"`
	ActorAllow       []string `json:"actorAllow"`
	ActorPrefix      []string `json:"actorPrefix"`
}

type pubCtx struct {
	Routes       []pubRoute  `json:"routes"`
	AllowPull    bool        `json:"allowPull"`
	AllowDeliver bool        `json:"allowDeliver"`
	Audit        pubAuditCfg `json:"audit"`
}

type pubItem struct {
	ID         string      `json:"id"`
	Route      string      `json:"route"`
	Target     string      `json:"target"`
	App        string      `json:"app"`
	Ep         string      `json:"ep"`
	PayloadB64 string      `json:"payloadB64"`
	Headers    [][2]string `json:"headers"`
	RecvOK     bool        `json:"recvOK"`
	NextOK     bool        `json:"nextOK"`
	Recv       int64       `json:"recv"`
	Next       int64       `json:"next"`
	HCanon     string      `json:"hcanon"`
	TCanon     string      `json:"tcanon"`
	recvS      string
	nextS      string
	trace      map[string]string
}

func onoff(b bool) string {
	if b {
		return "on"
	}
	return "off"
}

func genPubConfig(r *rng) (string, pubCtx) {
	ctx := pubCtx{AllowPull: !r.chance(15), AllowDeliver: !r.chance(15)}
	ctx.Audit.ActorAllow, ctx.Audit.ActorPrefix = []string{}, []string{}
	var b strings.Builder
	fmt.Fprintf(&b, "defaults {\n  publish_policy {\n    allow_pull_routes %s\n    allow_deliver_routes %s\n", onoff(ctx.AllowPull), onoff(ctx.AllowDeliver))
	if r.chance(40) {
		ctx.Audit.RequireActor = r.chance(40)
		ctx.Audit.RequireRequestID = r.chance(50)
		fmt.Fprintf(&b, "    require_actor %s\n    require_request_id %s\n", onoff(ctx.Audit.RequireActor), onoff(ctx.Audit.RequireRequestID))
		if r.chance(50) {
			ctx.Audit.ActorAllow = []string{"ci-bot"}
			b.WriteString("    actor_allow \"ci-bot\"\n")
		}
		if r.chance(40) {
			ctx.Audit.ActorPrefix = []string{"deploy-"}
			b.WriteString("    actor_prefix \"deploy-\"\n")
		}
	}
	b.WriteString("  }\n}\n")
	b.WriteString("pull_api {\n  auth token raw:t\n}\n")
	n := 2 + r.intn(4)
	apps := 0
	for i := 0; i < n; i++ {
		rt := pubRoute{Path: fmt.Sprintf("/p%d", i), PublishEnabled: !r.chance(12), DirectEnabled: !r.chance(12), ManagedEnabled: !r.chance(15),
			MaxBody: 2 << 20, MaxHeaders: 64 << 10}
		fmt.Fprintf(&b, "%s {\n", rt.Path)
		if r.chance(25) {
			apps++
			rt.Managed, rt.App, rt.Ep = true, fmt.Sprintf("app%d", apps), "ep"
			fmt.Fprintf(&b, "  application \"%s\"\n  endpoint_name \"%s\"\n", rt.App, rt.Ep)
		}
		if r.chance(45) {
			rt.MaxBody = pick(r, []int{4, 16, 48})
			fmt.Fprintf(&b, "  max_body %d\n", rt.MaxBody)
		}
		if r.chance(40) {
			rt.MaxHeaders = pick(r, []int{16, 40, 100})
			fmt.Fprintf(&b, "  max_headers %d\n", rt.MaxHeaders)
		}
		if !rt.PublishEnabled || !rt.DirectEnabled || !rt.ManagedEnabled || r.chance(20) {
			fmt.Fprintf(&b, "  publish {\n    enabled %s\n    direct %s\n    managed %s\n  }\n", onoff(rt.PublishEnabled), onoff(rt.DirectEnabled), onoff(rt.ManagedEnabled))
		}
		if r.chance(45) {
			rt.Mode, rt.Targets = "pull", []string{"pull"}
			fmt.Fprintf(&b, "  pull {\n    path /pull/p%d\n  }\n", i)
		} else {
			rt.Mode = "deliver"
			for k := 0; k < 1+r.intn(2); k++ {
				t := fmt.Sprintf("http://127.0.0.1:9/t%d_%d", i, k)
				rt.Targets = append(rt.Targets, t)
				fmt.Fprintf(&b, "  deliver \"%s\" {\n    timeout 1s\n  }\n", t)
			}
		}
		b.WriteString("}\n")
		ctx.Routes = append(ctx.Routes, rt)
	}
	return b.String(), ctx
}

var pubBadTimes = []string{"yesterday", "1700000000", "2023-13-01T00:00:00Z", "2023-11-14 22:13:20", "2023-11-14T22:13:20"}

func genPubItem(r *rng, ctx pubCtx, id string, now int64, invalid int, force *pubRoute) pubItem {
	rt := pick(r, ctx.Routes)
	var good, closed, managedRoutes []pubRoute
	for _, c := range ctx.Routes {
		switch {
		case c.Managed:
			managedRoutes = append(managedRoutes, c)
		case !c.PublishEnabled || !c.DirectEnabled || (c.Mode == "pull" && !ctx.AllowPull) || (c.Mode == "deliver" && !ctx.AllowDeliver):
			closed = append(closed, c)
		default:
			good = append(good, c)
		}
	}
	switch {
	case invalid == 17 && len(closed) > 0:
		rt = pick(r, closed)
	case invalid == 18 && len(managedRoutes) > 0:
		rt = pick(r, managedRoutes)
	case len(good) > 0 && !r.chance(4):
		rt = pick(r, good)
	}
	if force != nil {
		rt = *force
	}
	it := pubItem{ID: id, Route: rt.Path, RecvOK: true, NextOK: true, Headers: [][2]string{}}
	if r.chance(8) {
		it.ID = " " + id + "\t"
	}
	if len(rt.Targets) > 1 || r.chance(40) {
		it.Target = pick(r, rt.Targets)
		if r.chance(10) {
			it.Target = " " + it.Target + " "
		}
	}
	// payload
	nbytes := r.intn(6)
	if r.chance(30) {
		nbytes = rt.MaxBody - r.intn(2)
		if nbytes > 200 {
			nbytes = 200
		}
	}
	if nbytes < 0 {
		nbytes = 0
	}
	pl := make([]byte, nbytes)
	for i := range pl {
		pl[i] = byte(r.intn(256))
	}
	if nbytes > 0 || r.chance(50) {
		it.PayloadB64 = base64.StdEncoding.EncodeToString(pl)
		if r.chance(20) && len(it.PayloadB64) > 4 {
			// the same bytes written with line breaks (MIME style; Go's decoder skips CR and LF): the decoded size is what
			// counts against max_body, not the length of the text
			w := pick(r, []int{4, 8, 76})
			nl := pick(r, []string{"\r\n", "\n"})
			var sb strings.Builder
			for i := 0; i < len(it.PayloadB64); i += w {
				e := i + w
				if e > len(it.PayloadB64) {
					e = len(it.PayloadB64)
				}
				sb.WriteString(it.PayloadB64[i:e])
				sb.WriteString(nl)
			}
			it.PayloadB64 = sb.String()
		}
	}
	if r.chance(6) {
		it.PayloadB64 = "  "
	}
	// headers
	hdr := map[string]string{}
	for k := 0; k < r.intn(3); k++ {
		hdr[pick(r, []string{"X-A", "X-Event", "Content-Type", "x-b"})] = pick(r, []string{"v", "application/json", "a b", "tab\there", "ünï"})
	}
	// timestamps
	if r.chance(30) {
		it.Recv = now - int64(r.intn(1000))*int64(time.Second)
		it.recvS = time.Unix(0, it.Recv).UTC().Format(time.RFC3339Nano)
	}
	if r.chance(30) {
		it.Next = now + int64(r.intn(1000))*int64(time.Second) + int64(r.intn(2))*123456789
		it.nextS = time.Unix(0, it.Next).UTC().Format(time.RFC3339Nano)
		if r.chance(30) {
			// the same instant written with a zone offset
			it.nextS = time.Unix(0, it.Next).In(time.FixedZone("x", 3600)).Format(time.RFC3339Nano)
		}
	}
	if r.chance(25) {
		it.trace = map[string]string{"source": "verif", "k": pick(r, []string{"1", "zwei"})}
	}
	switch invalid {
	case 1: // blank id
		it.ID = pick(r, []string{"", "  "})
	case 2: // unknown route
		it.Route = "/nope"
	case 3: // route syntax
		it.Route = "p0"
	case 4: // unresolvable target
		it.Target = "http://127.0.0.1:9/other"
	case 19: // a target that differs from an allowed one only by letter case
		t := rt.Targets[0]
		it.Target = strings.ToUpper(t[:1]) + t[1:]
		if r.chance(50) {
			it.Target = strings.ToUpper(t)
		}
	case 5: // payload too large
		big := make([]byte, rt.MaxBody+1+r.intn(3))
		if len(big) > 4096 {
			it.Route = "/nope"
		} else {
			it.PayloadB64 = base64.StdEncoding.EncodeToString(big)
		}
	case 6: // bad base64
		it.PayloadB64 = pick(r, []string{"!!!", "QUJD=", " QQ== ", "QQ", "QQ==\n"})
	case 7: // invalid header
		switch r.intn(6) {
		case 0:
			hdr["Bad Name"] = "v"
		case 1: // one byte of every class inside a value: C0 controls, TAB, DEL, the printable edges, high bytes
			hdr["X-Ctl"] = "a" + string([]byte{pick(r, []byte{0x00, 0x01, 0x08, 0x09, 0x0a, 0x0b, 0x0d, 0x1f, 0x20, 0x7e, 0x7f, 0x80, 0xff})}) + "b"
		case 2:
			hdr[" X-Pad"] = "v"
		case 3:
			hdr["X-NL"] = "a\nb"
		case 4: // one byte of every class inside a name
			hdr["X"+string([]byte{pick(r, []byte{'(', ')', ',', '/', ':', ';', '<', '=', '>', '?', '@', '[', '\\', ']', '{', '}', '"', 0x7f, 0x80, '!', '#', '~', '|', '^', '`', '*'})})+"Y"] = "v"
		case 5:
			hdr[""] = "v"
		}
	case 8: // headers too large
		hdr["X-Big"] = strings.Repeat("h", rt.MaxHeaders+1)
		if rt.MaxHeaders > 4096 {
			it.Route = "/nope"
			delete(hdr, "X-Big")
		}
	case 9: // bad received_at
		it.recvS, it.RecvOK, it.Recv = pick(r, pubBadTimes), false, 0
	case 10: // bad next_run_at
		it.nextS, it.NextOK, it.Next = pick(r, pubBadTimes), false, 0
	case 11: // selector on the global path
		it.App, it.Ep = "app1", "ep"
	case 12: // half a selector
		it.App = "app1"
	case 13: // bad label
		it.App, it.Ep = "bad label!", "ep"
	case 14: // nothing addressed
		it.Route, it.Target = "", pick(r, []string{"", "pull"})
	}
	if invalid != 8 {
		total := 0
		for k, v := range hdr {
			total += len(k) + len(v)
		}
		if total > rt.MaxHeaders {
			for k := range hdr {
				if invalid != 7 {
					delete(hdr, k)
				}
			}
		}
	}
	// what travels is JSON: bytes that are not UTF-8 arrive as U+FFFD
	clean := map[string]string{}
	for k, v := range hdr {
		clean[strings.ToValidUTF8(k, "\uFFFD")] = strings.ToValidUTF8(v, "\uFFFD")
	}
	hdr = clean
	for k, v := range hdr {
		it.Headers = append(it.Headers, [2]string{k, v})
	}
	it.HCanon = canonMap(hdr)
	it.TCanon = canonMap(it.trace)
	return it
}

func (it pubItem) wire() map[string]interface{} {
	m := map[string]interface{}{"id": it.ID, "route": it.Route, "target": it.Target}
	if it.App != "" {
		m["application"] = it.App
	}
	if it.Ep != "" {
		m["endpoint_name"] = it.Ep
	}
	if it.PayloadB64 != "" {
		m["payload_b64"] = it.PayloadB64
	}
	if len(it.Headers) > 0 {
		h := map[string]string{}
		for _, kv := range it.Headers {
			h[kv[0]] = kv[1]
		}
		m["headers"] = h
	}
	if it.trace != nil {
		m["trace"] = it.trace
	}
	if it.recvS != "" {
		m["received_at"] = it.recvS
	}
	if it.nextS != "" {
		m["next_run_at"] = it.nextS
	}
	return m
}

// one publish request through the real Admin handler, with snapshots before and after
func doPublish(be *backend, adm http.Handler, ctx pubCtx, clock *fakeClock, items []pubItem, managed *pubRoute, aud map[string]string,
	caseNo, reqNo int, emit func(interface{})) ([]jmsg, error) {
	before, err := be.snapshot()
	if err != nil {
		return nil, err
	}
	wire := make([]map[string]interface{}, 0, len(items))
	for _, it := range items {
		wire = append(wire, it.wire())
	}
	body, _ := json.Marshal(map[string]interface{}{"items": wire})
	url := "http://ex/messages/publish"
	if managed != nil {
		url = fmt.Sprintf("http://ex/applications/%s/endpoints/%s/messages/publish", managed.App, managed.Ep)
	}
	req := httptest.NewRequest("POST", url, bytes.NewReader(body))
	for h, k := range map[string]string{"X-Hookaido-Audit-Reason": "reason", "X-Hookaido-Audit-Actor": "actor", "X-Request-ID": "requestId"} {
		if aud[k] != "" {
			req.Header.Set(h, aud[k])
		}
	}
	rr := httptest.NewRecorder()
	adm.ServeHTTP(rr, req)
	var resp struct {
		Published int    `json:"published"`
		Code      string `json:"code"`
		ItemIndex *int   `json:"item_index"`
	}
	_ = json.Unmarshal(rr.Body.Bytes(), &resp)
	after, err := be.snapshot()
	if err != nil {
		return nil, err
	}
	if items == nil {
		items = []pubItem{}
	}
	rec := map[string]interface{}{"k": "publish", "cfg": be.cfg, "case": caseNo, "req": reqNo, "now": clock.now, "ctx": ctx, "before": before, "after": after,
		"items": items, "audit": aud, "resp": map[string]interface{}{"status": rr.Code, "code": resp.Code, "index": resp.ItemIndex, "published": resp.Published}}
	if managed != nil {
		rec["k"] = "scoped"
		rec["route"] = managed.Path
	}
	emit(rec)
	return after, nil
}

// a batch larger than the room left in a `reject` queue: refused as a whole, however the store call is organised
func pubNearFull(dir string, emit func(interface{})) error {
	clock := &fakeClock{now: 1_698_000_000_000_000_000}
	ctx := pubCtx{AllowPull: true, AllowDeliver: true}
	ctx.Audit = pubAuditCfg{ActorAllow: []string{}, ActorPrefix: []string{}}
	ctx.Routes = []pubRoute{{Path: "/p0", Targets: []string{"pull"}, PublishEnabled: true, DirectEnabled: true, ManagedEnabled: true, Mode: "pull", MaxBody: 2 << 20, MaxHeaders: 64 << 10}}
	compiled, err := compileText("pull_api {\n  auth token raw:t\n}\n/p0 {\n  pull {\n    path /pull/p0\n  }\n}\n")
	if err != nil {
		return err
	}
	caseNo := 200000
	idN := 0
	for _, backendName := range []string{"memory", "sqlite"} {
		for _, depth := range []int{300, 600} {
			for _, n := range []int{depth - 1, depth, depth + 1, depth + 100, 1000} {
				if n > 1000 {
					continue
				}
				caseNo++
				qc := jcfg{Backend: backendName, Memory: backendName == "memory", MaxDepth: depth, PruneInterval: int64(time.Hour)}
				qc.PressureItems = effectivePressure(qc)
				be := &backend{cfg: qc, clock: clock, path: filepath.Join(dir, fmt.Sprintf("nf%d.db", caseNo))}
				if err := be.open(); err != nil {
					return err
				}
				rt, err := app.VerifNewRuntime(compiled, clock.Now)
				if err != nil {
					be.close()
					return err
				}
				items := make([]pubItem, 0, n)
				for i := 0; i < n; i++ {
					idN++
					items = append(items, pubItem{ID: fmt.Sprintf("nf%d", idN), Route: "/p0", RecvOK: true, NextOK: true, Headers: [][2]string{}})
				}
				if _, err := doPublish(be, rt.AdminServer(be.store()), ctx, clock, items, nil, map[string]string{"reason": "why", "actor": "", "requestId": ""}, caseNo, 0, emit); err != nil {
					return err
				}
				be.close()
				_ = os.Remove(be.path)
			}
		}
	}
	return nil
}

// exhaustive sweeps that random generation would hit too rarely: every audit-policy combination x path x header
// presence, and every single byte inside a header name and a header value
func pubSweeps(dir string, emit func(interface{})) error {
	clock := &fakeClock{now: 1_699_000_000_000_000_000}
	idN := 0
	caseNo := 100000
	for mask := 0; mask < 16; mask++ {
		ctx := pubCtx{AllowPull: true, AllowDeliver: true}
		ctx.Audit = pubAuditCfg{RequireActor: mask&1 != 0, RequireRequestID: mask&2 != 0, ActorAllow: []string{}, ActorPrefix: []string{}}
		var b strings.Builder
		fmt.Fprintf(&b, "defaults {\n  publish_policy {\n    require_actor %s\n    require_request_id %s\n", onoff(ctx.Audit.RequireActor), onoff(ctx.Audit.RequireRequestID))
		if mask&4 != 0 {
			ctx.Audit.ActorAllow = []string{"ci-bot"}
			b.WriteString("    actor_allow \"ci-bot\"\n")
		}
		if mask&8 != 0 {
			ctx.Audit.ActorPrefix = []string{"deploy-"}
			b.WriteString("    actor_prefix \"deploy-\"\n")
		}
		b.WriteString("  }\n}\npull_api {\n  auth token raw:t\n}\n/p0 {\n  pull {\n    path /pull/p0\n  }\n}\n/pm {\n  application \"app1\"\n  endpoint_name \"ep\"\n  pull {\n    path /pull/pm\n  }\n}\n")
		ctx.Routes = []pubRoute{
			{Path: "/p0", Targets: []string{"pull"}, PublishEnabled: true, DirectEnabled: true, ManagedEnabled: true, Mode: "pull", MaxBody: 2 << 20, MaxHeaders: 64 << 10},
			{Path: "/pm", Targets: []string{"pull"}, PublishEnabled: true, DirectEnabled: true, ManagedEnabled: true, Managed: true, App: "app1", Ep: "ep", Mode: "pull", MaxBody: 2 << 20, MaxHeaders: 64 << 10}}
		compiled, err := compileText(b.String())
		if err != nil {
			emit(map[string]interface{}{"k": "cfgerror", "err": err.Error(), "text": b.String()})
			continue
		}
		qc := jcfg{Backend: "memory", Memory: true, PruneInterval: int64(time.Hour)}
		qc.PressureItems = effectivePressure(qc)
		be := &backend{cfg: qc, clock: clock, path: filepath.Join(dir, "sweep.db")}
		if err := be.open(); err != nil {
			return err
		}
		rt, err := app.VerifNewRuntime(compiled, clock.Now)
		if err != nil {
			be.close()
			continue
		}
		adm := rt.AdminServer(be.store())
		caseNo++
		reqNo := 0
		for _, scoped := range []bool{false, true} {
			for _, actor := range []string{"", "ci-bot", "deploy-7", "dev"} {
				for _, rid := range []string{"", "req-1"} {
					for _, reason := range []string{"", "why"} {
						idN++
						reqNo++
						it := pubItem{ID: fmt.Sprintf("s%d", idN), Route: "/p0", RecvOK: true, NextOK: true, Headers: [][2]string{}}
						var managed *pubRoute
						if scoped {
							it.Route = ""
							managed = &ctx.Routes[1]
						}
						if _, err := doPublish(be, adm, ctx, clock, []pubItem{it}, managed, map[string]string{"reason": reason, "actor": actor, "requestId": rid}, caseNo, reqNo, emit); err != nil {
							return err
						}
					}
				}
			}
		}
		if mask == 0 {
			// header grammar: every byte below 0x80 once inside a value and once inside a name
			for bt := 0; bt < 128; bt++ {
				for _, inName := range []bool{false, true} {
					idN++
					reqNo++
					hdr := map[string]string{"X-V": "a" + string([]byte{byte(bt)}) + "b"}
					if inName {
						hdr = map[string]string{"X" + string([]byte{byte(bt)}) + "Y": "v"}
					}
					it := pubItem{ID: fmt.Sprintf("s%d", idN), Route: "/p0", RecvOK: true, NextOK: true, HCanon: canonMap(hdr)}
					for k, v := range hdr {
						it.Headers = append(it.Headers, [2]string{k, v})
					}
					if _, err := doPublish(be, adm, ctx, clock, []pubItem{it}, nil, map[string]string{"reason": "why", "actor": "", "requestId": ""}, caseNo, reqNo, emit); err != nil {
						return err
					}
				}
			}
		}
		be.close()
	}
	return nil
}

func cmdPublish(args []string) error {
	fs := flag.NewFlagSet("publish", flag.ExitOnError)
	seed := fs.Uint64("seed", 1, "seed")
	nc := fs.Int("configs", 40, "configurations")
	nreq := fs.Int("requests", 25, "publish requests per configuration")
	big := fs.Int("big", 2, "requests with 999..1001 items per run")
	sweeps := fs.Bool("sweeps", false, "also run the exhaustive audit-policy and header-byte sweeps")
	outPath := fs.String("out", "-", "output")
	fs.Parse(args)
	w := os.Stdout
	if *outPath != "-" {
		f, err := os.Create(*outPath)
		if err != nil {
			return err
		}
		defer f.Close()
		w = f
	}
	out := bufio.NewWriterSize(w, 1<<20)
	defer out.Flush()
	emit := func(v interface{}) {
		b, _ := json.Marshal(v)
		out.Write(b)
		out.WriteByte('\n')
	}
	dir, err := scratchDir()
	if err != nil {
		return err
	}
	defer os.RemoveAll(dir)
	r := newRng(*seed)
	bigLeft := *big
	idN := 0
	if *sweeps {
		if err := pubSweeps(dir, emit); err != nil {
			return err
		}
		if err := pubNearFull(dir, emit); err != nil {
			return err
		}
	}
	for c := 0; c < *nc; c++ {
		text, ctx := genPubConfig(r)
		compiled, err := compileText(text)
		if err != nil {
			emit(map[string]interface{}{"k": "cfgerror", "err": err.Error(), "text": text})
			continue
		}
		clock := &fakeClock{now: 1_700_000_000_000_000_000 + int64(c)*int64(time.Hour)}
		qc := jcfg{Backend: pick(r, []string{"memory", "sqlite"}), PruneInterval: int64(time.Hour), Sweep: 0}
		qc.Memory = qc.Backend == "memory"
		if r.chance(55) {
			qc.MaxDepth = 3 + r.intn(8)
			qc.DropOldest = r.chance(40)
		}
		if qc.Memory {
			qc.PressureItems = effectivePressure(qc)
		}
		be := &backend{cfg: qc, clock: clock, path: filepath.Join(dir, fmt.Sprintf("pub%d.db", c))}
		if err := be.open(); err != nil {
			return err
		}
		rt, err := app.VerifNewRuntime(compiled, clock.Now)
		if err != nil {
			be.close()
			emit(map[string]interface{}{"k": "cfgerror", "err": err.Error(), "text": text})
			continue
		}
		adm := rt.AdminServer(be.store())
		// pre-fill
		for k := 0; k < r.intn(6); k++ {
			idN++
			rtc := pick(r, ctx.Routes)
			_ = be.store().Enqueue(queue.Envelope{ID: fmt.Sprintf("pre%d", idN), Route: rtc.Path, Target: rtc.Targets[0], Payload: []byte("x")})
		}
		for q := 0; q < *nreq; q++ {
			clock.now += int64(1+r.intn(5)) * int64(time.Second)
			before, err := be.snapshot()
			if err != nil {
				return err
			}
			n := pick(r, []int{1, 1, 2, 2, 3, 4, 6, 10})
			scoped := r.chance(22)
			if bigLeft > 0 && q == 0 && !scoped && c%5 == 0 {
				bigLeft--
				n = pick(r, []int{999, 1000, 1001})
			}
			if r.chance(2) {
				n = 0
			}
			nInvalid := r.weighted([]int{50, 35, 15})
			if n > 100 {
				nInvalid = r.intn(2)
			}
			bad := map[int]int{}
			for k := 0; k < nInvalid && n > 0; k++ {
				bad[r.intn(n)] = 1 + r.intn(19)
			}
			var items []pubItem
			var managed *pubRoute
			if scoped {
				var open, any []*pubRoute
				for i := range ctx.Routes {
					c := &ctx.Routes[i]
					if !c.Managed {
						continue
					}
					any = append(any, c)
					if c.PublishEnabled && c.ManagedEnabled && !(c.Mode == "pull" && !ctx.AllowPull) && !(c.Mode == "deliver" && !ctx.AllowDeliver) {
						open = append(open, c)
					}
				}
				switch {
				case len(open) > 0 && !r.chance(15):
					managed = pick(r, open)
				case len(any) > 0:
					managed = pick(r, any)
				default:
					scoped = false
				}
			}
			for i := 0; i < n; i++ {
				idN++
				id := fmt.Sprintf("m%d", idN)
				kind := bad[i]
				var force *pubRoute
				if scoped {
					force = managed
				}
				it := genPubItem(r, ctx, id, clock.now, kind, force)
				switch kind {
				case 15: // id already in the queue
					if len(before) > 0 {
						it.ID = pick(r, before).ID
					}
				case 16: // id twice in the request
					if i > 0 {
						it.ID = items[r.intn(i)].ID
					}
				}
				if scoped {
					// endpoint-scoped path: the route comes from the URL; items may repeat it or leave it out
					if kind != 2 && kind != 3 {
						it.Route = ""
						if r.chance(5) {
							it.Route = managed.Path // a selector hint: not allowed on this path
						}
					}
					if kind != 11 && kind != 12 && kind != 13 {
						it.App, it.Ep = "", ""
					}
				}
				items = append(items, it)
			}
			aud := map[string]string{"reason": "verif", "actor": "", "requestId": ""}
			if r.chance(4) {
				aud["reason"] = pick(r, []string{"", "  "})
			}
			if ctx.Audit.RequireActor || len(ctx.Audit.ActorAllow)+len(ctx.Audit.ActorPrefix) > 0 || r.chance(10) {
				aud["actor"] = pick(r, []string{"ci-bot", "ci-bot", "deploy-7", "deploy-7", "dev", "", " ci-bot ", "ci-bot2", "deploy"})
			}
			if ctx.Audit.RequireRequestID && !r.chance(25) || r.chance(10) {
				aud["requestId"] = pick(r, []string{"req-1", "req-1", " "})
			}
			if !scoped {
				managed = nil
			}
			after, err := doPublish(be, adm, ctx, clock, items, managed, aud, c, q, emit)
			if err != nil {
				return err
			}
			if qc.MaxDepth > 0 && len(after) >= qc.MaxDepth-1 && r.chance(60) {
				// start over on an empty store so that later requests are not all refused as queue_full
				be.close()
				_ = os.Remove(be.path)
				if err := be.open(); err != nil {
					return err
				}
				adm = rt.AdminServer(be.store())
			}
		}
		be.close()
		_ = os.Remove(be.path)
	}
	return nil
}
