"""C13: lock-step memory vs SQLite (direct comparison) + each backend against its own model instance."""
import json, os, shutil, subprocess
from common import *
import queuefam


def run_lock(args):
    profile, sd, traces, ops, work = args
    d = os.path.join(work, f"ls-{profile}-{sd}")
    os.makedirs(d, exist_ok=True)
    env = dict(os.environ)
    env["VERIF_SCRATCH"] = "/dev/shm" if os.path.isdir("/dev/shm") else work
    p = subprocess.run([HK, "lockstep", "-profile", profile, "-seed", str(sd), "-traces", str(traces), "-ops", str(ops), "-outdir", d],
                       stdout=subprocess.PIPE, stderr=subprocess.STDOUT, text=True, env=env, timeout=3600)
    if p.returncode != 0:
        return {"error": p.stdout[-2000:], "dir": d}
    out = {"dir": d, "profile": profile, "seed": sd, "pairs": {"equal": 0, "abandoned": 0, "diff": []}, "driver": {}}
    cfgs = {}
    for l in open(os.path.join(d, "pairs.jsonl")):
        j = json.loads(l)
        if j["k"] == "cfg":
            cfgs[j["trace"]] = j
            continue
        if not j["compared"]:
            out["pairs"]["abandoned"] += 1
        elif j["equal"]:
            out["pairs"]["equal"] += 1
        else:
            out["pairs"]["diff"].append(j)
    for be in ("mem", "sql"):
        with open(os.path.join(d, be + ".jsonl")) as f:
            dr = subprocess.run([DRIVER, "queue"], stdin=f, stdout=subprocess.PIPE, stderr=subprocess.STDOUT, text=True, timeout=3600)
        ev = [l for l in dr.stdout.split("\n") if l.startswith("DIVERGE") or l.startswith("PROP")]
        summ = [l for l in dr.stdout.split("\n") if l.startswith("SUMMARY ")]
        out["driver"][be] = {"events": ev, "summary": json.loads(summ[0][8:]) if summ else {}}
    return out


def lock_trace(d, trace_no, upto):
    """cfg + ops of one lock-step trace (symbolic leases) up to a step"""
    out = []
    for l in open(os.path.join(d, "pairs.jsonl")):
        j = json.loads(l)
        if j["k"] == "cfg" and j["trace"] == trace_no:
            out = [{"k": "cfg", "trace": 0, "cfg": j["cfg"]}]
        elif j["k"] == "pair" and j["trace"] == trace_no and j["step"] <= upto and out:
            out.append({"k": "step", "now": j["now"], "op": j["op"]})
    return out


def static_sql_parity(res, cov):
    """PostgreSQL is read, not run: every difference between its age-based retention DELETEs and SQLite's (which are executed
    against the model) is a violation of C13 with the statement as the call site; listed ones are known findings."""
    import json as _json
    path = os.path.join(LEAN, "HkModel", "Generated", "prune_rules.json")
    try:
        rules = _json.load(open(path))
    except (OSError, ValueError):
        return
    by = {(r["backend"], r["state"]): r for r in rules}
    seen = []
    for (be, st), r in sorted(by.items()):
        if be == "sqlite":
            continue
        ref = by.get(("sqlite", st))
        if ref is None:
            continue
        if r["column"] != ref["column"]:
            fp = f"{be}:prune:{st}-keyed-on-{r['column']}"
            res.violation(fp, f"{be}.go maybePrune: {st} messages are aged by {r['column']}, SQLite and the memory store age them by {ref['column']}",
                          {"kind": "static-sql-parity", "theorem_or_tie": "Hk.PruneParity.postgres_prune_differences", "call_site": f"internal/queue/{be}.go maybePrune DELETE … state = '{st}' AND {r['column']} {r['cmp']} cutoff",
                           "model_witness": "Hk.PruneParity.pinned_postgres_prunes_fresh_delivery", "note": "PostgreSQL cannot be executed in this sandbox: the call site is the replay"}, found=False)
            seen.append(fp)
        if r["cmp"] != ref["cmp"]:
            fp = f"{be}:prune:cutoff-{r['cmp']}-instead-of-{ref['cmp']}"
            res.violation(fp, f"{be}.go maybePrune: the age cutoff is tested with {r['cmp']}, SQLite and the memory store use {ref['cmp']} (a message whose age is exactly max_age)",
                          {"kind": "static-sql-parity", "theorem_or_tie": "Hk.PruneParity.postgres_prune_differences", "call_site": f"internal/queue/{be}.go maybePrune DELETE … {r['column']} {r['cmp']} cutoff",
                           "model_witness": "Hk.PruneParity.pinned_postgres_keeps_boundary", "note": "PostgreSQL cannot be executed in this sandbox: the call site is the replay"}, found=False)
            seen.append(fp)
    for be in sorted({r["backend"] for r in rules} - {"sqlite"}):
        missing = [st for (b, st) in by if b == "sqlite" and (be, st) not in by]
        for st in missing:
            res.violation(f"{be}:prune:{st}-rule-missing", f"{be}.go maybePrune has no age-based DELETE for state {st} (SQLite has one)",
                          {"kind": "static-sql-parity", "theorem_or_tie": "Hk.PruneParity.postgres_prune_differences"}, found=False)
    cov["static_sql_parity"] = {"rules": rules, "differences": sorted(set(seen))}


def check(prop, tier, res, replay=None):
    cov, lean_ok = proof_coverage(prop, res, {})
    static_sql_parity(res, cov)
    if not lean_ok or not ensure_harness(res):
        cov.update({"evaluations": 0, "distinct_nontrivial": 0})
        return res.finish("proof", cov, ["correspondence not run: build failed"])
    work = scratch()
    try:
        sd = seed()
        profiles = ["mix", "operator", "admit", "lease", "visible"]
        traces, ops, ns = (40, 60, 1) if tier == "quick" else (300, 120, 4)
        jobs = [(p, sd * 100 + k, traces, ops, work) for p in profiles for k in range(ns)]
        # the long scripted history (hundreds of messages, size-dependent code paths of the stores): few traces
        jobs += [("bulk", sd * 100 + k, 1, 0, work) for k in range(1 if tier == "quick" else 3)]
        if replay:
            jobs = []
        results = pmap(run_lock, jobs)
        equal = abandoned = steps = 0
        kinds = {}
        samples = []
        for r in results:
            if "error" in r:
                res.violation("pipeline:lockstep", "lock-step harness failed: " + r["error"][:600], {"kind": "pipeline", "theorem_or_tie": "lockstep", "log": r["error"]}, found=False)
                continue
            equal += r["pairs"]["equal"]
            abandoned += r["pairs"]["abandoned"]
            for be, dv in r["driver"].items():
                steps += dv["summary"].get("steps", 0)
                for k, v in dv["summary"].get("kinds", {}).items():
                    kinds[k] = kinds.get(k, 0) + v
                for e in dv["events"][:1]:
                    pe = queuefam.parse_event(e)
                    res.violation(f"lockstep:{be}:{pe['kind'] if pe else 'event'}:{(pe or {}).get('op')}", f"backend {be} departs from the common contract model in lock-step: {e[:300]}",
                                  {"kind": "lockstep", "backend": be, "theorem_or_tie": "each backend refines Model/Queue.step (C13_deterministic then gives agreement)", "event": e,
                                   "trace": lock_trace(r["dir"], pe["trace"], pe["step"]) if pe else []}, found=bool(pe and pe["kind"] == "PROP"))
            for dj in r["pairs"]["diff"][:2]:
                tr = lock_trace(r["dir"], dj["trace"], dj["step"])
                res.violation(f"lockstep:{dj['diff']}:{dj['op']['t']}", f"memory and SQLite answer differently to the same history (forced choice): op {dj['op']['t']} {dj['diff']} differs",
                              {"kind": "lockstep", "diff": dj["diff"], "memory": dj.get("memory", "")[:3000], "sqlite": dj.get("sqlite", "")[:3000], "trace": tr,
                               "how": "hkharness lockstep -replay <trace lines>"}, found=True)
            if len(samples) < 2:
                samples.append({"profile": r["profile"], "trace": lock_trace(r["dir"], 0, 4)})
        # the same operator calls through the front ends, which take a different road per backend (MCP: a SQLite file directly,
        # any other backend through the Admin API): judged by the common contract predicate (driver mode opfront)
        if not replay:
            import others, pure
            pl = others.OPFRONT
            xjobs = list(range(pl["shards"](tier)))
            for sh, rr in zip(xjobs, pmap(lambda sh: pure.run_cases(pl["sub"], pl["args"](tier, sd, sh), pl["mode"], work, f"opfront-{sh}"), xjobs)):
                if "error" in rr:
                    res.violation("pipeline:opfront", "correspondence pipeline failed: " + rr["error"][:600], {"kind": "pipeline", "theorem_or_tie": "opfront", "log": rr["error"]}, found=False)
                    continue
                steps += rr["n"]
                seen = 0
                for cse, v in rr["bad"]:
                    names = v.split(" ")[1].split(",") if v.startswith("PROP ") else []
                    if prop in names and seen < 2:
                        seen += 1
                        clause = v.split(" ")[2] if len(v.split(" ")) > 2 else "?"
                        res.violation(f"opfront:{clause}:{pure.case_key(cse, pl['key_fields'])}", f"{prop} violated by the implementation on a concrete input (opfront/{clause}): {v[:300]}",
                                      {"kind": "case", "family": "opfront", "case": json.loads(cse), "verdict": v,
                                       "rerun": {"harness": [pl["sub"]] + [str(a) for a in pl["args"](tier, sd, sh)], "driver_mode": pl["mode"]}}, found=True)
        cov.update({"evaluations": steps, "distinct_nontrivial": len([k for k in kinds if not k.endswith(":0") and "none" not in k]),
                    "rule": "one evaluation = one Store call executed on memory AND SQLite (same clock, same arguments, symbolic lease references) and on each backend's model instance; pairs_compared_equal counts steps whose responses and full snapshots were identical modulo generated lease ids; a trace stops being compared directly once the backends made a different free choice (dequeue pick / eviction tie)",
                    "pairs_compared_equal": equal, "pairs_not_compared_choice_differs": abandoned, "traces_validated_against_impl": len(jobs) * traces * 2,
                    "op_response_histogram": dict(sorted(kinds.items())), "samples": samples or ["none"]})
        return res.finish("proof", cov, [
            "C13_deterministic: the contract model is a function of (state, op, choice); both executable backends are tied to it step by step, and compared directly whenever the choice was forced",
            "documented backend-specific refusals (memory pressure; memory's delivered-in-depth guard) are switched off in lock-step configurations; clock steps are 0 or >= 10 ms (the SQLite sweep granularity is C05's subject); single-lease calls carry unpadded lease ids (memory does not trim them, SQLite does)",
            "PostgreSQL cannot be executed in this sandbox: only the extracted SQL guard discipline is checked for it"])
    finally:
        shutil.rmtree(work, ignore_errors=True)
