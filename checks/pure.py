"""Checks whose correspondence is a stream of self-contained cases (one JSON line in, one verdict line out)."""
import json, os, re, shutil, subprocess, time
from common import *


def run_cases(sub, args, mode, workdir, tag):
    """harness <sub> args -> file -> driver <mode>. Returns dict(lines=[(case_line, verdict)], error=...)"""
    tf = os.path.join(workdir, f"{sub}-{tag}.jsonl")
    env = dict(os.environ)
    env["VERIF_SCRATCH"] = "/dev/shm" if os.path.isdir("/dev/shm") else workdir
    p = subprocess.run([HK, sub] + [str(a) for a in args] + ["-out", tf], stdout=subprocess.PIPE, stderr=subprocess.STDOUT, text=True, env=env, timeout=3600)
    if p.returncode != 0:
        return {"error": f"harness {sub} failed: " + p.stdout[-3000:]}
    with open(tf) as f:
        d = subprocess.run([DRIVER, mode], stdin=f, stdout=subprocess.PIPE, stderr=subprocess.STDOUT, text=True, timeout=3600)
    if d.returncode != 0:
        return {"error": f"driver {mode} failed: " + d.stdout[-3000:]}
    verdicts = d.stdout.split("\n")
    cases = open(tf).read().split("\n")
    out = {"n": 0, "bad": [], "kinds": {}, "samples": [], "summary": {}}
    for c, v in zip(cases, verdicts):
        if not c:
            continue
        out["n"] += 1
        try:
            k = json.loads(c).get("k", "?")
        except ValueError:
            k = "?"
        out["kinds"][k] = out["kinds"].get(k, 0) + 1
        if v != "ok":
            out["bad"].append((c, v))
        elif len(out["samples"]) < 3 and out["n"] % 997 == 1:
            out["samples"].append(json.loads(c))
    for v in verdicts:
        if v.startswith("SUMMARY "):
            try:
                out["summary"] = json.loads(v[8:])
            except ValueError:
                pass
    if len(verdicts) < len([c for c in cases if c]):
        return {"error": "driver answered fewer lines than cases"}
    return out


def case_key(line, fields):
    try:
        j = json.loads(line)
    except ValueError:
        return line[:80]
    return ":".join(f"{f}={j.get(f)}" for f in fields if f in j)


def replay_case(prop, tier, res, plan, assumptions, replay, cov, work):
    """Re-decide one recorded violation against the current tree: a self-contained case is handed to the driver again
    (stateless families: the implementation's answer is re-obtained by re-running the harness command recorded in
    `rerun` and looking the case up by its key; if that is not possible the recorded answer is re-judged)."""
    rj = json.load(open(replay))
    fam = rj.get("family")
    pl = next((p for p in plan if p["family"] == fam), plan[0])
    how = rj.get("rerun")
    if isinstance(how, list):
        how = {"harness": how}
    clause = (rj.get("verdict", "").split(" ") + ["", "", ""])[2]
    reproduced, note = False, ""
    if how and how.get("harness"):
        h = how["harness"]
        r = run_cases(h[0], h[1:], how.get("driver_mode", pl["mode"]), work, "replay")
        if "error" in r:
            note = "re-run failed: " + r["error"][:300]
        else:
            want = case_key(json.dumps(rj.get("case", {})), pl["key_fields"])
            for c, v in r["bad"]:
                if v.startswith("PROP ") and prop in v.split(" ")[1].split(",") and (case_key(c, pl["key_fields"]) == want or (clause and v.split(" ")[2:3] == [clause])):
                    reproduced, note = True, v[:300]
                    break
            cov.update({"evaluations": r["n"], "distinct_nontrivial": len(r["kinds"])})
    elif "case" in rj:
        tf = os.path.join(work, "replay-case.jsonl")
        open(tf, "w").write(json.dumps(rj["case"]) + "\n")
        with open(tf) as f:
            d = subprocess.run([DRIVER, pl["mode"]], stdin=f, stdout=subprocess.PIPE, stderr=subprocess.STDOUT, text=True, timeout=600)
        v = d.stdout.split("\n")[0]
        reproduced, note = v.startswith("PROP "), v[:300] + " (recorded answer re-judged; the harness command was not recorded)"
        cov.update({"evaluations": 1, "distinct_nontrivial": 1})
    if reproduced:
        res.violation(rj.get("fingerprint", "replay"), f"replayed violation still holds on the current tree: {note}",
                      {"kind": "replay", "of": replay, "verdict": note}, found=True)
    else:
        res.notes.append("replayed case no longer violates the property on the current tree" + (": " + note if note else ""))
    cov.setdefault("evaluations", 0)
    cov.setdefault("distinct_nontrivial", 0)
    cov["replay_of"] = replay
    return res.finish("proof", cov, assumptions)


def check_cases(prop, tier, res, plan, assumptions, replay=None):
    """plan: list of dict(sub, mode, args(tier, seed, shard)->list, shards(tier)->int, key_fields, family, distinct_rule)"""
    cov, lean_ok = proof_coverage(prop, res, {})
    if not lean_ok or not ensure_harness(res):
        cov.update({"evaluations": 0, "distinct_nontrivial": 0})
        return res.finish("proof", cov, ["correspondence not run: build failed"])
    work = scratch()
    try:
        total, kinds, samples = 0, {}, []
        jobs = []
        if replay:
            return replay_case(prop, tier, res, plan, assumptions, replay, cov, work)
        for pl in plan:
            for sh in range(pl["shards"](tier)):
                jobs.append((pl, sh))

        def go(job):
            pl, sh = job
            return pl, sh, run_cases(pl["sub"], pl["args"](tier, seed(), sh), pl["mode"], work, f"{pl['family']}-{sh}")
        for pl, sh, r in pmap(go, jobs):
            fam = pl["family"]
            if "error" in r:
                res.violation(f"pipeline:{fam}", "correspondence pipeline failed: " + r["error"][:800],
                              {"kind": "pipeline", "theorem_or_tie": f"{fam} correspondence", "log": r["error"]}, found=False)
                continue
            total += r["n"]
            for k, v in r["kinds"].items():
                kinds[f"{fam}/{k}"] = kinds.get(f"{fam}/{k}", 0) + v
            samples += r["samples"][:1]
            def names(v):
                return v.split(" ")[1].split(",") if v.startswith("PROP ") and len(v.split(" ")) > 1 else []
            props = [(c, v) for c, v in r["bad"] if prop in names(v)]
            others = [(c, v) for c, v in r["bad"] if not v.startswith("PROP ")]
            foreign = [(c, v) for c, v in r["bad"] if v.startswith("PROP ") and (c, v) not in props]
            how = {"harness": [pl["sub"]] + [str(a) for a in pl["args"](tier, seed(), sh)], "driver_mode": pl["mode"]}
            per_clause = {}
            known_fps = {k.get("fingerprint") for k in known_findings(prop) if k.get("status") == "open"}
            unlisted = 0  # failing inputs that are not a listed known finding: only those can explain a divergence
            for c, v in props:
                clause = v.split(" ")[2] if len(v.split(" ")) > 2 else "?"
                fp = f"{fam}:{clause}" if clause in pl.get("class_clauses", ()) else f"{fam}:{clause}:{case_key(c, pl['key_fields'])}"
                if fp not in known_fps:
                    unlisted += 1
                per_clause[clause] = per_clause.get(clause, 0) + 1
                if per_clause[clause] > 2:
                    continue
                res.violation(fp, f"{prop} violated by the implementation on a concrete input ({fam}/{clause}): {v[:300]}",
                              {"kind": "case", "family": fam, "case": json.loads(c), "verdict": v, "rerun": how}, found=True)
            if others and not unlisted:
                c, v = others[0]
                clause = v.split(" ")[1] if len(v.split(" ")) > 1 else "?"
                res.violation(f"{fam}:diverge:{clause}", f"correspondence broken ({fam}/{clause}): model and implementation disagree on {len(others)} case(s); the property predicate held on every case explored. First: {v[:300]}",
                              {"kind": "case", "family": fam, "theorem_or_tie": f"correspondence {pl['mode']} model vs implementation ({clause}); the {prop} theorems no longer transfer",
                               "case": json.loads(c) if c.startswith("{") else c, "verdict": v, "rerun": how}, found=False)
            if foreign:
                res.notes.append(f"{len(foreign)} case(s) failed another property's predicate in family {fam} (reported by that property's check): {foreign[0][1][:160]}")
        cov.update({"evaluations": total, "distinct_nontrivial": len(kinds) if total else 0,
                    "rule": "one evaluation = one concrete input decided by the real code and by the Lean model (and the property predicate evaluated on the implementation's answer); distinct_nontrivial counts distinct (family, case-kind) classes exercised",
                    "case_kind_histogram": kinds, "samples": samples or ["none"], "traces_validated_against_impl": total})
        return res.finish("proof", cov, assumptions)
    finally:
        shutil.rmtree(work, ignore_errors=True)
