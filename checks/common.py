"""Shared machinery for all property checks."""
import fcntl, json, os, re, shutil, subprocess, sys, tempfile, time
from concurrent.futures import ThreadPoolExecutor

VERIF = os.path.dirname(os.path.dirname(os.path.abspath(__file__)))
REPO = os.environ.get("VERIF_REPO", "/repo")
BUILD = os.path.join(VERIF, ".build")
LEAN = os.path.join(VERIF, "lean")
HARNESS = os.path.join(VERIF, "harness")
EXTRACT = os.path.join(VERIF, "extract")
DRIVER = os.path.join(LEAN, ".lake", "build", "bin", "hkdriver")
HK = os.path.join(BUILD, "hkharness")
NCPU = min(16, os.cpu_count() or 4)

ALLOWED_AXIOMS = {"propext", "Classical.choice", "Quot.sound"}
FORBIDDEN = re.compile(r"\bsorry\b|\badmit\b|^\s*axiom\s|native_decide|bv_decide|implemented_by|\bunsafe\s|maxHeartbeats\s+0\b")

TRUSTED_BASE = [
    "Lean 4.33 kernel; axioms allowed: propext, Classical.choice, Quot.sound (audited by #print axioms on every run)",
    "hand-written Lean model tied to /repo by the correspondence harness (Go, built from /repo's working tree with -tags verif) and the go/ast extractor; differential testing sees only what the generators produce",
    "Go toolchain/stdlib, modernc.org/sqlite storage engine (atomic durable commit), POSIX rename/fsync",
    "PostgreSQL backend not executable in this sandbox: modelled, not verified",
]


def goenv():
    e = dict(os.environ)
    e["GOFLAGS"] = "-mod=mod"
    e["GOPROXY"] = "off"
    e.pop("GOTOOLCHAIN", None) if e.get("GOTOOLCHAIN") == "local" else None
    e.pop("GOSUMDB", None) if e.get("GOSUMDB") == "off" else None
    return e


def run(cmd, cwd=None, env=None, timeout=None, stdin=None):
    p = subprocess.run(cmd, cwd=cwd, env=env, timeout=timeout, input=stdin, stdout=subprocess.PIPE,
                       stderr=subprocess.STDOUT, text=True)
    return p.returncode, p.stdout


class Lock:
    def __init__(self, name):
        os.makedirs(BUILD, exist_ok=True)
        self.path = os.path.join(BUILD, name + ".lock")

    def __enter__(self):
        self.f = open(self.path, "w")
        fcntl.flock(self.f, fcntl.LOCK_EX)
        return self

    def __exit__(self, *a):
        fcntl.flock(self.f, fcntl.LOCK_UN)
        self.f.close()


# ---------------------------------------------------------------- builds

def regenerate():
    """Run the go/ast extractor on /repo: rewrites lean/HkModel/Generated/*.lean (deleted first)."""
    gen = os.path.join(LEAN, "HkModel", "Generated")
    os.makedirs(gen, exist_ok=True)
    ex = os.path.join(BUILD, "hkextract")
    if not os.path.isdir(EXTRACT):
        return True, "no extractor"
    rc, out = run(["go", "build", "-o", ex, "."], cwd=EXTRACT, env=goenv())
    if rc != 0:
        return False, "extractor build failed:\n" + out
    for f in os.listdir(gen):
        if f.endswith(".lean") or f.endswith(".json"):
            os.remove(os.path.join(gen, f))
    rc, out = run([ex, "-repo", REPO, "-out", gen])
    return rc == 0, out


def build_lean(targets=("HkModel", "hkdriver")):
    with Lock("lake"):
        ok, out = regenerate()
        if not ok:
            return False, out
        rc, out2 = run(["lake", "build"] + list(targets), cwd=LEAN, timeout=3000)
        return rc == 0, out + out2


def build_driver_only():
    """models + driver (no proofs): lets the search for a failing input run even when a proof obligation broke"""
    with Lock("lake"):
        rc, out = run(["lake", "build", "hkdriver"], cwd=LEAN, timeout=3000)
        return rc == 0, out


def repo_builds():
    rc, out = run(["go", "build", "./..."], cwd=REPO, env=goenv(), timeout=900)
    return rc == 0, out


def build_harness():
    with Lock("harness"):
        try:
            shutil.copy(os.path.join(REPO, "go.sum"), os.path.join(HARNESS, "go.sum"))
        except OSError:
            pass
        rc, out = run(["go", "build", "-tags", "verif", "-o", HK, "./cmd/hkharness"], cwd=HARNESS, env=goenv(), timeout=900)
        if rc == 0:
            # the product itself (no build tag): its command line is one of the front ends that are exercised (config fmt)
            rc2, out2 = run(["go", "build", "-o", os.path.join(BUILD, "hookaido"), "./cmd/hookaido"], cwd=REPO, env=goenv(), timeout=900)
            if rc2 != 0:
                try:
                    os.remove(os.path.join(BUILD, "hookaido"))
                except OSError:
                    pass
        return rc == 0, out


def grep_forbidden():
    """Forbidden tokens outside comments anywhere under lean/ (not .lake)."""
    hits = []
    for root, dirs, files in os.walk(LEAN):
        dirs[:] = [d for d in dirs if d != ".lake"]
        for f in files:
            if not f.endswith(".lean"):
                continue
            p = os.path.join(root, f)
            txt = open(p, encoding="utf-8").read()
            txt = re.sub(r"/-.*?-/", lambda m: "\n" * m.group(0).count("\n"), txt, flags=re.S)
            for i, line in enumerate(txt.split("\n"), 1):
                code = line.split("--")[0]
                if FORBIDDEN.search(code):
                    hits.append(f"{os.path.relpath(p, VERIF)}:{i}: {line.strip()[:120]}")
    return hits


def registry():
    return json.load(open(os.path.join(LEAN, "HkModel", "Props", "registry.json")))


def audit(prop):
    """#print axioms for every theorem registered for `prop`. Returns (obligations, discharged, detail)."""
    reg = registry().get(prop, {})
    thms = reg.get("theorems", [])
    mods = reg.get("modules", [])
    if not thms:
        return 0, 0, {}, "no theorems registered"
    src = "".join(f"import {m}\n" for m in mods) + "".join(f"#print axioms {t}\n" for t in thms)
    path = os.path.join(BUILD, f"Audit_{prop}.lean")
    open(path, "w").write(src)
    with Lock("lake"):
        rc, out = run(["lake", "env", "lean", path], cwd=LEAN, timeout=1200)
    detail = {}
    # output format: "'Name' depends on axioms: [a, b]" or "'Name' does not depend on any axioms"
    for m in re.finditer(r"'(\S+?)' (does not depend on any axioms|depends on axioms: \[([^\]]*)\])", out, flags=re.S):
        name = m.group(1)
        axs = [a.strip() for a in (m.group(3) or "").replace("\n", " ").split(",") if a.strip()]
        detail[name] = axs
    discharged = 0
    for t in thms:
        if t in detail and set(detail[t]) <= ALLOWED_AXIOMS:
            discharged += 1
    return len(thms), discharged, detail, out if (rc != 0 or discharged != len(thms)) else ""


# ---------------------------------------------------------------- evidence / findings / replays

def seed():
    try:
        return int(os.environ.get("VERIF_SEED", "1"))
    except ValueError:
        return 1


def known_findings(prop):
    p = os.path.join(VERIF, "known_findings.jsonl")
    out = []
    if os.path.exists(p):
        for line in open(p):
            line = line.strip()
            if not line or line.startswith("#"):
                continue
            try:
                j = json.loads(line)
            except ValueError:
                continue
            if j.get("property") == prop:
                out.append(j)
    return out


def write_replay(prop, name, obj):
    d = os.path.join(VERIF, "replays")
    os.makedirs(d, exist_ok=True)
    path = os.path.join(d, f"{prop}-{name}.json")
    json.dump(obj, open(path, "w"), indent=1)
    return path


def write_evidence(prop, tier, level, coverage, assumptions, wall, violations, extra=None):
    d = os.path.join(VERIF, "evidence")
    os.makedirs(d, exist_ok=True)
    ev = {"property_id": prop, "tier": tier, "seed": seed(), "level": level, "coverage": coverage,
          "assumptions": assumptions, "wall_s": round(wall, 2), "violations": violations}
    if extra:
        ev.update(extra)

    def shrink(x, depth=0):
        """samples are there to show what a case looks like, not to store it: long strings and long lists are cut"""
        if isinstance(x, str):
            return x if len(x) <= 600 else x[:600] + f"… (+{len(x) - 600} chars)"
        if isinstance(x, list):
            cut = [shrink(v, depth + 1) for v in x[:12]]
            return cut + ([f"… (+{len(x) - 12} more)"] if len(x) > 12 else [])
        if isinstance(x, dict):
            return {k: shrink(v, depth + 1) for k, v in x.items()}
        return x
    if isinstance(ev.get("coverage"), dict) and "samples" in ev["coverage"]:
        ev["coverage"]["samples"] = shrink(ev["coverage"]["samples"])
    text = json.dumps(ev, indent=1, sort_keys=True)
    if len(text) > 1_500_000 and isinstance(ev.get("coverage"), dict):
        ev["coverage"]["samples"] = ["dropped: the evidence record would have exceeded 1.5 MB"]
        text = json.dumps(ev, indent=1, sort_keys=True)
    open(os.path.join(d, f"{prop}.json"), "w").write(text)


class Result:
    """Collects what a check found; decides exit status."""

    def __init__(self, prop, tier):
        self.prop, self.tier = prop, tier
        self.violations = []   # dicts: fingerprint, what, replay(dict), found(bool)
        self.notes = []
        self.t0 = time.time()

    def violation(self, fingerprint, what, replay, found=True):
        for v in self.violations:
            if v["fingerprint"] == fingerprint:
                return
        self.violations.append({"fingerprint": fingerprint, "what": what, "replay": replay, "found": found})

    def finish(self, level, coverage, assumptions, extra=None):
        kf = known_findings(self.prop)
        open_kf = [k for k in kf if k.get("status") == "open"]
        reported = 0
        seen_known = set()
        known_fps = {k.get("fingerprint") for k in open_kf}
        # a failing input that is a listed known finding does not explain a broken proof obligation
        any_found = any(v["found"] and v["fingerprint"] not in known_fps for v in self.violations)
        for i, v in enumerate(self.violations):
            if any_found and not v["found"] and v["fingerprint"] in ("lean-build", "lean-audit"):
                self.notes.append("broken proof obligation (search found a failing input, reported separately): " + v["what"][:300])
                continue
            match = next((k for k in open_kf if k.get("fingerprint") == v["fingerprint"]), None)
            if match is not None:
                if match["fingerprint"] not in seen_known:
                    print(f"KNOWN-FINDING: property={self.prop} {match.get('what', v['what'])}")
                    seen_known.add(match["fingerprint"])
                continue
            v["replay"]["property"] = self.prop
            v["replay"]["fingerprint"] = v["fingerprint"]
            v["replay"]["what"] = v["what"]
            path = write_replay(self.prop, f"{seed()}-{i}", v["replay"])
            tail = "" if v["found"] else " no-failing-input-found"
            print(f"VIOLATION property={self.prop} replay={path}{tail}")
            print(f"  {v['what'][:400]}")
            reported += 1
        for k in open_kf:
            if k["fingerprint"] not in seen_known:
                self.notes.append(f"known finding not reproduced in this run: {k['fingerprint']}")
        coverage.setdefault("notes", self.notes)
        coverage["known_findings_seen"] = sorted(seen_known)
        write_evidence(self.prop, self.tier, level, coverage, assumptions, time.time() - self.t0, reported, extra)
        return 1 if reported else 0


def proof_coverage(prop, res, extra_cov):
    """Common proof bookkeeping: build, audit, forbidden-token grep. Returns (coverage dict, ok)."""
    cov = {"trusted_base": TRUSTED_BASE,
           "checker_cmd": f"cd lean && lake build HkModel hkdriver && lake env lean .build/Audit_{prop}.lean (#print axioms of every registered theorem)"}
    mods = registry().get(prop, {}).get("modules", [])
    # only this property's theorem modules (and the driver): a proof obligation of another property that breaks is
    # that property's violation, not this one's
    ok, out = build_lean(tuple(mods) + ("hkdriver",)) if mods else build_lean()
    cov["checker_cmd"] = f"cd lean && lake build {' '.join(mods)} hkdriver && lake env lean .build/Audit_{prop}.lean (#print axioms of every registered theorem)"
    if not ok:
        cov["obligations"], cov["discharged"] = max(1, len(registry().get(prop, {}).get("theorems", []))), 0
        err = "\n".join(l for l in out.split("\n") if "error" in l.lower())[:1500]
        res.violation("lean-build", "the Lean modules of this property no longer build (a proof obligation or a regenerated table broke): " + err,
                      {"kind": "lean-build", "theorem_or_tie": "lake build " + " ".join(mods) + " hkdriver", "log": out[-4000:]}, found=False)
        cov.update(extra_cov)
        # the models and the driver may still build: then the correspondence runs as the search for a failing input
        dok, _ = build_driver_only()
        return cov, dok
    n, d, detail, log = audit(prop)
    cov["obligations"], cov["discharged"] = n, d
    cov["axioms"] = detail
    hits = grep_forbidden()
    cov["forbidden_token_hits"] = hits
    if n == 0 or d != n or hits:
        res.violation("lean-audit", f"proof audit failed: {d}/{n} theorems discharged with allowed axioms; forbidden tokens: {hits[:5]}",
                      {"kind": "lean-audit", "theorem_or_tie": [t for t in registry().get(prop, {}).get("theorems", []) if set(detail.get(t, ['?'])) - ALLOWED_AXIOMS or t not in detail],
                       "log": log[-3000:]}, found=False)
    if res.tier == "thorough" and mods:
        # independent re-check of the compiled proofs by the toolchain's stand-alone kernel checker
        with Lock("lake"):
            rc, out = run(["lake", "env", "leanchecker"] + list(mods), cwd=LEAN, timeout=3000)
        cov["leanchecker"] = {"modules": list(mods), "exit": rc}
        if rc != 0:
            res.violation("lean-audit", "leanchecker rejected the compiled proofs: " + out[-600:],
                          {"kind": "lean-audit", "theorem_or_tie": "lake env leanchecker " + " ".join(mods), "log": out[-3000:]}, found=False)
    cov.update(extra_cov)
    return cov, True


def ensure_harness(res):
    ok, out = build_harness()
    if ok:
        return True
    rok, rout = repo_builds()
    if not rok:
        print("INFRA: /repo does not build; no verdict\n" + rout[-2000:])
        sys.exit(2)
    res.violation("harness-build", "correspondence harness no longer compiles against /repo (a wrapped function changed shape): " + out[-1200:],
                  {"kind": "harness-build", "theorem_or_tie": "go build -tags verif ./cmd/hkharness", "log": out[-4000:]}, found=False)
    return False


def pmap(fn, items, workers=NCPU):
    with ThreadPoolExecutor(max_workers=workers) as ex:
        return list(ex.map(fn, items))


def scratch():
    base = os.path.join(VERIF, ".scratch")
    os.makedirs(base, exist_ok=True)
    return tempfile.mkdtemp(prefix="run-", dir=base)
