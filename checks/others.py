"""Property table for the non-queue checks."""
import pure
import os
from common import REPO as REPO_DIR, BUILD


def q(n_quick, n_thorough):
    return lambda tier: n_quick if tier == "quick" else n_thorough


DISPATCH = dict(sub="dispatch", mode="dispatch", family="dispatch", shards=q(2, 16),
                args=lambda tier, sd, sh: ["-seed", sd * 1000 + sh, "-n", 3000 if tier == "quick" else 20000],
                key_fields=["k", "res", "n", "sub", "attempt", "max"])


EGRESS = dict(sub="egress", mode="egress", family="egress", shards=q(4, 16),
              args=lambda tier, sd, sh: ["-seed", sd * 1000 + sh, "-n", 2500 if tier == "quick" else 20000, "-redirects", 120 if tier == "quick" else 1500],
              key_fields=["k", "raw", "s", "host"])


DRUN = dict(sub="drun", mode="dispatch", family="drun", shards=q(4, 16),
            args=lambda tier, sd, sh: ["-seed", sd * 1000 + sh, "-runs", 10 if tier == "quick" else 60],
            key_fields=["k", "run", "backend", "concurrency"])


def c06(prop, tier, res, replay=None):
    return pure.check_cases(prop, tier, res, [DISPATCH, EGRESS, DRUN], [
        "the dispatcher as it runs: configuration text -> compiler -> run()'s dispatch route table -> the real PushDispatcher (worker goroutines, micro-batches, batched lease mutations with per-action fallback) on real memory and SQLite stores in real time (retry base 1 ms), scripted deliverer per (message, target); after quiescence every pair is judged (sends <= max+1, attempt log numbers the sends, documented outcome) and compared with the Lean delivery cycle under the retry budget the configuration text gives that target",
        "float64 arithmetic of retryDelay is not modelled: Go's result is compared with the exact rational model within a relative slack of 2^-48·X + 2 ns, and the property bound is evaluated on Go's own output in exact arithmetic",
        "the attempt bound assumes lease mutations on the store succeed (as the property states); goroutine scheduling of the dispatcher is not modelled"], replay)


def c16(prop, tier, res, replay=None):
    return pure.check_cases(prop, tier, res, [EGRESS, RELOAD_SWEEPS, DRUN], SWEEP_ASSUME + [
        "real-dispatcher runs (drun) with scripted policy denials next to other terminal answers in one micro-batch: every message must be dead-lettered with the reason of its own answers",
        "URL parsing (net/url) and literal-address recognition (netip.ParseAddr) are the stdlib's: the model receives scheme/hostname/literal as Go parsed them",
        "DNS rebinding between check and dial is outside the property (\"at the time of the check\"); redirect scenarios run against loopback httptest servers through a custom dialer"], replay)


INGRESS = dict(sub="ingress", mode="ingress", family="ingress", shards=q(4, 16),
               args=lambda tier, sd, sh: ["-seed", sd * 1000 + sh, "-configs", 120 if tier == "quick" else 1200, "-requests", 20 if tier == "quick" else 40],
               key_fields=["k", "in", "cfg"])


def c10(prop, tier, res, replay=None):
    return pure.check_cases(prop, tier, res, [INGRESS], [
        "configurations are generated as text and go through the real parser and compiler; requests are constructed http.Request values (no TLS/SNI, RemoteAddr set directly)",
        "path.Clean, url query parsing and header canonicalisation are net/http's; the model receives the cleaned path and parsed maps"], replay)


AUTH = dict(sub="auth", mode="auth", family="auth", shards=q(4, 16),
            args=lambda tier, sd, sh: ["-seed", sd * 1000 + sh, "-configs", 40 if tier == "quick" else 400, "-requests", 70 if tier == "quick" else 120],
            key_fields=["k", "kind", "scenario", "now", "nonce"], class_clauses={"replay-accepted-after-tolerance-raised-by-reload"})
SIGNING = dict(sub="signing", mode="signing", family="signing", shards=q(2, 16),
               args=lambda tier, sd, sh: ["-seed", sd * 1000 + sh, "-n", 500 if tier == "quick" else 4000],
               key_fields=["k", "mode", "now", "escapedPath"], class_clauses={"redirect-hop-signature-stale"})

AUTH_ASSUME = [
    "HMAC-SHA256 unforgeability is a cryptographic assumption; the theorems hold for every keyed function mac, the driver instantiates it with a Lean SHA-256/HMAC independent of Go's crypto",
    "requests are constructed http.Request values through the real ingress handler wired to the real runtime state (config text -> parser -> compiler -> loadAuth); clock injected; signed timestamps |ts| < 10^12 s",
    "C09 reading: a nonce is rejected while the window of the request that introduced it (signed time + tolerance) is open - i.e. a captured request can never be accepted twice; re-use of a nonce with a fresh timestamp after that window is not remembered (unbounded memory)"]


def c08(prop, tier, res, replay=None):
    return pure.check_cases(prop, tier, res, [AUTH], AUTH_ASSUME, replay)


def c09(prop, tier, res, replay=None):
    return pure.check_cases(prop, tier, res, [AUTH, CONCX], AUTH_ASSUME + CONCX_ASSUME, replay)


def c17(prop, tier, res, replay=None):
    return pure.check_cases(prop, tier, res, [SIGNING, AUTH, RELOAD_SWEEPS], AUTH_ASSUME + SWEEP_ASSUME + [
        "outbound: real HTTPDeliverer.Deliver against an httptest target capturing headers and body, clock on every window boundary +-1 ns / +-1 s"], replay)


APIAUTH = dict(sub="apiauth", mode="apiauth", family="apiauth", shards=q(4, 16),
               args=lambda tier, sd, sh: ["-seed", sd * 1000 + sh, "-configs", 80 if tier == "quick" else 800, "-requests", 40 if tier == "quick" else 60],
               key_fields=["k", "cfg", "rawPath", "endpoint", "auth", "values", "path"])


def c11(prop, tier, res, replay=None):
    return pure.check_cases(prop, tier, res, [APIAUTH, CONCX], CONCX_ASSUME + [
        "configurations are generated as text through the real parser/compiler/loadAuth; Pull requests go through the real pullapi.Server.ServeHTTP, Worker requests through the real workerapi.Server methods with gRPC metadata in the context (no network transport, no mTLS), Admin requests through the real admin handler",
        "the endpoint a request addresses is the path.Clean-ed URL path minus the operation (stdlib path.Clean is trusted)"], replay)


MCP = dict(sub="mcp", mode="mcp", family="mcp", shards=lambda tier: 3,
           args=lambda tier, sd, sh: ["-roles", ["read", "operate", "admin"][sh]],
           key_fields=["k", "tool", "variant", "role", "mut", "rt", "principal"])


def c20(prop, tier, res, replay=None):
    return pure.check_cases(prop, tier, res, [MCP, OPFRONT], [
        "the gating tables are REGENERATED from internal/mcp/server.go (go/ast) and internal/mcp/spec.md on every run; the theorems are re-checked over them by lake build",
        "the real server is enumerated exhaustively through JSON-RPC framing: 31 tools + 3 unknown names x 3 roles x 2 x 2 flags x principal present/absent x 8 argument shapes (minimal, foreign path, symlink/.. path, unknown key, and four actors that differ from the principal: unrelated, case variant, prefix, superstring), plus tools/list per combination; process-control tools are only driven to their refusal paths (foreign pid_file) - what a successful start/stop does to the OS is not exercised"], replay)


LIMITS = dict(sub="limits", mode="limits", family="limits", shards=q(2, 8),
              args=lambda tier, sd, sh: ["-seed", sd * 1000 + sh, "-n", 250 if tier == "quick" else 2500],
              key_fields=["k", "num", "den", "burst", "maxBody", "len", "chunked"])


FIDELITY = dict(sub="fidelity", mode="fidelity", family="fidelity", shards=q(4, 16),
                args=lambda tier, sd, sh: ["-seed", sd * 1000 + sh, "-n", 150 if tier == "quick" else 2000],
                key_fields=["k", "mode", "backend", "maxBody", "maxHeaders"])


def c07(prop, tier, res, replay=None):
    return pure.check_cases(prop, tier, res, [FIDELITY, LIMITS, DRUN, OPFRONT, CONCX], [
        "hostile environment (concx): an upload over a real TCP connection that announces N bytes (or opens a chunked body) and closes after a part - nothing of it may be stored; a fan-out refused part-way followed by other traffic - the copy stored for the earlier target keeps the bytes sent for it (compared when first seen and at the end)",
        "push fidelity through the real PushDispatcher (micro-batches, concurrency 1-4): every send recorded by the scripted deliverer must carry exactly the headers and the payload the message was stored with",
        "payload identity through the store is exercised, not proved: the SQLite BLOB / JSON string-map round trip is the storage engine's (trusted base); what is proved is the base64 round trip for every byte string and the header copy rules",
        "requests are handed to the real ingress handler as http.Request values: net/http's own wire parsing of headers (canonicalisation, token validation) is trusted; header names are HTTP tokens, values arbitrary UTF-8",
        "consumers: real pull HTTP handler (JSON/base64 decoded by the Lean decoder), real worker gRPC handler, real HTTPDeliverer against an httptest target; memory and SQLite (with restart); one redelivery after nack"], replay)


RELOAD = dict(sub="reload", mode="reload", family="reload", shards=q(4, 16),
              args=lambda tier, sd, sh: ["-seed", sd * 1000 + sh, "-cases", 40 if tier == "quick" else 250, "-files", 36 if tier == "quick" else 200, "-crash"],
              key_fields=["k", "case", "variant", "fail", "point"], class_clauses={"request-straddles-reload"})


RELOAD_SWEEPS = dict(sub="reload", mode="reload", family="reloadsweep", shards=lambda tier: 1,
                     args=lambda tier, sd, sh: ["-seed", sd, "-cases", 0, "-files", 0],
                     key_fields=["k", "case", "fail", "restartEdit"])
SWEEP_ASSUME = ["reload sweeps: every setting the dispatcher is built from (targets, retry, timeout, concurrency, signing secrets and their windows, egress policy) is changed alone in a fixed configuration and the reload must be refused, because the running dispatcher cannot take it over; a reload reported as applied would leave the dispatcher signing / checking by a configuration that is no longer the running one"]


def c18(prop, tier, res, replay=None):
    return pure.check_cases(prop, tier, res, [RELOAD, CONCX], CONCX_ASSUME + [
        "the structure of reloadConfig (give-up points, write-lock sections with the fields they assign, accessor read sets, the accessor calls of one ingress request) is REGENERATED from internal/app/run.go and internal/ingress/http.go by go/ast on every run; the theorems are re-checked over it. The extractor recognises X.mu.Lock()/Unlock() sections, assignments X.f = ..., inlined runtimeState methods and the closure returned by one; other ways to publish state (atomics, channels) would not be seen",
        "behaviour is compared through a fixed probe set (ingress requests with every credential/body-size/method variant either configuration mentions, pull and worker authorisation per endpoint and token, admin token, publish per route) evaluated on the real handlers wired to the real runtime state; observation instants inside a reload are the verifhook points after each write section; rate limiters use a refill of 1 token / 10000 s and are drained, so answers do not depend on wall time; HMAC probes use real time and fresh nonces",
        "schedules: a request is held between two accessor calls by interposing on ingress.Server's accessor fields while a complete reload runs (every ingress probe x six gates); free-running goroutine interleavings are not explored",
        "file replacement: the directory is read at every verifhook point of writeFileAtomic (app and MCP copies), and child processes are SIGKILLed at each point; this shows process-crash atomicity (rename(2) on one filesystem) - behaviour on power loss (fsync durability) is the OS's and is not observable here"], replay)


PUBLISH = dict(sub="publish", mode="publish", family="publish", shards=q(4, 16),
               args=lambda tier, sd, sh: ["-seed", sd * 1000 + sh, "-configs", 30 if tier == "quick" else 250, "-requests", 25 if tier == "quick" else 40, "-big", 1 if tier == "quick" else 4] + (["-sweeps"] if sh == 0 else []),
               key_fields=["k", "case", "req"], class_clauses={"first-offender-by-pass"})


def c15(prop, tier, res, replay=None):
    return pure.check_cases(prop, tier, res, [PUBLISH, OPFRONT, RELOAD_SWEEPS, CONCX], SWEEP_ASSUME + CONCX_ASSUME + [
        "publishes are also entered through the other front ends (MCP tools on a SQLite file and in admin-proxy mode over TCP, Admin API on memory and SQLite, global and endpoint-scoped paths) and judged item by item against what was published (driver mode opfront)",
        "modelled: the global direct path POST /messages/publish (three validation passes + one EnqueueBatch against the queue model, with the implementation's eviction choice) and the endpoint-scoped path (Model/PublishScoped: scoped switch, endpoint resolution, audit with actor policy, route policy, parse loop, selector hints, target, envelope, stored ids, one EnqueueBatch); both are compared step by step and judged by spec-level predicates that do not depend on the handler's check order",
        "not modelled (answer before the modelled path): global_publish_disabled, audit header policy, JSON decoding errors and body-size limit, management-model cross checks (SourceMismatch, fail-closed resolver), a LookupMessages error, the non-batch fallback loop for stores without EnqueueBatch (every shipped store has it)",
        "configurations are generated as text through the real parser/compiler/runtime wiring (publish_policy, route publish flags, managed labels, max_body/max_headers); stores are the real memory and SQLite stores with small max_depth (reject and drop_oldest), pre-filled; timestamps are RFC 3339 within 1000 s of the clock; strings.TrimSpace is modelled on the white-space set {SP,\\t,\\n,\\v,\\f,\\r,U+0085,U+00A0} (generated ids/targets use only those)"], replay)


CFGFMT = dict(sub="cfgfmt", mode="cfgfmt", family="cfgfmt", shards=q(4, 16),
              args=lambda tier, sd, sh: ["-seed", sd * 1000 + sh, "-n", 2500 if tier == "quick" else 25000, "-lex", 3000 if tier == "quick" else 30000,
                                         "-quote", 3000 if tier == "quick" else 30000, "-shard", sh, "-shards", 4 if tier == "quick" else 16, "-repo", REPO_DIR,
                                         "-cli", os.path.join(BUILD, "hookaido")],
              key_fields=["k", "origin", "src", "v", "quoted"])


def c19(prop, tier, res, replay=None):
    return pure.check_cases(prop, tier, res, [CFGFMT], [
        "PROVED (Lean, unbounded): the lexer/quoting layer - quoteString/formatValue output lexes back to exactly one token of the same kind and text for every value the lexer can have produced (with the exact characterisation of the values for which it does not, and the proof that the lexer never produces them), token streams survive joining words by spaces and lines by newlines. Tied to the code by differential runs of the real lexer and quoting helpers against the model",
        "PROVED over facts regenerated from internal/config by go/types on every run (Generated/FmtCover.lean, Props/C19Cover.lean): every syntax-tree field parser.go assigns is read by format.go, format.go assigns none, every word of the parser's case clauses occurs in a string literal of format.go (or is a channel-name constant kept as data), and every formatValue/formatRoutePath call passes the value's own ...Quoted flag. These are necessary conditions of the round trip for every directive, exercised or not; they do not show that a field is printed in the right place",
        "NOT PROVED, differential only: that the formatter's per-directive tables (format.go, 1 kLoC) print every field the parser's tables (parser.go, 3.6 kLoC) can set in a form that parses back to the same value. This is decided by running Parse/Format/Parse/Compile on texts and comparing complete compiled configurations and validation results (canonical dump of every field; error/warning lists compared as sets because their order follows Go map iteration) plus idempotence of the second fmt",
        "inputs of the differential: every string literal in the repository's Go files (tests included) and every fenced block in its docs that the parser accepts, read from /repo at run time (currently ~420 texts covering every documented directive), and token-level mutations of them (re-quoting, special values incl. blank/escapes/placeholders/braces, comments, duplicated tokens, spliced blocks); a directive that appears in no test and no doc is not exercised",
        "positions in lexer error messages are not modelled; input is valid UTF-8 (the lexer rejects invalid UTF-8 at token starts)"], replay)


CONCX = dict(sub="concx", mode="concx", family="concx", shards=q(4, 16),
             args=lambda tier, sd, sh: ["-seed", sd * 1000 + sh, "-rounds", 40 if tier == "quick" else 400],
             key_fields=["k", "scenario", "backend", "goroutines"])
CONCX_ASSUME = ["concurrency: the theorems are about sequential histories (every handler decision is one critical section); hkharness concx fires 4-32 goroutines at the same instant through the real handlers and stores in 15 scenarios whose outcome is schedule-independent (plus three hostile-environment scenarios: a foreign holder of the SQLite write lock, an upload that dies half way over real TCP, a fan-out refused part-way followed by other traffic) (one nonce - also with a slow clock; a full queue under single enqueues and under batches; one bucket, handler and object level; one contested id; ack vs cancel; a duplicate stale ack against a slow store; a request served while a tolerance-raising reload waits; pull authorization while the configuration flips; eviction vs consumers; concurrent MCP writers of one file; stale lease operations vs a re-lease; a producer and a consumer next to a large idle population) - these sample schedules and can only fail on one that breaks the bound. One scenario is deterministic instead: other requests are issued through a second handle on the same SQLite file from inside the first handle's clock callback, i.e. exactly between the two steps of a by-filter requeue / resume"]


OPFRONT = dict(sub="opfront", mode="opfront", family="opfront", shards=q(4, 16),
               args=lambda tier, sd, sh: ["-seed", sd * 1000 + sh, "-n", 900 if tier == "quick" else 5000],
               key_fields=["k", "case", "via"])


PULLOPS = dict(sub="pullops", mode="pullops", family="pullops", shards=q(2, 8),
               args=lambda tier, sd, sh: ["-seed", sd * 1000 + sh, "-traces", 25 if tier == "quick" else 150, "-steps", 150 if tier == "quick" else 300],
               key_fields=["k", "now", "configured", "batch", "ready"])


CRASH = dict(sub="crash", mode="crash", family="crash", shards=q(6, 16),
             args=lambda tier, sd, sh: ["-seed", sd * 1000 + sh, "-scripts", 2 if tier == "quick" else 8, "-ops", 30 if tier == "quick" else 45,
                                        "-points", 22 if tier == "quick" else 0, "-timed", 6 if tier == "quick" else 40, "-faults", 6 if tier == "quick" else 20],
             key_fields=["k", "script", "kill", "failenq"])


def c01(prop, tier, res, replay=None):
    return pure.check_cases(prop, tier, res, [CRASH, CONCX], [
        "hostile environment (concx foreign-lock, SQLite): another process holds the write lock of the database file (BEGIN IMMEDIATE through a second handle; the store's busy_timeout lowered to 30 ms by a hook) while ingress fan-out requests arrive on the autocommit and on the BEGIN IMMEDIATE enqueue path: every acknowledged request must stand for one stored message per target when the file is read through a fresh handle",
        "PROVED (Lean, every well-formed history and every crash point): with the handler programs of the model (one committed insert per target then the 202; one transaction for a publish batch then the 200; one transaction per ack/nack/dead-letter then the 204) and recovery = committed transactions, the reopened store satisfies the property predicate crashCheck. The program shapes are tied to the code by facts REGENERATED from the Go source each run (enqueue loop leaves on error, only 202 after the loop, EnqueueBatch failure leaves before the response, WAL + synchronous=FULL, commitTx checked in every transactional function)",
        "EXERCISED on the real code: a child process serves seeded scripts of ingress fan-out / publish / dequeue / ack / nack / dead-letter requests through the real handlers on the real SQLite store (even seeds: autocommit insert path; odd seeds: the store run() wires from the compiled configuration) and is SIGKILLed at every verifhook point (begin / before commit / after commit / around the autocommit insert / between per-target enqueues / before the 202 / before the publish 200), at arbitrary instants by the parent (WAL checkpoint loop at 3 ms), and with one Store.Enqueue call refused; the parent reopens the database with the real store, runs integrity_check, dequeues everything that is due and evaluates crashCheck; it also checks that the content equals the model's recovery at some crash point of the same script",
        "a process kill leaves the OS page cache intact: this shows atomicity and ordering of commits against process death, not fsync durability on power loss (SQLite's and the OS's, trusted); concurrent requests inside the child are not generated (the store serialises transactions on one connection); PostgreSQL and memory backends are out of scope of a restart on the same database"], replay)


LEASECONC = dict(sub="leaseconc", mode="leaseconc", family="leaseconc", shards=q(2, 8),
                 args=lambda tier, sd, sh: ["-seed", sd * 1000 + sh, "-runs", 6 if tier == "quick" else 24, "-workers", 8 if tier == "quick" else 16,
                                            "-millis", 400 if tier == "quick" else 1200, "-msgs", 60 if tier == "quick" else 150],
                 key_fields=["k", "run", "backend"])


LONGPOLL = dict(sub="longpoll", mode="leaseconc", family="longpoll", shards=q(1, 2),
                args=lambda tier, sd, sh: ["-seed", sd * 1000 + sh, "-reps", 2 if tier == "quick" else 6],
                key_fields=["k", "backend", "scenario"])


TABLE = {"C18": c18, "C01": c01, "C19": c19, "C15": c15, "C07": c07, "C20": c20, "C11": c11, "C06": c06, "C16": c16, "C10": c10, "C08": c08, "C09": c09, "C17": c17}
