"""Property table for the non-queue checks."""
import pure


def q(n_quick, n_thorough):
    return lambda tier: n_quick if tier == "quick" else n_thorough


DISPATCH = dict(sub="dispatch", mode="dispatch", family="dispatch", shards=q(2, 16),
                args=lambda tier, sd, sh: ["-seed", sd * 1000 + sh, "-n", 3000 if tier == "quick" else 20000],
                key_fields=["k", "res", "n", "sub", "attempt", "max"])


EGRESS = dict(sub="egress", mode="egress", family="egress", shards=q(4, 16),
              args=lambda tier, sd, sh: ["-seed", sd * 1000 + sh, "-n", 2500 if tier == "quick" else 20000, "-redirects", 120 if tier == "quick" else 1500],
              key_fields=["k", "raw", "s", "host"])


def c06(prop, tier, res, replay=None):
    return pure.check_cases(prop, tier, res, [DISPATCH, EGRESS], [
        "float64 arithmetic of retryDelay is not modelled: Go's result is compared with the exact rational model within a relative slack of 2^-48·X + 2 ns, and the property bound is evaluated on Go's own output in exact arithmetic",
        "the attempt bound assumes lease mutations on the store succeed (as the property states); goroutine scheduling of the dispatcher is not modelled"], replay)


def c16(prop, tier, res, replay=None):
    return pure.check_cases(prop, tier, res, [EGRESS], [
        "URL parsing (net/url) and literal-address recognition (netip.ParseAddr) are the stdlib's: the model receives scheme/hostname/literal as Go parsed them",
        "DNS rebinding between check and dial is outside the property (\"at the time of the check\"); redirect scenarios run against loopback httptest servers through a custom dialer"], replay)


INGRESS = dict(sub="ingress", mode="ingress", family="ingress", shards=q(4, 16),
               args=lambda tier, sd, sh: ["-seed", sd * 1000 + sh, "-configs", 120 if tier == "quick" else 1200, "-requests", 20 if tier == "quick" else 40],
               key_fields=["k", "in", "cfg"])


def c10(prop, tier, res, replay=None):
    return pure.check_cases(prop, tier, res, [INGRESS], [
        "configurations are generated as text and go through the real parser and compiler; requests are constructed http.Request values (no TLS/SNI, RemoteAddr set directly)",
        "path.Clean, url query parsing and header canonicalisation are net/http's; the model receives the cleaned path and parsed maps"], replay)


TABLE = {"C06": c06, "C16": c16, "C10": c10}
