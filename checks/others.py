"""Property table for the non-queue checks."""
import pure


def q(n_quick, n_thorough):
    return lambda tier: n_quick if tier == "quick" else n_thorough


DISPATCH = dict(sub="dispatch", mode="dispatch", family="dispatch", shards=q(2, 16),
                args=lambda tier, sd, sh: ["-seed", sd * 1000 + sh, "-n", 3000 if tier == "quick" else 20000],
                key_fields=["k", "res", "n", "sub", "attempt", "max"])


def c06(prop, tier, res, replay=None):
    return pure.check_cases(prop, tier, res, [DISPATCH], [
        "float64 arithmetic of retryDelay is not modelled: Go's result is compared with the exact rational model within a relative slack of 2^-48·X + 2 ns, and the property bound is evaluated on Go's own output in exact arithmetic",
        "the attempt bound assumes lease mutations on the store succeed (as the property states); goroutine scheduling of the dispatcher is not modelled"], replay)


TABLE = {"C06": c06}
