"""Queue-family checks (C02, C03, C04, C05, C12, C14, and the store part of C13): op-trace correspondence of the
real memory and SQLite stores against Model/Queue.lean, with the property predicates of Obs/Queue.lean evaluated on the
implementation's own records."""
import glob, json, os, re, shutil, subprocess, time
from common import *

# op kinds in whose records a divergence concerns the property (None = all)
SCOPE = {
    "C02": None,
    "C03": {"dequeue"},
    "C04": {"ack", "nack", "extend", "mark_dead", "ack_batch", "nack_batch", "mark_dead_batch"},
    "C05": {"dequeue", "nack", "nack_batch", "restart", "extend", "enqueue", "enqueue_batch"},
    "C12": {"enqueue", "enqueue_batch"},
    "C14": {"cancel", "requeue", "resume", "requeue_dead", "delete_dead", "cancel_f", "requeue_f", "resume_f"},
    "C13": None,
}
PROFILES = {
    "C02": ["mix", "admit", "operator", "lease"],
    "C03": ["lease", "visible"],
    "C04": ["lease", "mix"],
    "C05": ["visible", "lease", "bulk"],
    "C12": ["admit", "mix"],
    "C14": ["operator", "mix"],
    "C13": ["mix", "operator", "admit", "lease", "visible"],
}
# profiles whose traces are long scripted histories: few traces per shard
HEAVY = {"bulk": (1, 3)
}


EXTRA_PLANS = {}


def run_shard(args):
    """one harness | driver pipeline; returns parsed result"""
    backend, profile, sd, traces, ops, workdir, replay = args
    tag = f"{backend}-{profile}-{sd}" if not replay else "replay-" + os.path.basename(replay)
    tf = os.path.join(workdir, f"q-{tag}.jsonl")
    sf = os.path.join(workdir, f"s-{tag}.json")
    env = dict(os.environ)
    env["VERIF_SCRATCH"] = workdir if not os.path.isdir("/dev/shm") else "/dev/shm"
    if replay:
        cmd = [HK, "queue", "-replay", replay, "-out", tf]
    else:
        cmd = [HK, "queue", "-backend", backend, "-profile", profile, "-seed", str(sd), "-traces", str(traces), "-ops", str(ops), "-out", tf, "-stats", sf]
    p = subprocess.run(cmd, stdout=subprocess.PIPE, stderr=subprocess.STDOUT, text=True, env=env, timeout=3600)
    if p.returncode != 0:
        return {"tag": tag, "error": "harness failed: " + p.stdout[-2000:], "trace_file": tf}
    with open(tf) as f:
        d = subprocess.run([DRIVER, "queue"], stdin=f, stdout=subprocess.PIPE, stderr=subprocess.STDOUT, text=True, timeout=3600)
    if d.returncode != 0:
        return {"tag": tag, "error": "driver failed: " + d.stdout[-2000:], "trace_file": tf}
    lines = d.stdout.split("\n")
    summ = {}
    events = []
    for l in lines:
        if l.startswith("SUMMARY "):
            summ = json.loads(l[8:])
        elif l.startswith("DIVERGE") or l.startswith("PROP") or l.startswith("BADLINE"):
            events.append(l)
    return {"tag": tag, "backend": backend, "profile": profile, "seed": sd, "summary": summ, "events": events, "trace_file": tf}


EV = re.compile(r"^(DIVERGE|PROP)(?: (C\d+))? ?trace=(\d+) step=(\d+)(.*)$")


def parse_event(l):
    m = EV.match(l)
    if not m:
        return None
    kind, prop, tr, st, rest = m.groups()
    opm = re.search(r"op=(\w+)", rest)
    return {"kind": kind, "prop": prop, "trace": int(tr), "step": int(st), "op": opm.group(1) if opm else None, "rest": rest.strip()}


def extract_trace(trace_file, trace_no, upto_step):
    """cfg line + op lines (ops and clock only) of one trace up to and including a step"""
    out, cur, n = [], None, 0
    with open(trace_file) as f:
        for line in f:
            j = json.loads(line)
            if j["k"] == "cfg":
                cur = j["trace"]
                n = 0
                if cur == trace_no:
                    out = [j]
                continue
            if cur == trace_no:
                if n <= upto_step:
                    out.append({"k": "step", "now": j["now"], "op": j["op"]})
                n += 1
    return out


def op_of_step(trace_file, trace_no, step):
    tr = extract_trace(trace_file, trace_no, step)
    return tr[-1]["op"]["t"] if len(tr) > 1 else None


def replay_lines(lines, workdir, want):
    """re-execute a candidate trace on the real store; does the driver still report `want`? (regex)"""
    p = os.path.join(workdir, f"cand-{time.time_ns()}.jsonl")
    with open(p, "w") as f:
        for l in lines:
            f.write(json.dumps(l) + "\n")
    r = run_shard((None, None, 0, 0, 0, workdir, p))
    os.remove(p)
    try:
        os.remove(r["trace_file"])
    except OSError:
        pass
    if "error" in r:
        return False, r
    hit = [e for e in r["events"] if re.search(want, e)]
    return bool(hit), r


def shrink(lines, workdir, want, budget_s=25):
    """ddmin over the step lines (cfg line kept)."""
    t0 = time.time()
    cfg, steps = lines[0], lines[1:]
    ok, _ = replay_lines([cfg] + steps, workdir, want)
    if not ok:
        return lines, False
    n = 2
    while len(steps) >= 2 and time.time() - t0 < budget_s:
        chunk = max(1, len(steps) // n)
        reduced = False
        for i in range(0, len(steps), chunk):
            cand = steps[:i] + steps[i + chunk:]
            if not cand:
                continue
            ok, _ = replay_lines([cfg] + cand, workdir, want)
            if ok:
                steps, n, reduced = cand, max(n - 1, 2), True
                break
            if time.time() - t0 > budget_s:
                break
        if not reduced:
            if chunk == 1:
                break
            n = min(len(steps), n * 2)
    return [cfg] + steps, True


def check(prop, tier, res, replay=None):
    scope = SCOPE[prop]
    cov_extra = {}
    cov, lean_ok = proof_coverage(prop, res, cov_extra)
    if not lean_ok or not ensure_harness(res):
        cov.update({"evaluations": 0, "distinct_nontrivial": 0})
        return res.finish("proof", cov, ["correspondence not run: build failed"])
    work = scratch()
    try:
        sd = seed()
        if tier == "quick":
            traces, ops, nseeds = 60, 60, 1
        else:
            traces, ops, nseeds = 400, 120, 6
        shards = []
        # corpus first
        for f in sorted(glob.glob(os.path.join(VERIF, "corpus", "queue", "*.jsonl"))):
            shards.append((None, None, 0, 0, 0, work, f))
        if replay:
            shards = [(None, None, 0, 0, 0, work, replay)]
        else:
            for be in ("memory", "sqlite"):
                for pr in PROFILES[prop]:
                    for k in range(nseeds):
                        tr = traces if pr not in HEAVY else HEAVY[pr][0 if tier == "quick" else 1]
                        shards.append((be, pr, sd * 100 + k, tr, ops, work, None))
        results = pmap(run_shard, shards)
        steps = 0
        kinds = {}
        diverged = 0
        samples = []
        for r in results:
            if "error" in r:
                res.violation("pipeline:" + r["tag"], "correspondence pipeline failed: " + r["error"][:600],
                              {"kind": "pipeline", "theorem_or_tie": "queue correspondence", "log": r["error"]}, found=False)
                continue
            s = r["summary"]
            steps += s.get("steps", 0)
            for k, v in s.get("kinds", {}).items():
                kinds[k] = kinds.get(k, 0) + v
            evs = [e for e in (parse_event(l) for l in r["events"]) if e]
            backend = r.get("backend") or "corpus"
            props_here = [e for e in evs if e["kind"] == "PROP" and e["prop"] == prop]
            div_here = []
            for e in evs:
                if e["kind"] != "DIVERGE":
                    continue
                op = e["op"] or op_of_step(r["trace_file"], e["trace"], e["step"])
                e["op"] = op
                readonly_resp = op in ("list", "list_dead", "lookup", "stats") and "field=resp" in e["rest"]
                if (scope is None or op in scope) and not (readonly_resp and prop != "C13"):
                    div_here.append(e)
            diverged += len(div_here)
            if props_here:
                e = props_here[0]
                e["op"] = op_of_step(r["trace_file"], e["trace"], e["step"])
                lines = extract_trace(r["trace_file"], e["trace"], e["step"])
                be = lines[0]["cfg"]["backend"]
                small, _ = shrink(lines, work, rf"^PROP {prop} ")
                ok2, rr = replay_lines(small, work, rf"^PROP {prop} ")
                res.violation(f"queue:{be}:{e['op']}:prop", f"{prop} predicate false on the implementation's own record ({be} backend, op {e['op']}); minimal trace has {len(small) - 1} ops",
                              {"kind": "queue-trace", "backend": be, "clause": f"{prop}.stepOK", "trace": small,
                               "driver_output": rr.get("events", []) if isinstance(rr, dict) else [],
                               "how": "./check %s --replay <this file>" % prop}, found=True)
            elif div_here:
                e = div_here[0]
                lines = extract_trace(r["trace_file"], e["trace"], e["step"])
                be = lines[0]["cfg"]["backend"]
                small, _ = shrink(lines, work, rf"^DIVERGE .*op={e['op']}")
                # search: widened generation looking for a record on which the property predicate itself fails
                found = None
                if not replay:
                    wide = [(be, pr, sd * 100 + 50 + k, 150, 80, work, None) for pr in PROFILES[prop] for k in range(4)]
                    for wr in pmap(run_shard, wide):
                        if "error" in wr:
                            continue
                        pe = [x for x in (parse_event(l) for l in wr["events"]) if x and x["kind"] == "PROP" and x["prop"] == prop]
                        if pe:
                            l2 = extract_trace(wr["trace_file"], pe[0]["trace"], pe[0]["step"])
                            found, _ = shrink(l2, work, rf"^PROP {prop} ")
                            break
                if found:
                    res.violation(f"queue:{be}:{e['op']}:prop", f"model/implementation diverge on op {e['op']} ({be}); widened search found a record violating {prop}",
                                  {"kind": "queue-trace", "backend": be, "clause": f"{prop}.stepOK", "trace": found, "divergence_trace": small}, found=True)
                else:
                    res.violation(f"queue:{be}:{e['op']}:diverge", f"correspondence broken: model and {be} store disagree on op {e['op']} ({e['rest'][:200]}); {prop}.stepOK held on every record searched",
                                  {"kind": "queue-trace", "backend": be, "theorem_or_tie": f"correspondence Model/Queue.lean step vs {be} store, op {e['op']} (theorem {prop}_model no longer transfers)",
                                   "trace": small, "detail": e["rest"][:1000]}, found=False)
            if len(samples) < 2 and not replay and "trace_file" in r and r.get("backend"):
                samples.append({"backend": r["backend"], "profile": r["profile"], "trace": extract_trace(r["trace_file"], 0, 5)})
        # additional case-stream families of this property (rate limiter, size limits, ...)
        import pure
        xjobs = [(pl, sh) for pl in EXTRA_PLANS.get(prop, []) for sh in range(pl["shards"](tier))]
        xres = pmap(lambda j: pure.run_cases(j[0]["sub"], j[0]["args"](tier, sd, j[1]), j[0]["mode"], work, f"{j[0]['family']}-{j[1]}"), xjobs)
        for (pl, sh), rr in zip(xjobs, xres):
            if True:
                if "error" in rr:
                    res.violation(f"pipeline:{pl['family']}", "correspondence pipeline failed: " + rr["error"][:600], {"kind": "pipeline", "theorem_or_tie": pl["family"], "log": rr["error"]}, found=False)
                    continue
                steps += rr["n"]
                for k, v in rr["kinds"].items():
                    kinds[f"{pl['family']}/{k}"] = kinds.get(f"{pl['family']}/{k}", 0) + v
                per = {}
                for cse, v in rr["bad"]:
                    names = v.split(" ")[1].split(",") if v.startswith("PROP ") else []
                    clause = v.split(" ")[2] if len(v.split(" ")) > 2 else "?"
                    if prop in names:
                        per[clause] = per.get(clause, 0) + 1
                        if per[clause] <= 2:
                            res.violation(f"{pl['family']}:{clause}:{pure.case_key(cse, pl['key_fields'])}", f"{prop} violated by the implementation on a concrete input ({pl['family']}/{clause}): {v[:300]}",
                                          {"kind": "case", "family": pl["family"], "case": json.loads(cse), "verdict": v,
                                           "rerun": {"harness": [pl["sub"]] + [str(a) for a in pl["args"](tier, sd, sh)], "driver_mode": pl["mode"]}}, found=True)
                    elif not v.startswith("PROP "):
                        res.violation(f"{pl['family']}:diverge:{v.split(' ')[1] if ' ' in v else '?'}", f"correspondence broken ({pl['family']}): {v[:300]}",
                                      {"kind": "case", "family": pl["family"], "theorem_or_tie": f"correspondence {pl['mode']} model vs implementation", "case": cse[:2000], "verdict": v}, found=False)
        nontrivial = len([k for k in kinds if not k.endswith(":0") and "none" not in k])
        cov.update({"evaluations": steps, "distinct_nontrivial": nontrivial,
                    "rule": "one evaluation = one store operation executed on the real memory/SQLite store and on the Lean model, with full snapshot comparison; distinct_nontrivial = distinct (operation kind, response class) pairs that had an effect or a non-empty answer",
                    "traces_validated_against_impl": sum(1 for r in results if "summary" in r) * (traces if not replay else 1),
                    "op_response_histogram": dict(sorted(kinds.items())), "divergences_in_scope": diverged,
                    "samples": samples or [{"replay": replay}], "backends": ["memory", "sqlite"], "profiles": PROFILES[prop]})
        return res.finish("proof", cov, [
            "theorems quantify over all model records; the implementation is tied by differential execution on generated histories (memory + SQLite); PostgreSQL not run",
            "atomicity of each store method (mutex / single connection + BEGIN IMMEDIATE) reduces concurrent histories to sequential ones; see DESIGN.md C03"])
    finally:
        shutil.rmtree(work, ignore_errors=True)
