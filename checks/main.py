import argparse, sys, os, time
from common import *


def setup():
    ok, out = build_lean(("HkModel", "hkdriver"))
    print(out[-3000:])
    if not ok:
        print("setup: lean build failed")
        return 1
    ok, out = build_harness()
    print(out[-3000:])
    if not ok:
        print("setup: harness build failed")
        return 1
    print("setup ok")
    return 0


def main(argv):
    if argv and argv[0] == "--setup":
        return setup()
    ap = argparse.ArgumentParser()
    ap.add_argument("prop")
    ap.add_argument("--tier", default=os.environ.get("VERIF_TIER", "quick"), choices=["quick", "thorough"])
    ap.add_argument("--replay", default=None)
    a = ap.parse_args(argv)
    prop = a.prop
    res = Result(prop, a.tier)
    import queuefam
    table = {p: queuefam.check for p in ("C02", "C03", "C04", "C05", "C12", "C14")}
    import c13
    table["C13"] = c13.check
    try:
        import others
        table.update(others.TABLE)
        queuefam.EXTRA_PLANS["C12"] = [others.LIMITS, others.RELOAD_SWEEPS, others.CONCX]
        queuefam.EXTRA_PLANS["C02"] = [others.RELOAD_SWEEPS, others.CONCX]
        queuefam.EXTRA_PLANS["C03"] = [others.LEASECONC, others.PULLOPS, others.CONCX]
        queuefam.EXTRA_PLANS["C04"] = [others.PULLOPS, others.LEASECONC, others.CONCX]
        queuefam.EXTRA_PLANS["C05"] = [others.PULLOPS, others.LONGPOLL, others.RELOAD_SWEEPS, others.OPFRONT, others.CONCX]
        queuefam.EXTRA_PLANS["C14"] = [others.OPFRONT, others.CONCX]
    except ImportError:
        pass
    if prop not in table:
        print(f"no check registered for {prop}")
        return 2
    return table[prop](prop, a.tier, res, a.replay)
