// Facts about "which configuration changes need a restart" (internal/app/run.go requiresRestartForReload and the *Equal
// helpers it uses), regenerated on every run (go/ast): the pairs of expressions it compares, and for every helper
// `fooEqual(a, b T)` the fields of T it reads on each side next to all the fields T declares.
package main

import (
	"bytes"
	"fmt"
	"go/ast"
	"go/printer"
	"go/token"
	"os"
	"path/filepath"
	"regexp"
	"sort"
	"strings"
)

func exprText(fset *token.FileSet, e ast.Expr) string {
	var b bytes.Buffer
	_ = printer.Fprint(&b, fset, e)
	return strings.Join(strings.Fields(b.String()), " ")
}

// struct declarations of a package directory: type name -> field names
func structFields(dir string) map[string][]string {
	out := map[string][]string{}
	ents, err := os.ReadDir(dir)
	check(err)
	for _, e := range ents {
		n := e.Name()
		if !strings.HasSuffix(n, ".go") || strings.HasSuffix(n, "_test.go") || strings.HasSuffix(n, "_verif.go") {
			continue
		}
		_, f := parseFile(filepath.Join(dir, n))
		for _, d := range f.Decls {
			gd, ok := d.(*ast.GenDecl)
			if !ok {
				continue
			}
			for _, sp := range gd.Specs {
				ts, ok := sp.(*ast.TypeSpec)
				if !ok {
					continue
				}
				st, ok := ts.Type.(*ast.StructType)
				if !ok {
					continue
				}
				var fields []string
				for _, fl := range st.Fields.List {
					for _, nm := range fl.Names {
						fields = append(fields, nm.Name)
					}
				}
				out[ts.Name.Name] = fields
			}
		}
	}
	return out
}

// root identifier and first field of a.F, a[i].F, a.F.G (-> "F"), (*a).F
func rootField(e ast.Expr) (string, string) {
	field := ""
	for {
		switch v := e.(type) {
		case *ast.SelectorExpr:
			field = v.Sel.Name
			e = v.X
		case *ast.IndexExpr:
			e = v.X
		case *ast.StarExpr:
			e = v.X
		case *ast.ParenExpr:
			e = v.X
		case *ast.CallExpr:
			// a.F.Equal(...): the receiver chain
			if s, ok := v.Fun.(*ast.SelectorExpr); ok {
				e = s.X
				field = ""
				continue
			}
			return "", ""
		case *ast.Ident:
			return v.Name, field
		default:
			return "", ""
		}
	}
}

func genRestart(repo, out string) {
	path := filepath.Join(repo, "internal", "app", "run.go")
	fset, f := parseFile(path)
	fd := findFunc(f, "requiresRestartForReload")
	if fd == nil {
		check(fmt.Errorf("requiresRestartForReload not found in %s", path))
	}
	var pairs [][2]string
	helpersUsed := map[string]bool{}
	ast.Inspect(fd.Body, func(n ast.Node) bool {
		switch x := n.(type) {
		case *ast.BinaryExpr:
			if x.Op == token.NEQ || x.Op == token.EQL {
				pairs = append(pairs, [2]string{exprText(fset, x.X), exprText(fset, x.Y)})
			}
		case *ast.CallExpr:
			if id, ok := x.Fun.(*ast.Ident); ok && strings.HasSuffix(id.Name, "Equal") && len(x.Args) == 2 {
				helpersUsed[id.Name] = true
				pairs = append(pairs, [2]string{exprText(fset, x.Args[0]), exprText(fset, x.Args[1])})
			}
		}
		return true
	})
	structs := map[string]map[string][]string{
		"config":     structFields(filepath.Join(repo, "internal", "config")),
		"dispatcher": structFields(filepath.Join(repo, "internal", "dispatcher")),
	}
	type helper struct {
		name, typ           string
		fields, left, right []string
		calls               []string
		known               bool
	}
	var helpers []helper
	for _, d := range f.Decls {
		fn, ok := d.(*ast.FuncDecl)
		if !ok || fn.Recv != nil || !strings.HasSuffix(fn.Name.Name, "Equal") || fn.Type.Params == nil {
			continue
		}
		// two parameters of one type: `a, b T`
		var names []string
		var typ ast.Expr
		for _, p := range fn.Type.Params.List {
			for _, nm := range p.Names {
				names = append(names, nm.Name)
			}
			typ = p.Type
		}
		if len(names) != 2 || len(fn.Type.Params.List) != 1 {
			continue
		}
		for {
			switch v := typ.(type) {
			case *ast.ArrayType:
				typ = v.Elt
				continue
			case *ast.StarExpr:
				typ = v.X
				continue
			}
			break
		}
		h := helper{name: fn.Name.Name, typ: exprText(fset, typ)}
		if se, ok := typ.(*ast.SelectorExpr); ok {
			if pk, ok := se.X.(*ast.Ident); ok {
				if fs, ok := structs[pk.Name][se.Sel.Name]; ok {
					h.fields, h.known = append([]string{}, fs...), true
				}
			}
		}
		l, r := map[string]bool{}, map[string]bool{}
		calls := map[string]bool{}
		ast.Inspect(fn.Body, func(n ast.Node) bool {
			switch x := n.(type) {
			case *ast.SelectorExpr:
				root, field := rootField(x)
				if field != "" {
					if root == names[0] {
						l[field] = true
					} else if root == names[1] {
						r[field] = true
					}
				}
			case *ast.CallExpr:
				if id, ok := x.Fun.(*ast.Ident); ok && strings.HasSuffix(id.Name, "Equal") {
					calls[id.Name] = true
				}
			}
			return true
		})
		h.left, h.right, h.calls = sortedKeys(l), sortedKeys(r), sortedKeys(calls)
		sort.Strings(h.fields)
		helpers = append(helpers, h)
	}
	sort.Slice(helpers, func(i, j int) bool { return helpers[i].name < helpers[j].name })
	// the dispatcher's configuration as run() builds it: fields set by the composite literals of buildDispatchRoutes
	built := map[string]bool{}
	if bd := findFunc(f, "buildDispatchRoutes"); bd != nil {
		ast.Inspect(bd.Body, func(n ast.Node) bool {
			if cl, ok := n.(*ast.CompositeLit); ok {
				t := cl.Type
				if at, ok := t.(*ast.ArrayType); ok {
					t = at.Elt
				}
				if se, ok := t.(*ast.SelectorExpr); ok {
					for _, el := range cl.Elts {
						if kv, ok := el.(*ast.KeyValueExpr); ok {
							if id, ok := kv.Key.(*ast.Ident); ok {
								built[se.Sel.Name+"."+id.Name] = true
							}
						}
					}
				}
			}
			return true
		})
	}
	var declared []string
	for _, t := range []string{"RouteConfig", "TargetConfig", "RetryConfig", "HMACSigningConfig", "HMACSigningSecretVersion"} {
		for _, fld := range structs["dispatcher"][t] {
			declared = append(declared, t+"."+fld)
		}
	}
	sort.Strings(declared)

	var b strings.Builder
	b.WriteString("/- GENERATED by /verif/extract from internal/app/run.go, internal/config, internal/dispatcher — do not edit. -/\nnamespace Hk.Gen.Restart\n\n")
	b.WriteString("/-- (left, right) of every `!=` / `==` and every `…Equal(x, y)` call in requiresRestartForReload -/\n")
	b.WriteString("def restartPairs : List (String × String) := [")
	for i, p := range pairs {
		if i > 0 {
			b.WriteString(", ")
		}
		fmt.Fprintf(&b, "(%s, %s)", leanStr(p[0]), leanStr(p[1]))
	}
	b.WriteString("]\n\n")
	// the same pairs split around the parameter each side mentions: (before, parameter, after) twice; "?" when a side
	// mentions no parameter or more than one
	params := []string{}
	for _, p := range fd.Type.Params.List {
		for _, nm := range p.Names {
			params = append(params, nm.Name)
		}
	}
	split := func(t string) [3]string {
		found := [3]string{"?", "?", "?"}
		n := 0
		for _, pn := range params {
			re := regexp.MustCompile(`\b` + regexp.QuoteMeta(pn) + `\b`)
			for _, loc := range re.FindAllStringIndex(t, -1) {
				n++
				found = [3]string{t[:loc[0]], pn, t[loc[1]:]}
			}
		}
		if n != 1 {
			return [3]string{"?", "?", "?"}
		}
		return found
	}
	fmt.Fprintf(&b, "/-- the parameters of requiresRestartForReload: the configuration to be applied, the running one -/\ndef restartParams : List String := %s\n\n", leanList(params))
	b.WriteString("/-- every pair split around the one parameter each side mentions: (before, parameter, after, before', parameter', after') -/\n")
	b.WriteString("def restartPairsSplit : List (String × String × String × String × String × String) := [")
	for i, p := range pairs {
		if i > 0 {
			b.WriteString(", ")
		}
		l, r := split(p[0]), split(p[1])
		fmt.Fprintf(&b, "(%s, %s, %s, %s, %s, %s)", leanStr(l[0]), leanStr(l[1]), leanStr(l[2]), leanStr(r[0]), leanStr(r[1]), leanStr(r[2]))
	}
	b.WriteString("]\n\n")
	fmt.Fprintf(&b, "/-- the `…Equal` helpers requiresRestartForReload calls directly -/\ndef helpersCalled : List String := %s\n\n", leanList(sortedKeys(helpersUsed)))
	b.WriteString("/-- every `fooEqual(a, b T)` of run.go: name, T, whether T's declaration was found, T's fields, the fields read through `a`,\n    the fields read through `b`, the other helpers it calls -/\n")
	b.WriteString("def helpers : List (String × String × Bool × List String × List String × List String × List String) := [\n")
	for i, h := range helpers {
		sep := ","
		if i == len(helpers)-1 {
			sep = ""
		}
		fmt.Fprintf(&b, "  (%s, %s, %v, %s, %s, %s, %s)%s\n", leanStr(h.name), leanStr(h.typ), h.known, leanList(h.fields), leanList(h.left), leanList(h.right), leanList(h.calls), sep)
	}
	b.WriteString("]\n\n")
	fmt.Fprintf(&b, "/-- fields the dispatcher's configuration types declare, and those buildDispatchRoutes sets -/\ndef dispatcherFieldsDeclared : List String := %s\ndef dispatcherFieldsBuilt : List String := %s\n\n", leanList(declared), leanList(sortedKeys(built)))
	b.WriteString("end Hk.Gen.Restart\n")
	check(os.WriteFile(filepath.Join(out, "RestartCmp.lean"), []byte(b.String()), 0o644))
}
