package main

// C18: the structure of a configuration reload, regenerated from internal/app/run.go:
//   - the events of reloadConfig in program order: every point where the attempt can give up ("mayFail") and every
//     write-lock section of the runtime state with the fields it assigns ("write"), callee methods inlined;
//   - the fields of runtimeState;
//   - for every accessor (method taking the read lock) the fields it reads;
//   - the accessor calls one ingress request makes, in program order (ingress.Server.ServeHTTP), with the
//     runtimeState method each is wired to.

import (
	"fmt"
	"go/ast"
	"go/token"
	"os"
	"path/filepath"
	"sort"
	"strings"
)

type relEv struct {
	touch  bool // live field evaluated outside any lock section (read, or handed to a callee)
	fail   bool
	label  string
	fields []string
	locked bool
	loops  []ast.Node
	pos    token.Pos
}

type relCtx struct {
	methods map[string]*ast.FuncDecl // runtimeState methods
	fields  map[string]bool
	fset    *token.FileSet
}

func recvName(fd *ast.FuncDecl) string {
	if fd.Recv == nil || len(fd.Recv.List) == 0 || len(fd.Recv.List[0].Names) == 0 {
		return ""
	}
	return fd.Recv.List[0].Names[0].Name
}

func isRuntimeStateMethod(fd *ast.FuncDecl) bool {
	if fd.Recv == nil || len(fd.Recv.List) == 0 {
		return false
	}
	t := fd.Recv.List[0].Type
	if st, ok := t.(*ast.StarExpr); ok {
		t = st.X
	}
	id, ok := t.(*ast.Ident)
	return ok && id.Name == "runtimeState"
}

// X.mu.<name>() on variable X
func muCall(e ast.Expr, x string) string {
	call, ok := e.(*ast.CallExpr)
	if !ok {
		return ""
	}
	sel, ok := call.Fun.(*ast.SelectorExpr)
	if !ok {
		return ""
	}
	inner, ok := sel.X.(*ast.SelectorExpr)
	if !ok || inner.Sel.Name != "mu" {
		return ""
	}
	if id, ok := inner.X.(*ast.Ident); ok && id.Name == x {
		return sel.Sel.Name
	}
	return ""
}

// X.method(...) on variable X where method is a runtimeState method
func (c *relCtx) stateCall(e ast.Expr, x string) *ast.FuncDecl {
	call, ok := e.(*ast.CallExpr)
	if !ok {
		return nil
	}
	sel, ok := call.Fun.(*ast.SelectorExpr)
	if !ok {
		return nil
	}
	if id, ok := sel.X.(*ast.Ident); ok && id.Name == x {
		return c.methods[sel.Sel.Name]
	}
	return nil
}

// field of X assigned by this lhs expression (X.f = …, X.f[k] = …)
func (c *relCtx) lhsField(e ast.Expr, x string) string {
	for {
		switch v := e.(type) {
		case *ast.IndexExpr:
			e = v.X
			continue
		case *ast.SelectorExpr:
			if id, ok := v.X.(*ast.Ident); ok && id.Name == x && c.fields[v.Sel.Name] {
				return v.Sel.Name
			}
			return ""
		default:
			return ""
		}
	}
}

// lastResultKind: "error", "bool" or "" for the function's last result type
func lastResultKind(fn *ast.FuncDecl) string {
	if fn.Type.Results == nil || len(fn.Type.Results.List) == 0 {
		return ""
	}
	t := fn.Type.Results.List[len(fn.Type.Results.List)-1].Type
	if id, ok := t.(*ast.Ident); ok && (id.Name == "error" || id.Name == "bool") {
		return id.Name
	}
	return ""
}

func failingReturn(r *ast.ReturnStmt) bool {
	if len(r.Results) == 0 {
		return false
	}
	if id, ok := r.Results[len(r.Results)-1].(*ast.Ident); ok && (id.Name == "nil" || id.Name == "true") {
		return false
	}
	return true
}

// events of fn in program order; x is the variable naming the runtime state inside fn. depth guards recursion.
func (c *relCtx) events(fn *ast.FuncDecl, x string, depth int) []relEv {
	var out []relEv
	if fn == nil || fn.Body == nil || depth > 6 {
		return out
	}
	locked := false
	deferred := false
	cur := -1
	nfail := 0
	var loops []ast.Node
	propagate := map[ast.Node]bool{} // if-bodies that only forward an inlined callee's error
	type closure struct {
		lit *ast.FuncLit
		x   string
	}
	closures := map[string]closure{} // local func values returned by an inlined callee (swap, err := s.prepare(...))
	var walk func(n ast.Node)
	addField := func(f string, pos token.Pos) {
		if locked && cur >= 0 {
			for _, g := range out[cur].fields {
				if g == f {
					return
				}
			}
			out[cur].fields = append(out[cur].fields, f)
			return
		}
		out = append(out, relEv{fields: []string{f}, locked: false, loops: append([]ast.Node(nil), loops...), pos: pos})
	}
	walk = func(n ast.Node) {
		if n == nil {
			return
		}
		switch v := n.(type) {
		case *ast.FuncLit:
			return // closures run later, not as part of the attempt
		case *ast.GoStmt:
			return
		case *ast.DeferStmt:
			if muCall(v.Call, x) == "Unlock" {
				deferred = true
			}
			return
		case *ast.ForStmt:
			loops = append(loops, v)
			walk(v.Init)
			if v.Cond != nil {
				walk(v.Cond)
			}
			walk(v.Body)
			walk(v.Post)
			loops = loops[:len(loops)-1]
			return
		case *ast.RangeStmt:
			loops = append(loops, v)
			walk(v.X)
			walk(v.Body)
			loops = loops[:len(loops)-1]
			return
		case *ast.IfStmt:
			if as, ok := v.Init.(*ast.AssignStmt); ok && len(as.Rhs) == 1 && c.stateCall(as.Rhs[0], x) != nil {
				propagate[v.Body] = true
			}
			walk(v.Init)
			walk(v.Cond)
			walk(v.Body)
			walk(v.Else)
			return
		case *ast.BlockStmt:
			if propagate[v] {
				return
			}
			for _, s := range v.List {
				walk(s)
			}
			return
		case *ast.ReturnStmt:
			for _, r := range v.Results {
				walk(r)
			}
			if lastResultKind(fn) != "" && failingReturn(v) {
				nfail++
				out = append(out, relEv{fail: true, label: fmt.Sprintf("%s#%d", fn.Name.Name, nfail), loops: append([]ast.Node(nil), loops...), pos: v.Pos()})
			}
			return
		case *ast.AssignStmt:
			for _, r := range v.Rhs {
				walk(r)
			}
			if len(v.Rhs) == 1 && len(v.Lhs) >= 1 {
				if callee := c.stateCall(v.Rhs[0], x); callee != nil && callee.Body != nil {
					if id, ok := v.Lhs[0].(*ast.Ident); ok {
						ast.Inspect(callee.Body, func(m ast.Node) bool {
							if _, ok := m.(*ast.FuncLit); ok {
								return false
							}
							if rs, ok := m.(*ast.ReturnStmt); ok && len(rs.Results) > 0 {
								if fl, ok := rs.Results[0].(*ast.FuncLit); ok {
									closures[id.Name] = closure{fl, recvName(callee)}
								}
							}
							return true
						})
					}
				}
			}
			for _, l := range v.Lhs {
				if f := c.lhsField(l, x); f != "" {
					addField(f, v.Pos())
				}
			}
			return
		case *ast.SelectorExpr:
			if id, ok := v.X.(*ast.Ident); ok && id.Name == x && c.fields[v.Sel.Name] && v.Sel.Name != "mu" && v.Sel.Name != "now" && !locked {
				out = append(out, relEv{touch: true, fields: []string{v.Sel.Name}, loops: append([]ast.Node(nil), loops...), pos: v.Pos()})
			}
			return
		case *ast.CallExpr:
			switch muCall(v, x) {
			case "Lock":
				locked = true
				out = append(out, relEv{locked: true, loops: append([]ast.Node(nil), loops...), pos: v.Pos()})
				cur = len(out) - 1
				return
			case "Unlock":
				locked = false
				cur = -1
				return
			case "RLock", "RUnlock":
				return
			}
			for _, a := range v.Args {
				walk(a)
			}
			if id, ok := v.Fun.(*ast.Ident); ok {
				if cl, ok := closures[id.Name]; ok {
					// the closure runs here: its assignments to the state belong to the current section
					ast.Inspect(cl.lit.Body, func(m ast.Node) bool {
						if as, ok := m.(*ast.AssignStmt); ok {
							for _, l := range as.Lhs {
								if f := c.lhsField(l, cl.x); f != "" {
									addField(f, v.Pos())
								}
							}
						}
						return true
					})
					return
				}
			}
			if callee := c.stateCall(v, x); callee != nil {
				sub := c.events(callee, recvName(callee), depth+1)
				if locked && cur >= 0 {
					for _, e := range sub {
						if !e.fail && !e.touch {
							for _, f := range e.fields {
								addField(f, v.Pos())
							}
						}
					}
				} else {
					for _, e := range sub {
						e.loops = append(append([]ast.Node(nil), loops...), e.loops...)
						out = append(out, e)
					}
				}
				return
			}
			walk(v.Fun)
			return
		}
		// generic descent in source order
		ast.Inspect(n, func(m ast.Node) bool {
			if m == n {
				return true
			}
			if m == nil {
				return false
			}
			walk(m)
			return false
		})
	}
	walk(fn.Body)
	_ = deferred
	// a give-up point that shares a loop with a write can also run after it
	var post []relEv
	for i, e := range out {
		post = append(post, e)
		if e.fail || e.touch {
			continue
		}
		for j := 0; j < i; j++ {
			if !out[j].fail {
				continue
			}
			shared := false
			for _, a := range out[j].loops {
				for _, b := range e.loops {
					if a == b {
						shared = true
					}
				}
			}
			if shared {
				d := out[j]
				d.label += "+loop"
				post = append(post, d)
			}
		}
	}
	return post
}

// fields of x read anywhere in fn (selector x.f with f a runtimeState field), callees on x inlined one level deep
func (c *relCtx) reads(fn *ast.FuncDecl, depth int) []string {
	seen := map[string]bool{}
	x := recvName(fn)
	ast.Inspect(fn.Body, func(n ast.Node) bool {
		switch v := n.(type) {
		case *ast.SelectorExpr:
			if id, ok := v.X.(*ast.Ident); ok && id.Name == x && c.fields[v.Sel.Name] && v.Sel.Name != "mu" {
				seen[v.Sel.Name] = true
			}
		case *ast.CallExpr:
			if callee := c.stateCall(v, x); callee != nil && depth < 3 {
				for _, f := range c.reads(callee, depth+1) {
					seen[f] = true
				}
			}
		}
		return true
	})
	var out []string
	for f := range seen {
		out = append(out, f)
	}
	sort.Strings(out)
	return out
}

func takesRLock(fn *ast.FuncDecl) bool {
	x := recvName(fn)
	found := false
	ast.Inspect(fn.Body, func(n ast.Node) bool {
		if e, ok := n.(ast.Expr); ok && muCall(e, x) == "RLock" {
			found = true
		}
		return true
	})
	return found
}

func genReload(repo, out string) {
	fset, f := parseFile(filepath.Join(repo, "internal/app/run.go"))
	c := &relCtx{methods: map[string]*ast.FuncDecl{}, fields: map[string]bool{}, fset: fset}
	var fieldOrder []string
	for _, d := range f.Decls {
		switch v := d.(type) {
		case *ast.FuncDecl:
			if isRuntimeStateMethod(v) {
				c.methods[v.Name.Name] = v
			}
		case *ast.GenDecl:
			for _, sp := range v.Specs {
				ts, ok := sp.(*ast.TypeSpec)
				if !ok || ts.Name.Name != "runtimeState" {
					continue
				}
				st, ok := ts.Type.(*ast.StructType)
				if !ok {
					continue
				}
				for _, fl := range st.Fields.List {
					for _, n := range fl.Names {
						c.fields[n.Name] = true
						fieldOrder = append(fieldOrder, n.Name)
					}
				}
			}
		}
	}
	rc := findFunc(f, "reloadConfig")
	stateVar := "state"
	if rc != nil {
		for _, p := range rc.Type.Params.List {
			if st, ok := p.Type.(*ast.StarExpr); ok {
				if id, ok := st.X.(*ast.Ident); ok && id.Name == "runtimeState" && len(p.Names) > 0 {
					stateVar = p.Names[0].Name
				}
			}
		}
	}
	evs := c.events(rc, stateVar, 0)

	var b strings.Builder
	b.WriteString("import HkModel.Model.Reload\n/- GENERATED by /verif/extract from internal/app/run.go and internal/ingress/http.go — do not edit. -/\nnamespace Hk.Gen\nopen Hk.Reload\n\n")
	b.WriteString("/-- reloadConfig in program order: give-up points and write-lock sections (callee methods inlined) -/\ndef reloadEvents : List Ev := [\n")
	var rows []string
	for _, e := range evs {
		switch {
		case e.touch:
			rows = append(rows, "  .touchUnlocked "+leanList(e.fields))
		case e.fail:
			rows = append(rows, "  .mayFail "+leanStr(e.label))
		case e.locked:
			rows = append(rows, "  .write "+leanList(e.fields))
		default:
			rows = append(rows, "  .writeUnlocked "+leanList(e.fields))
		}
	}
	b.WriteString(strings.Join(rows, ",\n"))
	b.WriteString("]\n\n/-- fields of runtimeState -/\ndef runtimeFields : List String := " + leanList(fieldOrder) + "\n\n")

	// accessors
	var names []string
	for n := range c.methods {
		names = append(names, n)
	}
	sort.Strings(names)
	b.WriteString("/-- accessor methods (take the read lock) with the runtime fields they read -/\ndef accessorReads : List (String × List String) := [\n")
	rows = nil
	for _, n := range names {
		if takesRLock(c.methods[n]) {
			rows = append(rows, fmt.Sprintf("  (%s, %s)", leanStr(n), leanList(c.reads(c.methods[n], 0))))
		}
	}
	b.WriteString(strings.Join(rows, ",\n"))
	b.WriteString("]\n\n")

	// wiring: <var>.<Field> = state.<method>
	wiring := map[string]string{}
	ast.Inspect(f, func(n ast.Node) bool {
		as, ok := n.(*ast.AssignStmt)
		if !ok || len(as.Lhs) != 1 || len(as.Rhs) != 1 {
			return true
		}
		l, ok1 := as.Lhs[0].(*ast.SelectorExpr)
		r, ok2 := as.Rhs[0].(*ast.SelectorExpr)
		if !ok1 || !ok2 {
			return true
		}
		li, ok1 := l.X.(*ast.Ident)
		ri, ok2 := r.X.(*ast.Ident)
		if ok1 && ok2 && li.Name == "ing" && ri.Name == "state" {
			wiring[l.Sel.Name] = r.Sel.Name
		}
		return true
	})
	// ingress.Server.ServeHTTP: calls of function-typed fields, in program order
	_, hf := parseFile(filepath.Join(repo, "internal/ingress/http.go"))
	var calls []string
	for _, fnName := range []string{"ServeHTTP"} {
		fd := findFunc(hf, fnName)
		if fd == nil {
			continue
		}
		x := recvName(fd)
		var visit func(fd *ast.FuncDecl, depth int)
		visit = func(fd *ast.FuncDecl, depth int) {
			ast.Inspect(fd.Body, func(n ast.Node) bool {
				call, ok := n.(*ast.CallExpr)
				if !ok {
					return true
				}
				sel, ok := call.Fun.(*ast.SelectorExpr)
				if !ok {
					return true
				}
				id, ok := sel.X.(*ast.Ident)
				if !ok || id.Name != recvName(fd) {
					return true
				}
				if m, ok := wiring[sel.Sel.Name]; ok {
					if len(calls) == 0 || calls[len(calls)-1] != m {
						calls = append(calls, m)
					}
					return true
				}
				// helper method on the server (resolveRoute): inline
				if depth < 2 {
					for _, d := range hf.Decls {
						if g, ok := d.(*ast.FuncDecl); ok && g.Recv != nil && g.Name.Name == sel.Sel.Name && g.Body != nil {
							visit(g, depth+1)
						}
					}
				}
				return true
			})
		}
		_ = x
		visit(fd, 0)
	}
	// writeFileAtomic (both copies): the file-system calls of the main flow in program order (deferred clean-up excluded)
	for _, wf := range []struct{ name, file string }{{"wfaStepsApp", "internal/app/run.go"}, {"wfaStepsMcp", "internal/mcp/server.go"}} {
		_, ff := parseFile(filepath.Join(repo, wf.file))
		fd := findFunc(ff, "writeFileAtomic")
		var steps []string
		if fd != nil && fd.Body != nil {
			var visit func(n ast.Node) bool
			visit = func(n ast.Node) bool {
				switch v := n.(type) {
				case *ast.FuncLit, *ast.DeferStmt:
					return false
				case *ast.CallExpr:
					if sel, ok := v.Fun.(*ast.SelectorExpr); ok {
						if id, ok := sel.X.(*ast.Ident); ok && (id.Name == "os" || id.Name == "tmp" || id.Name == "ioutil") {
							steps = append(steps, sel.Sel.Name)
						}
					} else if id, ok := v.Fun.(*ast.Ident); ok && id.Name == "syncDir" {
						steps = append(steps, "syncDir")
					}
				}
				return true
			}
			ast.Inspect(fd.Body, visit)
		}
		fmt.Fprintf(&b, "/-- %s writeFileAtomic: calls on os / the temp file in program order -/\ndef %s : List String := %s\n\n", wf.file, wf.name, leanList(steps))
	}
	b.WriteString("/-- runtime accessors one ingress request calls, in program order (each takes and releases the read lock on its own) -/\ndef ingressRequestCalls : List String := " + leanList(calls) + "\n\nend Hk.Gen\n")
	must(os.WriteFile(filepath.Join(out, "ReloadSteps.lean"), []byte(b.String()), 0o644))
}
