// Facts about the trigger-maintained depth counters of the SQLite store, regenerated on every run: the CREATE TRIGGER
// statements on queue_items (event, OF-columns, and per counter column the signed CASE terms over NEW.state / OLD.state), the
// statement that initialises the counters, and how activeDepthCount / activeDepthCountTx read them. `Props/Counters.lean`
// proves over these tables that the counters equal the number of rows in each state after every sequence of row events,
// so that the admission test of C12 (queued + leased < max_depth) counts what the property says it counts.
package main

import (
	"fmt"
	"go/ast"
	"go/token"
	"os"
	"path/filepath"
	"regexp"
	"sort"
	"strconv"
	"strings"
)

type trigTerm struct {
	sign  int
	isNew bool
	state string
}

type trigger struct {
	name, event, table string
	ofCols             []string
	target             string // table the body updates
	sets               []struct {
		col   string
		terms []trigTerm
	}
}

var (
	reTrigger = regexp.MustCompile(`(?is)create\s+trigger\s+(?:if\s+not\s+exists\s+)?(\w+)\s+(before|after|instead\s+of)\s+(insert|delete|update(?:\s+of\s+([\w\s,]+?))?)\s+on\s+(\w+)\s+(for\s+each\s+row\s+)?(when\b.*?)?begin\s+(.*?)\bend\s*;`)
	reTrigBody = regexp.MustCompile(`(?is)^update\s+(\w+)\s+set\s+(.*?)\s+where\s+id\s*=\s*1\s*;$`)
	reTerm     = regexp.MustCompile(`(?is)^([+-])\s*case\s+when\s+(new|old)\.state\s*=\s*'(\w+)'\s+then\s+1\s+else\s+0\s+end\s*`)
	reInitSet  = regexp.MustCompile(`(?is)^(\w+)\s*=\s*coalesce\(\(select\s+count\(\*\)\s+from\s+queue_items\s+where\s+state\s*=\s*'(\w+)'\)\s*,\s*0\)$`)
)

// splitTop splits at commas that are not inside parentheses
func splitTop(s string) []string {
	var out []string
	depth, start := 0, 0
	for i, r := range s {
		switch r {
		case '(':
			depth++
		case ')':
			depth--
		case ',':
			if depth == 0 {
				out = append(out, strings.TrimSpace(s[start:i]))
				start = i + 1
			}
		}
	}
	return append(out, strings.TrimSpace(s[start:]))
}

func genTriggers(repo, out string) {
	path := filepath.Join(repo, "internal/queue/sqlite.go")
	_, f := parseFile(path)
	// every string literal of the file (schema constants and anything executed later)
	var texts []string
	ast.Inspect(f, func(n ast.Node) bool {
		if bl, ok := n.(*ast.BasicLit); ok && bl.Kind == token.STRING {
			if s, err := strconv.Unquote(bl.Value); err == nil {
				texts = append(texts, s)
			}
		}
		return true
	})
	var trigs []trigger
	var inits [][2]string
	counterTable := ""
	for _, t := range texts {
		low := strings.ToLower(t)
		if strings.Contains(low, "drop trigger") || strings.Contains(low, "recursive_triggers") {
			check(fmt.Errorf("a statement drops triggers or changes trigger recursion: not a shape this extractor reads"))
		}
		rest := t
		for _, m := range reTrigger.FindAllStringSubmatch(t, -1) {
			rest = strings.Replace(rest, m[0], "", 1)
			tr := trigger{name: m[1], event: strings.ToLower(strings.Fields(m[3])[0]), table: strings.ToLower(m[5])}
			if strings.ToLower(m[2]) != "after" {
				check(fmt.Errorf("trigger %s is not an AFTER trigger", tr.name))
			}
			if strings.TrimSpace(m[7]) != "" {
				check(fmt.Errorf("trigger %s has a WHEN clause", tr.name))
			}
			if m[4] != "" {
				for _, c := range strings.Split(m[4], ",") {
					tr.ofCols = append(tr.ofCols, strings.ToLower(strings.TrimSpace(c)))
				}
			}
			body := strings.TrimSpace(m[8])
			bm := reTrigBody.FindStringSubmatch(body)
			if bm == nil {
				check(fmt.Errorf("trigger %s: body is not one `UPDATE <counters> SET … WHERE id = 1;`", tr.name))
			}
			tr.target = strings.ToLower(bm[1])
			if counterTable == "" {
				counterTable = tr.target
			}
			for _, as := range splitTop(bm[2]) {
				eq := strings.Index(as, "=")
				if eq < 0 {
					check(fmt.Errorf("trigger %s: assignment %q", tr.name, as))
				}
				col := strings.ToLower(strings.TrimSpace(as[:eq]))
				rhs := strings.TrimSpace(as[eq+1:])
				if !strings.HasPrefix(strings.ToLower(rhs), col) {
					check(fmt.Errorf("trigger %s: %s is not assigned from itself", tr.name, col))
				}
				rhs = strings.TrimSpace(rhs[len(col):])
				var terms []trigTerm
				for rhs != "" {
					tm := reTerm.FindStringSubmatch(rhs)
					if tm == nil {
						check(fmt.Errorf("trigger %s: column %s: cannot read %q", tr.name, col, rhs))
					}
					sign := 1
					if tm[1] == "-" {
						sign = -1
					}
					terms = append(terms, trigTerm{sign: sign, isNew: strings.EqualFold(tm[2], "new"), state: tm[3]})
					rhs = strings.TrimSpace(rhs[len(tm[0]):])
				}
				tr.sets = append(tr.sets, struct {
					col   string
					terms []trigTerm
				}{col, terms})
			}
			trigs = append(trigs, tr)
		}
		// the initialising statement: outside any trigger, `UPDATE <counters> SET col = COALESCE((SELECT COUNT(*) … state = 'x'), 0), …`
		if counterTable != "" {
			reInit := regexp.MustCompile(`(?is)update\s+` + counterTable + `\s+set\s+(.*?)\s+where\s+id\s*=\s*1\s*;`)
			for _, im := range reInit.FindAllStringSubmatch(rest, -1) {
				for _, as := range splitTop(im[1]) {
					sm := reInitSet.FindStringSubmatch(strings.TrimSpace(as))
					if sm == nil {
						check(fmt.Errorf("counter initialisation: cannot read %q", as))
					}
					inits = append(inits, [2]string{strings.ToLower(sm[1]), sm[2]})
				}
			}
		}
	}
	if len(trigs) == 0 || len(inits) == 0 {
		check(fmt.Errorf("no counter triggers / no counter initialisation found in sqlite.go"))
	}

	// readers: functions whose SQL reads the counter table
	consts := stateConsts(repo)
	type reader struct {
		fn         string
		cols, vars []string
		sum        []string
		fallback   []string
	}
	var readers []reader
	reSel := regexp.MustCompile(`(?is)^\s*select\s+([\w\s,]+?)\s+from\s+` + counterTable + `\s+where\s+id\s*=\s*1\s*;\s*$`)
	for _, d := range f.Decls {
		fd, ok := d.(*ast.FuncDecl)
		if !ok || fd.Body == nil {
			continue
		}
		var rd *reader
		ast.Inspect(fd.Body, func(n ast.Node) bool {
			ce, ok := n.(*ast.CallExpr)
			if !ok {
				return true
			}
			sel, ok := ce.Fun.(*ast.SelectorExpr)
			if !ok || sel.Sel.Name != "Scan" {
				return true
			}
			inner, ok := sel.X.(*ast.CallExpr)
			if !ok {
				return true
			}
			for ai, a := range inner.Args {
				s, ok := strLit(a)
				if !ok {
					continue
				}
				if m := reSel.FindStringSubmatch(s); m != nil {
					rd = &reader{fn: fd.Name.Name}
					for _, c := range strings.Split(m[1], ",") {
						rd.cols = append(rd.cols, strings.ToLower(strings.TrimSpace(c)))
					}
					for _, v := range ce.Args {
						if u, ok := v.(*ast.UnaryExpr); ok {
							if id, ok := u.X.(*ast.Ident); ok {
								rd.vars = append(rd.vars, id.Name)
							}
						}
					}
				} else if rd != nil && strings.Contains(strings.ToLower(s), "from queue_items") && strings.Contains(strings.ToLower(s), "count(*)") {
					// the fallback for databases without the counter table: COUNT(*) … WHERE state IN (?, ?) with these arguments
					for _, v := range inner.Args[ai+1:] {
						name := ""
						ast.Inspect(v, func(m ast.Node) bool {
							if id, ok := m.(*ast.Ident); ok && strings.HasPrefix(id.Name, "State") {
								name = id.Name
							}
							return true
						})
						if val, ok := consts[name]; ok {
							rd.fallback = append(rd.fallback, val)
						} else {
							rd.fallback = append(rd.fallback, "?"+name)
						}
					}
				}
			}
			return true
		})
		if rd == nil {
			continue
		}
		// the value returned when the read succeeded: first `return <sum of identifiers>, nil`
		ast.Inspect(fd.Body, func(n ast.Node) bool {
			rs, ok := n.(*ast.ReturnStmt)
			if !ok || len(rd.sum) > 0 || len(rs.Results) != 2 {
				return true
			}
			if id, ok := rs.Results[1].(*ast.Ident); !ok || id.Name != "nil" {
				return true
			}
			var ids []string
			okSum := true
			var walk func(e ast.Expr)
			walk = func(e ast.Expr) {
				switch x := e.(type) {
				case *ast.BinaryExpr:
					if x.Op != token.ADD {
						okSum = false
					}
					walk(x.X)
					walk(x.Y)
				case *ast.Ident:
					ids = append(ids, x.Name)
				case *ast.ParenExpr:
					walk(x.X)
				default:
					okSum = false
				}
			}
			walk(rs.Results[0])
			if okSum && len(ids) > 0 {
				isVar := false
				for _, v := range rd.vars {
					if v == ids[0] {
						isVar = true
					}
				}
				if isVar {
					rd.sum = ids
				}
			}
			return true
		})
		readers = append(readers, *rd)
	}
	if len(readers) == 0 {
		check(fmt.Errorf("no function reads %s", counterTable))
	}

	// INSERT statements on queue_items with their conflict clause: `OR REPLACE` deletes the conflicting row WITHOUT firing the
	// delete trigger (recursive_triggers is off), `OR IGNORE` / `ON CONFLICT` would make an insert event conditional
	type ins struct{ fn, clause string }
	var inserts []ins
	reIns := regexp.MustCompile(`(?is)\b(insert|replace)(\s+or\s+(\w+))?\s+into\s+queue_items\b`)
	for _, d := range f.Decls {
		fd, ok := d.(*ast.FuncDecl)
		if !ok || fd.Body == nil {
			continue
		}
		ast.Inspect(fd.Body, func(n ast.Node) bool {
			s, ok := n.(*ast.BasicLit)
			if !ok || s.Kind != token.STRING {
				return true
			}
			t, err := strconv.Unquote(s.Value)
			if err != nil {
				return true
			}
			for _, m := range reIns.FindAllStringSubmatch(t, -1) {
				clause := strings.ToLower(m[3])
				if strings.EqualFold(m[1], "replace") {
					clause = "replace"
				}
				if strings.Contains(strings.ToLower(t), "on conflict") {
					clause += " on conflict"
				}
				inserts = append(inserts, ins{fd.Name.Name, strings.TrimSpace(clause)})
			}
			return true
		})
	}

	var b strings.Builder
	b.WriteString("/- GENERATED by /verif/extract — the depth-counter triggers of the SQLite store, the statement that initialises the counters, and the functions that read them. do not edit. -/\nimport HkModel.Model.Counters\nnamespace Hk.Gen\nopen Hk.Counters\n\n")
	b.WriteString("def counterTable : String := " + leanStr(counterTable) + "\n\n")
	b.WriteString("def triggers : List Trigger := [\n")
	for i, tr := range trigs {
		var sets []string
		for _, s := range tr.sets {
			var ts []string
			for _, t := range s.terms {
				ts = append(ts, fmt.Sprintf("{ sign := %d, isNew := %v, st := %s }", t.sign, t.isNew, leanStr(t.state)))
			}
			sets = append(sets, fmt.Sprintf("(%s, [%s])", leanStr(s.col), strings.Join(ts, ", ")))
		}
		sep := ","
		if i == len(trigs)-1 {
			sep = ""
		}
		fmt.Fprintf(&b, "  { name := %s, event := %s, ofCols := %s, table := %s, target := %s,\n    sets := [%s] }%s\n",
			leanStr(tr.name), leanStr(tr.event), leanList(tr.ofCols), leanStr(tr.table), leanStr(tr.target), strings.Join(sets, ",\n             "), sep)
	}
	b.WriteString("]\n\n/-- (counter column, the state whose rows it is initialised to count) -/\ndef counterInit : List (String × String) := [")
	for i, in := range inits {
		if i > 0 {
			b.WriteString(", ")
		}
		fmt.Fprintf(&b, "(%s, %s)", leanStr(in[0]), leanStr(in[1]))
	}
	b.WriteString("]\n\n/-- (function, columns selected, variables scanned into, identifiers summed in the value returned, states of the fallback COUNT) -/\ndef counterReaders : List (String × List String × List String × List String × List String) := [\n")
	for i, r := range readers {
		sep := ","
		if i == len(readers)-1 {
			sep = ""
		}
		fmt.Fprintf(&b, "  (%s, %s, %s, %s, %s)%s\n", leanStr(r.fn), leanList(r.cols), leanList(r.vars), leanList(r.sum), leanList(r.fallback), sep)
	}
	b.WriteString("]\n\n/-- (function, conflict clause) of every INSERT on queue_items -/\ndef itemInserts : List (String × String) := [")
	for i, in := range inserts {
		if i > 0 {
			b.WriteString(", ")
		}
		fmt.Fprintf(&b, "(%s, %s)", leanStr(in.fn), leanStr(in.clause))
	}
	b.WriteString("]\n\nend Hk.Gen\n")
	must(os.WriteFile(filepath.Join(out, "Triggers.lean"), []byte(b.String()), 0o644))
}

// stateConsts reads `StateQueued State = "queued"` … from internal/queue/queue.go
func stateConsts(repo string) map[string]string {
	out := map[string]string{}
	_, f := parseFile(filepath.Join(repo, "internal/queue/queue.go"))
	for _, d := range f.Decls {
		gd, ok := d.(*ast.GenDecl)
		if !ok || gd.Tok != token.CONST {
			continue
		}
		for _, sp := range gd.Specs {
			vs := sp.(*ast.ValueSpec)
			for i, n := range vs.Names {
				if i < len(vs.Values) {
					if s, ok := strLit(vs.Values[i]); ok && strings.HasPrefix(n.Name, "State") {
						out[n.Name] = s
					}
				}
			}
		}
	}
	return out
}

// genMemOrder reads how internal/queue/memory.go treats the scan list `s.order`: every assignment to it (function, shape), every
// loop over it, the thresholds and the keep-condition of compactOrderLocked, and who calls compactOrderLocked how often.
func genMemOrder(repo, out string) {
	path := filepath.Join(repo, "internal/queue/memory.go")
	fset, f := parseFile(path)
	src, err := os.ReadFile(path)
	check(err)
	text := func(n ast.Node) string {
		return strings.Join(strings.Fields(string(src[fset.Position(n.Pos()).Offset:fset.Position(n.End()).Offset])), " ")
	}
	isOrder := func(e ast.Expr) bool {
		se, ok := e.(*ast.SelectorExpr)
		return ok && se.Sel.Name == "order"
	}
	var writes, scans, calls [][2]string
	minLen, factor, keeps := "", "", ""
	for _, d := range f.Decls {
		fd, ok := d.(*ast.FuncDecl)
		if !ok || fd.Body == nil {
			continue
		}
		ncalls := 0
		ast.Inspect(fd.Body, func(n ast.Node) bool {
			switch x := n.(type) {
			case *ast.AssignStmt:
				for i, l := range x.Lhs {
					if !isOrder(l) || i >= len(x.Rhs) {
						continue
					}
					shape := "other: " + text(x.Rhs[i])
					switch r := x.Rhs[i].(type) {
					case *ast.CallExpr:
						if id, ok := r.Fun.(*ast.Ident); ok && id.Name == "append" && len(r.Args) == 2 && isOrder(r.Args[0]) {
							if se, ok := r.Args[1].(*ast.SelectorExpr); ok && se.Sel.Name == "ID" {
								shape = "append-id"
							}
						}
					case *ast.SliceExpr:
						if isOrder(r.X) && r.Low == nil && r.High != nil && text(r.High) == "0" {
							shape = "reset"
						}
					case *ast.Ident:
						shape = "set:" + r.Name
					}
					writes = append(writes, [2]string{fd.Name.Name, shape})
				}
			case *ast.RangeStmt:
				if isOrder(x.X) {
					scans = append(scans, [2]string{fd.Name.Name, "range"})
				}
			case *ast.CallExpr:
				if se, ok := x.Fun.(*ast.SelectorExpr); ok && se.Sel.Name == "compactOrderLocked" {
					ncalls++
				}
				// the list handed to anything else (copy, sort, a helper) would be a use this extractor does not understand
				for _, a := range x.Args {
					if isOrder(a) {
						if id, ok := x.Fun.(*ast.Ident); !ok || (id.Name != "len" && id.Name != "append") {
							writes = append(writes, [2]string{fd.Name.Name, "passed-to: " + text(x.Fun)})
						}
					}
				}
			}
			return true
		})
		if ncalls > 0 {
			calls = append(calls, [2]string{fd.Name.Name, strconv.Itoa(ncalls)})
		}
		if fd.Name.Name == "compactOrderLocked" {
			ast.Inspect(fd.Body, func(n ast.Node) bool {
				switch x := n.(type) {
				case *ast.IfStmt:
					be, ok := x.Cond.(*ast.BinaryExpr)
					if !ok {
						return true
					}
					c := text(be)
					switch {
					case be.Op == token.LSS && strings.HasPrefix(c, "len(s.order) < "):
						minLen = strings.TrimPrefix(c, "len(s.order) < ")
					case be.Op == token.LEQ && strings.HasPrefix(c, "len(s.order) <= ") && strings.HasSuffix(c, "*len(s.items)"):
						factor = strings.TrimSuffix(strings.TrimPrefix(c, "len(s.order) <= "), "*len(s.items)")
					case be.Op == token.NEQ || be.Op == token.EQL:
						if _, isRange := x.Body.List[0].(*ast.AssignStmt); isRange && strings.Contains(c, "s.items[") {
							keeps = c
						}
					}
				}
				return true
			})
		}
	}
	if _, err := strconv.Atoi(minLen); err != nil {
		check(fmt.Errorf("compactOrderLocked: no `len(s.order) < N` threshold"))
	}
	if _, err := strconv.Atoi(factor); err != nil {
		check(fmt.Errorf("compactOrderLocked: no `len(s.order) <= K*len(s.items)` threshold"))
	}
	pairs := func(xs [][2]string) string {
		var o []string
		for _, x := range xs {
			o = append(o, fmt.Sprintf("(%s, %s)", leanStr(x[0]), leanStr(x[1])))
		}
		return "[" + strings.Join(o, ", ") + "]"
	}
	var b strings.Builder
	b.WriteString("/- GENERATED by /verif/extract — how internal/queue/memory.go treats its scan list `s.order`. do not edit. -/\nnamespace Hk.Gen.MemOrder\n\n")
	b.WriteString("/-- (function, shape) of every assignment to `s.order` and every use of it other than len / append / range -/\ndef orderWrites : List (String × String) := " + pairs(writes) + "\n\n")
	b.WriteString("/-- functions that loop over `s.order` -/\ndef orderScans : List (String × String) := " + pairs(scans) + "\n\n")
	b.WriteString("/-- (function, number of calls of compactOrderLocked) -/\ndef compactCalls : List (String × String) := " + pairs(calls) + "\n\n")
	b.WriteString("def compactMin : Nat := " + minLen + "\ndef compactFactor : Nat := " + factor + "\ndef compactKeeps : String := " + leanStr(keeps) + "\n\nend Hk.Gen.MemOrder\n")
	must(os.WriteFile(filepath.Join(out, "MemOrderFacts.lean"), []byte(b.String()), 0o644))
}

// genPruneRules reads the age-based retention DELETEs of maybePrune in both durable stores: (backend, state, time column,
// comparator). PostgreSQL cannot be executed in this sandbox; this is one of the places where its SQL text can at least be
// compared with SQLite's, which is executed against the model on every run.
func genPruneRules(repo, out string) {
	re := regexp.MustCompile(`(?is)^\s*delete\s+from\s+queue_items\s+where\s+state\s*=\s*(?:\?|\$1)\s+and\s+(\w+)\s*(<=|<|>=|>)\s*(?:\?|\$2)\s*;?\s*$`)
	consts := stateConsts(repo)
	var rows []string
	var js []string
	for _, be := range []struct{ name, file string }{{"sqlite", "internal/queue/sqlite.go"}, {"postgres", "internal/queue/postgres.go"}} {
		_, f := parseFile(filepath.Join(repo, be.file))
		fd := findFunc(f, "maybePrune")
		if fd == nil {
			check(fmt.Errorf("%s: no maybePrune", be.file))
		}
		n := 0
		ast.Inspect(fd.Body, func(nd ast.Node) bool {
			ce, ok := nd.(*ast.CallExpr)
			if !ok {
				return true
			}
			for i, a := range ce.Args {
				s, ok := strLit(a)
				if !ok {
					continue
				}
				m := re.FindStringSubmatch(s)
				if m == nil {
					continue
				}
				state := "?"
				if i+1 < len(ce.Args) {
					ast.Inspect(ce.Args[i+1], func(x ast.Node) bool {
						if id, ok := x.(*ast.Ident); ok {
							if v, ok := consts[id.Name]; ok {
								state = v
							}
						}
						return true
					})
				}
				rows = append(rows, fmt.Sprintf("  (%s, %s, %s, %s)", leanStr(be.name), leanStr(state), leanStr(strings.ToLower(m[1])), leanStr(m[2])))
				js = append(js, fmt.Sprintf(`{"backend":%q,"state":%q,"column":%q,"cmp":%q}`, be.name, state, strings.ToLower(m[1]), m[2]))
				n++
			}
			return true
		})
		if n == 0 {
			check(fmt.Errorf("%s: maybePrune has no age-based DELETE of the shape this extractor reads", be.file))
		}
	}
	var b strings.Builder
	b.WriteString("/- GENERATED by /verif/extract — the age-based retention DELETEs of maybePrune in the durable stores. do not edit. -/\nnamespace Hk.Gen\n\n")
	b.WriteString("/-- (backend, state, time column compared with now − max_age, comparator) -/\ndef pruneRules : List (String × String × String × String) := [\n")
	b.WriteString(strings.Join(rows, ",\n"))
	b.WriteString("]\n\nend Hk.Gen\n")
	must(os.WriteFile(filepath.Join(out, "PruneRules.lean"), []byte(b.String()), 0o644))
	must(os.WriteFile(filepath.Join(out, "prune_rules.json"), []byte("["+strings.Join(js, ",")+"]\n"), 0o644))
}

// genPgTransitions reads every statement of postgres.go that changes or removes rows of queue_items together with the state
// constants bound to its placeholders: UPDATE … SET state = $k … [state = $j | state = ANY($j)] gives (function, to-state,
// from-states), DELETE … state = $j gives (function, states). PostgreSQL's numbered placeholders make the binding exact.
func genPgTransitions(repo, out string) {
	consts := stateConsts(repo)
	_, f := parseFile(filepath.Join(repo, "internal/queue/postgres.go"))
	ws := regexp.MustCompile(`\s+`)
	reTo := regexp.MustCompile(`\bset state = \$(\d+)`)
	reFrom := regexp.MustCompile(`\bstate = (?:any\()?\$(\d+)\)?`)
	statesIn := func(e ast.Expr) []string {
		var o []string
		ast.Inspect(e, func(n ast.Node) bool {
			if id, ok := n.(*ast.Ident); ok {
				if v, ok := consts[id.Name]; ok {
					o = append(o, v)
				}
			}
			return true
		})
		return o
	}
	var ups, dels []string
	for _, d := range f.Decls {
		fd, ok := d.(*ast.FuncDecl)
		if !ok || fd.Body == nil {
			continue
		}
		ast.Inspect(fd.Body, func(n ast.Node) bool {
			ce, ok := n.(*ast.CallExpr)
			if !ok {
				return true
			}
			for i, a := range ce.Args {
				s, ok := strLit(a)
				if !ok {
					continue
				}
				t := strings.ToLower(ws.ReplaceAllString(strings.TrimSpace(s), " "))
				arg := func(k string) ([]string, bool) {
					n, _ := strconv.Atoi(k)
					if i+n >= len(ce.Args) {
						return nil, false
					}
					st := statesIn(ce.Args[i+n])
					return st, len(st) > 0
				}
				switch {
				case strings.HasPrefix(t, "update queue_items"):
					m := reTo.FindStringSubmatch(t)
					if m == nil {
						continue // does not assign state
					}
					to, ok := arg(m[1])
					if !ok || len(to) != 1 {
						check(fmt.Errorf("postgres.go %s: the state assigned by an UPDATE is not a State constant", fd.Name.Name))
					}
					var from []string
					where := t
					if j := strings.Index(t, " where "); j >= 0 {
						where = t[j:]
					}
					if fm := reFrom.FindStringSubmatch(where); fm != nil {
						from, ok = arg(fm[1])
						if !ok {
							check(fmt.Errorf("postgres.go %s: the state guard of an UPDATE is not bound to State constants", fd.Name.Name))
						}
					}
					ups = append(ups, fmt.Sprintf("  (%s, %s, %s)", leanStr(fd.Name.Name), leanStr(to[0]), leanList(from)))
				case strings.HasPrefix(t, "delete from queue_items"):
					var st []string
					if fm := reFrom.FindStringSubmatch(t); fm != nil {
						st, ok = arg(fm[1])
						if !ok {
							check(fmt.Errorf("postgres.go %s: the state guard of a DELETE is not bound to State constants", fd.Name.Name))
						}
					}
					dels = append(dels, fmt.Sprintf("  (%s, %s)", leanStr(fd.Name.Name), leanList(st)))
				}
			}
			return true
		})
	}
	if len(ups) == 0 || len(dels) == 0 {
		check(fmt.Errorf("postgres.go: no state-changing statements found"))
	}
	var b strings.Builder
	b.WriteString("/- GENERATED by /verif/extract — every statement of postgres.go that changes the state of, or removes, rows of queue_items, with the State constants bound to its placeholders. do not edit. -/\nnamespace Hk.Gen\n\n")
	b.WriteString("/-- (function, state assigned, states the WHERE clause admits; [] = no state guard in the statement) -/\ndef pgUpdates : List (String × String × List String) := [\n" + strings.Join(ups, ",\n") + "]\n\n")
	b.WriteString("/-- (function, states the WHERE clause admits; [] = no state guard) -/\ndef pgDeletes : List (String × List String) := [\n" + strings.Join(dels, ",\n") + "]\n\nend Hk.Gen\n")
	must(os.WriteFile(filepath.Join(out, "PgTransitions.lean"), []byte(b.String()), 0o644))
}

// genIngressGates reads the ingress handler as the sequence of its gates: in source order, every call of a per-route accessor
// or verifier, every status written and every return of ServeHTTP. `Props/IngressGates.lean` proves over that sequence that
// the gates come in the order of the model's `flow`, that nothing follows a refusal, and that the store is only reached
// after the last authenticator.
func genIngressGates(repo, out string) {
	path := filepath.Join(repo, "internal/ingress/http.go")
	fset, f := parseFile(path)
	var fd *ast.FuncDecl
	for _, d := range f.Decls {
		if x, ok := d.(*ast.FuncDecl); ok && x.Name.Name == "ServeHTTP" && x.Recv != nil {
			fd = x
		}
	}
	if fd == nil {
		check(fmt.Errorf("ingress/http.go: no ServeHTTP"))
	}
	type ev struct {
		pos  int
		text string
	}
	var evs []ev
	gate := map[string]bool{"resolveRoute": true, "AllowedMethodsFor": true, "AllowRequestFor": true, "AllowEnqueueFor": true, "BasicAuthFor": true,
		"LimitsFor": true, "ForwardAuthFor": true, "HMACAuthFor": true, "TargetsFor": true, "Verify": true, "Check": true, "Authorize": true,
		"ReadAll": true, "MaxBytesReader": true, "Enqueue": true, "EnqueueBatch": true}
	ast.Inspect(fd.Body, func(n ast.Node) bool {
		switch x := n.(type) {
		case *ast.FuncLit:
			return false // deferred / helper closures are not part of the straight-line handler
		case *ast.ReturnStmt:
			evs = append(evs, ev{fset.Position(x.Pos()).Offset, "return"})
		case *ast.CallExpr:
			se, ok := x.Fun.(*ast.SelectorExpr)
			if !ok {
				return true
			}
			switch {
			case se.Sel.Name == "WriteHeader" && len(x.Args) == 1:
				st := "var"
				if a, ok := x.Args[0].(*ast.SelectorExpr); ok {
					st = a.Sel.Name
				}
				evs = append(evs, ev{fset.Position(x.Pos()).Offset, "write:" + st})
			case gate[se.Sel.Name]:
				evs = append(evs, ev{fset.Position(x.Pos()).Offset, "call:" + se.Sel.Name})
			}
		}
		return true
	})
	sort.Slice(evs, func(i, j int) bool { return evs[i].pos < evs[j].pos })
	var xs []string
	for _, e := range evs {
		kind, name := e.text, ""
		if i := strings.Index(e.text, ":"); i >= 0 {
			kind, name = e.text[:i], e.text[i+1:]
		}
		xs = append(xs, fmt.Sprintf("(%s, %s)", leanStr(kind), leanStr(name)))
	}
	var b strings.Builder
	b.WriteString("/- GENERATED by /verif/extract — the ingress handler (internal/ingress/http.go ServeHTTP) as the source-order sequence of its gate calls, status writes and returns. do not edit. -/\nnamespace Hk.Gen\n\n")
	b.WriteString("/-- (kind, name): (\"call\", accessor or verifier), (\"write\", status constant or \"var\"), (\"return\", \"\") -/\ndef ingressEvents : List (String × String) := [" + strings.Join(xs, ", ") + "]\n\nend Hk.Gen\n")
	must(os.WriteFile(filepath.Join(out, "IngressGates.lean"), []byte(b.String()), 0o644))
}

// genApiGates reads, for the handlers that front the queue for API callers (pull HTTP, worker gRPC, admin HTTP), the
// source-order sequence of calls made through the handler's own receiver (`s.X(…)`, `s.Y.X(…)`) and of returns:
// `Props/ApiGates.lean` proves over it that the authorizer is the first thing each of them consults and that a return
// separates it from everything else.
func genApiGates(repo, out string) {
	type target struct{ file, fn string }
	targets := []target{
		{"internal/pullapi/http.go", "ServeHTTP"},
		{"internal/admin/http.go", "ServeHTTP"},
		{"internal/workerapi/server.go", "resolveAndAuthorize"},
		{"internal/workerapi/server.go", "Dequeue"},
		{"internal/workerapi/server.go", "Ack"},
		{"internal/workerapi/server.go", "Nack"},
		{"internal/workerapi/server.go", "Extend"},
		{"internal/admin/http.go", "handleMessagesPublish"},
		{"internal/admin/http.go", "handleApplicationEndpointPublish"},
	}
	var rows []string
	for _, t := range targets {
		fset, f := parseFile(filepath.Join(repo, t.file))
		var fd *ast.FuncDecl
		for _, d := range f.Decls {
			if x, ok := d.(*ast.FuncDecl); ok && x.Name.Name == t.fn && x.Recv != nil && len(x.Recv.List) == 1 {
				if recvFunc(x) == "Server."+t.fn || strings.HasSuffix(recvFunc(x), "."+t.fn) {
					fd = x
				}
			}
		}
		if fd == nil || fd.Body == nil || len(fd.Recv.List[0].Names) != 1 {
			check(fmt.Errorf("%s: no method %s", t.file, t.fn))
		}
		recv := fd.Recv.List[0].Names[0].Name
		type ev struct {
			pos        int
			kind, name string
		}
		var evs []ev
		rootIs := func(e ast.Expr) bool {
			for {
				switch x := e.(type) {
				case *ast.SelectorExpr:
					e = x.X
				case *ast.Ident:
					return x.Name == recv
				default:
					return false
				}
			}
		}
		ast.Inspect(fd.Body, func(n ast.Node) bool {
			switch x := n.(type) {
			case *ast.FuncLit:
				return false
			case *ast.ReturnStmt:
				evs = append(evs, ev{fset.Position(x.Pos()).Offset, "return", ""})
			case *ast.CallExpr:
				if se, ok := x.Fun.(*ast.SelectorExpr); ok && (rootIs(se.X) || se.Sel.Name == "Enqueue" || se.Sel.Name == "EnqueueBatch") {
					evs = append(evs, ev{fset.Position(x.Pos()).Offset, "call", se.Sel.Name})
				}
			}
			return true
		})
		sort.Slice(evs, func(i, j int) bool { return evs[i].pos < evs[j].pos })
		var xs []string
		for _, e := range evs {
			xs = append(xs, fmt.Sprintf("(%s, %s)", leanStr(e.kind), leanStr(e.name)))
		}
		rows = append(rows, fmt.Sprintf("  (%s, %s, [%s])", leanStr(t.file), leanStr(t.fn), strings.Join(xs, ", ")))
	}
	var b strings.Builder
	b.WriteString("/- GENERATED by /verif/extract — calls through the receiver and returns, in source order, of the handlers that front the queue for API callers. do not edit. -/\nnamespace Hk.Gen\n\n")
	b.WriteString("def apiHandlerEvents : List (String × String × List (String × String)) := [\n" + strings.Join(rows, ",\n") + "]\n\nend Hk.Gen\n")
	must(os.WriteFile(filepath.Join(out, "ApiGates.lean"), []byte(b.String()), 0o644))
}

// genClassify reads the decision tree of PushDispatcher.classifyDelivery in source order: the conditions of its if
// statements, the outcome written into the attempt record, the dead reasons assigned, every recordAttempt call and the kind
// of lease action each return hands back.
func genClassify(repo, out string) {
	path := filepath.Join(repo, "internal/dispatcher/push.go")
	fset, f := parseFile(path)
	src, err := os.ReadFile(path)
	check(err)
	text := func(n ast.Node) string {
		return strings.Join(strings.Fields(string(src[fset.Position(n.Pos()).Offset:fset.Position(n.End()).Offset])), " ")
	}
	var fd *ast.FuncDecl
	for _, d := range f.Decls {
		if x, ok := d.(*ast.FuncDecl); ok && x.Name.Name == "classifyDelivery" {
			fd = x
		}
	}
	if fd == nil {
		check(fmt.Errorf("push.go: no classifyDelivery"))
	}
	type ev struct {
		pos        int
		kind, name string
	}
	var evs []ev
	add := func(n ast.Node, k, v string) { evs = append(evs, ev{fset.Position(n.Pos()).Offset, k, v}) }
	ast.Inspect(fd.Body, func(n ast.Node) bool {
		switch x := n.(type) {
		case *ast.FuncLit:
			return false
		case *ast.IfStmt:
			add(x, "if", text(x.Cond))
			if x.Else == nil {
				evs = append(evs, ev{fset.Position(x.Body.End()).Offset, "endif", ""})
			} else {
				evs = append(evs, ev{fset.Position(x.Body.End()).Offset, "else", ""})
				evs = append(evs, ev{fset.Position(x.Else.End()).Offset, "endif", ""})
			}
		case *ast.AssignStmt:
			if len(x.Lhs) == 1 && len(x.Rhs) == 1 {
				l := text(x.Lhs[0])
				switch {
				case l == "attempt.Outcome":
					add(x, "outcome", text(x.Rhs[0]))
				case l == "attempt.DeadReason":
					add(x, "dead_reason", text(x.Rhs[0]))
				case l == "reason":
					add(x, "reason", text(x.Rhs[0]))
				case l == "shouldRetry" || l == "delay":
					add(x, l, text(x.Rhs[0]))
				}
			}
		case *ast.CallExpr:
			if se, ok := x.Fun.(*ast.SelectorExpr); ok && (se.Sel.Name == "recordAttempt" || se.Sel.Name == "Deliver") {
				add(x, "call", se.Sel.Name)
			}
		case *ast.ReturnStmt:
			kind := "?"
			if len(x.Results) == 1 {
				if cl, ok := x.Results[0].(*ast.CompositeLit); ok {
					for _, el := range cl.Elts {
						if kv, ok := el.(*ast.KeyValueExpr); ok && text(kv.Key) == "kind" {
							kind = text(kv.Value)
						}
						if kv, ok := el.(*ast.KeyValueExpr); ok && (text(kv.Key) == "delay" || text(kv.Key) == "reason" || text(kv.Key) == "leaseID") {
							kind += " " + text(kv.Key) + "=" + text(kv.Value)
						}
					}
				}
			}
			add(x, "return", kind)
		}
		return true
	})
	sort.SliceStable(evs, func(i, j int) bool { return evs[i].pos < evs[j].pos })
	var xs []string
	for _, e := range evs {
		xs = append(xs, fmt.Sprintf("  (%s, %s)", leanStr(e.kind), leanStr(e.name)))
	}
	var b strings.Builder
	b.WriteString("/- GENERATED by /verif/extract — the decision tree of PushDispatcher.classifyDelivery (internal/dispatcher/push.go) in source order. do not edit. -/\nnamespace Hk.Gen\n\n")
	b.WriteString("def classifyEvents : List (String × String) := [\n" + strings.Join(xs, ",\n") + "]\n\nend Hk.Gen\n")
	must(os.WriteFile(filepath.Join(out, "ClassifyTree.lean"), []byte(b.String()), 0o644))
}


// genDeciders reads the two boolean deciders classifyDelivery relies on (isSuccess, shouldRetry) as if / endif / return
// programs with the source text of every condition and returned expression.
func genDeciders(repo, out string) {
	path := filepath.Join(repo, "internal/dispatcher/push.go")
	fset, f := parseFile(path)
	src, err := os.ReadFile(path)
	check(err)
	text := func(n ast.Node) string {
		return strings.Join(strings.Fields(string(src[fset.Position(n.Pos()).Offset:fset.Position(n.End()).Offset])), " ")
	}
	var b strings.Builder
	b.WriteString("/- GENERATED by /verif/extract — isSuccess and shouldRetry of internal/dispatcher/push.go as if / endif / return programs. do not edit. -/\nnamespace Hk.Gen\n\n")
	for _, name := range []string{"isSuccess", "shouldRetry"} {
		fd := findFunc(f, name)
		if fd == nil || fd.Body == nil {
			check(fmt.Errorf("push.go: no %s", name))
		}
		type ev struct {
			pos        int
			kind, name string
		}
		var evs []ev
		ast.Inspect(fd.Body, func(n ast.Node) bool {
			switch x := n.(type) {
			case *ast.FuncLit:
				return false
			case *ast.IfStmt:
				evs = append(evs, ev{fset.Position(x.Pos()).Offset, "if", text(x.Cond)})
				if x.Else == nil {
					evs = append(evs, ev{fset.Position(x.Body.End()).Offset, "endif", ""})
				} else {
					evs = append(evs, ev{fset.Position(x.Body.End()).Offset, "else", ""})
					evs = append(evs, ev{fset.Position(x.Else.End()).Offset, "endif", ""})
				}
			case *ast.AssignStmt:
				evs = append(evs, ev{fset.Position(x.Pos()).Offset, "assign", text(x)})
			case *ast.ReturnStmt:
				r := ""
				if len(x.Results) == 1 {
					r = text(x.Results[0])
				}
				evs = append(evs, ev{fset.Position(x.Pos()).Offset, "return", r})
			case *ast.ForStmt, *ast.RangeStmt, *ast.SwitchStmt, *ast.GoStmt, *ast.DeferStmt:
				check(fmt.Errorf("push.go %s: a statement this translation does not read", name))
			}
			return true
		})
		sort.SliceStable(evs, func(i, j int) bool { return evs[i].pos < evs[j].pos })
		var xs []string
		for _, e := range evs {
			xs = append(xs, fmt.Sprintf("  (%s, %s)", leanStr(e.kind), leanStr(e.name)))
		}
		b.WriteString("def " + name + "Program : List (String × String) := [\n" + strings.Join(xs, ",\n") + "]\n\n")
	}
	b.WriteString("end Hk.Gen\n")
	must(os.WriteFile(filepath.Join(out, "Deciders.lean"), []byte(b.String()), 0o644))
}

// genEgressGates reads the delivery path of the push dispatcher as source-order sequences: HTTPDeliverer.Deliver and
// checkRedirect (calls of the policy check, request construction, signing and the HTTP client; returns) and
// checkEgressPolicyURL (the conditions of its if / switch statements by source text; returns).
func genEgressGates(repo, out string) {
	names := map[string]bool{"checkEgressPolicy": true, "checkEgressPolicyURL": true, "NewRequestWithContext": true, "NewRequest": true,
		"applyDeliverySigning": true, "Do": true, "resolveHostIPs": true, "isAllowedIP": true, "matchEgressRules": true}
	type target struct{ file, fn string }
	var rows []string
	for _, t := range []target{{"internal/dispatcher/http_deliverer.go", "Deliver"}, {"internal/dispatcher/http_deliverer.go", "checkRedirect"},
		{"internal/dispatcher/egress.go", "checkEgressPolicyURL"}} {
		path := filepath.Join(repo, t.file)
		fset, f := parseFile(path)
		src, err := os.ReadFile(path)
		check(err)
		text := func(n ast.Node) string {
			return strings.Join(strings.Fields(string(src[fset.Position(n.Pos()).Offset:fset.Position(n.End()).Offset])), " ")
		}
		fd := findFunc(f, t.fn)
		if fd == nil || fd.Body == nil {
			check(fmt.Errorf("%s: no %s", t.file, t.fn))
		}
		type ev struct {
			pos        int
			kind, name string
		}
		var evs []ev
		ast.Inspect(fd.Body, func(n ast.Node) bool {
			switch x := n.(type) {
			case *ast.FuncLit:
				return false
			case *ast.ReturnStmt:
				evs = append(evs, ev{fset.Position(x.Pos()).Offset, "return", ""})
			case *ast.IfStmt:
				c := text(x.Cond)
				if strings.Contains(c, "policy.") || strings.Contains(c, "isAllowedIP") || strings.Contains(c, "len(via)") {
					evs = append(evs, ev{fset.Position(x.Cond.Pos()).Offset, "if", c})
				}
			case *ast.CallExpr:
				name := ""
				switch fn := x.Fun.(type) {
				case *ast.Ident:
					name = fn.Name
				case *ast.SelectorExpr:
					name = fn.Sel.Name
				}
				if names[name] {
					evs = append(evs, ev{fset.Position(x.Pos()).Offset - 1, "call", name}) // a call inside a condition comes before the condition's own event
				}
			}
			return true
		})
		sort.SliceStable(evs, func(i, j int) bool { return evs[i].pos < evs[j].pos })
		var xs []string
		for _, e := range evs {
			xs = append(xs, fmt.Sprintf("(%s, %s)", leanStr(e.kind), leanStr(e.name)))
		}
		rows = append(rows, fmt.Sprintf("  (%s, [%s])", leanStr(t.fn), strings.Join(xs, ", ")))
	}
	var b strings.Builder
	b.WriteString("/- GENERATED by /verif/extract — the push delivery path (HTTPDeliverer.Deliver, checkRedirect, checkEgressPolicyURL) as source-order event sequences. do not edit. -/\nnamespace Hk.Gen\n\n")
	b.WriteString("def egressEvents : List (String × List (String × String)) := [\n" + strings.Join(rows, ",\n") + "]\n\nend Hk.Gen\n")
	must(os.WriteFile(filepath.Join(out, "EgressGates.lean"), []byte(b.String()), 0o644))
}
