module hkextract

go 1.23
