// Coverage facts about `config fmt`, regenerated from internal/config on every run (go/types over the package's own
// sources): which fields of the syntax-tree structs parser.go writes, which of them format.go reads, which directive
// keywords the parser's switch statements accept and which words the formatter's string literals can print, and the
// (value, quoted-flag) field pairs the formatter hands to its quoting helpers.
package main

import (
	"fmt"
	"go/ast"
	"go/importer"
	"go/parser"
	"go/token"
	"go/types"
	"os"
	"path/filepath"
	"regexp"
	"sort"
	"strconv"
	"strings"
)

func sortedKeys(m map[string]bool) []string {
	var out []string
	for k := range m {
		out = append(out, k)
	}
	sort.Strings(out)
	return out
}

func genFmtCover(repo, out string) {
	dir := filepath.Join(repo, "internal", "config")
	fset := token.NewFileSet()
	ents, err := os.ReadDir(dir)
	check(err)
	var files []*ast.File
	names := map[*ast.File]string{}
	for _, e := range ents {
		n := e.Name()
		if !strings.HasSuffix(n, ".go") || strings.HasSuffix(n, "_test.go") || strings.HasSuffix(n, "_verif.go") {
			continue
		}
		f, err := parser.ParseFile(fset, filepath.Join(dir, n), nil, 0)
		check(err)
		files = append(files, f)
		names[f] = n
	}
	info := &types.Info{Selections: map[*ast.SelectorExpr]*types.Selection{}, Types: map[ast.Expr]types.TypeAndValue{}, Uses: map[*ast.Ident]types.Object{}, Defs: map[*ast.Ident]types.Object{}}
	typeErrs := 0
	conf := types.Config{Importer: importer.ForCompiler(fset, "source", nil), Error: func(err error) {
		// imports of sibling packages cannot be resolved from here (compile.go only); anything else in the three files
		// the facts are read from would make them unreliable
		if te, ok := err.(types.Error); ok {
			fn := filepath.Base(te.Fset.Position(te.Pos).Filename)
			if fn == "parser.go" || fn == "format.go" || fn == "config.go" || fn == "lexer.go" {
				typeErrs++
				fmt.Fprintln(os.Stderr, "hkextract: type error:", err)
			}
		}
	}}
	_, _ = conf.Check("config", fset, files, info)
	if typeErrs > 0 {
		check(fmt.Errorf("internal/config does not type-check in parser.go/format.go/config.go/lexer.go (%d errors)", typeErrs))
	}
	owner := func(sel *types.Selection) string {
		t := sel.Recv()
		if p, ok := t.(*types.Pointer); ok {
			t = p.Elem()
		}
		if n, ok := t.(*types.Named); ok {
			return n.Obj().Name()
		}
		return "?"
	}
	// the syntax-tree types: struct types declared in config.go
	astTypes := map[string]bool{}
	for _, f := range files {
		if names[f] != "config.go" {
			continue
		}
		for _, d := range f.Decls {
			gd, ok := d.(*ast.GenDecl)
			if !ok {
				continue
			}
			for _, sp := range gd.Specs {
				if ts, ok := sp.(*ast.TypeSpec); ok {
					if _, ok := ts.Type.(*ast.StructType); ok {
						astTypes[ts.Name.Name] = true
					}
				}
			}
		}
	}
	writes := map[string]map[string]bool{"parser.go": {}, "format.go": {}}
	reads := map[string]map[string]bool{"parser.go": {}, "format.go": {}}
	pairs := map[string]bool{}
	badPairs := map[string]bool{}
	// local variables that stand for a field: `for _, v := range x.F`, `q = x.FQuoted[i]`, `v := x.F`
	objKey := map[types.Object]string{}
	objOf := func(id *ast.Ident) types.Object {
		if o := info.Defs[id]; o != nil {
			return o
		}
		return info.Uses[id]
	}
	var fieldKey func(e ast.Expr) string
	fieldKey = func(e ast.Expr) string {
		// x.F, x.F[i], quotedAt(x.F, i), or a local standing for one of these -> "T.F"
		switch v := e.(type) {
		case *ast.Ident:
			if o := objOf(v); o != nil {
				return objKey[o]
			}
		case *ast.ParenExpr:
			return fieldKey(v.X)
		case *ast.SelectorExpr:
			if sel := info.Selections[v]; sel != nil && sel.Kind() == types.FieldVal {
				return owner(sel) + "." + v.Sel.Name
			}
		case *ast.IndexExpr:
			if s, ok := v.X.(*ast.SelectorExpr); ok {
				if sel := info.Selections[s]; sel != nil && sel.Kind() == types.FieldVal {
					return owner(sel) + "." + s.Sel.Name
				}
			}
		case *ast.CallExpr:
			if id, ok := v.Fun.(*ast.Ident); ok && id.Name == "quotedAt" && len(v.Args) == 2 {
				if s, ok := v.Args[0].(*ast.SelectorExpr); ok {
					if sel := info.Selections[s]; sel != nil && sel.Kind() == types.FieldVal {
						return owner(sel) + "." + s.Sel.Name
					}
				}
			}
		}
		return ""
	}
	for _, f := range files {
		fn := names[f]
		if fn != "parser.go" && fn != "format.go" {
			continue
		}
		lhs := map[*ast.SelectorExpr]bool{}
		bind := func(id *ast.Ident, k string) {
			if o := objOf(id); o != nil && id.Name != "_" && k != "" {
				if old, ok := objKey[o]; ok && old != k {
					k = "?ambiguous"
				}
				objKey[o] = k
			}
		}
		ast.Inspect(f, func(n ast.Node) bool {
			switch x := n.(type) {
			case *ast.RangeStmt:
				if id, ok := x.Value.(*ast.Ident); ok {
					bind(id, fieldKey(x.X))
				}
			case *ast.AssignStmt:
				if len(x.Lhs) == len(x.Rhs) {
					for i, l := range x.Lhs {
						if id, ok := l.(*ast.Ident); ok {
							bind(id, fieldKey(x.Rhs[i]))
						}
					}
				}
			}
			return true
		})
		ast.Inspect(f, func(n ast.Node) bool {
			switch x := n.(type) {
			case *ast.AssignStmt:
				for _, l := range x.Lhs {
					if s, ok := l.(*ast.SelectorExpr); ok {
						lhs[s] = true
					}
				}
			case *ast.CompositeLit:
				if tv, ok := info.Types[x]; ok {
					if nt, ok := tv.Type.(*types.Named); ok && astTypes[nt.Obj().Name()] {
						for _, el := range x.Elts {
							if kv, ok := el.(*ast.KeyValueExpr); ok {
								if id, ok := kv.Key.(*ast.Ident); ok {
									writes[fn][nt.Obj().Name()+"."+id.Name] = true
								}
							}
						}
					}
				}
			case *ast.CallExpr:
				// formatValue(v, q) / formatRoutePath(v, q): the flag handed over must be the value's own
				if id, ok := x.Fun.(*ast.Ident); ok && fn == "format.go" && (id.Name == "formatValue" || id.Name == "formatRoutePath") && len(x.Args) == 2 {
					v, q := fieldKey(x.Args[0]), fieldKey(x.Args[1])
					if v != "" || q != "" {
						p := v + "|" + q
						pairs[p] = true
						vs, qs := strings.TrimSuffix(v, "s"), strings.TrimSuffix(q, "s")
						if !(q == v+"Quoted" || qs == vs+"Quoted" || q == vs+"Quoted" || qs == v+"Quoted") {
							badPairs[p] = true
						}
					}
				}
			}
			return true
		})
		ast.Inspect(f, func(n ast.Node) bool {
			s, ok := n.(*ast.SelectorExpr)
			if !ok {
				return true
			}
			sel := info.Selections[s]
			if sel == nil || sel.Kind() != types.FieldVal || !astTypes[owner(sel)] {
				return true
			}
			key := owner(sel) + "." + s.Sel.Name
			if lhs[s] {
				writes[fn][key] = true
			} else {
				reads[fn][key] = true
			}
			return true
		})
	}
	// keywords: string literals of the parser's case clauses; words: identifiers inside the formatter's string literals
	kws, words := map[string]bool{}, map[string]bool{}
	verb := regexp.MustCompile(`%[-+# 0-9.]*[a-zA-Z]`)
	word := regexp.MustCompile(`[A-Za-z_@][A-Za-z0-9_.]*`)
	consts := map[string]bool{}
	for _, f := range files {
		switch names[f] {
		case "parser.go":
			ast.Inspect(f, func(n ast.Node) bool {
				if cc, ok := n.(*ast.CaseClause); ok {
					for _, e := range cc.List {
						if bl, ok := e.(*ast.BasicLit); ok && bl.Kind == token.STRING {
							if s, err := strconv.Unquote(bl.Value); err == nil {
								kws[s] = true
							}
						}
					}
				}
				return true
			})
		case "format.go":
			ast.Inspect(f, func(n ast.Node) bool {
				if bl, ok := n.(*ast.BasicLit); ok && bl.Kind == token.STRING {
					if s, err := strconv.Unquote(bl.Value); err == nil {
						for _, w := range word.FindAllString(verb.ReplaceAllString(s, " "), -1) {
							words[w] = true
						}
					}
				}
				return true
			})
		case "config.go":
			// typed string constants of the syntax tree (the channel names are stored as data and printed from it)
			for _, d := range f.Decls {
				if gd, ok := d.(*ast.GenDecl); ok && gd.Tok == token.CONST {
					for _, sp := range gd.Specs {
						if vs, ok := sp.(*ast.ValueSpec); ok {
							for _, v := range vs.Values {
								if bl, ok := v.(*ast.BasicLit); ok && bl.Kind == token.STRING {
									if s, err := strconv.Unquote(bl.Value); err == nil {
										consts[s] = true
									}
								}
							}
						}
					}
				}
			}
		}
	}
	var b strings.Builder
	b.WriteString("/- GENERATED by /verif/extract from internal/config/{config,parser,format}.go (go/types) — do not edit. -/\nnamespace Hk.Gen.Fmt\n\n")
	b.WriteString("/-- fields of the syntax-tree structs (declared in config.go) that parser.go assigns (`x.F = …`, `T{F: …}`) -/\n")
	fmt.Fprintf(&b, "def parserWrites : List String := %s\n\n", leanList(sortedKeys(writes["parser.go"])))
	b.WriteString("/-- fields of those structs that format.go reads -/\n")
	fmt.Fprintf(&b, "def formatterReads : List String := %s\n\n", leanList(sortedKeys(reads["format.go"])))
	b.WriteString("/-- fields of those structs that format.go assigns (a formatter that edits the tree it prints) -/\n")
	fmt.Fprintf(&b, "def formatterWrites : List String := %s\n\n", leanList(sortedKeys(writes["format.go"])))
	b.WriteString("/-- string literals of parser.go's case clauses (directive names, option words, boolean spellings) -/\n")
	fmt.Fprintf(&b, "def parserKeywords : List String := %s\n\n", leanList(sortedKeys(kws)))
	b.WriteString("/-- words inside format.go's string literals (format verbs removed) -/\n")
	fmt.Fprintf(&b, "def formatterWords : List String := %s\n\n", leanList(sortedKeys(words)))
	b.WriteString("/-- string constants declared in config.go (keywords kept as data in the tree) -/\n")
	fmt.Fprintf(&b, "def treeConstants : List String := %s\n\n", leanList(sortedKeys(consts)))
	b.WriteString("/-- `value|flag` field pairs handed to formatValue / formatRoutePath, and those whose flag is not the value's own `…Quoted` -/\n")
	fmt.Fprintf(&b, "def quotingPairs : List String := %s\n", leanList(sortedKeys(pairs)))
	fmt.Fprintf(&b, "def quotingPairsMismatched : List String := %s\n\n", leanList(sortedKeys(badPairs)))
	b.WriteString("end Hk.Gen.Fmt\n")
	check(os.WriteFile(filepath.Join(out, "FmtCover.lean"), []byte(b.String()), 0o644))
}
