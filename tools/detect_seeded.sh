#!/bin/bash
# Applies every /verif/seeded/<id>/patch.diff to /repo in turn, runs the quick check of its property (plus the extra
# properties named in seeded/<id>/also.txt), reverts, and writes seeded/<id>/detect.txt. usage: [IDS="id id …"] tools/detect_seeded.sh [prefix]
cd /verif
for d in /verif/seeded/*/; do
  id=$(basename $d)
  [ -n "$1" ] && [[ "$id" != $1* ]] && continue
  [ -n "$IDS" ] && [[ " $IDS " != *" $id "* ]] && continue
  prop=${id%%-*}
  props="$prop $(cat $d/also.txt 2>/dev/null)"
  out=$d/detect.txt
  echo "== $id @ repo $(git -C /repo log --format=%h -1), verif $(git -C /verif log --format=%h -1)" > $out
  if ! git -C /repo apply --check $d/patch.diff 2>>$out; then echo "PATCH DOES NOT APPLY" >> $out; echo "$id PATCH-DOES-NOT-APPLY"; continue; fi
  git -C /repo apply $d/patch.diff
  caught=no
  for p in $props; do
    r=$(/verif/check $p --tier quick 2>&1); rc=$?
    echo "-- ./check $p --tier quick -> exit $rc" >> $out
    echo "$r" | grep -E "^VIOLATION|^  " | cut -c1-300 | head -6 >> $out
    [ $rc -eq 1 ] && caught=yes
  done
  git -C /repo checkout -- . ; git -C /repo clean -qfd internal cmd 2>/dev/null
  found=$(grep -c "^VIOLATION" $out); nf=$(grep -c "no-failing-input-found" $out)
  echo "RESULT caught=$caught violations=$found of-which-no-input=$nf" >> $out
  echo "$id caught=$caught violations=$found no-input=$nf"
done
# leave nothing behind that was built or regenerated from a changed tree
/verif/check --setup >/dev/null 2>&1
