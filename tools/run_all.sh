#!/bin/bash
# usage: tools/run_all.sh [quick|thorough]  — every claimed check in sequence; prints one line per property
tier=${1:-quick}
for p in $(python3 -c "import json; print(' '.join(c['property_id'] for c in json.load(open('/verif/MANIFEST.json'))['checks']))"); do
  s=$(date +%s)
  out=$(/verif/check $p --tier $tier 2>&1); rc=$?
  echo "$p rc=$rc $(( $(date +%s)-s ))s $(echo "$out" | grep -c '^VIOLATION') violation(s) $(echo "$out" | grep -c '^KNOWN-FINDING') known"
  echo "$out" | grep '^VIOLATION' -A1 | cut -c1-300
done
