#!/bin/bash
# Confirms every /verif/seeded/<id> in a scratch worktree of /repo: patch applies, project builds, full suite passes with the
# patch, demo fails with the patch and passes without. Writes confirm.txt into each seeded dir.
export GOFLAGS=-mod=mod GOPROXY=off
WT=/tmp/wt-confirm
git -C /repo worktree remove --force $WT 2>/dev/null
git -C /repo worktree add -q --detach $WT HEAD || exit 1
cd $WT
for d in /verif/seeded/*/; do
  id=$(basename $d)
  [ -n "$1" ] && [[ "$id" != $1* ]] && continue
  [ "$ONLY_NEW" = 1 ] && [ -f $d/confirm.txt ] && continue
  git checkout -q -- . ; git clean -qfd
  out=$d/confirm.txt
  echo "== $id @ $(git -C /repo log --format=%h -1)" > $out
  if ! git apply --check $d/patch.diff 2>>$out; then echo "PATCH DOES NOT APPLY" >> $out; continue; fi
  # place the demo: package dir from README ("internal/<pkg>/")
  pkg=$(grep -o 'internal/[a-z/]*/[A-Za-z0-9_]*_test\.go' $d/README.md | head -1 | xargs -r dirname)/
  [ "$pkg" = "/" ] && pkg=$(grep -o 'go test[^`]*\./internal/[a-z/]*' $d/README.md | head -1 | grep -o 'internal/[a-z/]*')/
  [ "$pkg" = "/" ] && pkg=$(grep -o 'internal/[a-z/]*/' $d/README.md | head -1)
  demo=$(ls $d/*_test.go 2>/dev/null | head -1)
  [ -z "$pkg" ] && pkg=internal/queue/
  runre=$(grep -o '\-run [^ ]*' $d/README.md | head -1 | sed "s/-run //; s/'//g; s/\`//g")
  [ -z "$runre" ] && runre=Demo
  cp $demo $WT/${pkg}zz_seeded_demo_test.go
  go test -vet=off -count=1 -run "$runre" ./$pkg > /tmp/confirm_nopatch.txt 2>&1; r0=$?
  git apply $d/patch.diff
  go build ./... >> $out 2>&1 || { echo "BUILD FAILS WITH PATCH" >> $out; continue; }
  go test -vet=off -count=1 -run "$runre" ./$pkg > /tmp/confirm_patch.txt 2>&1; r1=$?
  rm -f $WT/${pkg}zz_seeded_demo_test.go
  go test -vet=off -count=1 ./... > /tmp/confirm_suite.txt 2>&1; r2=$?
  echo "demo without patch: exit $r0 (want 0); demo with patch: exit $r1 (want !=0); full suite with patch: exit $r2 (want 0)" >> $out
  if [ $r0 -eq 0 ] && [ $r1 -ne 0 ] && [ $r2 -eq 0 ]; then echo "CONFIRMED" >> $out; else echo "NOT CONFIRMED" >> $out; tail -5 /tmp/confirm_nopatch.txt >> $out; tail -5 /tmp/confirm_suite.txt | grep -v "^ok" >> $out; fi
done
cd /; git -C /repo worktree remove --force $WT
grep -l "^CONFIRMED" /verif/seeded/*/confirm.txt | wc -l; grep -L "^CONFIRMED" /verif/seeded/*/confirm.txt
