#!/bin/bash
# usage: tools/try_mutant.sh <patch.diff> <Cxx> [<Cyy> ...]   — applies a seeded change to /repo, runs the checks, reverts
patch=$1; shift
git -C /repo apply "$patch" || { echo "patch does not apply"; exit 3; }
for c in "$@"; do
  echo "== $c on $(basename $(dirname $patch))"
  /verif/check $c --tier ${TIER:-quick} 2>&1 | grep -E "^VIOLATION|^KNOWN|^  |INFRA" | cut -c1-400 | head -8
  echo "exit=${PIPESTATUS[0]}"
done
git -C /repo checkout -- . ; git -C /repo status --short | head -3
# leave nothing behind that was built or regenerated from the changed tree (harness binary, Generated/*.lean, hkdriver)
/verif/check --setup >/dev/null 2>&1
