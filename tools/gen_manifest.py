#!/usr/bin/env python3
"""Regenerates MANIFEST.json from the table below (keeps it schema-valid)."""
import json, os, subprocess
V = os.path.dirname(os.path.dirname(os.path.abspath(__file__)))
props = [json.loads(l) for l in open(os.path.join(V, "properties.jsonl"))]
ids = [p["id"] for p in props]

CLAIMED = {
 "C02": ("proof", "Lean: reachable-state invariant (ids distinct, lease consistency) and, for every record of every model run, C02.stepOK' (legal transition table per message, immutable identity fields, legal cause for every disappearance, error => no change beyond expired-lease release/prune, no duplicates); tie: mixed op-trace correspondence on memory and SQLite with full snapshots after every step", "§7 C02",
         "Lean proof over the queue model + differential correspondence (memory, SQLite)"),
 "C03": ("proof", "Lean: every record of every model run satisfies C03.stepOK (fresh lease, attempt+1, only ready/expired messages, nothing else leased) + lease budget theorem; tie: op-trace correspondence on memory and SQLite with kept lease ids and boundary clocks", "§7 C03",
         "Lean proof over the queue model + differential correspondence (memory, SQLite)"),
 "C04": ("proof", "Lean: every lease-operation record of every model run satisfies C04.stepOK' (stale/foreign/expired/unknown/blank lease: conflict and no change beyond expired-lease release; live lease: exact effect on exactly that message; batch = per-id rule, first occurrence decides); tie: lease-profile traces that keep and replay every lease id ever issued", "§7 C04",
         "Lean proof over the queue model + differential correspondence (memory, SQLite)"),
 "C05": ("proof", "Lean: dequeue count between min(batch, must-offer) and min(batch, may-offer), no starvation, nack visibility exact, restart preserves; tie: fine-clock traces incl. restart on SQLite", "§7 C05",
         "Lean proof over the queue model + differential correspondence (memory, SQLite)"),
 "C06": ("proof", "Lean: total classification table (classify_spec), bounded sends for every behaviour sequence, exact-arithmetic delay bounds, terminal reasons; the body of classifyDelivery TRANSLATED by go/ast into a straight-line program each run and proved equal to the model's classify for every input, with every attempt recorded (code_classify_is_model, code_records_every_attempt); tie: exhaustive status table + scripted cycles through the real classifyDelivery/handleDelivery, retryDelay float vs exact model", "§7 C06",
         "Lean proof of the decision logic + exhaustive/differential correspondence"),
 "C16": ("proof", "Lean: allowed => scheme/https/rebind(no listed address class, by range arithmetic)/deny/allow conditions; every redirect hop checked; denied sends nothing; tie: URL x resolver x policy differential through real checkEgressPolicy, address-class edges, redirect chains through the real HTTPDeliverer", "§7 C16",
         "Lean proof of the decision logic + differential correspondence"),
 "C07": ("proof", "Lean: decode(encode b) = b for every byte list (chunk induction, omega), stored headers stem only from non-sensitive received names (canonical name, values comma-joined) and never exceed max_headers; tie: byte-level differential through the real ingress handler / Admin publish -> memory and SQLite (with restart) -> real pull HTTP (base64 checked by the Lean codec), worker gRPC and HTTPDeliverer, incl. bodies around max_body with and without Content-Length and a redelivery", "§7 C07",
         "Lean proof of codec and header rules + byte-level differential"),
 "C08": ("proof", "Lean (for every keyed function mac): HMAC acceptance => all header/timestamp/tolerance/nonce/signature-under-a-secret-valid-at-the-signed-time conditions; every missing condition rejects; Basic exact; forward-auth table; any denial precedes the enqueue; a 202 implies every declared authenticator accepted; tie: generated signed requests and mutations through the real ingress handler + runtime state, signatures re-verified by a Lean SHA-256/HMAC", "§7 C08",
         "Lean proof of the verifier model + differential correspondence with independent HMAC"),
 "C09": ("proof", "Lean: nonce-cache invariant - an accepted nonce is cached with expiry ts+tol, stays cached while live (including the boundary instant), and every later request carrying it while the window is open is rejected, over arbitrary histories with a monotone clock; tie: request sequences with boundary arrival times, verbatim replays and configuration reloads through the real handler", "§7 C09",
         "Lean proof of the nonce-cache invariant + sequence correspondence"),
 "C17": ("proof", "Lean: selected version is valid at signing time and extremal under newest/oldest (ties by id), selection independent of list order, window boundaries, nothing sent when no version is valid or the secret is unloadable, headers = unix seconds + hex mac over the canonical string of the body handed over; inbound accepts exactly the versions valid at the signed timestamp; tie: real HTTPDeliverer.Deliver on every boundary instant, Lean HMAC as oracle", "§7 C17",
         "Lean proof of selection/signing model + differential correspondence with independent HMAC"),
 "C11": ("proof", "Lean: authorized => exact allowed token after `Bearer ` (HTTP case-sensitive scheme, gRPC any metadata value); route override replaces the global list; a compile-accepted configuration leaves no pull route with an empty allowlist; tie: generated token configurations x endpoints (incl. non-canonical paths) x Authorization variants through the real Pull HTTP handler, Worker gRPC handlers and Admin handler, with store snapshots before/after", "§7 C11",
         "Lean proof of the authorizer model + differential correspondence"),
 "C10": ("proof", "Lean: resolve = first inbound route whose criteria all hold (resolve_first_match), non-inbound routes unreachable for every request and configuration, 404/405 exactly when nothing matches, path/host-wildcard/method criteria characterised; pinned-tree witnesses kept; tie: generated config texts through real parser+compiler+runtime state, generated requests through real resolveIngress and the real ingress handler", "§7 C10",
         "Lean proof of the resolver model + differential correspondence"),
 "C20": ("proof", "Lean, over tables regenerated from the Go source each run: gating decision stated outright for every tool name (unknown tools denied), tables consistent (role table = dispatch switch = descriptor list), every mutating tool needs a flag and >= operate, code tables = spec.md, flags/principal off => no mutating tool, role monotone, list = allowed, audit on every outcome; tie: exhaustive enumeration of the real server (816 calls x 4 argument shapes + 24 lists) with config/db/foreign-file/audit observation", "§7 C20",
         "translator-regenerated Lean tables + decide-checked theorems + exhaustive enumeration of the real server"),
 "C12": ("proof", "Lean: every enqueue record of every model run satisfies C12.stepOK (admission iff below depth, drop_oldest accounting, refusal leaves queue unchanged); the SQLite admission count: over the depth-counter triggers REGENERATED from sqlite.go each run, for every table and every sequence of row events the counters equal the number of queued / leased rows, so queued+leased is the model's active count (counters_track, code_depth_is_active_count); tie: admit-profile traces on memory and SQLite, the counters read after every SQLite step and compared with the snapshot", "§7 C12",
         "Lean proof over the queue model + differential correspondence (memory, SQLite)"),
 "C13": ("proof", "Lean: the queue contract is a function of (state, op, choice) - deterministic, choice-free for all non-dequeue/non-evicting operations, dequeue count independent of the pick - and every record of every run satisfies the C02-C05/C12/C14 predicates, so two refinements agree modulo the free choices; tie: lock-step execution of the same generated Store-call history on memory and SQLite, each checked against its own model instance step by step AND compared directly (responses + full snapshots modulo generated lease ids) whenever the choice was forced", "§7 C13",
         "Lean determinism theorems + lock-step differential (memory vs SQLite vs model)"),
 "C14": ("proof", "Lean: every operator-mutation record of every model run satisfies C14.stepOK (exact frame, newest-first capped selection, preview = real, counts exact); tie: operator-profile traces with tie timestamps", "§7 C14",
         "Lean proof over the queue model + differential correspondence (memory, SQLite)"),
 "C18": ("proof", "Lean: for every event list whose give-up points precede its writes a failed attempt leaves the live state unchanged, a successful one puts every configuration field at the new version, and with one write section every observable state is entirely old or entirely new - instantiated on the structure of reloadConfig REGENERATED from the Go source each run (fails-first, single write section, all config fields covered: decide); file replacement: at every truncation point the path holds the complete old or new content, the management rewrite ends with new iff applied else the previous bytes; tie: failure injection through the real reloadConfig (unreadable/parse/compile/secret/restart), probe-set fingerprints before/after/at every hook point inside a reload, requests held between accessor calls, directory snapshots and SIGKILLed children at every point of writeFileAtomic (app, MCP config_apply, management upsert/delete with rollback). Known finding: a request straddling a reload between two accessor calls (per-request snapshot missing)", "§7 C18",
         "translator-regenerated reload structure + Lean theorems + failure/schedule/crash injection on the real code"),
 "C15": ("proof", "Lean: the handler's preflight accepts only if every item is valid (shape, no selector, route/policy/target/payload/headers/timestamps, id fresh and unique) and then the composed publish is all-or-nothing against the queue model (200 => all items stored as plain queued messages with one resolved target within limits; non-200 => queue unchanged apart from the piggy-backed retention prune, published 0); within each validation pass the reported index is the least failing one; the by-pass order is proved NOT to give the least index overall (witness) - known finding; tie: generated batches (1..1001 items, every invalidity kind at generated positions, duplicate ids in batch and in queue, near-full queues, drop_oldest) through the real Admin handler on memory and SQLite with full snapshots before/after; the property predicate is evaluated on the implementation's own answers independently of the handler's check order", "§7 C15",
         "Lean proof over the publish model composed with the queue model + differential correspondence (memory, SQLite)"),
 "C19": ("proof", "PARTIAL. Proved in Lean for every value and token sequence: the quoting layer of the formatter is inverted by the lexer (quote/unquoted/placeholder round trips, the exact gap {x} with the proof that the lexer cannot produce it, word and line joining). Not proved: the per-directive completeness of format.go against parser.go - decided by a differential oracle only (Parse/Format/Parse/Compile deep comparison + idempotence) over the repository's own configuration corpus (tests+docs, re-read from /repo each run) and token-level mutations of it. The proved layer is tied to the code by differential runs of the real lexer and quoting helpers", "§7 C19",
         "Lean proof of the lexer/quoting layer + differential correspondence; AST level differential only (stated in level text)"),
 "C01": ("proof", "Lean: crash_safe - for every well-formed history of ingress fan-out, publish batches and ack/nack/dead-letter operations and EVERY crash point, the store recovered from the committed transactions satisfies the property predicate (acknowledged messages present exactly once per target, no duplicates, publish batches all-or-nothing, no message nobody sent, states explained, acknowledged lease operations not undone), with negative witnesses (respond-before-commit and split-publish handlers violate it) and the code's ordering facts regenerated from source; tie: real SIGKILL of a child process running the real handlers on the real SQLite store at every hook point and at arbitrary instants, with store-refusal injection; reopened with the real store, integrity_check, everything due dequeued, crashCheck evaluated and the content matched against the model's recoveries", "§7 C01",
         "Lean proof over a transactional crash model + regenerated ordering facts + real process-kill enumeration"),
}
NOTE = "Trusted: Lean kernel (axioms propext/Classical.choice/Quot.sound only, audited each run), the hand-written model, the Go correspondence harness and generators (ours), Go stdlib, SQLite engine. PostgreSQL not executable here."

extra = os.path.join(V, "tools", "manifest_extra.json")
if os.path.exists(extra):
    for k, v in json.load(open(extra)).items():
        CLAIMED[k] = tuple(v)

checks = []
for i in ids:
    if i in CLAIMED:
        cat, text, ref, tech = CLAIMED[i]
        checks.append({"property_id": i, "quick_cmd": f"./check {i} --tier quick", "thorough_cmd": f"./check {i} --tier thorough",
                       "evidence_file": f"/verif/evidence/{i}.json", "replay_cmd_template": f"./check {i} --replay {{path}}",
                       "engine": "hkmodel", "level_claimed": {"category": cat, "text": text, "design_ref": ref},
                       "level_note": NOTE, "technique": tech})
na = [{"property_id": i, "reason": "check not built yet in this session (work in progress; see DESIGN.md §11 build order)"} for i in ids if i not in CLAIMED]
hooks = subprocess.run(["git", "-C", "/repo", "log", "--format=%H %s"], capture_output=True, text=True).stdout.strip().split("\n")
hook_commits = [l.split(" ")[0] for l in hooks if "verif hook" in l]
m = {"version": 1, "setup_cmd": "./check --setup",
     "hooks": {"guard": "verif", "enable": "go build -tags verif (harness module: replace github.com/nuetzliches/hookaido => /repo)",
               "baseline_off_cmd": "cd /repo && GOFLAGS=-mod=mod GOPROXY=off go test -json -vet=off -count=1 -timeout 25m ./...",
               "source_commits": hook_commits, "add_only": False},
     "engines": [{"name": "hkmodel", "path": "/verif/lean", "serves_properties": sorted(CLAIMED), "kind_free_text": "Lean 4 models + theorems (lake project HkModel), compiled line-protocol driver hkdriver, Go correspondence harness /verif/harness, orchestrator ./check"}],
     "checks": checks, "not_applicable": na,
     "notes": "All checks rebuild the Lean project and the Go harness from /repo's working tree on every run."}
json.dump(m, open(os.path.join(V, "MANIFEST.json"), "w"), indent=1)
print("claimed", sorted(CLAIMED), "na", [x["property_id"] for x in na])
