#!/usr/bin/env python3
"""usage: tools/record_seeded.py <Cxx> <mN> <stagedir> "<detection text>" — copies a staged seeded change into /verif/seeded/<Cxx>-<mN>/"""
import json, os, shutil, sys
prop, m, src, det = sys.argv[1:5]
dst = f"/verif/seeded/{prop}-{m}"
os.makedirs(dst, exist_ok=True)
for f in os.listdir(src):
    if os.path.isfile(os.path.join(src, f)):
        shutil.copy(os.path.join(src, f), dst)
readme = open(os.path.join(dst, "README.md")).read() if os.path.exists(os.path.join(dst, "README.md")) else ""
json.dump({"property": prop, "source": "independent sub-agent given only the property text and a scratch worktree",
           "needs_to_manifest": readme[:1500],
           "confirmed": "patch applies to /repo, go build + full test suite pass (sub-agent), demo fails with patch / passes without (sub-agent); re-confirmed by tools/confirm_seeded.sh (confirm.txt) and re-applied with tools/try_mutant.sh with the registered check run against it",
           "detection": det}, open(os.path.join(dst, "meta.json"), "w"), indent=1)
print("recorded", dst)
