import HkModel.Drive.Queue
import HkModel.Drive.Dispatch
import HkModel.Drive.Egress
import HkModel.Drive.Route
import HkModel.Drive.Auth
import HkModel.Drive.Signing
import HkModel.Drive.ApiAuth
import HkModel.Drive.Mcp
import HkModel.Drive.Limits
import HkModel.Drive.Fidelity
import HkModel.Drive.Reload
import HkModel.Drive.Publish
import HkModel.Drive.Lex
import HkModel.Drive.Crash
import HkModel.Drive.Pull
import HkModel.Drive.Conc
import HkModel.Drive.OpFront
import HkModel.Drive.ConcX
/-! `hkdriver <mode>`: reads protocol lines on stdin, answers one line per input line. -/
open Hk

/-- one verdict = one line: `repr` of a structure contains line breaks -/
def oneLine (s : String) : String := String.ofList (s.toList.map (fun c => if c == '\n' || c == '\r' then ' ' else c))

partial def loopQueue (h : IO.FS.Stream) (out : IO.FS.Stream) (ds : DriveQueue.DState) : IO DriveQueue.DState := do
  let line ← h.getLine
  if line.isEmpty then return ds
  let (ds', outs) := DriveQueue.processLine ds line
  for o in outs do out.putStrLn (oneLine o)
  loopQueue h out ds'

/-- stateless modes: one answer line per input line, then a summary -/
partial def loopPure (h : IO.FS.Stream) (out : IO.FS.Stream) (f : String → String) (n bad : Nat) : IO (Nat × Nat) := do
  let line ← h.getLine
  if line.isEmpty then return (n, bad)
  let o := oneLine (f line)
  out.putStrLn o
  loopPure h out f (n + 1) (if o == "ok" then bad else bad + 1)

def runPure (f : String → String) : IO UInt32 := do
  let stdin ← IO.getStdin
  let stdout ← IO.getStdout
  let (n, bad) ← loopPure stdin stdout f 0 0
  stdout.putStrLn ("SUMMARY {\"steps\":" ++ toString n ++ ",\"not_ok\":" ++ toString bad ++ "}")
  return 0

partial def loopAuth (h : IO.FS.Stream) (out : IO.FS.Stream) (st : DriveAuth.AState) : IO DriveAuth.AState := do
  let line ← h.getLine
  if line.isEmpty then return st
  let (st', o0) := DriveAuth.step st line
  let o := oneLine o0
  out.putStrLn o
  loopAuth h out { st' with n := st'.n + 1, bad := if o == "ok" then st'.bad else st'.bad + 1 }

partial def loopPull (h : IO.FS.Stream) (out : IO.FS.Stream) (st : DrivePull.PD) : IO DrivePull.PD := do
  let line ← h.getLine
  if line.isEmpty then return st
  let (st', o0) := DrivePull.step st line
  let o := oneLine o0
  out.putStrLn o
  loopPull h out { st' with n := st'.n + 1, bad := if o == "ok" then st'.bad else st'.bad + 1 }

def main (args : List String) : IO UInt32 := do
  let stdin ← IO.getStdin
  let stdout ← IO.getStdout
  match args with
  | ["queue"] =>
    let ds ← loopQueue stdin stdout {}
    stdout.putStrLn (DriveQueue.summary ds)
    return 0
  | ["dispatch"] => runPure DriveDispatch.processLine
  | ["egress"] => runPure DriveEgress.processLine
  | ["ingress"] => runPure DriveRoute.processLine
  | ["signing"] => runPure DriveSigning.processLine
  | ["apiauth"] => runPure DriveApiAuth.processLine
  | ["mcp"] => runPure DriveMcp.processLine
  | ["limits"] => runPure DriveLimits.processLine
  | ["fidelity"] => runPure DriveFidelity.processLine
  | ["reload"] => runPure DriveReload.processLine
  | ["publish"] => runPure DrivePublish.processLine
  | ["cfgfmt"] => runPure DriveLex.processLine
  | ["leaseconc"] => runPure DriveConc.processLine
  | ["opfront"] => runPure DriveOpFront.processLine
  | ["concx"] => runPure DriveConcX.processLine
  | ["crash"] => runPure DriveCrash.processLine
  | ["pullops"] =>
    let st ← loopPull stdin stdout {}
    stdout.putStrLn ("SUMMARY {\"steps\":" ++ toString st.n ++ ",\"not_ok\":" ++ toString st.bad ++ "}")
    return 0
  | ["auth"] =>
    let st ← loopAuth stdin stdout {}
    stdout.putStrLn ("SUMMARY {\"steps\":" ++ toString st.n ++ ",\"not_ok\":" ++ toString st.bad ++ "}")
    return 0
  | _ =>
    IO.eprintln "usage: hkdriver <mode>"
    return 2
