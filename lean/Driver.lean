import HkModel.Drive.Queue
import HkModel.Drive.Dispatch
import HkModel.Drive.Egress
import HkModel.Drive.Route
/-! `hkdriver <mode>`: reads protocol lines on stdin, answers one line per input line. -/
open Hk

partial def loopQueue (h : IO.FS.Stream) (out : IO.FS.Stream) (ds : DriveQueue.DState) : IO DriveQueue.DState := do
  let line ← h.getLine
  if line.isEmpty then return ds
  let (ds', outs) := DriveQueue.processLine ds line
  for o in outs do out.putStrLn o
  loopQueue h out ds'

/-- stateless modes: one answer line per input line, then a summary -/
partial def loopPure (h : IO.FS.Stream) (out : IO.FS.Stream) (f : String → String) (n bad : Nat) : IO (Nat × Nat) := do
  let line ← h.getLine
  if line.isEmpty then return (n, bad)
  let o := f line
  out.putStrLn o
  loopPure h out f (n + 1) (if o == "ok" then bad else bad + 1)

def runPure (f : String → String) : IO UInt32 := do
  let stdin ← IO.getStdin
  let stdout ← IO.getStdout
  let (n, bad) ← loopPure stdin stdout f 0 0
  stdout.putStrLn ("SUMMARY {\"steps\":" ++ toString n ++ ",\"not_ok\":" ++ toString bad ++ "}")
  return 0

def main (args : List String) : IO UInt32 := do
  let stdin ← IO.getStdin
  let stdout ← IO.getStdout
  match args with
  | ["queue"] =>
    let ds ← loopQueue stdin stdout {}
    stdout.putStrLn (DriveQueue.summary ds)
    return 0
  | ["dispatch"] => runPure DriveDispatch.processLine
  | ["egress"] => runPure DriveEgress.processLine
  | ["ingress"] => runPure DriveRoute.processLine
  | _ =>
    IO.eprintln "usage: hkdriver <mode>"
    return 2
