import HkModel.Drive.Queue
/-! `hkdriver <mode>`: reads protocol lines on stdin, answers one line per input line. -/
open Hk

partial def loopQueue (h : IO.FS.Stream) (out : IO.FS.Stream) (ds : DriveQueue.DState) : IO DriveQueue.DState := do
  let line ← h.getLine
  if line.isEmpty then return ds
  let (ds', outs) := DriveQueue.processLine ds line
  for o in outs do out.putStrLn o
  loopQueue h out ds'

def main (args : List String) : IO UInt32 := do
  let stdin ← IO.getStdin
  let stdout ← IO.getStdout
  match args with
  | ["queue"] =>
    let ds ← loopQueue stdin stdout {}
    stdout.putStrLn (DriveQueue.summary ds)
    return 0
  | _ =>
    IO.eprintln "usage: hkdriver <mode>"
    return 2
