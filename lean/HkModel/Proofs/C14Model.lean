import HkModel.Proofs.QueueInv
/-!
  C14 (operator mutations) holds for every step of the queue model.
-/
namespace Hk
namespace P14
open Hk.Obs

namespace C14P

/-! ### lookup by id in a store with pairwise distinct ids -/

theorem find_none {ms : List Msg} {i : String} (h : ∀ x ∈ ms, x.id ≠ i) : find ms i = none := by
  unfold find
  rw [List.find?_eq_none]
  intro x hx
  simpa using h x hx

theorem find_of_mem {ms : List Msg} (hnd : (ms.map (·.id)).Nodup) {m : Msg} (hm : m ∈ ms) :
    find ms m.id = some m := by
  induction ms with
  | nil => cases hm
  | cons a t ih =>
    simp only [List.map_cons, List.nodup_cons] at hnd
    rcases List.mem_cons.1 hm with rfl | hmt
    · simp [find]
    · have hne : a.id ≠ m.id := fun h => hnd.1 (h ▸ List.mem_map_of_mem hmt)
      have := ih hnd.2 hmt
      unfold find at this ⊢
      rw [List.find?_cons]
      have hne' : (a.id == m.id) = false := by simpa using hne
      simp [hne', this]

theorem eq_of_id_eq {ms : List Msg} (hnd : (ms.map (·.id)).Nodup) {a b : Msg}
    (ha : a ∈ ms) (hb : b ∈ ms) (h : a.id = b.id) : a = b := by
  have h1 := find_of_mem hnd ha
  have h2 := find_of_mem hnd hb
  rw [h, h2] at h1
  exact (Option.some.inj h1).symm

theorem nodup_of_ids {ms : List Msg} (hnd : (ms.map (·.id)).Nodup) : ms.Nodup := by
  unfold List.Nodup at hnd ⊢
  rw [List.pairwise_map] at hnd
  exact hnd.imp (fun h e => h (by rw [e]))

theorem any_filter_id {ms : List Msg} (hnd : (ms.map (·.id)).Nodup) (p : Msg → Bool) {m : Msg}
    (hm : m ∈ ms) : (ms.filter p).any (·.id == m.id) = p m := by
  rw [Bool.eq_iff_iff, List.any_eq_true]
  constructor
  · rintro ⟨x, hx, hid⟩
    rw [List.mem_filter] at hx
    have : x = m := eq_of_id_eq hnd hx.1 hm (by simpa using hid)
    exact this ▸ hx.2
  · intro hp
    exact ⟨m, List.mem_filter.2 ⟨hm, hp⟩, by simp⟩

/-- lookup through an id-preserving `filterMap` -/
theorem find_filterMap {f : Msg → Option Msg} (hf : ∀ a b, f a = some b → b.id = a.id)
    {ms : List Msg} (hnd : (ms.map (·.id)).Nodup) {m : Msg} (hm : m ∈ ms) :
    find (ms.filterMap f) m.id = f m := by
  induction ms with
  | nil => cases hm
  | cons a t ih =>
    simp only [List.map_cons, List.nodup_cons] at hnd
    have hnone : ∀ x ∈ t.filterMap f, x.id ≠ a.id := by
      intro x hx
      rw [List.mem_filterMap] at hx
      obtain ⟨y, hy, hfy⟩ := hx
      rw [hf y x hfy]
      exact fun h => hnd.1 (h ▸ List.mem_map_of_mem hy)
    rcases List.mem_cons.1 hm with rfl | hmt
    · rw [List.filterMap_cons]
      cases hfa : f m with
      | none => simpa using find_none hnone
      | some b =>
        have := hf m b hfa
        simp [find, this]
    · have hne : a.id ≠ m.id := fun h => hnd.1 (h ▸ List.mem_map_of_mem hmt)
      rw [List.filterMap_cons]
      cases hfa : f a with
      | none => simpa using ih hnd.2 hmt
      | some b =>
        have hb := hf a b hfa
        have := ih hnd.2 hmt
        unfold find at this ⊢
        rw [List.find?_cons]
        have hne' : (b.id == m.id) = false := by simpa [hb] using hne
        simp [hne', this]

theorem isSome_find_of_filterMap {f : Msg → Option Msg} (hf : ∀ a b, f a = some b → b.id = a.id)
    {ms : List Msg} (hnd : (ms.map (·.id)).Nodup) {m' : Msg} (hm' : m' ∈ ms.filterMap f) :
    (find ms m'.id).isSome = true := by
  rw [List.mem_filterMap] at hm'
  obtain ⟨y, hy, hfy⟩ := hm'
  rw [hf y m' hfy, find_of_mem hnd hy]
  rfl

/-! ### the operator update -/

def opf (now : Int) (k : IdKind) (ids : List String) (m : Msg) : Option Msg :=
  if selectedBy k ids m then operate now k m else some m

theorem applyIds_eq (now : Int) (k : IdKind) (ids : List String) (ms : List Msg) :
    applyIds now k ids ms = ms.filterMap (opf now k ids) := rfl

theorem opf_id (now : Int) (k : IdKind) (ids : List String) :
    ∀ a b, opf now k ids a = some b → b.id = a.id := by
  intro a b h
  unfold opf at h
  split at h
  · cases k <;> simp [operate] at h <;> subst h <;> rfl
  · cases h; rfl

theorem effect_of_find (r : Rec) (k : IdKind) (m : Msg)
    (h : find r.after m.id = operate r.now k m) : C14.effect r k m = true := by
  unfold C14.effect
  rw [h]
  cases k <;> simp [operate, targetState, sameIdentity]

/-- a selected message is really changed by the operation -/
theorem operate_ne (now : Int) (k : IdKind) (m : Msg) (h : (allowedStates k).contains m.st = true) :
    operate now k m ≠ some m := by
  intro e
  cases k <;> simp [operate, targetState] at e <;>
    (have e' := congrArg Msg.st e; simp at e'; simp [allowedStates, ← e'] at h)

/-! ### byIds -/

theorem C14_byIds (c : Cfg) (now : Int) (q q' : Q) (k : IdKind) (ids : List String) (ch : Choice)
    (r : Resp) (hinv : Inv q) (hstep : step c now q (.byIds k ids) ch = some (q', r)) :
    C14.stepOK (modelRec c now q (.byIds k ids) r q') = true := by
  simp only [step, Option.some.injEq, Prod.mk.injEq] at hstep
  obtain ⟨rfl, rfl⟩ := hstep
  have hnd := hinv.nodup
  unfold modelRec
  dsimp only [C14.stepOK]
  simp only [Bool.and_eq_true, List.all_eq_true]
  refine ⟨⟨?_, ?_⟩, ?_⟩
  · intro m' hm'
    rw [applyIds_eq] at hm'
    exact isSome_find_of_filterMap (opf_id now k _) hnd hm'
  · intro m hm
    have hfind : find (applyIds now k (normIds ids) q.msgs) m.id = opf now k (normIds ids) m := by
      rw [applyIds_eq]; exact find_filterMap (opf_id now k _) hnd hm
    split
    · next hsel =>
      rw [any_filter_id hnd _ hm] at hsel
      apply effect_of_find
      show find (applyIds now k (normIds ids) q.msgs) m.id = operate now k m
      rw [hfind, opf, selectedBy, if_pos hsel]
    · next hsel =>
      rw [any_filter_id hnd _ hm] at hsel
      unfold C14.unchanged
      show (find (applyIds now k (normIds ids) q.msgs) m.id == some m) = true
      rw [hfind, opf, selectedBy, if_neg hsel]
      simp
  · delta selectedBy
    simp [countP]

/-! ### byFilter -/

theorem newerFirst_trans (a b c : Msg) (h1 : newerFirst a b = true) (h2 : newerFirst b c = true) :
    newerFirst a c = true := by
  simp only [newerFirst, Bool.or_eq_true, Bool.and_eq_true, decide_eq_true_eq, beq_iff_eq,
    ge_iff_le, gt_iff_lt] at *
  rcases h1 with h1 | ⟨e1, l1⟩ <;> rcases h2 with h2 | ⟨e2, l2⟩
  · left; omega
  · left; omega
  · left; omega
  · right; exact ⟨by omega, String.le_trans l2 l1⟩

theorem newerFirst_total (a b : Msg) : (newerFirst a b || newerFirst b a) = true := by
  simp only [newerFirst, Bool.or_eq_true, Bool.and_eq_true, decide_eq_true_eq, beq_iff_eq,
    ge_iff_le, gt_iff_lt]
  rcases Int.lt_trichotomy a.recv b.recv with h | h | h
  · right; left; exact h
  · rcases String.le_total a.id b.id with l | l
    · right; right; exact ⟨h.symm, l⟩
    · left; right; exact ⟨h, l⟩
  · left; left; exact h

theorem newer_of_newerFirst (s c : Msg) (h : newerFirst s c = true) (hne : s.id ≠ c.id) :
    C14.newer s c = true := by
  simp only [newerFirst, C14.newer, Bool.or_eq_true, Bool.and_eq_true, decide_eq_true_eq, beq_iff_eq,
    ge_iff_le, gt_iff_lt] at *
  rcases h with h | ⟨e, l⟩
  · left; exact h
  · right; exact ⟨e, Std.lt_of_le_of_ne l (Ne.symm hne)⟩

theorem length_filter_mem (l L : List Msg) (hl : l.Nodup) (hL : L.Nodup) (hsub : ∀ x ∈ L, x ∈ l) :
    (l.filter (fun x => decide (x ∈ L))).length = L.length := by
  have hp : (l.filter (fun x => decide (x ∈ L))).Perm L := by
    rw [List.perm_ext_iff_of_nodup (hl.sublist List.filter_sublist) hL]
    intro a
    simp only [List.mem_filter, decide_eq_true_eq]
    exact ⟨fun h => h.2, fun h => ⟨hsub a h, h⟩⟩
  exact hp.length_eq

theorem allowed_of_matches (k : IdKind) (f : Filter) (m : Msg) (h : matchesFilter k f m = true) :
    (allowedStates k).contains m.st = true := by
  simp only [matchesFilter, Bool.and_eq_true] at h
  have h1 := h.1.1.1
  unfold filterStates at h1
  split at h1
  · exact h1
  · split at h1
    · split at h1
      · next hs =>
        simp only [List.contains_cons, List.contains_nil, Bool.or_false, beq_iff_eq] at h1
        rw [h1]; exact hs
      · simp at h1
    · simp at h1

theorem selectFilter_length (k : IdKind) (f : Filter) (ms : List Msg) :
    (selectFilter k f ms).length = min (effLimit f.limit) (ms.filter (matchesFilter k f)).length := by
  simp only [selectFilter, List.length_map, List.length_take, (List.mergeSort_perm _ _).length_eq]

theorem C14_byFilter_preview (c : Cfg) (now : Int) (ms : List Msg) (k : IdKind) (f : Filter)
    (hnd : (ms.map (·.id)).Nodup) (hp : f.preview = true) :
    C14.stepOK { cfg := c, now := now, before := ms, op := .byFilter k f,
                 resp := .count 0 (selectFilter k f ms).length true, after := ms } = true := by
  dsimp only [C14.stepOK]
  rw [if_pos hp, selectFilter_length]
  simp only [Bool.and_eq_true, List.all_eq_true, beq_self_eq_true, and_true]
  intro m hm
  rw [find_of_mem hnd hm]; rfl

theorem C14_byFilter_apply (c : Cfg) (now : Int) (ms : List Msg) (k : IdKind) (f : Filter)
    (hnd : (ms.map (·.id)).Nodup) (hp : ¬ f.preview = true) :
    C14.stepOK { cfg := c, now := now, before := ms, op := .byFilter k f,
                 resp := .count (selectFilter k f ms).length (selectFilter k f ms).length false,
                 after := applyIds now k (selectFilter k f ms) ms } = true := by
  -- the selected messages
  have hlen := selectFilter_length k f ms
  generalize hL : ((ms.filter (matchesFilter k f)).mergeSort newerFirst).take (effLimit f.limit) = L
  generalize hR : ((ms.filter (matchesFilter k f)).mergeSort newerFirst).drop (effLimit f.limit) = R
  have hsel : selectFilter k f ms = L.map (·.id) := by rw [← hL]; rfl
  have hperm := List.mergeSort_perm (ms.filter (matchesFilter k f)) newerFirst
  have hLR : L ++ R = (ms.filter (matchesFilter k f)).mergeSort newerFirst := by
    rw [← hL, ← hR]; exact List.take_append_drop _ _
  have hLcand : ∀ x ∈ L, x ∈ ms.filter (matchesFilter k f) := by
    intro x hx
    rw [← hperm.mem_iff, ← hLR]
    exact List.mem_append_left _ hx
  have hLms : ∀ x ∈ L, x ∈ ms := fun x hx => (List.mem_filter.1 (hLcand x hx)).1
  have hsort : ∀ s ∈ L, ∀ x ∈ R, newerFirst s x = true := by
    have := List.pairwise_mergeSort newerFirst_trans newerFirst_total (ms.filter (matchesFilter k f))
    rw [← hLR, List.pairwise_append] at this
    exact this.2.2
  have hLnd : L.Nodup := by
    have h1 : ((ms.filter (matchesFilter k f)).mergeSort newerFirst).Nodup :=
      hperm.symm.nodup ((nodup_of_ids hnd).sublist List.filter_sublist)
    rw [← hLR] at h1
    exact (List.nodup_append.1 h1).1
  have hselIff : ∀ m ∈ ms, (selectedBy k (selectFilter k f ms) m = true ↔ m ∈ L) := by
    intro m hm
    constructor
    · intro h
      simp only [selectedBy, Bool.and_eq_true, hsel, List.contains_eq_mem, decide_eq_true_eq,
        List.mem_map] at h
      obtain ⟨⟨x, hx, hid⟩, _⟩ := h
      exact eq_of_id_eq hnd (hLms x hx) hm hid ▸ hx
    · intro h
      simp only [selectedBy, Bool.and_eq_true, hsel]
      refine ⟨?_, allowed_of_matches k f m (List.mem_filter.1 (hLcand m h)).2⟩
      simp only [List.contains_eq_mem, decide_eq_true_eq, List.mem_map]
      exact ⟨m, h, rfl⟩
  have hfind : ∀ m ∈ ms, find (applyIds now k (selectFilter k f ms) ms) m.id =
      opf now k (selectFilter k f ms) m := by
    intro m hm
    rw [applyIds_eq]; exact find_filterMap (opf_id now k _) hnd hm
  have hfindL : ∀ m ∈ L, find (applyIds now k (selectFilter k f ms) ms) m.id = operate now k m := by
    intro m hm
    rw [hfind m (hLms m hm), opf, if_pos ((hselIff m (hLms m hm)).2 hm)]
  have hunch : ∀ m ∈ ms, (!(find (applyIds now k (selectFilter k f ms) ms) m.id == some m)) =
      decide (m ∈ L) := by
    intro m hm
    by_cases h : m ∈ L
    · rw [hfindL m h]
      have := operate_ne now k m (allowed_of_matches k f m (List.mem_filter.1 (hLcand m h)).2)
      simp [h, this]
    · rw [hfind m hm, opf, if_neg (fun hs => h ((hselIff m hm).1 hs))]
      simp [h]
  have hsel' : ms.filter (fun m => !(find (applyIds now k (selectFilter k f ms) ms) m.id == some m)) =
      ms.filter (fun m => decide (m ∈ L)) := List.filter_congr hunch
  dsimp only [C14.stepOK, C14.unchanged]
  rw [if_neg hp]
  rw [hsel', hlen]
  have hmemF : ∀ m, m ∈ ms.filter (fun m => decide (m ∈ L)) ↔ m ∈ L := by
    intro m
    simp only [List.mem_filter, decide_eq_true_eq]
    exact ⟨fun h => h.2, fun h => ⟨hLms m h, h⟩⟩
  have hLlen : L.length = min (effLimit f.limit) (ms.filter (matchesFilter k f)).length := by
    rw [← hlen, hsel, List.length_map]
  simp only [Bool.and_eq_true, Bool.or_eq_true, List.all_eq_true, List.any_eq_true, beq_self_eq_true,
    and_true, hmemF, beq_iff_eq]
  refine ⟨?_, ⟨?_, ?_⟩, ?_⟩
  · intro m' hm'
    rw [applyIds_eq] at hm'
    exact isSome_find_of_filterMap (opf_id now k _) hnd hm'
  · rw [length_filter_mem ms L (nodup_of_ids hnd) hLnd hLms, hLlen]
  · intro m hm
    refine ⟨⟨m, hLcand m hm, rfl⟩, ?_⟩
    apply effect_of_find
    exact hfindL m hm
  · intro x hx
    by_cases hxL : x ∈ L
    · exact Or.inl ⟨x, hxL, rfl⟩
    · right
      intro s hs
      have hxR : x ∈ R := by
        have : x ∈ L ++ R := by rw [hLR, hperm.mem_iff]; exact hx
        rcases List.mem_append.1 this with h | h
        · exact absurd h hxL
        · exact h
      apply newer_of_newerFirst s x (hsort s hs x hxR)
      intro hid
      exact hxL (eq_of_id_eq hnd (hLms s hs) (List.mem_filter.1 hx).1 hid ▸ hs)

theorem C14_byFilter (c : Cfg) (now : Int) (q q' : Q) (k : IdKind) (f : Filter) (ch : Choice)
    (r : Resp) (hinv : Inv q) (hstep : step c now q (.byFilter k f) ch = some (q', r)) :
    C14.stepOK (modelRec c now q (.byFilter k f) r q') = true := by
  simp only [step] at hstep
  split at hstep
  · next hp =>
    simp only [Option.some.injEq, Prod.mk.injEq] at hstep
    obtain ⟨rfl, rfl⟩ := hstep
    exact C14_byFilter_preview c now q.msgs k f hinv.nodup hp
  · next hp =>
    simp only [Option.some.injEq, Prod.mk.injEq] at hstep
    obtain ⟨rfl, rfl⟩ := hstep
    exact C14_byFilter_apply c now q.msgs k f hinv.nodup hp

end C14P

/-- C14 (operator mutations) holds for every step of the model from a state satisfying `Inv`. -/
theorem C14_model (c : Cfg) (now : Int) (q q' : Q) (op : Op) (ch : Choice) (r : Resp)
    (hinv : Inv q) (hstep : step c now q op ch = some (q', r)) :
    C14.stepOK (modelRec c now q op r q') = true := by
  cases op with
  | byIds k ids => exact C14P.C14_byIds c now q q' k ids ch r hinv hstep
  | byFilter k f => exact C14P.C14_byFilter c now q q' k f ch r hinv hstep
  | _ => rfl

end P14
end Hk

#print axioms Hk.P14.C14_model
