import HkModel.Proofs.QueueInv
/-!
  C04 (lease fencing) holds for every step of the queue model.
-/
namespace Hk
open Hk.Obs

/-! ### generic list / id lemmas -/

theorem eq_of_id_eq04 {ms : List Msg} (hnd : (ms.map (·.id)).Nodup) {a b : Msg}
    (ha : a ∈ ms) (hb : b ∈ ms) (h : a.id = b.id) : a = b := by
  induction ms with
  | nil => cases ha
  | cons x xs ih =>
    simp only [List.map_cons, List.nodup_cons, List.mem_map, not_exists, not_and] at hnd
    rcases List.mem_cons.1 ha with rfl | ha' <;> rcases List.mem_cons.1 hb with rfl | hb'
    · rfl
    · exact absurd h.symm (hnd.1 b hb')
    · exact absurd h (hnd.1 a ha')
    · exact ih hnd.2 ha' hb'

theorem find_of_mem {ms : List Msg} (hnd : (ms.map (·.id)).Nodup) {m : Msg} (hm : m ∈ ms) :
    find ms m.id = some m := by
  induction ms with
  | nil => cases hm
  | cons x xs ih =>
    simp only [List.map_cons, List.nodup_cons, List.mem_map, not_exists, not_and] at hnd
    unfold find at ih ⊢
    rcases List.mem_cons.1 hm with rfl | hm'
    · simp
    · have hne : (x.id == m.id) = false := by
        simp only [beq_eq_false_iff_ne, ne_eq]
        exact fun h => hnd.1 m hm' h.symm
      rw [List.find?_cons, hne]
      exact ih hnd.2 hm'

theorem find_filterMap04 {ms : List Msg} (hnd : (ms.map (·.id)).Nodup) (f : Msg → Option Msg)
    (hf : ∀ x y, f x = some y → y.id = x.id) {m : Msg} (hm : m ∈ ms) :
    find (ms.filterMap f) m.id = f m := by
  induction ms with
  | nil => cases hm
  | cons x xs ih =>
    simp only [List.map_cons, List.nodup_cons, List.mem_map, not_exists, not_and] at hnd
    unfold find at ih ⊢
    rcases List.mem_cons.1 hm with rfl | hm'
    · cases hfx : f m with
      | none =>
        rw [List.filterMap_cons_none hfx]
        apply List.find?_eq_none.2
        intro y hy
        obtain ⟨x', hx', hfx'⟩ := List.mem_filterMap.1 hy
        simp only [beq_iff_eq]
        intro h
        exact hnd.1 x' hx' (by rw [← hf x' y hfx', h])
      | some y =>
        rw [List.filterMap_cons_some hfx, List.find?_cons]
        simp [hf m y hfx]
    · have hne : x.id ≠ m.id := fun h => hnd.1 m hm' h.symm
      cases hfx : f x with
      | none =>
        rw [List.filterMap_cons_none hfx]
        exact ih hnd.2 hm'
      | some y =>
        rw [List.filterMap_cons_some hfx, List.find?_cons]
        have : (y.id == m.id) = false := by
          simp only [beq_eq_false_iff_ne, ne_eq, hf x y hfx]; exact hne
        rw [this]
        exact ih hnd.2 hm'

theorem nodup_filterMap {ms : List Msg} (hnd : (ms.map (·.id)).Nodup) (f : Msg → Option Msg)
    (hf : ∀ x y, f x = some y → y.id = x.id) : ((ms.filterMap f).map (·.id)).Nodup := by
  induction ms with
  | nil => simp
  | cons x xs ih =>
    simp only [List.map_cons, List.nodup_cons, List.mem_map, not_exists, not_and] at hnd
    cases hfx : f x with
    | none => rw [List.filterMap_cons_none hfx]; exact ih hnd.2
    | some y =>
      rw [List.filterMap_cons_some hfx]
      simp only [List.map_cons, List.nodup_cons, List.mem_map, not_exists, not_and]
      refine ⟨?_, ih hnd.2⟩
      intro z hz h
      obtain ⟨x', hx', hfx'⟩ := List.mem_filterMap.1 hz
      exact hnd.1 x' hx' (by rw [← hf x' z hfx', h, hf x y hfx])

theorem filterMap_eq_self {ms : List Msg} (f : Msg → Option Msg) (h : ∀ x ∈ ms, f x = some x) :
    ms.filterMap f = ms := by
  induction ms with
  | nil => rfl
  | cons x xs ih =>
    rw [List.filterMap_cons_some (h x (List.mem_cons_self ..)), ih (fun y hy => h y (List.mem_cons_of_mem _ hy))]

theorem filterMap_congr' {ms : List Msg} {f g : Msg → Option Msg} (h : ∀ x ∈ ms, f x = g x) :
    ms.filterMap f = ms.filterMap g := by
  induction ms with
  | nil => rfl
  | cons x xs ih =>
    simp only [List.filterMap_cons, h x (List.mem_cons_self ..),
      ih (fun y hy => h y (List.mem_cons_of_mem _ hy))]

theorem map_eq_filterMap {ms : List Msg} {g : Msg → Msg} {f : Msg → Option Msg}
    (h : ∀ x ∈ ms, f x = some (g x)) : ms.map g = ms.filterMap f := by
  induction ms with
  | nil => rfl
  | cons x xs ih =>
    rw [List.filterMap_cons_some (h x (List.mem_cons_self ..)), List.map_cons,
      ih (fun y hy => h y (List.mem_cons_of_mem _ hy))]

theorem filter_unique {ms : List Msg} (hnd : (ms.map (·.id)).Nodup) (p : Msg → Bool)
    (hp : ∀ a ∈ ms, ∀ b ∈ ms, p a = true → p b = true → a.id = b.id) {m : Msg}
    (hm : ms.find? p = some m) : ms.filter p = [m] := by
  induction ms with
  | nil => simp at hm
  | cons x xs ih =>
    simp only [List.map_cons, List.nodup_cons, List.mem_map, not_exists, not_and] at hnd
    by_cases hx : p x = true
    · rw [List.find?_cons_of_pos (h := hx)] at hm
      cases hm
      rw [List.filter_cons_of_pos hx]
      congr 1
      apply List.filter_eq_nil_iff.2
      intro y hy hpy
      exact hnd.1 y hy (hp y (List.mem_cons_of_mem _ hy) m (List.mem_cons_self ..) hpy hx)
    · rw [List.find?_cons_of_neg (h := hx)] at hm
      rw [List.filter_cons_of_neg hx]
      exact ih hnd.2 (fun a ha b hb => hp a (List.mem_cons_of_mem _ ha) b (List.mem_cons_of_mem _ hb)) hm

/-! ### the pointwise view of one lease operation -/

/-- what `leaseOne` does to a single message (valid when lease holders are unique) -/
def one (c : Cfg) (now : Int) (k : LeaseKind) (l : String) (x : Msg) : Option Msg :=
  if holds l x then (if x.luntil ≤ now then some (release now x) else applyLease c now k x) else some x

/-- outcome reported by `leaseOne` for a non-blank lease id -/
def outcome (now : Int) (l : String) (ms : List Msg) : Option Err :=
  match ms.find? (holds l) with
  | none => some .leaseNotFound
  | some m => if m.luntil ≤ now then some .leaseExpired else none

/-- the part of `Inv` the lease operations rely on -/
structure LInv (ms : List Msg) : Prop where
  nodup : (ms.map (·.id)).Nodup
  uniq : ∀ a ∈ ms, ∀ b ∈ ms, a.st = .leased → b.st = .leased → a.lease = b.lease → a.id = b.id

theorem LInv_of_Inv {q : Q} (h : Inv q) : LInv q.msgs where
  nodup := h.nodup
  uniq := fun a ha b hb hsa _ hl => by
    rw [h.leaseUniq a ha b hb ((h.leaseIff a ha).1 hsa) hl]

theorem holds_iff {l : String} {x : Msg} : holds l x = true ↔ x.st = .leased ∧ x.lease = l := by
  simp [holds]

theorem applyLease_id {c : Cfg} {now : Int} {k : LeaseKind} {x y : Msg}
    (h : applyLease c now k x = some y) : y.id = x.id := by
  unfold applyLease at h
  split at h
  · split at h
    · cases h; rfl
    · cases h
  · cases h; rfl
  · cases h; rfl
  · cases h; rfl

/-- a message that is still leased after a successful lease operation was extended -/
theorem applyLease_leased {c : Cfg} {now : Int} {k : LeaseKind} {x y : Msg}
    (h : applyLease c now k x = some y) (hy : y.st = .leased) :
    (∃ d, k = .extend d) ∧ y.lease = x.lease ∧ x.st = .leased := by
  unfold applyLease at h
  split at h
  · split at h
    · cases h; cases hy
    · cases h
  · cases h; cases hy
  · cases h; exact ⟨⟨_, rfl⟩, rfl, hy⟩
  · cases h; cases hy

theorem one_of_not_holds {c : Cfg} {now : Int} {k : LeaseKind} {l : String} {x : Msg}
    (h : holds l x = false) : one c now k l x = some x := by
  simp [one, h]

theorem one_id {c : Cfg} {now : Int} {k : LeaseKind} {l : String} {x y : Msg}
    (h : one c now k l x = some y) : y.id = x.id := by
  unfold one at h
  split at h
  · split at h
    · cases h; rfl
    · exact applyLease_id h
  · cases h; rfl

theorem one_leased {c : Cfg} {now : Int} {k : LeaseKind} {l : String} {x y : Msg}
    (h : one c now k l x = some y) (hy : y.st = .leased) : x.st = .leased ∧ y.lease = x.lease := by
  unfold one at h
  split at h
  · split at h
    · cases h; cases hy
    · have := applyLease_leased h hy; exact ⟨this.2.2, this.2.1⟩
  · cases h; exact ⟨hy, rfl⟩

theorem LInv_one {ms : List Msg} (h : LInv ms) (c : Cfg) (now : Int) (k : LeaseKind) (l : String) :
    LInv (ms.filterMap (one c now k l)) where
  nodup := nodup_filterMap h.nodup _ (fun _ _ => one_id)
  uniq := by
    intro a ha b hb hsa hsb hl
    obtain ⟨a0, ha0, hfa⟩ := List.mem_filterMap.1 ha
    obtain ⟨b0, hb0, hfb⟩ := List.mem_filterMap.1 hb
    have h1 := one_leased hfa hsa
    have h2 := one_leased hfb hsb
    rw [one_id hfa, one_id hfb]
    exact h.uniq a0 ha0 b0 hb0 h1.1 h2.1 (by rw [← h1.2, ← h2.2, hl])

theorem holds_unique {ms : List Msg} (h : LInv ms) {l : String} {a b : Msg} (ha : a ∈ ms) (hb : b ∈ ms)
    (hha : holds l a = true) (hhb : holds l b = true) : a = b := by
  rw [holds_iff] at hha hhb
  exact eq_of_id_eq04 h.nodup ha hb (h.uniq a ha b hb hha.1 hhb.1 (by rw [hha.2, hhb.2]))

theorem leaseOne_eq {ms : List Msg} (h : LInv ms) (c : Cfg) (now : Int) (k : LeaseKind) (l : String)
    (hl : (l == "") = false) :
    leaseOne c now k l ms = (ms.filterMap (one c now k l), outcome now l ms) := by
  unfold leaseOne outcome
  rw [hl]
  simp only [Bool.false_eq_true, if_false]
  cases hf : ms.find? (holds l) with
  | none =>
    simp only
    rw [filterMap_eq_self]
    intro x hx
    exact one_of_not_holds (by simpa using List.find?_eq_none.1 hf x hx)
  | some m =>
    have hm : m ∈ ms := List.mem_of_find?_eq_some hf
    have hhm : holds l m = true := List.find?_some hf
    simp only
    split
    · rename_i hexp
      congr 1
      apply map_eq_filterMap
      intro x hx
      by_cases hhx : holds l x = true
      · have : x = m := holds_unique h hx hm hhx hhm
        subst this
        simp [one, hhx, hexp]
      · simp [one, hhx]
    · rename_i hexp
      congr 1
      apply filterMap_congr'
      intro x hx
      by_cases hhx : holds l x = true
      · have : x = m := holds_unique h hx hm hhx hhm
        subst this
        simp [one, hhx, hexp]
      · simp [one, hhx]

/-! ### per-message obligations of C04 -/

/-- `modelRec` on bare message lists -/
def mkRec (c : Cfg) (now : Int) (ms : List Msg) (op : Op) (r : Resp) (after : List Msg) : Rec :=
  { cfg := c, now := now, before := ms, op := op, resp := r, after := after, items := [] }

theorem effectOK_apply (r : Rec) (k : LeaseKind) (m : Msg) (hm : m.st = .leased) :
    C04.effectOK r k m (applyLease r.cfg r.now k m) = true := by
  cases k with
  | ack =>
    by_cases hd : r.cfg.deliveredRet > 0
    · simp [C04.effectOK, applyLease, sameIdentity, hd]
    · simp [C04.effectOK, applyLease, hd]
  | nack d => simp [C04.effectOK, applyLease, sameIdentity]
  | extend d => simp [C04.effectOK, applyLease, sameIdentity, hm]
  | markDead s => simp [C04.effectOK, applyLease, sameIdentity]

theorem inert_of {r : Rec} {m : Msg}
    (h : find r.after m.id = some m ∨
      (expired r.now m = true ∧ find r.after m.id = some (release r.now m))) :
    C04.inert r m = true := by
  unfold C04.inert
  rcases h with h | ⟨he, h⟩
  · rw [h]; simp
  · rw [h]; simp [he]

/-- the live holder of lease id `l` the observer looks for -/
def curP (now : Int) (l : String) (m : Msg) : Bool :=
  liveLeased now m && m.lease == l && decide (l ≠ "")

/-- `S` has the shape of the non-noop `.lease` branch of `C04.stepOK`, the observer looking for the
    live holder of `l` (`l = trimWS l0` for `C04.stepOK`). -/
structure LeaseShape (c : Cfg) (now : Int) (k : LeaseKind) (l0 l : String) (ms : List Msg)
    (S : Rec → Bool) : Prop where
  onNone : ∀ resp after, ms.find? (curP now l) = none →
    S (mkRec c now ms (.lease k l0) resp after) =
      (after.all (fun m' => (find ms m'.id).isSome) &&
        (isErr resp && ms.all (C04.inert (mkRec c now ms (.lease k l0) resp after))))
  onSome : ∀ resp after cur, ms.find? (curP now l) = some cur →
    S (mkRec c now ms (.lease k l0) resp after) =
      (after.all (fun m' => (find ms m'.id).isSome) &&
        (if isErr resp then ms.all (C04.inert (mkRec c now ms (.lease k l0) resp after))
         else resp == .ok && ms.all (fun m => if m.id == cur.id
            then C04.effectOK (mkRec c now ms (.lease k l0) resp after) k m (find after m.id)
            else C04.inert (mkRec c now ms (.lease k l0) resp after) m)))

theorem stepOK_shape (c : Cfg) (now : Int) (k : LeaseKind) (l0 : String) (ms : List Msg)
    (hk : ∀ d, k = .extend d → 0 < d) : LeaseShape c now k l0 (trimWS l0) ms C04.stepOK where
  onNone := by
    intro resp after hf
    unfold curP at hf
    cases k with
    | extend d =>
      have : ¬ d ≤ 0 := by have := hk d rfl; omega
      simp only [C04.stepOK, mkRec, hf, this, decide_false, Bool.false_eq_true, if_false]
    | _ => simp only [C04.stepOK, mkRec, hf, Bool.false_eq_true, if_false]
  onSome := by
    intro resp after cur hf
    unfold curP at hf
    cases k with
    | extend d =>
      have : ¬ d ≤ 0 := by have := hk d rfl; omega
      simp only [C04.stepOK, mkRec, hf, this, decide_false, Bool.false_eq_true, if_false]
      rfl
    | _ => simp only [C04.stepOK, mkRec, hf, Bool.false_eq_true, if_false]; rfl

/-- an error response with every message inert satisfies C04 for a single lease operation -/
theorem lease_err_ok {c : Cfg} {now : Int} {k : LeaseKind} {l0 l : String} {ms : List Msg}
    {S : Rec → Bool} (hS : LeaseShape c now k l0 l ms S) (after : List Msg) (e : Err)
    (hafter : ∀ m' ∈ after, (find ms m'.id).isSome = true)
    (hinert : ∀ m ∈ ms, C04.inert (mkRec c now ms (.lease k l0) (.err e) after) m = true) :
    S (mkRec c now ms (.lease k l0) (.err e) after) = true := by
  cases hf : ms.find? (curP now l) with
  | none =>
    rw [hS.onNone _ _ hf]
    simp only [isErr, Bool.and_eq_true, List.all_eq_true, true_and]
    exact ⟨hafter, hinert⟩
  | some cur =>
    rw [hS.onSome _ _ cur hf]
    simp only [isErr, if_true, Bool.and_eq_true, List.all_eq_true]
    exact ⟨hafter, hinert⟩

/-- C04 for one non-noop lease operation, given the result of `leaseOne` on the id `lm` the backend
    actually looks up (`lm` is the presented id, trimmed or not). -/
theorem lease_spec {c : Cfg} {now : Int} {k : LeaseKind} {l0 l : String} {ms : List Msg}
    {S : Rec → Bool} (hS : LeaseShape c now k l0 l ms S) (lm : String) (h : LInv ms)
    (hlm : ∀ m ∈ ms, holds lm m = true → lm = l) :
    S (mkRec c now ms (.lease k l0)
      (match (leaseOne c now k lm ms).2 with | none => Resp.ok | some e => .err e)
      (leaseOne c now k lm ms).1) = true := by
  by_cases hl : (lm == "") = true
  · have hone : leaseOne c now k lm ms = (ms, some .leaseNotFound) := by simp [leaseOne, hl]
    rw [hone]
    apply lease_err_ok hS
    · intro m' hm'; rw [find_of_mem h.nodup hm']; rfl
    · intro m hm; exact inert_of (Or.inl (find_of_mem h.nodup hm))
  · have hl' : (lm == "") = false := by simpa using hl
    rw [leaseOne_eq h c now k lm hl']
    have hfind : ∀ m ∈ ms, find (ms.filterMap (one c now k lm)) m.id = one c now k lm m :=
      fun m hm => find_filterMap04 h.nodup _ (fun _ _ => one_id) hm
    have hafter : ∀ m' ∈ ms.filterMap (one c now k lm), (find ms m'.id).isSome = true := by
      intro m' hm'
      obtain ⟨x, hx, hfx⟩ := List.mem_filterMap.1 hm'
      rw [one_id hfx, find_of_mem h.nodup hx]; rfl
    unfold outcome
    cases hf : ms.find? (holds lm) with
    | none =>
      simp only
      apply lease_err_ok hS _ _ hafter
      intro x hx
      apply inert_of (Or.inl _)
      show find (ms.filterMap (one c now k lm)) x.id = some x
      rw [hfind x hx]
      exact one_of_not_holds (by simpa using List.find?_eq_none.1 hf x hx)
    | some m =>
      have hm : m ∈ ms := List.mem_of_find?_eq_some hf
      have hhm : holds lm m = true := List.find?_some hf
      simp only
      by_cases hexp : m.luntil ≤ now
      · rw [if_pos hexp]
        simp only
        apply lease_err_ok hS _ _ hafter
        intro x hx
        by_cases hhx : holds lm x = true
        · have : x = m := holds_unique h hx hm hhx hhm
          subst this
          apply inert_of (Or.inr ⟨?_, ?_⟩)
          · show expired now x = true
            simp [expired, (holds_iff.1 hhx).1, hexp]
          · show find (ms.filterMap (one c now k lm)) x.id = some (release now x)
            rw [hfind x hx]; simp [one, hhx, hexp]
        · apply inert_of (Or.inl _)
          show find (ms.filterMap (one c now k lm)) x.id = some x
          rw [hfind x hx]
          exact one_of_not_holds (by simpa using hhx)
      · rw [if_neg hexp]
        simp only
        have hlm' : lm = l := hlm m hm hhm
        have hmcur : curP now l m = true := by
          have := holds_iff.1 hhm
          simp only [curP, liveLeased, Bool.and_eq_true, beq_iff_eq, decide_eq_true_eq]
          refine ⟨⟨⟨this.1, by omega⟩, by rw [this.2, hlm']⟩, ?_⟩
          rw [← hlm']; simpa using hl
        cases hc : ms.find? (curP now l) with
        | none => exact absurd hmcur (by simpa using List.find?_eq_none.1 hc m hm)
        | some cur =>
          have hcm : cur ∈ ms := List.mem_of_find?_eq_some hc
          have hcp : curP now l cur = true := List.find?_some hc
          have hcur : cur = m := by
            apply holds_unique h hcm hm _ hhm
            simp only [curP, liveLeased, Bool.and_eq_true, beq_iff_eq, decide_eq_true_eq] at hcp
            rw [holds_iff, hlm']; exact ⟨hcp.1.1.1, hcp.1.2⟩
          subst hcur
          rw [hS.onSome _ _ cur hc]
          simp only [isErr, Bool.false_eq_true, if_false, Bool.and_eq_true, List.all_eq_true,
            beq_self_eq_true, true_and]
          refine ⟨hafter, ?_⟩
          intro x hx
          by_cases hid : x.id = cur.id
          · have : x = cur := eq_of_id_eq04 h.nodup hx hm hid
            subst this
            simp only [beq_self_eq_true, if_true]
            rw [hfind x hx]
            have : one c now k lm x = applyLease c now k x := by simp [one, hhm, hexp]
            rw [this]
            exact effectOK_apply (mkRec c now ms (.lease k l0) .ok _) k x (holds_iff.1 hhm).1
          · have hne : (x.id == cur.id) = false := by simpa using hid
            rw [hne]
            simp only [Bool.false_eq_true, if_false]
            apply inert_of (Or.inl _)
            show find (ms.filterMap (one c now k lm)) x.id = some x
            rw [hfind x hx]
            apply one_of_not_holds
            cases hhx : holds lm x with
            | false => rfl
            | true => exact absurd (congrArg Msg.id (holds_unique h hx hm hhx hhm)) hid

/-! ### batches -/

/-- the non-blank trimmed lease ids of a batch -/
def bids (ls : List String) : List String := (ls.map trimWS).filter (· ≠ "")

def validP (now : Int) (ls : List String) (m : Msg) : Bool :=
  liveLeased now m && (bids ls).contains m.lease

theorem bids_cons_blank {raw : String} {rest : List String} (h : (trimWS raw == "") = true) :
    bids (raw :: rest) = bids rest := by
  simp only [beq_iff_eq] at h
  simp [bids, h]

theorem bids_cons {raw : String} {rest : List String} (h : (trimWS raw == "") = false) :
    bids (raw :: rest) = trimWS raw :: bids rest := by
  simp only [beq_eq_false_iff_ne, ne_eq] at h
  simp [bids, h]

theorem stepOK_batch (c : Cfg) (now : Int) (k : LeaseKind) (ls : List String) (ms after : List Msg)
    (n : Nat) (cs : List Conflict) :
    C04.stepOK (mkRec c now ms (.leaseBatch k ls) (.batch n cs) after) =
      (after.all (fun m' => (find ms m'.id).isSome) &&
       ms.all (fun m => if (ms.filter (validP now ls)).any (·.id == m.id)
          then C04.effectOK (mkRec c now ms (.leaseBatch k ls) (.batch n cs) after) k m (find after m.id)
          else C04.inert (mkRec c now ms (.leaseBatch k ls) (.batch n cs) after) m) &&
       (n == (ms.filter (validP now ls)).length && n + cs.length == ls.length &&
         cs.all (fun cf => !cf.expired || ms.any (fun m => expired now m && m.lease == cf.lease)))) := by
  rfl

/-- trajectory of one message through a batch -/
def T (c : Cfg) (now : Int) (k : LeaseKind) : List String → Msg → Option Msg
  | [], x => some x
  | raw :: rest, x =>
    if trimWS raw == "" then T c now k rest x
    else (one c now k (trimWS raw) x).bind (T c now k rest)

theorem T_id {c : Cfg} {now : Int} {k : LeaseKind} {ls : List String} {x y : Msg}
    (h : T c now k ls x = some y) : y.id = x.id := by
  induction ls generalizing x with
  | nil => simp only [T] at h; cases h; rfl
  | cons raw rest ih =>
    simp only [T] at h
    split at h
    · exact ih h
    · cases ho : one c now k (trimWS raw) x with
      | none => rw [ho] at h; cases h
      | some z => rw [ho] at h; rw [ih h, one_id ho]

theorem T_keep {c : Cfg} {now : Int} {k : LeaseKind} {ls : List String} {x : Msg}
    (h : ¬ (x.st = .leased ∧ x.lease ∈ bids ls)) : T c now k ls x = some x := by
  induction ls with
  | nil => rfl
  | cons raw rest ih =>
    simp only [T]
    split
    · rename_i hb
      rw [bids_cons_blank hb] at h
      exact ih h
    · rename_i hb
      have hb' : (trimWS raw == "") = false := by simpa using hb
      rw [bids_cons hb', List.mem_cons] at h
      have hnh : holds (trimWS raw) x = false := by
        cases hh : holds (trimWS raw) x with
        | false => rfl
        | true => have := holds_iff.1 hh; exact absurd ⟨this.1, Or.inl this.2⟩ h
      rw [one_of_not_holds hnh]
      exact ih (fun hh => h ⟨hh.1, Or.inr hh.2⟩)

theorem T_expired {c : Cfg} {now : Int} {k : LeaseKind} {ls : List String} {x : Msg}
    (hs : x.st = .leased) (hl : x.lease ∈ bids ls) (he : x.luntil ≤ now) :
    T c now k ls x = some (release now x) := by
  induction ls with
  | nil => simp [bids] at hl
  | cons raw rest ih =>
    simp only [T]
    split
    · rename_i hb
      rw [bids_cons_blank hb] at hl
      exact ih hl
    · rename_i hb
      have hb' : (trimWS raw == "") = false := by simpa using hb
      rw [bids_cons hb', List.mem_cons] at hl
      by_cases hh : holds (trimWS raw) x = true
      · have : one c now k (trimWS raw) x = some (release now x) := by simp [one, hh, he]
        rw [this]
        exact T_keep (fun h => by simp [release] at h)
      · have hnh : holds (trimWS raw) x = false := by simpa using hh
        rw [one_of_not_holds hnh]
        rcases hl with hl | hl
        · exact absurd (holds_iff.2 ⟨hs, hl⟩) hh
        · exact ih hl

theorem T_live {c : Cfg} {now : Int} {k : LeaseKind} {ls : List String} {x : Msg}
    (hnd : ∀ d, k = .extend d → (bids ls).Nodup)
    (hs : x.st = .leased) (hl : x.lease ∈ bids ls) (he : ¬ x.luntil ≤ now) :
    T c now k ls x = applyLease c now k x := by
  induction ls with
  | nil => simp [bids] at hl
  | cons raw rest ih =>
    simp only [T]
    split
    · rename_i hb
      rw [bids_cons_blank hb] at hl hnd
      exact ih hnd hl
    · rename_i hb
      have hb' : (trimWS raw == "") = false := by simpa using hb
      rw [bids_cons hb'] at hnd
      rw [bids_cons hb', List.mem_cons] at hl
      by_cases hh : holds (trimWS raw) x = true
      · have : one c now k (trimWS raw) x = applyLease c now k x := by simp [one, hh, he]
        rw [this]
        cases ha : applyLease c now k x with
        | none => rfl
        | some y =>
          show T c now k rest y = some y
          apply T_keep
          intro hy
          obtain ⟨⟨d, hd⟩, hyl, _⟩ := applyLease_leased ha hy.1
          have := (List.nodup_cons.1 (hnd d hd)).1
          rw [← (holds_iff.1 hh).2, ← hyl] at this
          exact this hy.2
      · have hnh : holds (trimWS raw) x = false := by simpa using hh
        rw [one_of_not_holds hnh]
        rcases hl with hl | hl
        · exact absurd (holds_iff.2 ⟨hs, hl⟩) hh
        · exact ih (fun d hd => (List.nodup_cons.1 (hnd d hd)).2) hl

theorem fold_msgs {ms : List Msg} (h : LInv ms) (c : Cfg) (now : Int) (k : LeaseKind) (ls : List String)
    (n : Nat) (cs : List Conflict) :
    (leaseBatchFold c now k ls ms n cs).1 = ms.filterMap (T c now k ls) := by
  induction ls generalizing ms n cs with
  | nil =>
    simp only [leaseBatchFold]
    exact (filterMap_eq_self _ (fun x _ => rfl)).symm
  | cons raw rest ih =>
    simp only [leaseBatchFold]
    split
    · rename_i hb
      rw [ih h]
      apply filterMap_congr'
      intro x _
      simp only [T, hb, if_true]
    · rename_i hb
      have hb' : (trimWS raw == "") = false := by simpa using hb
      rw [leaseOne_eq h c now k _ hb']
      have hT : (ms.filterMap (one c now k (trimWS raw))).filterMap (T c now k rest) =
          ms.filterMap (T c now k (raw :: rest)) := by
        rw [List.filterMap_filterMap]
        apply filterMap_congr'
        intro x _
        simp only [T, hb']
        rfl
      have h1 := LInv_one h c now k (trimWS raw)
      split <;> rename_i heq <;> simp only [Prod.mk.injEq] at heq <;> obtain ⟨rfl, _⟩ := heq <;>
        rw [ih h1, hT]

/-! ### counting the successes of a batch -/

theorem validP_apply_false {c : Cfg} {now : Int} {k : LeaseKind} {l : String} {rest : List String}
    {x y : Msg} (ha : applyLease c now k x = some y) (hx : x.lease = l)
    (hnd : ∀ d, k = .extend d → l ∉ bids rest) : validP now rest y = false := by
  cases hv : validP now rest y with
  | false => rfl
  | true =>
    simp only [validP, liveLeased, Bool.and_eq_true, beq_iff_eq, List.contains_iff_mem] at hv
    obtain ⟨⟨d, hd⟩, hyl, _⟩ := applyLease_leased ha hv.1.1
    rw [hyl, hx] at hv
    exact absurd hv.2 (hnd d hd)

/-- live holder of lease `l` -/
def liveHolds (now : Int) (l : String) (x : Msg) : Bool := decide (now < x.luntil) && holds l x

theorem count_pointwise (c : Cfg) (now : Int) (k : LeaseKind) (raw : String) (rest : List String)
    (hb : (trimWS raw == "") = false) (hnd : ∀ d, k = .extend d → trimWS raw ∉ bids rest)
    (ms : List Msg) :
    (ms.filter (validP now (raw :: rest))).length =
      (ms.filter (liveHolds now (trimWS raw))).length +
      ((ms.filterMap (one c now k (trimWS raw))).filter (validP now rest)).length := by
  induction ms with
  | nil => rfl
  | cons x xs ih =>
    by_cases hh : holds (trimWS raw) x = true
    · have hx := holds_iff.1 hh
      have hmem : (bids (raw :: rest)).contains x.lease = true := by
        rw [bids_cons hb, hx.2]; simp
      by_cases he : x.luntil ≤ now
      · have v1 : ¬ validP now (raw :: rest) x = true := by
          simp only [validP, liveLeased, hmem, Bool.and_true, Bool.and_eq_true, beq_iff_eq,
            decide_eq_true_eq, not_and]
          intro _; omega
        have v2 : ¬ liveHolds now (trimWS raw) x = true := by
          simp only [liveHolds, hh, Bool.and_true, decide_eq_true_eq]; omega
        have o : one c now k (trimWS raw) x = some (release now x) := by simp [one, hh, he]
        have v3 : ¬ validP now rest (release now x) = true := by simp [validP, liveLeased, release]
        rw [List.filter_cons_of_neg (p := validP now (raw :: rest)) v1,
          List.filter_cons_of_neg (p := liveHolds now (trimWS raw)) v2,
          List.filterMap_cons_some o, List.filter_cons_of_neg (p := validP now rest) v3]
        exact ih
      · have v1 : validP now (raw :: rest) x = true := by
          simp only [validP, liveLeased, hmem, Bool.and_true, Bool.and_eq_true, beq_iff_eq,
            decide_eq_true_eq]
          exact ⟨hx.1, by omega⟩
        have v2 : liveHolds now (trimWS raw) x = true := by
          simp only [liveHolds, hh, Bool.and_true, decide_eq_true_eq]; omega
        have o : one c now k (trimWS raw) x = applyLease c now k x := by simp [one, hh, he]
        rw [List.filter_cons_of_pos (p := validP now (raw :: rest)) v1,
          List.filter_cons_of_pos (p := liveHolds now (trimWS raw)) v2]
        cases ha : applyLease c now k x with
        | none =>
          rw [List.filterMap_cons_none (o.trans ha)]
          simp only [List.length_cons]; omega
        | some y =>
          have v3 : ¬ validP now rest y = true := by simp [validP_apply_false ha hx.2 hnd]
          rw [List.filterMap_cons_some (o.trans ha),
            List.filter_cons_of_neg (p := validP now rest) v3]
          simp only [List.length_cons]; omega
    · have hnh : holds (trimWS raw) x = false := by simpa using hh
      have o : one c now k (trimWS raw) x = some x := one_of_not_holds hnh
      have v2 : ¬ liveHolds now (trimWS raw) x = true := by simp [liveHolds, hnh]
      have v13 : validP now (raw :: rest) x = validP now rest x := by
        simp only [validP, bids_cons hb, List.contains_cons]
        cases hl : liveLeased now x with
        | false => simp
        | true =>
          simp only [liveLeased, Bool.and_eq_true, beq_iff_eq] at hl
          have : (x.lease == trimWS raw) = false := by
            cases hq : x.lease == trimWS raw with
            | false => rfl
            | true => exact absurd (holds_iff.2 ⟨hl.1, by simpa using hq⟩) hh
          simp [this]
      rw [List.filter_cons_of_neg (p := liveHolds now (trimWS raw)) v2, List.filterMap_cons_some o]
      cases hv : validP now rest x with
      | false =>
        rw [List.filter_cons_of_neg (p := validP now (raw :: rest)) (by rw [v13, hv]; simp),
          List.filter_cons_of_neg (p := validP now rest) (by rw [hv]; simp)]
        exact ih
      | true =>
        rw [List.filter_cons_of_pos (p := validP now (raw :: rest)) (by rw [v13, hv]),
          List.filter_cons_of_pos (p := validP now rest) hv]
        simp only [List.length_cons]; omega

theorem count_holders {ms : List Msg} (h : LInv ms) (now : Int) (l : String) :
    (ms.filter (liveHolds now l)).length =
      if outcome now l ms = none then 1 else 0 := by
  show (ms.filter (fun x => decide (now < x.luntil) && holds l x)).length = _
  rw [← List.filter_filter]
  unfold outcome
  cases hf : ms.find? (holds l) with
  | none =>
    have : ms.filter (holds l) = [] := by
      apply List.filter_eq_nil_iff.2
      intro x hx
      exact List.find?_eq_none.1 hf x hx
    rw [this]; simp
  | some m =>
    have : ms.filter (holds l) = [m] := by
      apply filter_unique h.nodup _ _ hf
      intro a ha b hb hpa hpb
      have ha' := holds_iff.1 hpa
      have hb' := holds_iff.1 hpb
      exact h.uniq a ha b hb ha'.1 hb'.1 (by rw [ha'.2, hb'.2])
    rw [this]
    by_cases he : m.luntil ≤ now
    · have : ¬ now < m.luntil := by omega
      simp [he, this]
    · have : now < m.luntil := by omega
      simp [he, this]

theorem outcome_expired {ms : List Msg} {now : Int} {l : String}
    (h : outcome now l ms = some .leaseExpired) :
    ∃ m ∈ ms, expired now m = true ∧ m.lease = l := by
  unfold outcome at h
  cases hf : ms.find? (holds l) with
  | none => rw [hf] at h; cases h
  | some m =>
    rw [hf] at h
    have hm : m ∈ ms := List.mem_of_find?_eq_some hf
    have hhm := holds_iff.1 (List.find?_some hf)
    refine ⟨m, hm, ?_, hhm.2⟩
    by_cases he : m.luntil ≤ now
    · simp [expired, hhm.1, he]
    · simp [he] at h

theorem one_expired_pullback {c : Cfg} {now : Int} {k : LeaseKind} {l : String} {rest : List String}
    {x x' : Msg} (hnd : ∀ d, k = .extend d → l ∉ bids rest)
    (ho : one c now k l x = some x') (he : expired now x' = true) (hl : x'.lease ∈ bids rest) :
    expired now x = true ∧ x.lease = x'.lease := by
  by_cases hh : holds l x = true
  · have hx := holds_iff.1 hh
    have hs : x'.st = .leased := by
      simp only [expired, Bool.and_eq_true, beq_iff_eq] at he; exact he.1
    by_cases hx' : x.luntil ≤ now
    · have : one c now k l x = some (release now x) := by simp [one, hh, hx']
      rw [this] at ho; cases ho; simp [release] at hs
    · have : one c now k l x = applyLease c now k x := by simp [one, hh, hx']
      rw [this] at ho
      obtain ⟨⟨d, hd⟩, hyl, _⟩ := applyLease_leased ho hs
      rw [hyl, hx.2] at hl
      exact absurd hl (hnd d hd)
  · have hnh : holds l x = false := by simpa using hh
    rw [one_of_not_holds hnh] at ho
    cases ho
    exact ⟨he, rfl⟩

theorem validP_nil (now : Int) (ms : List Msg) : ms.filter (validP now []) = [] := by
  apply List.filter_eq_nil_iff.2
  intro x _
  simp [validP, bids]

theorem fold_counts {ms : List Msg} (h : LInv ms) (c : Cfg) (now : Int) (k : LeaseKind) (ls : List String)
    (hnd : ∀ d, k = .extend d → (bids ls).Nodup) (n : Nat) (cs : List Conflict) :
    ∃ new, (leaseBatchFold c now k ls ms n cs).2 =
        (n + (ms.filter (validP now ls)).length, cs ++ new) ∧
      (ms.filter (validP now ls)).length + new.length = ls.length ∧
      ∀ cf ∈ new, cf.expired = true →
        cf.lease ∈ bids ls ∧ ∃ m ∈ ms, expired now m = true ∧ m.lease = cf.lease := by
  induction ls generalizing ms n cs with
  | nil =>
    refine ⟨[], ?_, ?_, ?_⟩
    · simp [leaseBatchFold, validP_nil]
    · simp [validP_nil]
    · intro cf hcf; cases hcf
  | cons raw rest ih =>
    by_cases hb : (trimWS raw == "") = true
    · have hbid : bids (raw :: rest) = bids rest := bids_cons_blank hb
      have hv : validP now (raw :: rest) = validP now rest := by
        funext x; simp only [validP, hbid]
      obtain ⟨new, h1, h2, h3⟩ := ih h (by rw [← hbid]; exact hnd) n (cs ++ [⟨raw, false⟩])
      refine ⟨⟨raw, false⟩ :: new, ?_, ?_, ?_⟩
      · simp only [leaseBatchFold, hb, if_true, hv]
        rw [h1]; simp
      · rw [hv]; simp only [List.length_cons]; omega
      · intro cf hcf he
        rcases List.mem_cons.1 hcf with rfl | hcf
        · cases he
        · rw [hbid]; exact h3 cf hcf he
    · have hb' : (trimWS raw == "") = false := by simpa using hb
      have hbid : bids (raw :: rest) = trimWS raw :: bids rest := bids_cons hb'
      have hnd1 : ∀ d, k = .extend d → trimWS raw ∉ bids rest := fun d hd => by
        have := hnd d hd; rw [hbid] at this; exact (List.nodup_cons.1 this).1
      have hnd2 : ∀ d, k = .extend d → (bids rest).Nodup := fun d hd => by
        have := hnd d hd; rw [hbid] at this; exact (List.nodup_cons.1 this).2
      have hL1 := LInv_one h c now k (trimWS raw)
      have hcount := count_pointwise c now k raw rest hb' hnd1 ms
      rw [count_holders h] at hcount
      have hpull : ∀ cf : Conflict, cf.lease ∈ bids rest →
          (∃ m ∈ ms.filterMap (one c now k (trimWS raw)), expired now m = true ∧ m.lease = cf.lease) →
          ∃ m ∈ ms, expired now m = true ∧ m.lease = cf.lease := by
        intro cf hcl ⟨m', hm', he', hl'⟩
        obtain ⟨x, hx, hox⟩ := List.mem_filterMap.1 hm'
        have := one_expired_pullback hnd1 hox he' (by rw [hl']; exact hcl)
        exact ⟨x, hx, this.1, by rw [this.2, hl']⟩
      simp only [leaseBatchFold, hb', Bool.false_eq_true, if_false]
      rw [leaseOne_eq h c now k _ hb']
      cases ho : outcome now (trimWS raw) ms with
      | none =>
        rw [ho] at hcount
        simp only [if_true] at hcount
        obtain ⟨new, h1, h2, h3⟩ := ih hL1 hnd2 (n + 1) cs
        refine ⟨new, ?_, ?_, ?_⟩
        · simp only; rw [h1, hcount]; congr 1; omega
        · rw [hcount]; simp only [List.length_cons]; omega
        · intro cf hcf he
          obtain ⟨a, b⟩ := h3 cf hcf he
          exact ⟨by rw [hbid]; exact List.mem_cons_of_mem _ a, hpull cf a b⟩
      | some e =>
        rw [ho] at hcount
        simp only [reduceCtorEq, if_false, Nat.zero_add] at hcount
        by_cases hee : e = .leaseExpired
        · subst hee
          obtain ⟨new, h1, h2, h3⟩ := ih hL1 hnd2 n (cs ++ [⟨trimWS raw, true⟩])
          refine ⟨⟨trimWS raw, true⟩ :: new, ?_, ?_, ?_⟩
          · simp only; rw [h1, hcount]; simp
          · rw [hcount]; simp only [List.length_cons]; omega
          · intro cf hcf he
            rcases List.mem_cons.1 hcf with rfl | hcf
            · exact ⟨by rw [hbid]; exact List.mem_cons_self .., outcome_expired ho⟩
            · obtain ⟨a, b⟩ := h3 cf hcf he
              exact ⟨by rw [hbid]; exact List.mem_cons_of_mem _ a, hpull cf a b⟩
        · obtain ⟨new, h1, h2, h3⟩ := ih hL1 hnd2 n (cs ++ [⟨trimWS raw, false⟩])
          refine ⟨⟨trimWS raw, false⟩ :: new, ?_, ?_, ?_⟩
          · cases e <;> first | exact absurd rfl hee | (simp only; rw [h1, hcount]; simp)
          · rw [hcount]; simp only [List.length_cons]; omega
          · intro cf hcf he
            rcases List.mem_cons.1 hcf with rfl | hcf
            · cases he
            · obtain ⟨a, b⟩ := h3 cf hcf he
              exact ⟨by rw [hbid]; exact List.mem_cons_of_mem _ a, hpull cf a b⟩

/-- C04 for one batch lease operation -/
theorem batch_spec (c : Cfg) (now : Int) (k : LeaseKind) (ls : List String) (ms : List Msg) (h : LInv ms)
    (hnd : ∀ d, k = .extend d → (bids ls).Nodup) :
    C04.stepOK (mkRec c now ms (.leaseBatch k ls)
      (.batch (leaseBatchFold c now k ls ms 0 []).2.1 (leaseBatchFold c now k ls ms 0 []).2.2)
      (leaseBatchFold c now k ls ms 0 []).1) = true := by
  rw [stepOK_batch, fold_msgs h]
  obtain ⟨new, h1, h2, h3⟩ := fold_counts h c now k ls hnd 0 []
  rw [h1]
  have hfind : ∀ m ∈ ms, find (ms.filterMap (T c now k ls)) m.id = T c now k ls m :=
    fun m hm => find_filterMap04 h.nodup _ (fun _ _ => T_id) hm
  simp only [Bool.and_eq_true, List.all_eq_true]
  refine ⟨⟨?_, ?_⟩, ?_⟩
  · intro m' hm'
    obtain ⟨x, hx, hfx⟩ := List.mem_filterMap.1 hm'
    rw [T_id hfx, find_of_mem h.nodup hx]; rfl
  · intro m hm
    cases hv : validP now ls m with
    | true =>
      have hany : (ms.filter (validP now ls)).any (fun v => v.id == m.id) = true :=
        List.any_eq_true.2 ⟨m, List.mem_filter.2 ⟨hm, hv⟩, by simp⟩
      rw [if_pos hany, hfind m hm]
      simp only [validP, liveLeased, Bool.and_eq_true, beq_iff_eq, decide_eq_true_eq,
        List.contains_iff_mem] at hv
      rw [T_live hnd hv.1.1 hv.2 (by omega)]
      exact effectOK_apply (mkRec c now ms (.leaseBatch k ls) _ _) k m hv.1.1
    | false =>
      have hany : ¬ (ms.filter (validP now ls)).any (fun v => v.id == m.id) = true := by
        intro hany
        obtain ⟨v, hvm, hid⟩ := List.any_eq_true.1 hany
        have hv' := List.mem_filter.1 hvm
        have : v = m := eq_of_id_eq04 h.nodup hv'.1 hm (by simpa using hid)
        rw [this, hv] at hv'
        exact absurd hv'.2 (by simp)
      rw [if_neg hany]
      apply inert_of
      show find (ms.filterMap (T c now k ls)) m.id = some m ∨
        (expired now m = true ∧ find (ms.filterMap (T c now k ls)) m.id = some (release now m))
      rw [hfind m hm]
      by_cases hl : m.st = .leased ∧ m.lease ∈ bids ls
      · have hexp : m.luntil ≤ now := by
          simp only [validP, liveLeased, hl.1, beq_self_eq_true, Bool.true_and,
            List.contains_iff_mem.2 hl.2, Bool.and_true, decide_eq_false_iff_not] at hv
          omega
        right
        exact ⟨by simp [expired, hl.1, hexp], T_expired hl.1 hl.2 hexp⟩
      · left; exact T_keep hl
  · refine ⟨⟨by simp, by simp only [List.nil_append, Nat.zero_add, beq_iff_eq]; exact h2⟩, ?_⟩
    intro cf hcf
    rw [List.nil_append] at hcf
    cases he : cf.expired with
    | false => rfl
    | true =>
      obtain ⟨_, m, hm, hme, hml⟩ := h3 cf hcf he
      simp only [Bool.not_true, Bool.false_or]
      exact List.any_eq_true.2 ⟨m, hm, by simp [hme, hml]⟩

/-! ### the theorem -/

theorem lease_noop_ok (c : Cfg) (now : Int) (d : Int) (l0 : String) (ms : List Msg) (h : LInv ms)
    (hd : d ≤ 0) : C04.stepOK (mkRec c now ms (.lease (.extend d) l0) .ok ms) = true := by
  simp only [C04.stepOK, mkRec, hd, decide_true, if_true, Bool.and_eq_true, List.all_eq_true,
    beq_self_eq_true, true_and]
  refine ⟨?_, ?_⟩
  · intro m hm; rw [find_of_mem h.nodup hm]; rfl
  · intro m hm; exact inert_of (Or.inl (find_of_mem h.nodup hm))

theorem lm_eq {c : Cfg} {q : Q} {l0 : String}
    (hTrim : c.memory = true → ∀ m ∈ q.msgs, m.st = .leased → trimWS m.lease = m.lease) :
    ∀ m ∈ q.msgs, holds (if c.memory = true then l0 else trimWS l0) m = true →
      (if c.memory = true then l0 else trimWS l0) = trimWS l0 := by
  intro m hm hh
  by_cases hmem : c.memory = true
  · rw [if_pos hmem] at hh ⊢
    have := holds_iff.1 hh
    have ht := hTrim hmem m hm this.1
    rw [this.2] at ht
    exact ht.symm
  · rw [if_neg hmem]

theorem C04_model (c : Cfg) (now : Int) (q q' : Q) (op : Op) (ch : Choice) (r : Resp)
    (hinv : Inv q)
    (hTrim : c.memory = true → ∀ m ∈ q.msgs, m.st = .leased → trimWS m.lease = m.lease)
    (hDup : ∀ d ls, op = .leaseBatch (.extend d) ls → ((ls.map trimWS).filter (· ≠ "")).Nodup)
    (hstep : step c now q op ch = some (q', r)) :
    C04.stepOK (modelRec c now q op r q') = true := by
  have hL := LInv_of_Inv hinv
  cases op with
  | lease k l0 =>
    cases k with
    | extend d =>
      simp only [step] at hstep
      by_cases hd : d ≤ 0
      · rw [if_pos hd] at hstep
        cases hstep
        exact lease_noop_ok c now d l0 q.msgs hL hd
      · rw [if_neg hd] at hstep
        cases hstep
        have hs := lease_spec (stepOK_shape c now (.extend d) l0 q.msgs
          (fun d' hd' => by cases hd'; omega)) _ hL (lm_eq hTrim)
        revert hs
        cases (leaseOne c now (.extend d) (if c.memory = true then l0 else trimWS l0) q.msgs).snd <;>
          exact fun hs => hs
    | ack =>
      simp only [step] at hstep
      cases hstep
      have hs := lease_spec (stepOK_shape c now .ack l0 q.msgs (fun d' hd' => by cases hd')) _ hL
        (lm_eq hTrim)
      revert hs
      cases (leaseOne c now .ack (if c.memory = true then l0 else trimWS l0) q.msgs).snd <;>
        exact fun hs => hs
    | nack dl =>
      simp only [step] at hstep
      cases hstep
      have hs := lease_spec (stepOK_shape c now (.nack dl) l0 q.msgs (fun d' hd' => by cases hd')) _ hL
        (lm_eq hTrim)
      revert hs
      cases (leaseOne c now (.nack dl) (if c.memory = true then l0 else trimWS l0) q.msgs).snd <;>
        exact fun hs => hs
    | markDead rs =>
      simp only [step] at hstep
      cases hstep
      have hs := lease_spec (stepOK_shape c now (.markDead rs) l0 q.msgs (fun d' hd' => by cases hd')) _ hL
        (lm_eq hTrim)
      revert hs
      cases (leaseOne c now (.markDead rs) (if c.memory = true then l0 else trimWS l0) q.msgs).snd <;>
        exact fun hs => hs
  | leaseBatch k ls =>
    simp only [step] at hstep
    cases hstep
    exact batch_spec c now k ls q.msgs hL (fun d hd => hDup d ls (by rw [hd]))
  | _ => rfl

/-! ### alternative: the predicate corrected instead of the invariant strengthened

`C04.stepOK'` is `C04.stepOK` with one change in the `.lease` branch: the observer looks for the
holder of the id the backend actually looks up (`l0` itself on the memory backend, `trimWS l0`
otherwise). With it no assumption about whitespace in stored lease ids is needed. -/


theorem stepOK'_shape (c : Cfg) (now : Int) (k : LeaseKind) (l0 : String) (ms : List Msg)
    (hk : ∀ d, k = .extend d → 0 < d) :
    LeaseShape c now k l0 (if c.memory = true then l0 else trimWS l0) ms C04.stepOK' where
  onNone := by
    intro resp after hf
    unfold curP at hf
    cases k with
    | extend d =>
      have : ¬ d ≤ 0 := by have := hk d rfl; omega
      simp only [C04.stepOK', mkRec, this, decide_false, Bool.false_eq_true, if_false]
      generalize hx : List.find? _ ms = o
      have ho : o = none := hx.symm.trans hf
      subst ho
      rfl
    | _ =>
      simp only [C04.stepOK', mkRec, Bool.false_eq_true, if_false]
      generalize hx : List.find? _ ms = o
      have ho : o = none := hx.symm.trans hf
      subst ho
      rfl
  onSome := by
    intro resp after cur hf
    unfold curP at hf
    cases k with
    | extend d =>
      have : ¬ d ≤ 0 := by have := hk d rfl; omega
      simp only [C04.stepOK', mkRec, this, decide_false, Bool.false_eq_true, if_false]
      generalize hx : List.find? _ ms = o
      have ho : o = some cur := hx.symm.trans hf
      subst ho
      rfl
    | _ =>
      simp only [C04.stepOK', mkRec, Bool.false_eq_true, if_false]
      generalize hx : List.find? _ ms = o
      have ho : o = some cur := hx.symm.trans hf
      subst ho
      rfl

theorem lease_noop_ok' (c : Cfg) (now : Int) (d : Int) (l0 : String) (ms : List Msg) (h : LInv ms)
    (hd : d ≤ 0) : C04.stepOK' (mkRec c now ms (.lease (.extend d) l0) .ok ms) = true := by
  simp only [C04.stepOK', mkRec, hd, decide_true, if_true, Bool.and_eq_true, List.all_eq_true,
    beq_self_eq_true, true_and]
  refine ⟨?_, ?_⟩
  · intro m hm; rw [find_of_mem h.nodup hm]; rfl
  · intro m hm; exact inert_of (Or.inl (find_of_mem h.nodup hm))

/-- C04 with the corrected predicate: no assumption on stored lease ids. -/
theorem C04_model' (c : Cfg) (now : Int) (q q' : Q) (op : Op) (ch : Choice) (r : Resp)
    (hinv : Inv q)
    (hDup : ∀ d ls, op = .leaseBatch (.extend d) ls → ((ls.map trimWS).filter (· ≠ "")).Nodup)
    (hstep : step c now q op ch = some (q', r)) :
    C04.stepOK' (modelRec c now q op r q') = true := by
  have hL := LInv_of_Inv hinv
  cases op with
  | lease k l0 =>
    cases k with
    | extend d =>
      simp only [step] at hstep
      by_cases hd : d ≤ 0
      · rw [if_pos hd] at hstep
        cases hstep
        exact lease_noop_ok' c now d l0 q.msgs hL hd
      · rw [if_neg hd] at hstep
        cases hstep
        have hs := lease_spec (stepOK'_shape c now (.extend d) l0 q.msgs
          (fun d' hd' => by cases hd'; omega)) _ hL (fun _ _ _ => rfl)
        revert hs
        cases (leaseOne c now (.extend d) (if c.memory = true then l0 else trimWS l0) q.msgs).snd <;>
          exact fun hs => hs
    | ack =>
      simp only [step] at hstep
      cases hstep
      have hs := lease_spec (stepOK'_shape c now .ack l0 q.msgs (fun d' hd' => by cases hd')) _ hL
        (fun _ _ _ => rfl)
      revert hs
      cases (leaseOne c now .ack (if c.memory = true then l0 else trimWS l0) q.msgs).snd <;>
        exact fun hs => hs
    | nack dl =>
      simp only [step] at hstep
      cases hstep
      have hs := lease_spec (stepOK'_shape c now (.nack dl) l0 q.msgs (fun d' hd' => by cases hd')) _ hL
        (fun _ _ _ => rfl)
      revert hs
      cases (leaseOne c now (.nack dl) (if c.memory = true then l0 else trimWS l0) q.msgs).snd <;>
        exact fun hs => hs
    | markDead rs =>
      simp only [step] at hstep
      cases hstep
      have hs := lease_spec (stepOK'_shape c now (.markDead rs) l0 q.msgs (fun d' hd' => by cases hd')) _ hL
        (fun _ _ _ => rfl)
      revert hs
      cases (leaseOne c now (.markDead rs) (if c.memory = true then l0 else trimWS l0) q.msgs).snd <;>
        exact fun hs => hs
  | leaseBatch k ls =>
    simp only [step] at hstep
    cases hstep
    exact batch_spec c now k ls q.msgs hL (fun d hd => hDup d ls (by rw [hd]))
  | _ => rfl

end Hk

#print axioms Hk.C04_model'
#print axioms Hk.C04_model
