import HkModel.Proofs.QueueInv
/-!
  C05 (at-least-once visibility) holds of every step of the queue model.
-/
namespace Hk
open Hk.Obs

/-! ### counting with duplicate-free lists -/

theorem length_le_of_nodup_subset {α : Type} [DecidableEq α] :
    ∀ {l1 l2 : List α}, l1.Nodup → (∀ x ∈ l1, x ∈ l2) → l1.length ≤ l2.length
  | [], _, _, _ => Nat.zero_le _
  | x :: l1, l2, hnd, hsub => by
    have hx : x ∈ l2 := hsub x (List.mem_cons_self ..)
    have hnd' := List.nodup_cons.mp hnd
    have ih := length_le_of_nodup_subset (l1 := l1) (l2 := l2.erase x) hnd'.2 (by
      intro y hy
      have hne : y ≠ x := by rintro rfl; exact hnd'.1 hy
      exact (List.mem_erase_of_ne hne).mpr (hsub y (List.mem_cons_of_mem _ hy)))
    have h1 := List.length_erase_of_mem hx
    have h2 : 0 < l2.length := List.length_pos_of_mem hx
    simp only [List.length_cons]; omega

theorem subset_of_nodup_subset_length {α : Type} [DecidableEq α] {l1 l2 : List α}
    (hnd : l1.Nodup) (hsub : ∀ x ∈ l1, x ∈ l2) (hlen : l2.length ≤ l1.length) :
    ∀ y ∈ l2, y ∈ l1 := by
  intro y hy
  apply Classical.byContradiction
  intro hny
  have h := length_le_of_nodup_subset (l1 := l1) (l2 := l2.erase y) hnd (by
    intro x hx
    have hne : x ≠ y := by rintro rfl; exact hny hx
    exact (List.mem_erase_of_ne hne).mpr (hsub x hx))
  have h1 := List.length_erase_of_mem hy
  have h2 : 0 < l2.length := List.length_pos_of_mem hy
  omega

/-! ### the two housekeeping passes -/

/-- what the lease sweep does to one message -/
def sw (now : Int) (m : Msg) : Msg := if expired now m then release now m else m

/-- the pointwise effect of `sweep` (the identity while the sweep gate is closed) -/
def swf (c : Cfg) (now ls : Int) : Msg → Msg :=
  if (decide (c.sweep ≤ 0) || decide (now - ls ≥ c.sweep)) = true then sw now else id

theorem sweep_msgs (c : Cfg) (now : Int) (q : Q) :
    (sweep c now q).msgs = q.msgs.map (swf c now q.lastSweep) := by
  unfold sweep swf
  split
  · rfl
  · simp

theorem sw_id (now : Int) (m : Msg) : (sw now m).id = m.id := by
  unfold sw; split <;> rfl

theorem swf_id (c : Cfg) (now ls : Int) (m : Msg) : (swf c now ls m).id = m.id := by
  unfold swf; split
  · exact sw_id now m
  · rfl

theorem swf_cases (c : Cfg) (now ls : Int) (m : Msg) :
    swf c now ls m = m ∨ (expired now m = true ∧ swf c now ls m = release now m) := by
  unfold swf; split
  · unfold sw; split
    · right; exact ⟨by assumption, rfl⟩
    · left; rfl
  · left; rfl

theorem prune_spec {c : Cfg} {now : Int} {q q1 : Q} {gone : List String}
    (h : prune c now q gone = some q1) :
    q1.msgs.Sublist q.msgs ∧ q1.lastSweep = q.lastSweep ∧
    ∀ m ∈ q.msgs, m.st ≠ .dead → (pruneConfigured c = true → ageEligible c now m = false) →
      m ∈ q1.msgs := by
  unfold prune at h
  split at h
  next hg =>
    have hcfg : pruneConfigured c = true := by
      unfold gateOpen at hg
      exact (Bool.and_eq_true _ _ ▸ hg).1
    simp only at h
    split at h
    · split at h
      · injection h with h; subst h
        refine ⟨?_, rfl, ?_⟩
        · exact (List.filter_sublist).trans (List.filter_sublist)
        · intro m hm hdead hage
          simp only [removeIds, List.mem_filter]
          refine ⟨⟨hm, by simp [hage hcfg]⟩, ?_⟩
          have : isDead m = false := by simp [isDead, hdead]
          simp [this]
      · exact absurd h (by simp)
    · injection h with h; subst h
      refine ⟨List.filter_sublist, rfl, ?_⟩
      intro m hm _ hage
      simp only [List.mem_filter]
      exact ⟨hm, by simp [hage hcfg]⟩
  next =>
    injection h with h; subst h
    exact ⟨List.Sublist.refl _, rfl, fun m hm _ _ => hm⟩

/-- state after the housekeeping of a dequeue (memory: sweep, prune; SQLite: prune, sweep) -/
def housekeep (c : Cfg) (now : Int) (q : Q) (gone : List String) : Option Q :=
  (prune c now q gone).map (sweep c now)

theorem step_dequeue {c : Cfg} {now : Int} {q q' : Q} {route target : String} {batch ttl : Int}
    {ch : Choice} {r : Resp}
    (hstep : step c now q (.dequeue route target batch ttl) ch = some (q', r)) :
    ∃ q1, housekeep c now q ch.gone = some q1 ∧
      legalPicks now route target batch q1 ch.picks = true ∧ r = .items ch.picks := by
  simp only [step] at hstep
  split at hstep
  · exact absurd hstep (by simp)
  next q1 hq1 =>
    split at hstep
    next hl =>
      injection hstep with hstep
      injection hstep with h1 h2
      exact ⟨q1, hq1, hl, h2.symm⟩
    next => exact absurd hstep (by simp)

theorem housekeep_spec {c : Cfg} {now : Int} {q q1 : Q} {gone : List String}
    (h : housekeep c now q gone = some q1) :
    q1.msgs.Sublist (q.msgs.map (swf c now q.lastSweep)) ∧
    ∀ m ∈ q.msgs, m.st ≠ .dead → (swf c now q.lastSweep m).st ≠ .dead →
      (pruneConfigured c = true →
        ageEligible c now m = false ∧ ageEligible c now (swf c now q.lastSweep m) = false) →
      swf c now q.lastSweep m ∈ q1.msgs := by
  unfold housekeep at h
  cases hpq : prune c now q gone with
  | none => rw [hpq] at h; exact absurd h (by simp)
  | some qp =>
    rw [hpq] at h
    simp only [Option.map_some] at h
    injection h with h
    subst h
    have hp := prune_spec hpq
    rw [sweep_msgs, hp.2.1]
    refine ⟨hp.1.map _, ?_⟩
    intro m hm hd _ hage
    exact List.mem_map_of_mem (hp.2.2 m hm hd (fun hc => (hage hc).1))

theorem not_pruneAllowed_deq {c : Cfg} {now : Int} {q q' : Q} {route target : String}
    {batch ttl : Int} {resp : Resp} {m : Msg}
    (h : pruneAllowed (modelRec c now q (.dequeue route target batch ttl) resp q') m = false)
    (hcfg : pruneConfigured c = true) :
    ageEligible c now m = false ∧
      (expired now m = true → ageEligible c now (release now m) = false) := by
  simp only [pruneAllowed, modelRec, prunes, hcfg, Bool.true_and, Bool.or_eq_false_iff,
    Bool.and_true] at h
  refine ⟨h.1.1, ?_⟩
  intro he
  have := h.1.2
  rw [he] at this
  simpa using this

theorem must_ready {c : Cfg} {now : Int} {q : Q} {route target : String} {m : Msg}
    (hinv : Inv q) (hsweep : 0 ≤ c.sweep) (hm : m ∈ q.msgs)
    (h : (m.st = .queued ∧ m.next ≤ now ∧ C03.matchesReq route target m = true) ∨
         (m.st = .leased ∧ m.luntil ≤ now - c.sweep ∧ C03.matchesReq route target m = true)) :
    ready now route target (swf c now q.lastSweep m) = true := by
  rcases h with ⟨hst, hnext, hreq⟩ | ⟨hst, hlu, hreq⟩
  · have hne : expired now m = false := by simp [expired, hst]
    have : swf c now q.lastSweep m = m := by
      rcases swf_cases c now q.lastSweep m with h | ⟨h, _⟩
      · exact h
      · rw [hne] at h; exact absurd h (by simp)
    rw [this]
    simp only [C03.matchesReq, Bool.and_eq_true] at hreq
    simp [ready, hst, hnext, hreq.1, hreq.2]
  · have hsd := (hinv.sweepDone m hm hst).1
    have hran : (decide (c.sweep ≤ 0) || decide (now - q.lastSweep ≥ c.sweep)) = true := by
      simp only [Bool.or_eq_true, decide_eq_true_eq]
      omega
    have hexp : expired now m = true := by
      simp only [expired, hst, beq_self_eq_true, Bool.true_and, decide_eq_true_eq]
      omega
    have : swf c now q.lastSweep m = release now m := by
      unfold swf sw
      rw [if_pos hran, if_pos hexp]
    rw [this]
    simp only [C03.matchesReq, Bool.and_eq_true] at hreq
    simp [ready, release, hreq.1, hreq.2]

theorem nodupStr_iff05 (l : List String) : nodupStr l = true ↔ l.Nodup := by
  induction l with
  | nil => simp [nodupStr]
  | cons x xs ih => simp [nodupStr, ih]

/-- messages a dequeue must offer -/
def mustL (r : Rec) (route target : String) : List Msg :=
  r.before.filter (fun m => !pruneAllowed r m &&
    (C05.dueQueued r route target m ||
     (m.st == .leased && decide (m.luntil ≤ r.now - r.cfg.sweep) && C03.matchesReq route target m)))

/-- messages a dequeue may offer -/
def mayL (r : Rec) (route target : String) : List Msg :=
  r.before.filter (fun m =>
    C05.dueQueued r route target m || (expired r.now m && C03.matchesReq route target m))

theorem stepOK_dequeue_eq (c : Cfg) (now : Int) (q q' : Q) (route target : String)
    (batch ttl : Int) (ps : List (String × String)) :
    C05.stepOK (modelRec c now q (.dequeue route target batch ttl) (.items ps) q') =
      (let r := modelRec c now q (.dequeue route target batch ttl) (.items ps) q'
       decide (ps.length ≤ effBatch batch) &&
       decide (min (effBatch batch) (mustL r route target).length ≤ ps.length) &&
       decide (ps.length ≤ min (effBatch batch) (mayL r route target).length) &&
       ps.all (fun p => (mayL r route target).any (·.id == p.1)) &&
       (ps.length == effBatch batch ||
         (mustL r route target).all (fun m => ps.any (·.1 == m.id)))) := rfl

theorem C05_dequeue {c : Cfg} {now : Int} {q q' : Q} {route target : String} {batch ttl : Int}
    {ch : Choice} {r : Resp} (hinv : Inv q) (hsweep : 0 ≤ c.sweep)
    (hstep : step c now q (.dequeue route target batch ttl) ch = some (q', r)) :
    C05.stepOK (modelRec c now q (.dequeue route target batch ttl) r q') = true := by
  obtain ⟨q1, hk, hl, rfl⟩ := step_dequeue hstep
  obtain ⟨hsub, hkeep⟩ := housekeep_spec hk
  rw [stepOK_dequeue_eq]
  generalize hR : modelRec c now q (.dequeue route target batch ttl) (.items ch.picks) q' = R
  have hfid : (q.msgs.map (swf c now q.lastSweep)).map (·.id) = q.msgs.map (·.id) := by
    rw [List.map_map]; apply List.map_congr_left; intro m _; exact swf_id ..
  -- the ready messages after housekeeping
  let rdy := q1.msgs.filter (ready now route target)
  have hrdy_nd : (rdy.map (·.id)).Nodup := by
    have h1 : (rdy.map (·.id)).Sublist (q.msgs.map (·.id)) := by
      rw [← hfid]; exact ((List.filter_sublist).trans hsub).map _
    exact hinv.nodup.sublist h1
  have hmust_nd : ((mustL R route target).map (·.id)).Nodup := by
    have h1 : ((mustL R route target).map (·.id)).Sublist (q.msgs.map (·.id)) := by
      subst hR; exact (List.filter_sublist).map _
    exact hinv.nodup.sublist h1
  -- must ⊆ ready
  have hA : ∀ i ∈ (mustL R route target).map (·.id), i ∈ rdy.map (·.id) := by
    intro i hi
    obtain ⟨m, hm, rfl⟩ := List.mem_map.mp hi
    subst hR
    simp only [mustL, modelRec, List.mem_filter, Bool.and_eq_true, Bool.not_eq_true',
      Bool.or_eq_true, C05.dueQueued, beq_iff_eq] at hm
    obtain ⟨hmq, hnp, hcase⟩ := hm
    have hcase' : (m.st = .queued ∧ m.next ≤ now ∧ C03.matchesReq route target m = true) ∨
         (m.st = .leased ∧ m.luntil ≤ now - c.sweep ∧ C03.matchesReq route target m = true) := by
      rcases hcase with ⟨⟨h1, h2⟩, h3⟩ | ⟨⟨h1, h2⟩, h3⟩
      · exact Or.inl ⟨h1, of_decide_eq_true h2, h3⟩
      · exact Or.inr ⟨h1, of_decide_eq_true h2, h3⟩
    have hready := must_ready hinv hsweep hmq hcase'
    have hnd : m.st ≠ .dead := by
      rcases hcase' with ⟨h, _⟩ | ⟨h, _⟩ <;> simp [h]
    have hst : (swf c now q.lastSweep m).st = .queued := by
      simp only [ready, Bool.and_eq_true, beq_iff_eq] at hready
      exact hready.1.1.1
    have hin : swf c now q.lastSweep m ∈ q1.msgs := by
      apply hkeep m hmq hnd (by simp [hst])
      intro hcfg
      have := not_pruneAllowed_deq hnp hcfg
      refine ⟨this.1, ?_⟩
      rcases swf_cases c now q.lastSweep m with h | ⟨he, h⟩
      · rw [h]; exact this.1
      · rw [h]; exact this.2 he
    apply List.mem_map.mpr
    exact ⟨_, List.mem_filter.mpr ⟨hin, hready⟩, swf_id ..⟩
  -- ready ⊆ may
  have hB : ∀ i ∈ rdy.map (·.id), i ∈ (mayL R route target).map (·.id) := by
    intro i hi
    obtain ⟨x, hx, rfl⟩ := List.mem_map.mp hi
    obtain ⟨hx1, hxr⟩ := List.mem_filter.mp hx
    obtain ⟨m, hm, rfl⟩ := List.mem_map.mp (hsub.subset hx1)
    apply List.mem_map.mpr
    refine ⟨m, ?_, (swf_id ..).symm⟩
    subst hR
    simp only [mayL, modelRec, List.mem_filter, Bool.or_eq_true, Bool.and_eq_true,
      C05.dueQueued, beq_iff_eq]
    refine ⟨hm, ?_⟩
    rcases swf_cases c now q.lastSweep m with h | ⟨he, h⟩
    · rw [h] at hxr
      simp only [ready, Bool.and_eq_true, beq_iff_eq, decide_eq_true_eq] at hxr
      left
      refine ⟨⟨hxr.1.1.1, decide_eq_true hxr.2⟩, ?_⟩
      simp only [C03.matchesReq, Bool.and_eq_true]
      exact ⟨hxr.1.1.2, hxr.1.2⟩
    · rw [h] at hxr
      simp only [ready, Bool.and_eq_true, beq_iff_eq, decide_eq_true_eq] at hxr
      right
      refine ⟨he, ?_⟩
      simp only [C03.matchesReq, Bool.and_eq_true]
      exact ⟨hxr.1.1.2, hxr.1.2⟩
  have hlenA := length_le_of_nodup_subset hmust_nd hA
  have hlenB := length_le_of_nodup_subset hrdy_nd hB
  simp only [List.length_map] at hlenA hlenB
  -- the picks
  simp only [legalPicks, Bool.and_eq_true, beq_iff_eq, nodupStr_iff05] at hl
  obtain ⟨⟨⟨hlen, hpnd⟩, _⟩, hpall⟩ := hl
  have hpall' : ∀ p ∈ ch.picks, p.1 ∈ rdy.map (·.id) := by
    intro p hp
    have := (List.all_eq_true.mp hpall) p hp
    simp only [Bool.and_eq_true, List.any_eq_true, beq_iff_eq] at this
    obtain ⟨x, hx, hxe⟩ := this.1.1.1
    exact List.mem_map.mpr ⟨x, hx, hxe⟩
  change ch.picks.length = min (effBatch batch) rdy.length at hlen
  simp only [Bool.and_eq_true, decide_eq_true_eq, Bool.or_eq_true, beq_iff_eq, List.all_eq_true,
    List.any_eq_true]
  refine ⟨⟨⟨⟨?_, ?_⟩, ?_⟩, ?_⟩, ?_⟩
  · omega
  · omega
  · omega
  · intro p hp
    obtain ⟨m, hm, hme⟩ := List.mem_map.mp (hB _ (hpall' p hp))
    exact ⟨m, hm, hme⟩
  · by_cases hb : ch.picks.length = effBatch batch
    · exact Or.inl hb
    · right
      intro m hm
      have hlen' : (rdy.map (·.id)).length ≤ (ch.picks.map (·.1)).length := by
        simp only [List.length_map]; omega
      have hsubset := subset_of_nodup_subset_length hpnd (by
        intro i hi
        obtain ⟨p, hp, rfl⟩ := List.mem_map.mp hi
        exact hpall' p hp) hlen'
      have := hsubset m.id (hA m.id (List.mem_map_of_mem hm))
      obtain ⟨p, hp, hpe⟩ := List.mem_map.mp this
      exact ⟨p, hp, hpe⟩

/-! ### nack -/

theorem find_filterMap {f : Msg → Option Msg} (hf : ∀ x y, f x = some y → y.id = x.id) :
    ∀ {ms : List Msg}, (ms.map (·.id)).Nodup → ∀ m ∈ ms, ∀ m', f m = some m' →
      find (ms.filterMap f) m.id = some m'
  | [], _, m, hm, _, _ => absurd hm (by simp)
  | x :: ms, hnd, m, hm, m', hfm => by
    rw [List.map_cons] at hnd
    have hnd' := List.nodup_cons.mp hnd
    rcases List.mem_cons.mp hm with rfl | hm'
    · simp [find, hfm, hf _ _ hfm]
    · have ih := find_filterMap hf hnd'.2 m hm' m' hfm
      have hne : x.id ≠ m.id := by
        intro h
        exact hnd'.1 (h ▸ List.mem_map_of_mem (f := (·.id)) hm')
      cases hfx : f x with
      | none => simpa [find, List.filterMap_cons, hfx] using ih
      | some y =>
        have : (y.id == m.id) = false := by
          rw [hf _ _ hfx]; simpa using hne
        simpa [find, List.filterMap_cons, hfx, this] using ih

theorem leaseOne_ok {c : Cfg} {now : Int} {k : LeaseKind} {l : String} {ms ms' : List Msg}
    (h : leaseOne c now k l ms = (ms', none)) :
    (∃ m0 ∈ ms, holds l m0 = true) ∧
    ms' = ms.filterMap (fun x => if holds l x then applyLease c now k x else some x) := by
  unfold leaseOne at h
  split at h
  · exact absurd h (by simp)
  · split at h
    · exact absurd h (by simp)
    next m0 hfind =>
      split at h
      · exact absurd h (by simp)
      · injection h with h1 _
        exact ⟨⟨m0, List.mem_of_find?_eq_some hfind, List.find?_some hfind⟩, h1.symm⟩

theorem step_nack {c : Cfg} {now : Int} {q q' : Q} {d : Int} {l0 : String} {ch : Choice} {r : Resp}
    (hstep : step c now q (.lease (.nack d) l0) ch = some (q', r)) :
    ∃ e, leaseOne c now (.nack d) (if c.memory then l0 else trimWS l0) q.msgs = (q'.msgs, e) ∧
      r = (match e with | none => Resp.ok | some e => Resp.err e) := by
  simp only [step] at hstep
  injection hstep with hstep
  injection hstep with h1 h2
  subst h1
  exact ⟨_, rfl, h2.symm⟩

/-- the visibility effect of a successful nack on the message holding lease `l` -/
theorem nack_effect {c : Cfg} {now : Int} {q q' : Q} {d : Int} {l0 : String} {ch : Choice}
    (hinv : Inv q)
    (hstep : step c now q (.lease (.nack d) l0) ch = some (q', .ok)) :
    (∃ m0 ∈ q.msgs, holds (if c.memory then l0 else trimWS l0) m0 = true) ∧
    ∀ m ∈ q.msgs, m.st = .leased → m.lease = (if c.memory then l0 else trimWS l0) →
      ∃ m', find q'.msgs m.id = some m' ∧ m'.st = .queued ∧
        m'.next = now + (if d < 0 then 0 else d) := by
  obtain ⟨e, hone, hr⟩ := step_nack hstep
  cases e with
  | some e => exact absurd hr (by simp)
  | none =>
    obtain ⟨hex, hms⟩ := leaseOne_ok hone
    refine ⟨hex, ?_⟩
    intro m hm hst hl
    have hholds : holds (if c.memory then l0 else trimWS l0) m = true := by
      simp [holds, hst, hl]
    refine ⟨{ m with st := .queued, lease := "", luntil := 0,
                     next := now + (if d < 0 then 0 else d), reason := "" }, ?_, ?_, ?_⟩
    · rw [hms]
      apply find_filterMap _ hinv.nodup m hm
      · rw [if_pos hholds]; rfl
      · intro x y hxy
        by_cases hh : holds (if c.memory then l0 else trimWS l0) x = true
        · rw [if_pos hh] at hxy
          simp only [applyLease] at hxy
          injection hxy with hxy
          subst hxy; rfl
        · rw [if_neg hh] at hxy
          injection hxy with hxy
          subst hxy; rfl
    · rfl
    · rfl

/-- the nack clause of C05, for whichever lease id `l` the backend actually looks up -/
theorem nack_clause {c : Cfg} {now : Int} {q q' : Q} {d : Int} {l0 l : String} {ch : Choice}
    (hinv : Inv q)
    (hstep : step c now q (.lease (.nack d) l0) ch = some (q', .ok))
    (hl : l = (if c.memory then l0 else trimWS l0)) :
    (q.msgs.all (fun m => !(liveLeased now m && m.lease == l) ||
      (match find q'.msgs m.id with
       | some m' => m'.st == .queued && m'.next == now + (if d < 0 then 0 else d)
       | none => false))) = true := by
  obtain ⟨_, heff⟩ := nack_effect hinv hstep
  simp only [List.all_eq_true, Bool.or_eq_true, Bool.not_eq_true', Bool.and_eq_false_iff]
  intro m hm
  by_cases hlive : liveLeased now m = true ∧ m.lease = l
  · right
    have hst : m.st = .leased := by
      have := hlive.1
      simp only [liveLeased, Bool.and_eq_true, beq_iff_eq] at this
      exact this.1
    obtain ⟨m', hfind, hst', hnext⟩ := heff m hm hst (hlive.2.trans hl)
    rw [hfind]
    simp [hst', hnext]
  · left
    by_cases h1 : liveLeased now m = true
    · right
      have : ¬ m.lease = l := fun h => hlive ⟨h1, h⟩
      simpa using this
    · left
      simpa using h1

/-- nack, original predicate: needs the presented id to equal its trimmed form on the memory
    backend whenever the nack succeeds -/
theorem C05_nack {c : Cfg} {now : Int} {q q' : Q} {d : Int} {l0 : String} {ch : Choice} {r : Resp}
    (hinv : Inv q)
    (hl0 : c.memory = true → (∃ m0 ∈ q.msgs, m0.st = .leased ∧ m0.lease = l0) → trimWS l0 = l0)
    (hstep : step c now q (.lease (.nack d) l0) ch = some (q', r)) :
    C05.stepOK (modelRec c now q (.lease (.nack d) l0) r q') = true := by
  cases r with
  | ok =>
    obtain ⟨⟨m0, hm0, hh0⟩, _⟩ := nack_effect hinv hstep
    have hl : trimWS l0 = (if c.memory then l0 else trimWS l0) := by
      by_cases hmem : c.memory = true
      · rw [if_pos hmem]
        rw [if_pos hmem] at hh0
        simp only [holds, Bool.and_eq_true, beq_iff_eq] at hh0
        exact hl0 hmem ⟨m0, hm0, hh0⟩
      · rw [if_neg hmem]
    exact nack_clause hinv hstep hl
  | _ => rfl

/-! ### all operations -/

/-- General form: C05 holds of every model step provided
    * `hsweep`: the sweep granularity is not negative, and
    * `hl0`: on the memory backend (which looks a presented lease id up verbatim, while the predicate
      compares with the trimmed id) a presented id that is currently held equals its trimmed form. -/
theorem C05_model_gen (c : Cfg) (now : Int) (q q' : Q) (op : Op) (ch : Choice) (r : Resp)
    (hinv : Inv q)
    (hsweep : 0 ≤ c.sweep)
    (hl0 : c.memory = true → ∀ d l0, op = .lease (.nack d) l0 →
      (∃ m0 ∈ q.msgs, m0.st = .leased ∧ m0.lease = l0) → trimWS l0 = l0)
    (hstep : step c now q op ch = some (q', r)) :
    C05.stepOK (modelRec c now q op r q') = true := by
  cases op with
  | dequeue route target batch ttl => exact C05_dequeue hinv hsweep hstep
  | lease k l0 =>
    cases k with
    | nack d => exact C05_nack hinv (fun hmem => hl0 hmem d l0 rfl) hstep
    | _ => rfl
  | restart =>
    simp only [step] at hstep
    injection hstep with hstep
    injection hstep with h1 h2
    subst h1
    simp [C05.stepOK, modelRec]
  | _ => rfl

/-- **C05 for the model.**  The statement of `Props/QueueStmts.lean` plus two hypotheses without which
    it is false (`COUNTEREXAMPLE.md`):
    * `hsweep : 0 ≤ c.sweep` (a configuration constraint), and
    * `htrim`: a candidate `Inv` clause – on the memory backend no lease id in use carries
      surrounding blanks (`trimWS` fixes it). -/
theorem C05_model (c : Cfg) (now : Int) (q q' : Q) (op : Op) (ch : Choice) (r : Resp)
    (hinv : Inv q) (_hclock : q.lastSweep ≤ now)
    (hsweep : 0 ≤ c.sweep)
    (htrim : c.memory = true → ∀ m ∈ q.msgs, m.st = .leased → trimWS m.lease = m.lease)
    (hstep : step c now q op ch = some (q', r)) :
    C05.stepOK (modelRec c now q op r q') = true := by
  apply C05_model_gen c now q q' op ch r hinv hsweep _ hstep
  rintro hmem d l0 - ⟨m0, hm0, hst0, rfl⟩
  exact htrim hmem m0 hm0 hst0

/-- Variant: instead of the state hypothesis `htrim`, the client presents trimmed lease ids to the
    memory backend. -/
theorem C05_model_trimmedOp (c : Cfg) (now : Int) (q q' : Q) (op : Op) (ch : Choice) (r : Resp)
    (hinv : Inv q) (_hclock : q.lastSweep ≤ now)
    (hsweep : 0 ≤ c.sweep)
    (hop : c.memory = true → ∀ d l0, op = .lease (.nack d) l0 → trimWS l0 = l0)
    (hstep : step c now q op ch = some (q', r)) :
    C05.stepOK (modelRec c now q op r q') = true :=
  C05_model_gen c now q q' op ch r hinv hsweep (fun hmem d l0 h _ => hop hmem d l0 h) hstep

/-! ### the alternative: correcting the predicate

`C05.stepOK'` is `C05.stepOK` with the nack clause comparing `m.lease` with the id the backend
actually looks up (`l0` verbatim on the memory backend, `trimWS l0` on SQLite). For it only
`0 ≤ c.sweep` is needed. -/


theorem C05_model' (c : Cfg) (now : Int) (q q' : Q) (op : Op) (ch : Choice) (r : Resp)
    (hinv : Inv q) (_hclock : q.lastSweep ≤ now)
    (hsweep : 0 ≤ c.sweep)
    (hstep : step c now q op ch = some (q', r)) :
    C05.stepOK' (modelRec c now q op r q') = true := by
  cases op with
  | lease k l0 =>
    cases k with
    | nack d =>
      cases r with
      | ok => exact nack_clause hinv hstep rfl
      | _ => rfl
    | _ => rfl
  | dequeue route target batch ttl => exact C05_dequeue hinv hsweep hstep
  | restart =>
    simp only [step] at hstep
    injection hstep with hstep
    injection hstep with h1 h2
    subst h1
    simp [C05.stepOK', C05.stepOK, modelRec]
  | _ => rfl

end Hk

#print axioms Hk.C05_model_gen
#print axioms Hk.C05_model_trimmedOp
#print axioms Hk.C05_model'
#print axioms Hk.C05_model
