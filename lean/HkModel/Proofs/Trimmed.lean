import HkModel.Proofs.QueueInv
/-!
  Lease ids stored in the queue never carry surrounding white space, provided the lease ids the
  implementation generates (`Choice.picks`) do not.
-/
namespace Hk

/-- every stored lease id is free of surrounding whitespace -/
def Trimmed (q : Q) : Prop := ∀ m ∈ q.msgs, trimWS m.lease = m.lease
/-- the implementation's generated lease ids carry no surrounding whitespace -/
def ChWF (ch : Choice) : Prop := ∀ p ∈ ch.picks, trimWS p.2 = p.2

namespace PTrim

theorem trimWS_empty : trimWS "" = "" := by
  simp [trimWS]

/-- the pointwise property -/
def T (m : Msg) : Prop := trimWS m.lease = m.lease

theorem T_release (now : Int) (m : Msg) : T (release now m) := trimWS_empty

theorem T_mkMsg (now : Int) (e : Env) : T (mkMsg now e) := trimWS_empty

theorem T_applyLease {c : Cfg} {now : Int} {k : LeaseKind} {m y : Msg} (hm : T m)
    (h : applyLease c now k m = some y) : T y := by
  cases k <;> simp only [applyLease] at h
  · split at h
    · cases h; exact trimWS_empty
    · cases h
  · cases h; exact trimWS_empty
  · cases h; exact hm
  · cases h; exact trimWS_empty

theorem T_operate {now : Int} {k : IdKind} {m y : Msg} (h : operate now k m = some y) : T y := by
  cases k <;> simp only [operate] at h <;> cases h <;> exact trimWS_empty

theorem T_grant {now tt : Int} {picks : List (String × String)} (hp : ∀ p ∈ picks, trimWS p.2 = p.2)
    {m : Msg} (hm : T m) : T (grant now tt picks m) := by
  unfold grant
  cases hl : leaseFor picks m.id with
  | none => exact hm
  | some l =>
    simp only
    split
    · unfold leaseFor at hl
      cases hf : picks.find? (·.1 == m.id) with
      | none => rw [hf] at hl; cases hl
      | some p =>
        rw [hf] at hl
        simp only [Option.map_some, Option.some.injEq] at hl
        subst hl
        exact hp p (List.mem_of_find?_eq_some hf)
    · exact hm

theorem all_prune {c : Cfg} {now : Int} {q q1 : Q} {gone : List String}
    (h : prune c now q gone = some q1) (hq : ∀ m ∈ q.msgs, T m) : ∀ m ∈ q1.msgs, T m := by
  unfold prune at h
  split at h
  · simp only at h
    split at h
    · split at h
      · cases h
        intro m hm
        simp only [removeIds, List.mem_filter] at hm
        exact hq m hm.1.1
      · cases h
    · cases h
      intro m hm
      simp only [List.mem_filter] at hm
      exact hq m hm.1
  · cases h; exact hq

theorem all_sweep (c : Cfg) (now : Int) (q : Q) (hq : ∀ m ∈ q.msgs, T m) :
    ∀ m ∈ (sweep c now q).msgs, T m := by
  unfold sweep
  split
  · intro m hm
    simp only [sweepMsgs, List.mem_map] at hm
    obtain ⟨x, hx, rfl⟩ := hm
    split
    · exact T_release now x
    · exact hq x hx
  · exact hq

theorem all_enqueueCore {c : Cfg} {now : Int} {q q' : Q} {es : List Env} {single : Bool} {ch : Choice}
    {r : Resp} (h : enqueueCore c now q es single ch = some (q', r)) (hq : ∀ m ∈ q.msgs, T m) :
    ∀ m ∈ q'.msgs, T m := by
  have hnew : ∀ m ∈ es.map (mkMsg now), T m := by
    intro m hm
    obtain ⟨e, _, rfl⟩ := List.mem_map.1 hm
    exact T_mkMsg now e
  unfold enqueueCore at h
  dsimp only at h
  generalize needEvict c q.msgs es.length single = need at h
  generalize (if (decide (need > 0) && c.dropOldest) = true then ch.gone else []) = victims at h
  split at h
  · split at h
    · split at h
      · cases h
        intro m hm
        rcases List.mem_append.1 hm with hm | hm
        · simp only [removeIds, List.mem_filter] at hm
          exact hq m hm.1
        · exact hnew m hm
      · cases h
    · cases h
      intro m hm
      rcases List.mem_append.1 hm with hm | hm
      · exact hq m hm
      · exact hnew m hm
  · split at h
    · split at h
      · cases h; exact hq
      · cases h
    · split at h
      · cases h; exact hq
      · cases h

theorem all_leaseOne (c : Cfg) (now : Int) (k : LeaseKind) (l : String) (ms : List Msg)
    (hq : ∀ m ∈ ms, T m) : ∀ m ∈ (leaseOne c now k l ms).1, T m := by
  unfold leaseOne
  split
  · exact hq
  · split
    · exact hq
    · split
      · intro m hm
        simp only [List.mem_map] at hm
        obtain ⟨x, hx, rfl⟩ := hm
        split
        · exact T_release now x
        · exact hq x hx
      · intro m hm
        simp only [List.mem_filterMap] at hm
        obtain ⟨x, hx, hxm⟩ := hm
        split at hxm
        · exact T_applyLease (hq x hx) hxm
        · cases hxm; exact hq _ hx

theorem all_leaseBatchFold (c : Cfg) (now : Int) (k : LeaseKind) (ls : List String) :
    ∀ (ms : List Msg) (n : Nat) (cs : List Conflict), (∀ m ∈ ms, T m) →
      ∀ m ∈ (leaseBatchFold c now k ls ms n cs).1, T m := by
  induction ls with
  | nil => intro ms n cs hq; exact hq
  | cons raw rest ih =>
    intro ms n cs hq
    have hone := all_leaseOne c now k (trimWS raw) ms hq
    simp only [leaseBatchFold]
    split
    · exact ih _ _ _ hq
    · split
      all_goals
        rename_i heq
        rw [heq] at hone
        exact ih _ _ _ hone

theorem all_applyIds (now : Int) (k : IdKind) (ids : List String) (ms : List Msg)
    (hq : ∀ m ∈ ms, T m) : ∀ m ∈ applyIds now k ids ms, T m := by
  intro m hm
  simp only [applyIds, List.mem_filterMap] at hm
  obtain ⟨x, hx, hxm⟩ := hm
  split at hxm
  · exact T_operate hxm
  · cases hxm; exact hq _ hx

theorem withPrune_some {c : Cfg} {now : Int} {q : Q} {ch : Choice} {k : Q → Option (Q × Resp)}
    {x : Q × Resp} (h : withPrune c now q ch k = some x) :
    ∃ q1, prune c now q ch.gone = some q1 ∧ k q1 = some x := by
  unfold withPrune at h
  split at h
  · cases h
  · exact ⟨_, ‹_›, h⟩

end PTrim

open PTrim

theorem trimmed_init : Trimmed {} := by
  intro m hm; cases hm

theorem trimmed_step (c : Cfg) (now : Int) (q q' : Q) (op : Op) (ch : Choice) (r : Resp)
    (ht : Trimmed q) (hch : ChWF ch) (hstep : step c now q op ch = some (q', r)) : Trimmed q' := by
  have hq : ∀ m ∈ q.msgs, T m := ht
  show ∀ m ∈ q'.msgs, T m
  cases op with
  | enqueue e =>
    simp only [step] at hstep
    obtain ⟨q1, hp, hk⟩ := withPrune_some hstep
    exact all_enqueueCore hk (all_prune hp hq)
  | enqueueBatch es =>
    simp only [step] at hstep
    split at hstep
    · cases hstep; exact hq
    · obtain ⟨q1, hp, hk⟩ := withPrune_some hstep
      exact all_enqueueCore hk (all_prune hp hq)
  | dequeue route target batch ttl =>
    simp only [step] at hstep
    split at hstep
    · cases hstep
    next q1 hhk =>
      have h1 : ∀ m ∈ q1.msgs, T m := by
        obtain ⟨q0, hq0, rfl⟩ := Option.map_eq_some_iff.1 hhk
        exact all_sweep c now q0 (all_prune hq0 hq)
      split at hstep
      · cases hstep
        intro m hm
        simp only [List.mem_map] at hm
        obtain ⟨x, hx, rfl⟩ := hm
        exact T_grant hch (h1 x hx)
      · cases hstep
  | lease k l0 =>
    cases k with
    | extend d =>
      simp only [step] at hstep
      split at hstep
      · cases hstep; exact hq
      · have := all_leaseOne c now (.extend d) (if c.memory then l0 else trimWS l0) q.msgs hq
        generalize leaseOne c now (.extend d) (if c.memory then l0 else trimWS l0) q.msgs = p at hstep this
        obtain ⟨ms, e⟩ := p
        cases hstep; exact this
    | ack =>
      simp only [step] at hstep
      have := all_leaseOne c now .ack (if c.memory then l0 else trimWS l0) q.msgs hq
      generalize leaseOne c now .ack (if c.memory then l0 else trimWS l0) q.msgs = p at hstep this
      obtain ⟨ms, e⟩ := p
      cases hstep; exact this
    | nack d =>
      simp only [step] at hstep
      have := all_leaseOne c now (.nack d) (if c.memory then l0 else trimWS l0) q.msgs hq
      generalize leaseOne c now (.nack d) (if c.memory then l0 else trimWS l0) q.msgs = p at hstep this
      obtain ⟨ms, e⟩ := p
      cases hstep; exact this
    | markDead s =>
      simp only [step] at hstep
      have := all_leaseOne c now (.markDead s) (if c.memory then l0 else trimWS l0) q.msgs hq
      generalize leaseOne c now (.markDead s) (if c.memory then l0 else trimWS l0) q.msgs = p at hstep this
      obtain ⟨ms, e⟩ := p
      cases hstep; exact this
  | leaseBatch k ls =>
    simp only [step] at hstep
    have := all_leaseBatchFold c now k ls q.msgs 0 [] hq
    generalize leaseBatchFold c now k ls q.msgs 0 [] = p at hstep this
    obtain ⟨ms, n, cs⟩ := p
    cases hstep; exact this
  | byIds k ids =>
    simp only [step] at hstep
    cases hstep
    exact all_applyIds now k _ q.msgs hq
  | byFilter k f =>
    simp only [step] at hstep
    split at hstep
    · cases hstep; exact hq
    · cases hstep; exact all_applyIds now k _ q.msgs hq
  | list route target state order limit before =>
    simp only [step] at hstep
    obtain ⟨q1, hp, hk⟩ := withPrune_some hstep
    split at hk <;> cases hk <;> exact all_prune hp hq
  | listDead route limit before =>
    simp only [step] at hstep
    obtain ⟨q1, hp, hk⟩ := withPrune_some hstep
    cases hk; exact all_prune hp hq
  | lookup ids =>
    simp only [step] at hstep
    cases hstep; exact hq
  | stats =>
    simp only [step] at hstep
    obtain ⟨q1, hp, hk⟩ := withPrune_some hstep
    cases hk; exact all_prune hp hq
  | restart =>
    simp only [step] at hstep
    cases hstep; exact hq

#print axioms Hk.trimmed_step

end Hk
