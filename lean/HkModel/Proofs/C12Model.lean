import HkModel.Proofs.QueueInv
/-!
  C12 (admission limits, queue part) holds for every step of the model.
-/
set_option linter.unusedSimpArgs false
set_option linter.unusedVariables false
set_option linter.unusedSectionVars false

namespace Hk
namespace P12
open Hk.Obs

/-! ### general list lemmas -/

theorem eq_of_id_eq {ms : List Msg} (hn : (ms.map (·.id)).Nodup) {a b : Msg}
    (ha : a ∈ ms) (hb : b ∈ ms) (h : a.id = b.id) : a = b := by
  induction ms with
  | nil => cases ha
  | cons x xs ih =>
    simp only [List.map_cons, List.nodup_cons, List.mem_map, not_exists, not_and] at hn
    cases ha with
    | head =>
      cases hb with
      | head => rfl
      | tail _ hb => exact absurd h.symm (hn.1 b hb)
    | tail _ ha =>
      cases hb with
      | head => exact absurd h (hn.1 a ha)
      | tail _ hb => exact ih hn.2 ha hb

theorem find_of_mem {ms : List Msg} (hn : (ms.map (·.id)).Nodup) {m : Msg} (hm : m ∈ ms) :
    find ms m.id = some m := by
  unfold find
  cases hf : ms.find? (·.id == m.id) with
  | none =>
    rw [List.find?_eq_none] at hf
    have := hf m hm
    simp at this
  | some x =>
    have hx := List.mem_of_find?_eq_some hf
    have hp := List.find?_some hf
    simp only [beq_iff_eq] at hp
    rw [eq_of_id_eq hn hx hm hp]

theorem find_isSome_iff {ms : List Msg} {i : String} :
    (find ms i).isSome = true ↔ ∃ m ∈ ms, m.id = i := by
  unfold find
  rw [List.find?_isSome]
  simp

theorem find_isNone_iff {ms : List Msg} {i : String} :
    (find ms i).isNone = true ↔ ∀ m ∈ ms, m.id ≠ i := by
  unfold find
  rw [Option.isNone_iff_eq_none, List.find?_eq_none]
  simp

theorem hasId_false_iff {ms : List Msg} {i : String} :
    hasId ms i = false ↔ ∀ m ∈ ms, m.id ≠ i := by
  unfold hasId
  rw [List.any_eq_false]
  simp

theorem isQueued_isActive {m : Msg} (h : isQueued m = true) : isActive m = true := by
  unfold isQueued at h; unfold isActive; simp [h]

theorem isActive_not_isDead {m : Msg} (h : isActive m = true) : isDead m = false := by
  unfold isActive at h; unfold isDead
  cases hs : m.st <;> simp_all

/-! ### the prune keeps every active message that is not age-eligible -/

theorem prune_spec {c : Cfg} {now : Int} {q q1 : Q} {gone : List String}
    (h : prune c now q gone = some q1) :
    ∃ g : Msg → Bool, q1.msgs = q.msgs.filter g ∧
      ∀ m, isActive m = true → g m = false →
        pruneConfigured c = true ∧ ageEligible c now m = true := by
  unfold prune at h
  split at h
  · rename_i hgate
    have hpc : pruneConfigured c = true := by
      unfold gateOpen at hgate
      simp only [Bool.and_eq_true] at hgate
      exact hgate.1
    dsimp only at h
    split at h
    · split at h
      · injection h with h; subst h
        refine ⟨fun m => !ageEligible c now m && !(isDead m && gone.contains m.id), ?_, ?_⟩
        · simp [removeIds, List.filter_filter, Bool.and_comm]
        · intro m ha hg
          refine ⟨hpc, ?_⟩
          simp only [isActive_not_isDead ha, Bool.false_and, Bool.not_false, Bool.and_true,
            Bool.not_eq_false'] at hg
          exact hg
      · cases h
    · injection h with h; subst h
      refine ⟨fun m => !ageEligible c now m, rfl, ?_⟩
      intro m _ hg
      refine ⟨hpc, ?_⟩
      simpa using hg
  · injection h with h; subst h
    exact ⟨fun _ => true, (List.filter_eq_self.2 (by simp)).symm, by intro m _ hg; cases hg⟩

/-! ### enqueue -/

theorem enqueueCore_spec {c : Cfg} {now : Int} {q1 q' : Q} {es : List Env} {single : Bool}
    {ch : Choice} {r : Resp} (h : enqueueCore c now q1 es single ch = some (q', r)) :
    ((∃ e, r = .err e) ∧ q' = q1) ∨
    (r = (if single then .ok else .enqueued es.length) ∧
      ∃ hh : Msg → Bool,
        q'.msgs = q1.msgs.filter hh ++ es.map (mkMsg now) ∧
        (∀ e ∈ es, hasId (q1.msgs.filter hh) e.id = false) ∧
        (∀ m, hh m = false → isQueued m = true) ∧
        (q1.msgs.filter (fun m => !hh m)).length = needEvict c q1.msgs es.length single ∧
        (needEvict c q1.msgs es.length single > 0 → c.dropOldest = true) ∧
        (∀ x ∈ q1.msgs, hh x = false → ∀ s ∈ q1.msgs, isQueued s = true → hh s = true →
          x.recv ≤ s.recv)) := by
  unfold enqueueCore at h
  dsimp only at h
  generalize hneed : needEvict c q1.msgs es.length single = need at h ⊢
  generalize hvict : (if (decide (need > 0) && c.dropOldest) = true then ch.gone else []) = victims at h
  generalize hrsd : refusals c q1.msgs es single victims = rs at h
  by_cases hrs : rs.isEmpty = true
  · rw [if_pos hrs] at h
    subst hrsd
    unfold refusals at hrs
    dsimp only at hrs
    rw [hneed] at hrs
    simp at hrs
    obtain ⟨hfull, _, _, hex⟩ := hrs
    have hnf : ¬ (0 < need ∧ (c.dropOldest = false ∨ countP isQueued q1.msgs < need)) := by
      intro ⟨h0, h1⟩
      have := hfull h0
      rcases h1 with h1 | h1
      · rw [this.1] at h1; cases h1
      · omega
    rw [if_neg hnf] at hex
    right
    have hrem : removeIds isQueued victims q1.msgs =
        q1.msgs.filter (fun m => !(isQueued m && victims.contains m.id)) := rfl
    by_cases hn : need > 0
    · rw [if_pos hn] at h
      split at h
      · rename_i hlegal
        injection h with h; injection h with h1 h2
        have hlegal' := hlegal
        refine ⟨h2.symm, fun m => !(isQueued m && victims.contains m.id), ?_, ?_, ?_, ?_, ?_, ?_⟩
        · rw [← h1, hrem]
        · rw [← hrem]; exact hex
        · intro m hm
          simp only [Bool.not_eq_false', Bool.and_eq_true] at hm
          exact hm.1
        · unfold legalOldest at hlegal
          simp only [Bool.and_eq_true, beq_iff_eq, List.filter_filter] at hlegal
          rw [← hlegal.1]
          simp only [Bool.not_not, Bool.and_comm]
        · intro h0; exact (hfull h0).1
        · intro x hx hhx s hs hsq hhs
          unfold legalOldest at hlegal'
          simp only [Bool.and_eq_true, List.all_eq_true, List.mem_filter, decide_eq_true_eq] at hlegal'
          simp only [Bool.not_eq_false', Bool.and_eq_true] at hhx
          simp only [hsq, Bool.true_and] at hhs
          exact hlegal'.2 x ⟨⟨hx, hhx.1⟩, hhx.2⟩ s ⟨⟨hs, hsq⟩, hhs⟩
      · cases h
    · rw [if_neg hn] at h
      injection h with h; injection h with h1 h2
      have hv : victims = [] := by
        rw [← hvict]; simp [hn]
      subst hv
      have hself : q1.msgs.filter (fun m => !(isQueued m && ([] : List String).contains m.id)) = q1.msgs :=
        List.filter_eq_self.2 (by simp)
      refine ⟨h2.symm, fun m => !(isQueued m && ([] : List String).contains m.id), ?_, ?_, ?_, ?_, ?_, ?_⟩
      · rw [← h1, hself]
      · rw [← hrem]; exact hex
      · intro m hm
        simp at hm
      · have : need = 0 := by omega
        subst this
        simp
      · intro h0; exact absurd h0 hn
      · intro x _ hhx
        simp at hhx
  · rw [if_neg hrs] at h
    left
    split at h
    · split at h
      · injection h with h; injection h with h1 h2
        exact ⟨⟨_, h2.symm⟩, h1.symm⟩
      · cases h
    · split at h
      · injection h with h; injection h with h1 h2
        exact ⟨⟨_, h2.symm⟩, h1.symm⟩
      · cases h

/-! ### the predicate, restated with named parts -/

def vset (r : Rec) : List Msg := r.before.filter (fun m => vanished r m && isActive m)
def eset (r : Rec) : List Msg := (vset r).filter (fun m => !pruneAllowed r m)

def body (r : Rec) : Bool :=
    let k := (envIds r.op).length
    let d := r.cfg.maxDepth
    let a := countP isActive r.before
    let need := a + k - d
    let memDelivered := r.cfg.memory && decide (r.cfg.deliveredRet > 0)
    if k == 0 then r.after == r.before else
    if enqueueOK r then
      (envIds r.op).all (fun i => (find r.after i).isSome) &&
      (if d == 0 then (eset r).isEmpty
       else if r.cfg.dropOldest then
         (eset r).all (fun m => m.st == .queued) &&
         (eset r).all (fun x => (r.before.filter (fun s => s.st == .queued && !vanished r s)).all
           (fun s => decide (x.recv ≤ s.recv))) &&
         (a > d ||
           ((memDelivered || (eset r).length ≤ k) && countP isActive r.after ≤ d && (eset r).length ≤ need + (if memDelivered then (vset r).length else 0) &&
            need ≤ (vset r).length && (memDelivered || (vset r).length == need || (eset r).isEmpty)))
       else (eset r).isEmpty && countP isActive r.after ≤ d)
    else
      isErr r.resp && (eset r).isEmpty && r.after.all (fun m' => find r.before m'.id == some m')

theorem stepOK_enqueue (r : Rec) (e : Env) (h : r.op = .enqueue e) : C12.stepOK r = body r := by
  obtain ⟨cfg, now, before, op, resp, after, items⟩ := r
  cases h
  rfl

theorem stepOK_enqueueBatch (r : Rec) (es : List Env) (h : r.op = .enqueueBatch es) :
    C12.stepOK r = body r := by
  obtain ⟨cfg, now, before, op, resp, after, items⟩ := r
  cases h
  rfl

theorem mem_vset {r : Rec} {m : Msg} :
    m ∈ vset r ↔ m ∈ r.before ∧ vanished r m = true ∧ isActive m = true := by
  unfold vset
  simp only [List.mem_filter, Bool.and_eq_true]

theorem mem_eset {r : Rec} {m : Msg} :
    m ∈ eset r ↔ (m ∈ r.before ∧ vanished r m = true ∧ isActive m = true) ∧ pruneAllowed r m = false := by
  unfold eset
  simp only [List.mem_filter, mem_vset, Bool.not_eq_eq_eq_not, Bool.not_true]

/-! ### refused enqueue -/

theorem body_refused (r : Rec) (g : Msg → Bool) (hn : (r.before.map (·.id)).Nodup)
    (hk : (envIds r.op).length ≠ 0) (hpr : prunes r.op = true)
    (herr : ∃ e, r.resp = .err e) (hafter : r.after = r.before.filter g)
    (hg : ∀ m, isActive m = true → g m = false →
        pruneConfigured r.cfg = true ∧ ageEligible r.cfg r.now m = true) :
    body r = true := by
  obtain ⟨e, he⟩ := herr
  have hok : enqueueOK r = false := by
    unfold enqueueOK
    split <;> simp_all
  unfold body
  dsimp only
  rw [if_neg (by simpa using hk), hok]
  simp only [Bool.false_eq_true, if_false, Bool.and_eq_true]
  refine ⟨⟨by rw [he]; rfl, ?_⟩, ?_⟩
  · rw [List.isEmpty_iff, List.eq_nil_iff_forall_not_mem]
    intro m hm
    rw [mem_eset] at hm
    obtain ⟨⟨hmb, hv, ha⟩, hp⟩ := hm
    unfold vanished at hv
    rw [hok, Bool.false_and, Bool.or_false, find_isNone_iff] at hv
    have hgm : g m = false := by
      cases hgm : g m with
      | false => rfl
      | true =>
        exfalso
        have : m ∈ r.after := by rw [hafter]; exact List.mem_filter.2 ⟨hmb, hgm⟩
        exact hv m this rfl
    have := hg m ha hgm
    unfold pruneAllowed at hp
    rw [hpr, this.1, this.2] at hp
    simp at hp
  · rw [List.all_eq_true]
    intro m' hm'
    rw [hafter] at hm'
    have hmb := (List.mem_filter.1 hm').1
    rw [find_of_mem hn hmb]
    simp

/-! ### accepted enqueue -/

theorem length_filter_split (l : List Msg) (p q : Msg → Bool) :
    (l.filter (fun m => !p m && q m)).length + ((l.filter p).filter q).length =
      (l.filter q).length := by
  induction l with
  | nil => rfl
  | cons x xs ih =>
    cases hp : p x <;> cases hq : q x <;>
      simp only [List.filter_cons, hp, hq, Bool.not_true, Bool.not_false, Bool.and_true,
        Bool.and_false, Bool.true_and, Bool.false_and, if_true, if_false, Bool.false_eq_true,
        List.length_cons] <;> omega

theorem mkMsg_active (now : Int) (es : List Env) :
    countP isActive (es.map (mkMsg now)) = es.length := by
  unfold countP
  rw [List.filter_eq_self.2, List.length_map]
  intro m hm
  obtain ⟨e, _, rfl⟩ := List.mem_map.1 hm
  simp [mkMsg, isActive]

section success
variable (r : Rec) (es : List Env) (g h : Msg → Bool)
  (hn : (r.before.map (·.id)).Nodup)
  (hids : envIds r.op = es.map (·.id))
  (hok : enqueueOK r = true)
  (hafter : r.after = (r.before.filter g).filter h ++ es.map (mkMsg r.now))
  (hex : ∀ e ∈ es, hasId ((r.before.filter g).filter h) e.id = false)
include hn hids hok hafter hex

theorem vanished_eq {m : Msg} (hm : m ∈ r.before) : vanished r m = !(g m && h m) := by
  have hpost : m ∈ (r.before.filter g).filter h ↔ (g m && h m) = true := by
    simp only [List.mem_filter, hm, true_and, Bool.and_eq_true]
  rw [Bool.eq_iff_iff]
  simp only [Bool.not_eq_eq_eq_not, Bool.not_true]
  rw [← Bool.not_eq_true, ← hpost]
  unfold vanished
  rw [hok, Bool.true_and, Bool.or_eq_true, find_isNone_iff, hids]
  constructor
  · intro hv hmp
    rcases hv with hv | hv
    · exact hv m (by rw [hafter]; exact List.mem_append_left _ hmp) rfl
    · rw [List.contains_iff_mem] at hv
      obtain ⟨e, hee, hid⟩ := List.mem_map.1 hv
      exact hasId_false_iff.1 (hex e hee) m hmp hid.symm
  · intro hmp
    by_cases hc : m.id ∈ es.map (·.id)
    · right; rw [List.contains_iff_mem]; exact hc
    · left
      intro m' hm' hid
      rw [hafter] at hm'
      rcases List.mem_append.1 hm' with hm' | hm'
      · have hm'b : m' ∈ r.before := (List.mem_filter.1 (List.mem_filter.1 hm').1).1
        have := eq_of_id_eq hn hm'b hm hid
        subst this
        exact hmp hm'
      · obtain ⟨e, hee, rfl⟩ := List.mem_map.1 hm'
        apply hc
        exact List.mem_map.2 ⟨e, hee, hid⟩

theorem vset_eq : vset r = r.before.filter (fun m => !(g m && h m) && isActive m) := by
  unfold vset
  apply List.filter_congr
  intro m hm
  rw [vanished_eq r es g h hn hids hok hafter hex hm]

variable
  (hpr : prunes r.op = true)
  (hg : ∀ m, isActive m = true → g m = false →
        pruneConfigured r.cfg = true ∧ ageEligible r.cfg r.now m = true)
include hpr hg

theorem eset_sub {m : Msg} (hm : m ∈ eset r) : m ∈ r.before ∧ g m = true ∧ h m = false := by
  rw [mem_eset] at hm
  obtain ⟨⟨hmb, hv, ha⟩, hp⟩ := hm
  rw [vanished_eq r es g h hn hids hok hafter hex hmb] at hv
  have hgm : g m = true := by
    cases hgm : g m with
    | true => rfl
    | false =>
      exfalso
      have := hg m ha hgm
      unfold pruneAllowed at hp
      rw [hpr, this.1, this.2] at hp
      simp at hp
  rw [hgm] at hv
  refine ⟨hmb, hgm, ?_⟩
  simpa using hv

/-- the evicted messages are the oldest queued ones: a definitely-evicted message is no younger than any
    queued message of `before` that survives the step (it survives the prune, so it is one of the
    queued messages of the pruned store the victims were chosen from). -/
theorem eset_oldest
    (hold : ∀ x ∈ r.before.filter g, h x = false → ∀ s ∈ r.before.filter g, isQueued s = true →
        h s = true → x.recv ≤ s.recv)
    {x : Msg} (hx : x ∈ eset r) {s : Msg} (hs : s ∈ r.before) (hsq : (s.st == St.queued) = true)
    (hsv : vanished r s = false) : x.recv ≤ s.recv := by
  obtain ⟨hxb, hgx, hhx⟩ := eset_sub r es g h hn hids hok hafter hex hpr hg hx
  rw [vanished_eq r es g h hn hids hok hafter hex hs] at hsv
  simp only [Bool.not_eq_false', Bool.and_eq_true] at hsv
  exact hold x (List.mem_filter.2 ⟨hxb, hgx⟩) hhx s (List.mem_filter.2 ⟨hs, hsv.1⟩) hsq hsv.2

variable (single : Bool)
  (hq : ∀ m, h m = false → isQueued m = true)
  (hneed : ((r.before.filter g).filter (fun m => !h m)).length =
      needEvict r.cfg (r.before.filter g) es.length single)
include hq hneed

theorem counts :
    (vset r).length + countP isActive ((r.before.filter g).filter h) = countP isActive r.before ∧
    countP isActive ((r.before.filter g).filter h) +
        needEvict r.cfg (r.before.filter g) es.length single =
      countP isActive (r.before.filter g) ∧
    countP isActive (r.before.filter g) ≤ countP isActive r.before ∧
    countP isActive r.after = countP isActive ((r.before.filter g).filter h) + es.length ∧
    (eset r).length ≤ needEvict r.cfg (r.before.filter g) es.length single ∧
    (eset r).length ≤ (vset r).length := by
  refine ⟨?_, ?_, ?_, ?_, ?_, ?_⟩
  · rw [vset_eq r es g h hn hids hok hafter hex]
    have := length_filter_split r.before (fun m => g m && h m) isActive
    have hpe : (r.before.filter g).filter h = r.before.filter (fun m => g m && h m) := by
      rw [List.filter_filter]
      apply List.filter_congr
      intro m _
      exact Bool.and_comm _ _
    unfold countP
    rw [hpe]
    exact this
  · have := length_filter_split (r.before.filter g) h isActive
    have he : (r.before.filter g).filter (fun m => !h m && isActive m) =
        (r.before.filter g).filter (fun m => !h m) := by
      apply List.filter_congr
      intro m _
      cases hh : h m with
      | true => simp
      | false => simp [isQueued_isActive (hq m hh)]
    rw [he, hneed] at this
    unfold countP
    omega
  · have := length_filter_split r.before g isActive
    unfold countP
    omega
  · rw [hafter]
    have := mkMsg_active r.now es
    unfold countP at this ⊢
    rw [List.filter_append, List.length_append, this]
  · rw [← hneed]
    have h1 : ∀ l : List Msg, ∀ p q : Msg → Bool, (∀ x ∈ l, p x = true → q x = true) →
        (l.filter p).length ≤ (l.filter q).length := by
      intro l p q hpq
      rw [← List.countP_eq_length_filter, ← List.countP_eq_length_filter]
      exact List.countP_mono_left hpq
    have h2 : (eset r).length ≤ ((eset r).filter (fun m => g m && !h m)).length := by
      rw [List.filter_eq_self.2]
      · exact Nat.le_refl _
      · intro m hm
        have := eset_sub r es g h hn hids hok hafter hex hpr hg hm
        simp [this.2.1, this.2.2]
    refine Nat.le_trans h2 ?_
    unfold eset vset
    simp only [List.filter_filter]
    apply h1
    intro m _ hm
    simp only [Bool.and_eq_true] at hm ⊢
    exact ⟨hm.1.2, hm.1.1⟩
  · unfold eset
    exact List.length_filter_le _ _

variable
  (hdrop : needEvict r.cfg (r.before.filter g) es.length single > 0 → r.cfg.dropOldest = true)
  (hsingle : single = true → es.length = 1) (hes : es ≠ [])
  (hold : ∀ x ∈ r.before.filter g, h x = false → ∀ s ∈ r.before.filter g, isQueued s = true →
      h s = true → x.recv ≤ s.recv)
include hdrop hsingle hes hold

theorem body_success : body r = true := by
  obtain ⟨hc1, hc2, hc3, hc4, hc5, hc6⟩ :=
    counts r es g h hn hids hok hafter hex hpr hg single hq hneed
  have hklen : (envIds r.op).length = es.length := by rw [hids, List.length_map]
  have hkpos : 0 < es.length := List.length_pos_iff.2 hes
  have hall : (envIds r.op).all (fun i => (find r.after i).isSome) = true := by
    rw [List.all_eq_true, hids]
    intro i hi
    obtain ⟨e, hee, rfl⟩ := List.mem_map.1 hi
    rw [find_isSome_iff]
    exact ⟨mkMsg r.now e, by rw [hafter]; exact List.mem_append_right _ (List.mem_map.2 ⟨e, hee, rfl⟩), rfl⟩
  have hqueued : (eset r).all (fun m => m.st == .queued) = true := by
    rw [List.all_eq_true]
    intro m hm
    have := eset_sub r es g h hn hids hok hafter hex hpr hg hm
    exact hq m this.2.2
  have holdest : (eset r).all (fun x =>
      (r.before.filter (fun s => s.st == .queued && !vanished r s)).all
        (fun s => decide (x.recv ≤ s.recv))) = true := by
    rw [List.all_eq_true]
    intro x hx
    rw [List.all_eq_true]
    intro s hs
    obtain ⟨hsb, hsp⟩ := List.mem_filter.1 hs
    simp only [Bool.and_eq_true, Bool.not_eq_true'] at hsp
    exact decide_eq_true (eset_oldest r es g h hn hids hok hafter hex hpr hg hold hx hsb hsp.1 hsp.2)
  have hempty : (eset r).isEmpty = true ↔ (eset r).length = 0 := by
    rw [List.isEmpty_iff, List.length_eq_zero_iff]
  unfold body
  dsimp only
  rw [if_neg (by rw [hklen]; simp; omega), if_pos hok, hall, Bool.true_and, hklen, hqueued, Bool.true_and,
    holdest, Bool.true_and]
  unfold needEvict at hc2 hc5 hdrop
  dsimp only at hc2 hc5 hdrop
  rw [hc4]
  clear hc4 hall hqueued holdest hold hklen hes hneed hq hg hpr hex hafter hok hids hn
  generalize countP isActive r.before = a at *
  generalize countP isActive (List.filter h (List.filter g r.before)) = ap at *
  generalize countP isActive (List.filter g r.before) = a1 at *
  generalize countP (fun m => isActive m || m.st == St.delivered) (List.filter g r.before) = X at *
  generalize (vset r).length = V at *
  generalize (eset r).length = E at *
  generalize (eset r).isEmpty = EE at *
  generalize es.length = k at *
  generalize r.cfg.maxDepth = d at *
  generalize r.cfg.memory = mem at *
  generalize r.cfg.dropOldest = dro at *
  generalize r.cfg.deliveredRet = dr at *
  by_cases hd : d = 0
  · subst hd
    simp at hc5 ⊢
    rw [hempty]; omega
  · have hd' : (d == 0) = false := by simpa using hd
    simp only [hd', Bool.false_eq_true, if_false] at *
    have hEE : EE = decide (E = 0) := by
      rw [Bool.eq_iff_iff]; simp [hempty]
    subst hEE
    clear hempty hd'
    generalize hN : (if mem = true then max (a1 + k - d) (if dr > 0 then X + k - d else 0)
      else a1 + k - d) = N at *
    have hNspec : (mem = true → N ≥ a1 + k - d ∧ (¬ dr > 0 → N = a1 + k - d)) ∧
        (mem = false → N = a1 + k - d) := by
      subst hN
      refine ⟨?_, ?_⟩
      · intro hm
        simp only [hm, if_true]
        refine ⟨by omega, ?_⟩
        intro hdr
        simp only [hdr, if_false]
        omega
      · intro hm
        simp only [hm, if_false, Bool.false_eq_true]
    clear hN
    obtain ⟨hN1, hN3⟩ := hNspec
    cases dro <;> cases mem <;> cases single <;> by_cases hdr : dr > 0 <;>
      simp [hdr] at hN1 hN3 hdrop hsingle ⊢ <;> omega

end success

/-! ### assembling -/

theorem C12_enqueue_common (c : Cfg) (now : Int) (q q' : Q) (es : List Env) (single : Bool)
    (ch : Choice) (resp : Resp) (op : Op) (hinv : Inv q)
    (hop : (∃ e, op = .enqueue e ∧ es = [e] ∧ single = true) ∨
           (op = .enqueueBatch es ∧ single = false ∧ es ≠ []))
    (hstep : withPrune c now q ch (fun q1 => enqueueCore c now q1 es single ch) = some (q', resp)) :
    C12.stepOK (modelRec c now q op resp q') = true := by
  have hes : es ≠ [] := by
    rcases hop with ⟨e, _, rfl, _⟩ | ⟨_, _, h⟩
    · simp
    · exact h
  have hsingle : single = true → es.length = 1 := by
    rcases hop with ⟨e, _, rfl, _⟩ | ⟨_, h, _⟩
    · intro _; rfl
    · intro h'; rw [h] at h'; cases h'
  have hbody : C12.stepOK (modelRec c now q op resp q') = body (modelRec c now q op resp q') := by
    rcases hop with ⟨e, h, _, _⟩ | ⟨h, _, _⟩
    · exact stepOK_enqueue _ e (by rw [h]; rfl)
    · exact stepOK_enqueueBatch _ es (by rw [h]; rfl)
  have hids : envIds (modelRec c now q op resp q').op = es.map (·.id) := by
    rcases hop with ⟨e, h, rfl, _⟩ | ⟨h, _, _⟩ <;> rw [h] <;> rfl
  have hpr : prunes (modelRec c now q op resp q').op = true := by
    rcases hop with ⟨e, h, _, _⟩ | ⟨h, _, _⟩ <;> rw [h] <;> rfl
  rw [hbody]
  unfold withPrune at hstep
  split at hstep
  · cases hstep
  · rename_i q1 hprune
    obtain ⟨g, hq1, hg⟩ := prune_spec hprune
    rcases enqueueCore_spec hstep with ⟨herr, rfl⟩ | ⟨hr, hh, hafter, hex, hq, hneed, hdrop, hold⟩
    · refine body_refused _ g hinv.nodup ?_ hpr herr hq1 hg
      rw [hids, List.length_map]
      exact fun h0 => hes (List.length_eq_zero_iff.1 h0)
    · rw [hq1] at hafter hex hneed hdrop hold
      refine body_success _ es g hh hinv.nodup hids ?_ hafter hex hpr hg single hq hneed hdrop
        hsingle hes hold
      rcases hop with ⟨e, h, _, hs⟩ | ⟨h, hs, _⟩
      · subst h hs hr; rfl
      · subst h hs hr
        have : 0 < es.length := List.length_pos_iff.2 hes
        simp [enqueueOK, modelRec, this]

theorem C12_model (c : Cfg) (now : Int) (q q' : Q) (op : Op) (ch : Choice) (r : Resp)
    (hinv : Inv q) (hstep : step c now q op ch = some (q', r)) :
    C12.stepOK (modelRec c now q op r q') = true := by
  cases op with
  | enqueue e =>
    unfold step at hstep
    exact C12_enqueue_common c now q q' [e] true ch r _ hinv (Or.inl ⟨e, rfl, rfl, rfl⟩) hstep
  | enqueueBatch es =>
    unfold step at hstep
    dsimp only at hstep
    split at hstep
    · rename_i hempty
      injection hstep with hstep; injection hstep with h1 h2
      subst h1 h2
      rw [List.isEmpty_iff] at hempty
      subst hempty
      simp [C12.stepOK, modelRec, envIds]
    · rename_i hne
      refine C12_enqueue_common c now q q' es false ch r _ hinv (Or.inr ⟨rfl, rfl, ?_⟩) hstep
      intro h0; apply hne; rw [h0]; rfl
  | _ => rfl

#print axioms Hk.P12.C12_model

/-! ### non-vacuity of the "evicted messages are the oldest queued ones" clause -/

def nvMsg (i : String) (recv : Int) : Msg :=
  { id := i, route := "/r", target := "pull", st := .queued, recv := recv, next := recv, attempt := 0,
    payload := "", headers := "", trace := "", reason := "", lease := "", luntil := 0 }
def nvEnv (i : String) : Env := { id := i, route := "/r", target := "pull" }
def nvCfg : Cfg := { maxDepth := 2, dropOldest := true }
def nvQ : Q := { msgs := [nvMsg "a" 1, nvMsg "b" 2] }
def nvRec (c : Cfg) (before : List Msg) (op : Op) (resp : Resp) (after : List Msg) : Rec :=
  { cfg := c, now := 10, before := before, op := op, resp := resp, after := after }

/-- the model's own drop_oldest step: "a" (the oldest) is evicted to make room for "c" … -/
example : (step nvCfg 10 nvQ (.enqueue (nvEnv "c")) { gone := ["a"] }).map (fun p => (p.1.msgs, p.2)) =
    some ([nvMsg "b" 2, nvMsg "c" 10], .ok) := by decide
/-- … its record satisfies `C12.stepOK`, with a non-empty set of definitely-evicted messages; -/
example :
    let r := nvRec nvCfg nvQ.msgs (.enqueue (nvEnv "c")) .ok [nvMsg "b" 2, nvMsg "c" 10]
    C12.stepOK r = true ∧ eset r = [nvMsg "a" 1] := by decide
/-- the wrong victim (the younger "b" evicted while the older "a" survives) is rejected, -/
example :
    let r := nvRec nvCfg nvQ.msgs (.enqueue (nvEnv "c")) .ok [nvMsg "a" 1, nvMsg "c" 10]
    C12.stepOK r = false ∧ eset r = [nvMsg "b" 2] := by decide
/-- the model refuses to make that choice, -/
example : step nvCfg 10 nvQ (.enqueue (nvEnv "c")) { gone := ["b"] } = none := by decide
/-- and it is the age that decides: between equally old messages either victim is accepted. -/
example :
    let r := nvRec nvCfg [nvMsg "a" 1, nvMsg "b" 1] (.enqueue (nvEnv "c")) .ok [nvMsg "a" 1, nvMsg "c" 10]
    C12.stepOK r = true ∧ eset r = [nvMsg "b" 1] := by decide
/-- The same for a batch: two stored, the two oldest of three evicted; evicting "a" and "c" while "b"
    survives is rejected. -/
example :
    let c : Cfg := { maxDepth := 3, dropOldest := true }
    let before := [nvMsg "a" 1, nvMsg "b" 2, nvMsg "c" 3]
    let op := Op.enqueueBatch [nvEnv "d", nvEnv "e"]
    (step c 10 { msgs := before } op { gone := ["a", "b"] }).map (fun p => (p.1.msgs, p.2)) =
      some ([nvMsg "c" 3, nvMsg "d" 10, nvMsg "e" 10], .enqueued 2) ∧
    C12.stepOK (nvRec c before op (.enqueued 2) [nvMsg "c" 3, nvMsg "d" 10, nvMsg "e" 10]) = true ∧
    (eset (nvRec c before op (.enqueued 2) [nvMsg "c" 3, nvMsg "d" 10, nvMsg "e" 10])).length = 2 ∧
    C12.stepOK (nvRec c before op (.enqueued 2) [nvMsg "b" 2, nvMsg "d" 10, nvMsg "e" 10]) = false ∧
    step c 10 { msgs := before } op { gone := ["a", "c"] } = none := by decide

end P12
end Hk
