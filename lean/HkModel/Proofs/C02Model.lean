import HkModel.Proofs.QueueInv
/-!
  C02 (conservation and legal transitions) for every step of the queue model.

  The statement in `Props/QueueStmts.lean` is false as it stands (see `COUNTEREXAMPLE.md`,
  `Proofs/C02Cex.lean`).  Proved here:
  * `Hk.C02_model'` : `C02.stepOK'` (eviction clause of `disappearOK` corrected), extra hypotheses
    `hTrim`, `hExt`, `hDel`;
  * `Hk.C02_model`  : `C02.stepOK` exactly as given, extra hypotheses `hTrim`, `hExt`, `hDel`, `hFresh`.
-/
namespace Hk
open Hk.Obs

/-! ### generic list facts -/

theorem nodupStr_iff02 (l : List String) : nodupStr l = true ↔ l.Nodup := by
  induction l with
  | nil => simp [nodupStr]
  | cons x xs ih => simp [nodupStr, ih, List.nodup_cons]

theorem ids_filterMap_sublist (g : Msg → Option Msg) (hg : ∀ x y, g x = some y → y.id = x.id)
    (ms : List Msg) : ((ms.filterMap g).map (·.id)).Sublist (ms.map (·.id)) := by
  induction ms with
  | nil => simp
  | cons x xs ih =>
    cases h : g x with
    | none => simp only [List.filterMap_cons, h, List.map_cons]; exact ih.cons _
    | some y =>
      simp only [List.filterMap_cons, h, List.map_cons]
      rw [hg x y h]; exact ih.cons_cons _

theorem find_none_of_not_mem (ms : List Msg) (i : String) (h : i ∉ ms.map (·.id)) :
    Obs.find ms i = none := by
  unfold Obs.find
  rw [List.find?_eq_none]
  intro x hx hxi
  apply h
  simp only [beq_iff_eq] at hxi
  exact List.mem_map.2 ⟨x, hx, hxi⟩

theorem find_of_mem02 (ms : List Msg) (hnd : (ms.map (·.id)).Nodup) (m : Msg) (hm : m ∈ ms) :
    Obs.find ms m.id = some m := by
  induction ms with
  | nil => cases hm
  | cons x xs ih =>
    simp only [List.map_cons, List.nodup_cons] at hnd
    rcases List.mem_cons.1 hm with rfl | hm'
    · simp [Obs.find]
    · have hne : x.id ≠ m.id := by
        intro he; apply hnd.1; rw [he]; exact List.mem_map.2 ⟨m, hm', rfl⟩
      have := ih hnd.2 hm'
      simp only [Obs.find] at this ⊢
      rw [List.find?_cons_of_neg]
      · exact this
      · simpa using hne

theorem find_some_mem {ms : List Msg} {i : String} {m : Msg} (h : Obs.find ms i = some m) :
    m ∈ ms ∧ m.id = i := by
  unfold Obs.find at h
  refine ⟨List.mem_of_find?_eq_some h, ?_⟩
  have := List.find?_some h
  simpa using this

theorem find_filterMap02 (g : Msg → Option Msg) (hg : ∀ x y, g x = some y → y.id = x.id)
    (ms : List Msg) (hnd : (ms.map (·.id)).Nodup) (m : Msg) (hm : m ∈ ms) :
    Obs.find (ms.filterMap g) m.id = g m := by
  cases h : g m with
  | some y =>
    have hy : y ∈ ms.filterMap g := List.mem_filterMap.2 ⟨m, hm, h⟩
    have hnd' : ((ms.filterMap g).map (·.id)).Nodup := (ids_filterMap_sublist g hg ms).nodup hnd
    have := find_of_mem02 _ hnd' y hy
    rwa [hg m y h] at this
  | none =>
    apply find_none_of_not_mem
    intro hmem
    rcases List.mem_map.1 hmem with ⟨y, hy, hyid⟩
    rcases List.mem_filterMap.1 hy with ⟨x, hx, hxy⟩
    have hxid : x.id = m.id := by rw [← hg x y hxy, hyid]
    have hxm : x = m := by
      have h1 := find_of_mem02 ms hnd x hx
      have h2 := find_of_mem02 ms hnd m hm
      rw [hxid] at h1; rw [h1] at h2; exact Option.some.inj h2
    rw [hxm, h] at hxy; cases hxy

theorem find_append (a b : List Msg) (i : String) :
    Obs.find (a ++ b) i = (Obs.find a i).or (Obs.find b i) := by
  simp [Obs.find, List.find?_append]

/-! ### the predicate, parametrised by the "legal cause of disappearance" clause -/

namespace Obs.C02

theorem stepOK_eq (r : Rec) : stepOK r = stepOKWith disappearOK r := rfl

end Obs.C02

/-- Reduction of the predicate to pointwise facts about a representation
    `after = before.filterMap g ++ new`. -/
theorem stepOKWith_of (D : Rec → Msg → Bool) (r : Rec) (g : Msg → Option Msg) (new : List Msg)
    (hnd : (r.before.map (·.id)).Nodup)
    (hafter : r.after = r.before.filterMap g ++ new)
    (hg : ∀ x y, g x = some y → y.id = x.id)
    (hnew_nd : (new.map (·.id)).Nodup)
    (hdisj : ∀ n ∈ new, ∀ y ∈ r.before.filterMap g, n.id ≠ y.id)
    (hnewq : ∀ n ∈ new, enqueueOK r = true ∧ (envIds r.op).contains n.id = true ∧ n.st = .queued)
    (hold : ∀ y ∈ r.before.filterMap g, ¬ (enqueueOK r = true ∧ (envIds r.op).contains y.id = true))
    (htrans : ∀ m ∈ r.before, ∀ m', g m = some m' → C02.legalTrans r m m' = true)
    (hgone : ∀ m ∈ r.before, g m = none → D r m = true)
    (herr : isErr r.resp = true → new = [] ∧ ∀ m ∈ r.before,
      match g m with
      | some m' => m' = m ∨ (expired r.now m = true ∧ m' = release r.now m)
      | none => pruneAllowed r m = true) :
    C02.stepOKWith D r = true := by
  have hndF : ((r.before.filterMap g).map (·.id)).Nodup := (ids_filterMap_sublist g hg _).nodup hnd
  have hfindA : ∀ m ∈ r.before, Obs.find r.after m.id = (g m).or (Obs.find new m.id) := by
    intro m hm
    rw [hafter, find_append, find_filterMap02 g hg _ hnd m hm]
  -- a survivor is not "vanished"
  have hnotvan : ∀ m ∈ r.before, ∀ y, g m = some y → vanished r m = false := by
    intro m hm y hy
    have hyF : y ∈ r.before.filterMap g := List.mem_filterMap.2 ⟨m, hm, hy⟩
    have h1 := hold y hyF
    rw [hg m y hy] at h1
    unfold vanished
    rw [hfindA m hm, hy]
    cases h2 : enqueueOK r <;> cases h3 : (envIds r.op).contains m.id <;> simp_all
  unfold C02.stepOKWith
  simp only [Bool.and_eq_true]
  refine ⟨⟨⟨?_, ?_⟩, ?_⟩, ?_⟩
  · -- distinct ids afterwards
    unfold C02.nodupIds
    rw [nodupStr_iff02, hafter, List.map_append, List.nodup_append]
    refine ⟨hndF, hnew_nd, ?_⟩
    intro a ha b hb
    rcases List.mem_map.1 ha with ⟨y, hy, rfl⟩
    rcases List.mem_map.1 hb with ⟨n, hn, rfl⟩
    exact fun h => hdisj n hn y hy h.symm
  · rw [List.all_eq_true]
    intro m' hm'
    rw [hafter, List.mem_append] at hm'
    rcases hm' with hm' | hm'
    · rcases List.mem_filterMap.1 hm' with ⟨m, hm, hgm⟩
      have hid := hg m m' hgm
      rw [hid, find_of_mem02 _ hnd m hm]
      simp only [hnotvan m hm m' hgm]
      exact htrans m hm m' hgm
    · obtain ⟨h1, h2, h3⟩ := hnewq m' hm'
      cases hf : Obs.find r.before m'.id with
      | none => simp only [h1, h2, h3]; rfl
      | some m =>
        have hmid := (find_some_mem hf).2
        have : vanished r m = true := by
          unfold vanished; rw [hmid, h1, h2]; simp
        simp [this, h3]
  · rw [List.all_eq_true]
    intro m hm
    cases hgm : g m with
    | some y => simp [hnotvan m hm y hgm]
    | none => simp [hgone m hm hgm]
  · cases hE : isErr r.resp with
    | false => simp
    | true =>
      obtain ⟨hnew, hall⟩ := herr hE
      subst hnew
      simp only [List.append_nil] at hafter
      simp only [Bool.not_true, Bool.false_or, Bool.and_eq_true, List.all_eq_true]
      refine ⟨?_, ?_⟩
      · intro m' hm'
        rw [hafter] at hm'
        rcases List.mem_filterMap.1 hm' with ⟨m, hm, hgm⟩
        rw [hg m m' hgm, find_of_mem02 _ hnd m hm]; rfl
      · intro m hm
        have := hall m hm
        rw [hafter, find_filterMap02 g hg _ hnd m hm]
        cases hgm : g m with
        | none => rw [hgm] at this; simpa using this
        | some y =>
          rw [hgm] at this
          simp only at this ⊢
          rcases this with h | ⟨h1, h2⟩
          · simp [h]
          · simp [h1, h2]

/-- the common case: nothing new is stored -/
theorem stepOKWith_of_filterMap (D : Rec → Msg → Bool) (r : Rec) (g : Msg → Option Msg)
    (hnd : (r.before.map (·.id)).Nodup)
    (hafter : r.after = r.before.filterMap g)
    (hg : ∀ x y, g x = some y → y.id = x.id)
    (hE : enqueueOK r = false)
    (htrans : ∀ m ∈ r.before, ∀ m', g m = some m' → C02.legalTrans r m m' = true)
    (hgone : ∀ m ∈ r.before, g m = none → D r m = true)
    (herr : isErr r.resp = true → ∀ m ∈ r.before,
      match g m with
      | some m' => m' = m ∨ (expired r.now m = true ∧ m' = release r.now m)
      | none => pruneAllowed r m = true) :
    C02.stepOKWith D r = true := by
  apply stepOKWith_of D r g [] hnd (by simpa using hafter) hg (by simp) (by simp) (by simp)
    (by intro y _; simp [hE]) htrans hgone
  intro h; exact ⟨rfl, herr h⟩

/-! ### the retention prune -/

theorem countP_eq (p : Msg → Bool) (ms : List Msg) : countP p ms = List.countP p ms := by
  simp [countP, List.countP_eq_length_filter]

/-- why the prune removed `m` (`ms` ↦ `ms'`) -/
def PruneWhy (c : Cfg) (now : Int) (ms ms' : List Msg) (m : Msg) : Prop :=
  pruneConfigured c = true ∧
  (ageEligible c now m = true ∨
   (m.st = .dead ∧ c.dlqDepth > 0 ∧ countP isDead ms > c.dlqDepth ∧ countP isDead ms' ≥ c.dlqDepth ∧
     ∀ s ∈ ms', s.st = .dead → m.recv ≤ s.recv))

theorem legalOldest_spec {p : Msg → Bool} {ms : List Msg} {victims : List String} {n : Nat}
    (h : legalOldest p ms victims n = true) :
    countP p (removeIds p victims ms) + n = countP p ms ∧
    ∀ v ∈ ms, p v = true → victims.contains v.id = true →
      ∀ s ∈ removeIds p victims ms, p s = true → v.recv ≤ s.recv := by
  unfold legalOldest at h
  simp only [Bool.and_eq_true, beq_iff_eq, List.all_eq_true, decide_eq_true_eq] at h
  obtain ⟨hlen, hall⟩ := h
  constructor
  · have h1 := List.length_eq_countP_add_countP (fun m => victims.contains m.id) (l := ms.filter p)
    rw [← hlen]
    simp only [countP, removeIds, List.filter_filter]
    rw [List.countP_eq_length_filter, List.countP_eq_length_filter] at h1
    simp only [List.filter_filter] at h1
    rw [h1, Nat.add_comm]
    congr 2
    apply List.filter_congr
    intro x _
    cases p x <;> cases victims.contains x.id <;> rfl
  · intro v hv hpv hvv s hs hps
    apply hall v
    · simp only [List.mem_filter]; exact ⟨⟨hv, hpv⟩, hvv⟩
    · simp only [removeIds, List.mem_filter] at hs
      simp only [List.mem_filter]
      refine ⟨⟨hs.1, hps⟩, ?_⟩
      have := hs.2
      rw [hps] at this
      simpa using this

theorem prune_spec02 {c : Cfg} {now : Int} {q : Q} {gone : List String} {q1 : Q}
    (h : prune c now q gone = some q1) :
    ∃ keep : Msg → Bool, q1.msgs = q.msgs.filter keep ∧
      ∀ m ∈ q.msgs, keep m = false → PruneWhy c now q.msgs q1.msgs m := by
  unfold prune at h
  split at h
  next hgate =>
    have hcfg : pruneConfigured c = true := by
      unfold gateOpen at hgate
      simp only [Bool.and_eq_true] at hgate
      exact hgate.1
    simp only at h
    split at h
    next hdepth =>
      split at h
      next hlegal =>
        simp only [Option.some.injEq] at h
        subst h
        refine ⟨fun m => !(isDead m && gone.contains m.id) && !ageEligible c now m, ?_, ?_⟩
        · simp only [removeIds, List.filter_filter]
        · intro m hm hk
          refine ⟨hcfg, ?_⟩
          cases hage : ageEligible c now m with
          | true => exact Or.inl rfl
          | false =>
            right
            simp only [hage, Bool.not_false, Bool.and_true, Bool.not_eq_eq_eq_not, Bool.not_false,
              Bool.and_eq_true] at hk
            obtain ⟨hd, hv⟩ := hk
            have hm1 : m ∈ q.msgs.filter (fun m => !ageEligible c now m) := by
              simp [List.mem_filter, hm, hage]
            obtain ⟨hcnt, hold⟩ := legalOldest_spec hlegal
            simp only [Bool.and_eq_true, decide_eq_true_eq] at hdepth
            have hle : countP isDead (q.msgs.filter (fun m => !ageEligible c now m)) ≤ countP isDead q.msgs := by
              rw [countP_eq, countP_eq, List.countP_filter]
              apply List.countP_mono_left
              intro x _ hx
              simp only [Bool.and_eq_true] at hx
              exact hx.1
            refine ⟨by simpa [isDead] using hd, hdepth.1, by omega, ?_, ?_⟩
            · simp only; omega
            · intro s hs hsd
              exact hold m hm1 hd hv s hs (by simpa [isDead] using hsd)
      next => cases h
    next hdepth =>
      simp only [Option.some.injEq] at h
      subst h
      refine ⟨fun m => !ageEligible c now m, rfl, ?_⟩
      intro m _ hk
      exact ⟨hcfg, Or.inl (by simpa using hk)⟩
  next =>
    simp only [Option.some.injEq] at h
    subst h
    refine ⟨fun _ => true, ?_, ?_⟩
    · exact (List.filter_eq_self.2 (fun _ _ => rfl)).symm
    · intro m _ hk; cases hk

theorem filter_eq_filterMap (p : Msg → Bool) (ms : List Msg) :
    ms.filter p = ms.filterMap (fun x => if p x then some x else none) := by
  induction ms with
  | nil => rfl
  | cons x xs ih => cases h : p x <;> simp [h, ih]

theorem map_eq_filterMap02 (f : Msg → Msg) (ms : List Msg) :
    ms.map f = ms.filterMap (fun x => some (f x)) := by
  induction ms with
  | nil => rfl
  | cons x xs ih => simp only [List.map_cons, List.filterMap_cons, ih]

/-! ### the disappearance clause with the eviction disjunct as a parameter -/

namespace Obs.C02

def evictOK (r : Rec) (m : Msg) : Bool :=
  (m.st == .queued && r.cfg.dropOldest && r.cfg.maxDepth > 0 && enqueueOK r &&
    r.after.all (fun s => !(s.st == .queued) || !(r.before.any (· == s)) || decide (m.recv ≤ s.recv)))

def evictOK' (r : Rec) (m : Msg) : Bool :=
  (m.st == .queued && r.cfg.dropOldest && r.cfg.maxDepth > 0 && enqueueOK r &&
    r.after.all (fun s => !(s.st == .queued) || !(r.before.any (· == s)) || (envIds r.op).contains s.id ||
      decide (m.recv ≤ s.recv)))

def disappearWith (E : Rec → Msg → Bool) (r : Rec) (m : Msg) : Bool :=
  (liveLeased r.now m && (presented r.op).contains m.lease && !decide (r.cfg.deliveredRet > 0) &&
    (match leaseKind? r.op with | some .ack => true | _ => false)) ||
  (m.st == .dead && (match r.op with | .byIds .deleteDead ids => (normIds ids).contains m.id | _ => false)) ||
  pruneAllowed r m ||
  E r m

theorem disappearOK_eq : disappearOK = disappearWith evictOK := rfl
theorem disappearOK'_eq : disappearOK' = disappearWith evictOK' := rfl

theorem disappearWith_of_prune (E : Rec → Msg → Bool) (r : Rec) (m : Msg) (h : pruneAllowed r m = true) :
    disappearWith E r m = true := by
  simp [disappearWith, h]

end Obs.C02

theorem pruneAllowed_of_why {r : Rec} {ms ms' : List Msg} {m : Msg}
    (hop : prunes r.op = true)
    (hw : PruneWhy r.cfg r.now ms ms' m)
    (h1 : countP isDead ms ≤ countP isDead r.before)
    (h2 : countP isDead ms' ≤ countP isDead r.after)
    (h3 : ∀ s ∈ r.after, s.st = .dead → s ∈ ms') :
    pruneAllowed r m = true := by
  obtain ⟨hcfg, hw⟩ := hw
  unfold pruneAllowed
  rw [hop, hcfg]
  rcases hw with hage | ⟨hd, hdd, hb, ha, hall⟩
  · simp [hage]
  · have : r.after.all (fun s => !(s.st == .dead) || !(r.before.any (· == s)) || decide (m.recv ≤ s.recv)) = true := by
      rw [List.all_eq_true]
      intro s hs
      cases hsd : (s.st == St.dead) with
      | false => simp
      | true =>
        have := hall s (h3 s hs (by simpa using hsd)) (by simpa using hsd)
        simp [this]
    simp only [Bool.true_and, Bool.or_eq_true, Bool.and_eq_true, decide_eq_true_eq]
    right
    refine ⟨⟨⟨⟨by simp [hd], hdd⟩, by omega⟩, by omega⟩, this⟩

theorem pruneAllowed_of_why_released {r : Rec} {ms ms' : List Msg} {m : Msg}
    (hop : match r.op with | .dequeue .. => True | _ => False)
    (hexp : expired r.now m = true)
    (hw : PruneWhy r.cfg r.now ms ms' (release r.now m)) :
    pruneAllowed r m = true := by
  obtain ⟨hcfg, hw⟩ := hw
  have hage : ageEligible r.cfg r.now (release r.now m) = true := by
    rcases hw with hage | ⟨hd, _⟩
    · exact hage
    · simp [release] at hd
  unfold pruneAllowed
  rw [hcfg, hexp, hage]
  cases hop' : r.op <;> rw [hop'] at hop <;> simp_all [prunes]

/-! ### operations that only prune, or change nothing -/

theorem legalTrans_refl (r : Rec) (m : Msg) : C02.legalTrans r m m = true := by
  simp [C02.legalTrans]

theorem C02_same (E : Rec → Msg → Bool) (c : Cfg) (now : Int) (q q' : Q) (op : Op) (resp : Resp)
    (hnd : (q.msgs.map (·.id)).Nodup) (hq : q'.msgs = q.msgs)
    (hE : enqueueOK (modelRec c now q op resp q') = false) :
    C02.stepOKWith (C02.disappearWith E) (modelRec c now q op resp q') = true := by
  apply stepOKWith_of_filterMap _ _ some hnd
  · simp [modelRec, hq]
  · intro x y h; cases h; rfl
  · exact hE
  · intro m _ m' h; cases h; exact legalTrans_refl _ _
  · intro m _ h; cases h
  · intro _ m _; exact Or.inl rfl

theorem C02_pruneOnly (E : Rec → Msg → Bool) (c : Cfg) (now : Int) (q q1 : Q) (op : Op) (resp : Resp)
    (gone : List String)
    (hnd : (q.msgs.map (·.id)).Nodup)
    (hp : prune c now q gone = some q1) (hop : prunes op = true)
    (hE : enqueueOK (modelRec c now q op resp q1) = false) :
    C02.stepOKWith (C02.disappearWith E) (modelRec c now q op resp q1) = true := by
  obtain ⟨keep, hkeep, hwhy⟩ := prune_spec02 hp
  have hgone : ∀ m ∈ q.msgs, keep m = false → pruneAllowed (modelRec c now q op resp q1) m = true := by
    intro m hm hk
    exact pruneAllowed_of_why (ms := q.msgs) (ms' := q1.msgs) hop (hwhy m hm hk) (Nat.le_refl _)
      (Nat.le_refl _) (fun s hs _ => hs)
  apply stepOKWith_of_filterMap _ _ (fun x => if keep x then some x else none) hnd
  · simp only [modelRec]; rw [hkeep, filter_eq_filterMap]
  · intro x y h; split at h <;> cases h; rfl
  · exact hE
  · intro m _ m' h; split at h <;> cases h; exact legalTrans_refl _ _
  · intro m hm h
    apply C02.disappearWith_of_prune
    apply hgone m hm
    split at h
    · cases h
    · simpa using ‹¬ keep m = true›
  · intro _ m hm
    cases hk : keep m with
    | true => simp
    | false => simpa using hgone m hm hk

theorem withPrune_some {c : Cfg} {now : Int} {q : Q} {ch : Choice} {k : Q → Option (Q × Resp)}
    {x : Q × Resp} (h : withPrune c now q ch k = some x) :
    ∃ q1, prune c now q ch.gone = some q1 ∧ k q1 = some x := by
  unfold withPrune at h
  split at h
  · cases h
  · exact ⟨_, ‹_›, h⟩

abbrev SW (E : Rec → Msg → Bool) (r : Rec) : Prop := C02.stepOKWith (C02.disappearWith E) r = true

theorem C02_list (E : Rec → Msg → Bool) (c : Cfg) (now : Int) (q q' : Q) (ch : Choice) (r : Resp)
    (route target state order : String) (limit before : Int)
    (hnd : (q.msgs.map (·.id)).Nodup)
    (hstep : step c now q (.list route target state order limit before) ch = some (q', r)) :
    SW E (modelRec c now q (.list route target state order limit before) r q') := by
  simp only [step] at hstep
  obtain ⟨q1, hp, hk⟩ := withPrune_some hstep
  split at hk <;> cases hk <;> exact C02_pruneOnly E c now q _ _ _ ch.gone hnd hp rfl rfl

theorem C02_listDead (E : Rec → Msg → Bool) (c : Cfg) (now : Int) (q q' : Q) (ch : Choice) (r : Resp)
    (route : String) (limit before : Int)
    (hnd : (q.msgs.map (·.id)).Nodup)
    (hstep : step c now q (.listDead route limit before) ch = some (q', r)) :
    SW E (modelRec c now q (.listDead route limit before) r q') := by
  simp only [step] at hstep
  obtain ⟨q1, hp, hk⟩ := withPrune_some hstep
  cases hk; exact C02_pruneOnly E c now q _ _ _ ch.gone hnd hp rfl rfl

theorem C02_stats (E : Rec → Msg → Bool) (c : Cfg) (now : Int) (q q' : Q) (ch : Choice) (r : Resp)
    (hnd : (q.msgs.map (·.id)).Nodup)
    (hstep : step c now q .stats ch = some (q', r)) :
    SW E (modelRec c now q .stats r q') := by
  simp only [step] at hstep
  obtain ⟨q1, hp, hk⟩ := withPrune_some hstep
  cases hk; exact C02_pruneOnly E c now q _ _ _ ch.gone hnd hp rfl rfl

theorem C02_lookup (E : Rec → Msg → Bool) (c : Cfg) (now : Int) (q q' : Q) (ch : Choice) (r : Resp)
    (ids : List String)
    (hnd : (q.msgs.map (·.id)).Nodup)
    (hstep : step c now q (.lookup ids) ch = some (q', r)) :
    SW E (modelRec c now q (.lookup ids) r q') := by
  simp only [step] at hstep
  cases hstep; exact C02_same E c now q _ _ _ hnd rfl rfl

theorem C02_restart (E : Rec → Msg → Bool) (c : Cfg) (now : Int) (q q' : Q) (ch : Choice) (r : Resp)
    (hnd : (q.msgs.map (·.id)).Nodup)
    (hstep : step c now q .restart ch = some (q', r)) :
    SW E (modelRec c now q .restart r q') := by
  simp only [step] at hstep
  cases hstep; exact C02_same E c now q _ _ _ hnd rfl rfl

/-! ### operator mutations -/

theorem operate_id {now : Int} {k : IdKind} {m y : Msg} (h : operate now k m = some y) : y.id = m.id := by
  cases k <;> simp [operate] at h <;> subst h <;> rfl

theorem operate_none {now : Int} {k : IdKind} {m : Msg} (h : operate now k m = none) : k = .deleteDead := by
  cases k <;> simp [operate] at h <;> rfl

theorem legalTrans_operate (r : Rec) (k : IdKind) (m m' : Msg)
    (hst : (allowedStates k).contains m.st = true)
    (hop : operate r.now k m = some m') (hk : idKindOf? r.op = some k) (hn : namesId r m.id = true) :
    C02.legalTrans r m m' = true := by
  cases k <;> simp [operate, targetState] at hop <;> subst hop <;>
    cases hs : m.st <;> simp [hs, allowedStates] at hst <;>
    simp [C02.legalTrans, sameIdentity, hs, hk, hn]

theorem C02_byIds (E : Rec → Msg → Bool) (c : Cfg) (now : Int) (q q' : Q) (ch : Choice) (r : Resp)
    (k : IdKind) (ids : List String)
    (hnd : (q.msgs.map (·.id)).Nodup)
    (hstep : step c now q (.byIds k ids) ch = some (q', r)) :
    SW E (modelRec c now q (.byIds k ids) r q') := by
  simp only [step] at hstep
  cases hstep
  apply stepOKWith_of_filterMap _ _
    (fun m => if selectedBy k (normIds ids) m then operate now k m else some m) hnd
  · rfl
  · intro x y h
    split at h
    · exact operate_id h
    · cases h; rfl
  · rfl
  · intro m _ m' h
    split at h
    next hsel =>
      simp only [selectedBy, Bool.and_eq_true] at hsel
      exact legalTrans_operate _ k m m' hsel.2 h rfl hsel.1
    next => cases h; exact legalTrans_refl _ _
  · intro m _ h
    split at h
    next hsel =>
      have hk := operate_none h
      subst hk
      simp only [selectedBy, Bool.and_eq_true, allowedStates] at hsel
      have hd : m.st = .dead := by simpa using hsel.2
      have hin : m.id ∈ normIds ids := by simpa using hsel.1
      simp [C02.disappearWith, modelRec, hd, hin]
    next => cases h
  · intro h; cases h

theorem C02_byFilter (E : Rec → Msg → Bool) (c : Cfg) (now : Int) (q q' : Q) (ch : Choice) (r : Resp)
    (k : IdKind) (f : Filter)
    (hnd : (q.msgs.map (·.id)).Nodup)
    (hDel : k = .deleteDead → f.preview = true)
    (hstep : step c now q (.byFilter k f) ch = some (q', r)) :
    SW E (modelRec c now q (.byFilter k f) r q') := by
  simp only [step] at hstep
  split at hstep
  next => cases hstep; exact C02_same E c now q _ _ _ hnd rfl rfl
  next hpv =>
    cases hstep
    have hpv' : f.preview = false := by simpa using hpv
    apply stepOKWith_of_filterMap _ _
      (fun m => if selectedBy k (selectFilter k f q.msgs) m then operate now k m else some m) hnd
    · rfl
    · intro x y h
      split at h
      · exact operate_id h
      · cases h; rfl
    · rfl
    · intro m _ m' h
      split at h
      next hsel =>
        simp only [selectedBy, Bool.and_eq_true] at hsel
        exact legalTrans_operate _ k m m' hsel.2 h (by simp [modelRec, idKindOf?, hpv'])
          (by simp [modelRec, namesId, hpv'])
      next => cases h; exact legalTrans_refl _ _
    · intro m _ h
      split at h
      next hsel =>
        have hk := operate_none h
        rw [hDel hk] at hpv'; cases hpv'
      next => cases h
    · intro h; cases h

/-! ### lease mutations: the trajectory of one message through a sequence of lease operations -/

/-- what a live lease holder `m` may have become after some operations of kind `k` on its lease -/
def Live (c : Cfg) (k : LeaseKind) (m : Msg) : Option Msg → Prop
  | none => k = .ack ∧ ¬ c.deliveredRet > 0
  | some y => sameIdentity m y = true ∧
      ((y.st = .leased ∧ y.lease = m.lease ∧ m.luntil ≤ y.luntil ∧ ∃ d, k = .extend d) ∨
       (y.lease = "" ∧ ((y.st = .delivered ∧ k = .ack ∧ c.deliveredRet > 0) ∨ (y.st = .queued ∧ ∃ d, k = .nack d) ∨
          (y.st = .dead ∧ ∃ s, k = .markDead s))))

/-- `o` is what became of `m`; `P` = "this lease id was presented" -/
def Traj (c : Cfg) (now : Int) (k : LeaseKind) (P : String → Prop) (m : Msg) (o : Option Msg) : Prop :=
  o = some m ∨ (m.st = .leased ∧ m.luntil ≤ now ∧ o = some (release now m)) ∨
  (m.st = .leased ∧ now < m.luntil ∧ P m.lease ∧ Live c k m o)

theorem sameIdentity_refl (m : Msg) : sameIdentity m m = true := by simp [sameIdentity]

theorem Traj_leased {c : Cfg} {now : Int} {k : LeaseKind} {P : String → Prop} {m y : Msg}
    (ht : Traj c now k P m (some y)) (hy : y.st = .leased) : m.st = .leased ∧ m.lease = y.lease := by
  rcases ht with h | ⟨_, _, h⟩ | ⟨hm, _, _, hl⟩
  · cases h; exact ⟨hy, rfl⟩
  · cases h; simp [release] at hy
  · obtain ⟨_, h | ⟨_, h | h | h⟩⟩ := hl
    · exact ⟨hm, h.2.1.symm⟩
    · rw [hy] at h; cases h.1
    · rw [hy] at h; cases h.1
    · rw [hy] at h; cases h.1

theorem Traj_step_expired {c : Cfg} {now : Int} {k : LeaseKind} {P : String → Prop} {m : Msg}
    {o : Option Msg} (l : String) (ht : Traj c now k P m o)
    (hexp : ∀ y, o = some y → holds l y = true → y.luntil ≤ now) :
    Traj c now k P m (o.bind (fun x => if holds l x then some (release now x) else some x)) := by
  cases o with
  | none => exact ht
  | some y =>
    simp only [Option.bind_some]
    split
    next hh =>
      have hle := hexp y rfl hh
      simp only [holds, Bool.and_eq_true, beq_iff_eq] at hh
      rcases ht with h | ⟨_, _, h⟩ | ⟨hm, hlt, _, hl⟩
      · cases h; exact Or.inr (Or.inl ⟨hh.1, hle, rfl⟩)
      · cases h; simp [release] at hh
      · exfalso
        obtain ⟨_, h | ⟨_, h | h | h⟩⟩ := hl
        · omega
        · rw [hh.1] at h; cases h.1
        · rw [hh.1] at h; cases h.1
        · rw [hh.1] at h; cases h.1
    next => exact ht

theorem Traj_step_live {c : Cfg} {now : Int} {k : LeaseKind} {P : String → Prop} {m : Msg}
    {o : Option Msg} (l : String) (hl : l ≠ "") (hext : ∀ d, k = .extend d → 0 ≤ d) (hP : P l)
    (ht : Traj c now k P m o)
    (hlive : ∀ y, o = some y → holds l y = true → now < y.luntil) :
    Traj c now k P m (o.bind (fun x => if holds l x then applyLease c now k x else some x)) := by
  cases o with
  | none => exact ht
  | some y =>
    simp only [Option.bind_some]
    split
    next hh =>
      have hlt := hlive y rfl hh
      simp only [holds, Bool.and_eq_true, beq_iff_eq] at hh
      rcases ht with h | ⟨_, _, h⟩ | ⟨hm, hlt', hPm, hlv⟩
      · cases h
        refine Or.inr (Or.inr ⟨hh.1, hlt, by rw [hh.2]; exact hP, ?_⟩)
        cases k with
        | ack =>
          simp only [applyLease]
          split
          next hd => exact ⟨by simp [sameIdentity], Or.inr ⟨rfl, Or.inl ⟨rfl, rfl, hd⟩⟩⟩
          next hd => exact ⟨rfl, hd⟩
        | nack d => exact ⟨by simp [sameIdentity], Or.inr ⟨rfl, Or.inr (Or.inl ⟨rfl, d, rfl⟩)⟩⟩
        | extend d =>
          have := hext d rfl
          exact ⟨by simp [sameIdentity], Or.inl ⟨hh.1, rfl, by simp only; omega, d, rfl⟩⟩
        | markDead s => exact ⟨by simp [sameIdentity], Or.inr ⟨rfl, Or.inr (Or.inr ⟨rfl, s, rfl⟩)⟩⟩
      · cases h; simp [release] at hh
      · obtain ⟨hsi, h | ⟨h, _⟩⟩ := hlv
        · obtain ⟨_, hlease, hle, d, hk⟩ := h
          subst hk
          have := hext d rfl
          refine Or.inr (Or.inr ⟨hm, hlt', hPm, ?_⟩)
          simp only [applyLease]
          refine ⟨by simpa [sameIdentity] using hsi, Or.inl ⟨hh.1, hlease, by simp only; omega, d, rfl⟩⟩
        · exfalso; rw [hh.2] at h; exact hl h
    next => exact ht

theorem leaseOne_cases (c : Cfg) (now : Int) (k : LeaseKind) (l : String) (ms : List Msg) :
    leaseOne c now k l ms = (ms, some .leaseNotFound) ∨
    (l ≠ "" ∧ ∃ m ∈ ms, holds l m = true ∧ m.luntil ≤ now ∧
      leaseOne c now k l ms =
        (ms.map (fun x => if holds l x then release now x else x), some .leaseExpired)) ∨
    (l ≠ "" ∧ ∃ m ∈ ms, holds l m = true ∧ now < m.luntil ∧
      leaseOne c now k l ms =
        (ms.filterMap (fun x => if holds l x then applyLease c now k x else some x), none)) := by
  unfold leaseOne
  split
  · left; rfl
  next hl =>
    have hl' : l ≠ "" := by simpa using hl
    split
    · left; rfl
    next m hfind =>
      have hm := List.mem_of_find?_eq_some hfind
      have hh := List.find?_some hfind
      split
      next hle => right; left; exact ⟨hl', m, hm, hh, hle, rfl⟩
      next hlt => right; right; exact ⟨hl', m, hm, hh, by omega, rfl⟩

theorem applyLease_id02 {c : Cfg} {now : Int} {k : LeaseKind} {x y : Msg}
    (h : applyLease c now k x = some y) : y.id = x.id := by
  cases k <;> simp only [applyLease] at h
  · split at h <;> cases h; rfl
  all_goals (cases h; rfl)

theorem map_release_eq (now : Int) (l : String) (ms : List Msg) :
    ms.map (fun x => if holds l x then release now x else x) =
    ms.filterMap (fun x => if holds l x then some (release now x) else some x) := by
  rw [map_eq_filterMap02]
  congr 1
  funext x
  split <;> rfl

def Tracked (c : Cfg) (now : Int) (k : LeaseKind) (P : String → Prop) (before cur : List Msg) : Prop :=
  ∃ g : Msg → Option Msg, cur = before.filterMap g ∧ (∀ x y, g x = some y → y.id = x.id) ∧
    ∀ m ∈ before, Traj c now k P m (g m)

theorem Tracked_init (c : Cfg) (now : Int) (k : LeaseKind) (P : String → Prop) (before : List Msg) :
    Tracked c now k P before before :=
  ⟨some, by simp, by intro x y h; cases h; rfl, fun m _ => Or.inl rfl⟩

theorem holder_unique {c : Cfg} {now : Int} {k : LeaseKind} {P : String → Prop} {before : List Msg}
    {g : Msg → Option Msg}
    (huniq : ∀ a ∈ before, ∀ b ∈ before, a.lease ≠ "" → a.lease = b.lease → a = b)
    (htr : ∀ m ∈ before, Traj c now k P m (g m)) (l : String) (hl : l ≠ "")
    {m1 m2 y1 y2 : Msg} (h1 : m1 ∈ before) (h2 : m2 ∈ before) (g1 : g m1 = some y1) (g2 : g m2 = some y2)
    (hh1 : holds l y1 = true) (hh2 : holds l y2 = true) : y1 = y2 := by
  simp only [holds, Bool.and_eq_true, beq_iff_eq] at hh1 hh2
  have t1 := Traj_leased (g1 ▸ htr m1 h1) hh1.1
  have t2 := Traj_leased (g2 ▸ htr m2 h2) hh2.1
  have : m1 = m2 := huniq m1 h1 m2 h2 (by rw [t1.2, hh1.2]; exact hl) (by rw [t1.2, t2.2, hh1.2, hh2.2])
  subst this
  rw [g1] at g2
  exact Option.some.inj g2

theorem Tracked_leaseOne {c : Cfg} {now : Int} {k : LeaseKind} {P : String → Prop} {before cur : List Msg}
    (l : String)
    (huniq : ∀ a ∈ before, ∀ b ∈ before, a.lease ≠ "" → a.lease = b.lease → a = b)
    (hext : ∀ d, k = .extend d → 0 ≤ d)
    (hP : (∃ m ∈ before, m.st = .leased ∧ m.lease = l) → P l)
    (ht : Tracked c now k P before cur) :
    Tracked c now k P before (leaseOne c now k l cur).1 := by
  obtain ⟨g, hcur, hg, htr⟩ := ht
  rcases leaseOne_cases c now k l cur with h | ⟨hl, ym, hym, hh, hle, h⟩ | ⟨hl, ym, hym, hh, hlt, h⟩
  · rw [h]; exact ⟨g, hcur, hg, htr⟩
  · rw [h]
    rw [hcur] at hym
    obtain ⟨m0, hm0, hgm0⟩ := List.mem_filterMap.1 hym
    refine ⟨fun x => (g x).bind (fun x => if holds l x then some (release now x) else some x), ?_, ?_, ?_⟩
    · simp only [map_release_eq, hcur, List.filterMap_filterMap]
    · intro x y hxy
      obtain ⟨z, hz, hzy⟩ := Option.bind_eq_some_iff.1 hxy
      rw [← hg x z hz]
      split at hzy <;> cases hzy <;> rfl
    · intro m hm
      apply Traj_step_expired l (htr m hm)
      intro y hy hhy
      rw [holder_unique huniq htr l hl hm hm0 hy hgm0 hhy hh]
      exact hle
  · rw [h]
    rw [hcur] at hym
    obtain ⟨m0, hm0, hgm0⟩ := List.mem_filterMap.1 hym
    have hPl : P l := by
      apply hP
      have hh' := hh
      simp only [holds, Bool.and_eq_true, beq_iff_eq] at hh'
      have t := Traj_leased (hgm0 ▸ htr m0 hm0) hh'.1
      exact ⟨m0, hm0, t.1, by rw [t.2, hh'.2]⟩
    refine ⟨fun x => (g x).bind (fun x => if holds l x then applyLease c now k x else some x), ?_, ?_, ?_⟩
    · simp only [hcur, List.filterMap_filterMap]
    · intro x y hxy
      obtain ⟨z, hz, hzy⟩ := Option.bind_eq_some_iff.1 hxy
      rw [← hg x z hz]
      split at hzy
      · exact applyLease_id02 hzy
      · cases hzy; rfl
    · intro m hm
      apply Traj_step_live l hl hext hPl (htr m hm)
      intro y hy hhy
      rw [holder_unique huniq htr l hl hm hm0 hy hgm0 hhy hh]
      exact hlt

theorem Tracked_fold {c : Cfg} {now : Int} {k : LeaseKind} {P : String → Prop} {before : List Msg}
    (huniq : ∀ a ∈ before, ∀ b ∈ before, a.lease ≠ "" → a.lease = b.lease → a = b)
    (hext : ∀ d, k = .extend d → 0 ≤ d)
    (ls : List String) (hP : ∀ raw ∈ ls, P (trimWS raw)) :
    ∀ (cur : List Msg) (n : Nat) (cs : List Conflict), Tracked c now k P before cur →
      Tracked c now k P before (leaseBatchFold c now k ls cur n cs).1 := by
  induction ls with
  | nil => intro cur n cs ht; exact ht
  | cons raw rest ih =>
    intro cur n cs ht
    have ih' := ih (fun r hr => hP r (List.mem_cons_of_mem _ hr))
    have hone := Tracked_leaseOne (trimWS raw) huniq hext (fun _ => hP raw (List.mem_cons_self ..)) ht
    simp only [leaseBatchFold]
    split
    · exact ih' _ _ _ ht
    · split
      all_goals
        rename_i heq
        rw [heq] at hone
        exact ih' _ _ _ hone

theorem legalTrans_of_Traj (r : Rec) (k : LeaseKind) (P : String → Prop) (m y : Msg)
    (hk : leaseKind? r.op = some k) (hpres : ∀ l, P l → (presented r.op).contains l = true)
    (ht : Traj r.cfg r.now k P m (some y)) : C02.legalTrans r m y = true := by
  rcases ht with h | ⟨hm, hle, h⟩ | ⟨hm, hlt, hP, hsi, hl⟩
  · cases h; exact legalTrans_refl _ _
  · cases h
    simp [C02.legalTrans, sameIdentity, release, hm, hle]
  · have hc : m.lease ∈ presented r.op := by simpa using hpres _ hP
    unfold C02.legalTrans
    rw [hsi]
    rcases hl with ⟨hy, _, _, d, hd⟩ | ⟨_, ⟨hy, hd, hr⟩ | ⟨hy, d, hd⟩ | ⟨hy, s, hd⟩⟩
    all_goals
      subst hd
      simp [hm, hy, liveLeased, hlt, hc, hk]
    exact Or.inr hr

theorem disappear_of_Traj (E : Rec → Msg → Bool) (r : Rec) (k : LeaseKind) (P : String → Prop) (m : Msg)
    (hk : leaseKind? r.op = some k) (hpres : ∀ l, P l → (presented r.op).contains l = true)
    (ht : Traj r.cfg r.now k P m none) : C02.disappearWith E r m = true := by
  rcases ht with h | ⟨_, _, h⟩ | ⟨hm, hlt, hP, hk', hr⟩
  · cases h
  · cases h
  · have hc : m.lease ∈ presented r.op := by simpa using hpres _ hP
    subst hk'
    have hr' : r.cfg.deliveredRet ≤ 0 := by omega
    simp [C02.disappearWith, liveLeased, hm, hlt, hc, hk, hr']

theorem SW_of_Tracked (E : Rec → Msg → Bool) (c : Cfg) (now : Int) (q q' : Q) (op : Op) (resp : Resp)
    (k : LeaseKind) (P : String → Prop)
    (hnd : (q.msgs.map (·.id)).Nodup)
    (ht : Tracked c now k P q.msgs q'.msgs)
    (hk : leaseKind? op = some k) (hpres : ∀ l, P l → (presented op).contains l = true)
    (hE : enqueueOK (modelRec c now q op resp q') = false)
    (herr : isErr resp = true → ∀ m ∈ q.msgs, ∃ m', Obs.find q'.msgs m.id = some m' ∧
      (m' = m ∨ (expired now m = true ∧ m' = release now m))) :
    SW E (modelRec c now q op resp q') := by
  obtain ⟨g, hcur, hg, htr⟩ := ht
  apply stepOKWith_of_filterMap _ _ g hnd hcur hg hE
  · intro m hm m' hgm
    exact legalTrans_of_Traj _ k P m m' hk hpres (hgm ▸ htr m hm)
  · intro m hm hgm
    exact disappear_of_Traj E _ k P m hk hpres (hgm ▸ htr m hm)
  · intro h m hm
    obtain ⟨m', hf, hor⟩ := herr h m hm
    rw [hcur, find_filterMap02 g hg _ hnd m hm] at hf
    rw [hf]
    exact hor

theorem C02_leaseCore (E : Rec → Msg → Bool) (c : Cfg) (now : Int) (q : Q) (k : LeaseKind) (l0 l : String)
    (hinv : Inv q)
    (hTrim : c.memory = true → ∀ m ∈ q.msgs, m.st = .leased → trimWS m.lease = m.lease)
    (hldef : l = if c.memory then l0 else trimWS l0)
    (hext : ∀ d, k = .extend d → 0 ≤ d) (ms : List Msg) (e : Option Err)
    (hone : leaseOne c now k l q.msgs = (ms, e)) :
    SW E (modelRec c now q (.lease k l0) (match (generalizing := false) e with | none => .ok | some e => .err e)
      { q with msgs := ms }) := by
  have hP : (∃ m ∈ q.msgs, m.st = .leased ∧ m.lease = l) → l = trimWS l0 := by
    intro ⟨m, hm, hst, hl⟩
    by_cases hmem : c.memory = true
    · rw [if_pos hmem] at hldef
      rw [← hl]; rw [hldef] at hl; rw [← hl]; exact (hTrim hmem m hm hst).symm
    · rw [if_neg hmem] at hldef; exact hldef
  have htr : Tracked c now k (fun x => x = trimWS l0) q.msgs ms := by
    have := Tracked_leaseOne (P := fun x => x = trimWS l0) l
      hinv.leaseUniq hext hP (Tracked_init c now k _ q.msgs)
    rw [hone] at this; exact this
  apply SW_of_Tracked E c now q _ _ _ k _ hinv.nodup htr rfl
  · intro l hl; subst hl; simp [presented]
  · rfl
  · intro hErr m hm
    rcases leaseOne_cases c now k l q.msgs with
      h | ⟨hl, ym, hym, hh, hle, h⟩ | ⟨hl, ym, hym, hh, hlt, h⟩
    · rw [hone] at h; cases h
      exact ⟨m, find_of_mem02 _ hinv.nodup m hm, Or.inl rfl⟩
    · rw [hone] at h; cases h
      simp only [map_release_eq]
      rw [find_filterMap02 _ _ _ hinv.nodup m hm]
      · split
        next hhm =>
          refine ⟨_, rfl, Or.inr ⟨?_, rfl⟩⟩
          have h1 := hh; have h2 := hhm
          simp only [holds, Bool.and_eq_true, beq_iff_eq] at h1 h2
          have : m = ym := hinv.leaseUniq m hm ym hym (by rw [h2.2]; exact hl) (by rw [h1.2, h2.2])
          subst this
          simp [expired, h2.1, hle]
        next => exact ⟨_, rfl, Or.inl rfl⟩
      · intro x y hxy; split at hxy <;> cases hxy <;> rfl
    · rw [hone] at h; cases h; cases hErr

theorem C02_lease (E : Rec → Msg → Bool) (c : Cfg) (now : Int) (q q' : Q) (ch : Choice) (r : Resp)
    (k : LeaseKind) (l0 : String)
    (hinv : Inv q)
    (hTrim : c.memory = true → ∀ m ∈ q.msgs, m.st = .leased → trimWS m.lease = m.lease)
    (hstep : step c now q (.lease k l0) ch = some (q', r)) :
    SW E (modelRec c now q (.lease k l0) r q') := by
  cases k with
  | extend d =>
    simp only [step] at hstep
    split at hstep
    next => cases hstep; exact C02_same E c now q _ _ _ hinv.nodup rfl rfl
    next hd =>
      generalize hone : leaseOne c now (.extend d) (if c.memory then l0 else trimWS l0) q.msgs = p at hstep
      obtain ⟨ms, e⟩ := p
      cases hstep
      exact C02_leaseCore E c now q (.extend d) l0 _ hinv hTrim rfl
        (by intro d' h; cases h; omega) ms e hone
  | ack =>
    simp only [step] at hstep
    generalize hone : leaseOne c now .ack (if c.memory then l0 else trimWS l0) q.msgs = p at hstep
    obtain ⟨ms, e⟩ := p
    cases hstep
    exact C02_leaseCore E c now q .ack l0 _ hinv hTrim rfl (by intro d' h; cases h) ms e hone
  | nack d =>
    simp only [step] at hstep
    generalize hone : leaseOne c now (.nack d) (if c.memory then l0 else trimWS l0) q.msgs = p at hstep
    obtain ⟨ms, e⟩ := p
    cases hstep
    exact C02_leaseCore E c now q (.nack d) l0 _ hinv hTrim rfl (by intro d' h; cases h) ms e hone
  | markDead s =>
    simp only [step] at hstep
    generalize hone : leaseOne c now (.markDead s) (if c.memory then l0 else trimWS l0) q.msgs = p at hstep
    obtain ⟨ms, e⟩ := p
    cases hstep
    exact C02_leaseCore E c now q (.markDead s) l0 _ hinv hTrim rfl (by intro d' h; cases h) ms e hone

theorem C02_leaseBatch (E : Rec → Msg → Bool) (c : Cfg) (now : Int) (q q' : Q) (ch : Choice) (r : Resp)
    (k : LeaseKind) (ls : List String)
    (hinv : Inv q)
    (hExt : ∀ d, k = .extend d → 0 ≤ d)
    (hstep : step c now q (.leaseBatch k ls) ch = some (q', r)) :
    SW E (modelRec c now q (.leaseBatch k ls) r q') := by
  simp only [step] at hstep
  have htr := Tracked_fold (c := c) (now := now) (P := fun x => x ∈ ls.map trimWS) hinv.leaseUniq hExt ls
    (fun raw hr => List.mem_map.2 ⟨raw, hr, rfl⟩) q.msgs 0 [] (Tracked_init c now k _ q.msgs)
  generalize leaseBatchFold c now k ls q.msgs 0 [] = p at hstep htr
  obtain ⟨ms, n, cs⟩ := p
  cases hstep
  apply SW_of_Tracked E c now q _ _ _ k _ hinv.nodup htr rfl
  · intro l hl; simpa [presented] using hl
  · rfl
  · intro h; cases h

/-! ### dequeue -/

/-- a lease-expiry sweep, possibly skipped -/
def SwLike (now : Int) (f : Msg → Msg) : Prop :=
  ∀ m, f m = m ∨ (expired now m = true ∧ f m = release now m)

theorem SwLike_id (now : Int) : SwLike now id := fun _ => Or.inl rfl

theorem SwLike_id_eq {now : Int} {f : Msg → Msg} (hf : SwLike now f) (m : Msg) : (f m).id = m.id := by
  rcases hf m with h | ⟨_, h⟩ <;> rw [h]; rfl

theorem SwLike_isDead {now : Int} {f : Msg → Msg} (hf : SwLike now f) (m : Msg) :
    isDead (f m) = isDead m := by
  rcases hf m with h | ⟨he, h⟩ <;> rw [h]
  simp only [expired, Bool.and_eq_true, beq_iff_eq] at he
  simp [isDead, release, he.1]
  rfl

theorem SwLike_dead_fix {now : Int} {f : Msg → Msg} (hf : SwLike now f) (m : Msg)
    (h : (f m).st = .dead) : f m = m := by
  rcases hf m with h' | ⟨_, h'⟩
  · exact h'
  · rw [h'] at h; simp [release] at h

theorem sweep_spec (c : Cfg) (now : Int) (q : Q) :
    ∃ f, SwLike now f ∧ (sweep c now q).msgs = q.msgs.map f := by
  unfold sweep
  split
  · refine ⟨fun m => if expired now m then release now m else m, ?_, rfl⟩
    intro m
    dsimp only
    cases h : expired now m <;> simp
  · exact ⟨id, SwLike_id now, by simp⟩

theorem grant_cases02 (now tt : Int) (picks : List (String × String)) (x : Msg) :
    grant now tt picks x = x ∨
    (x.st = .queued ∧ picks.any (·.1 == x.id) = true ∧
      ∃ l, grant now tt picks x =
        { x with st := .leased, attempt := x.attempt + 1, lease := l, luntil := now + tt, next := now + tt }) := by
  unfold grant
  cases hl : leaseFor picks x.id with
  | none => left; rfl
  | some l =>
    simp only
    split
    next hq =>
      right
      refine ⟨by simpa using hq, ?_, l, rfl⟩
      unfold leaseFor at hl
      cases hf : picks.find? (·.1 == x.id) with
      | none => rw [hf] at hl; cases hl
      | some p =>
        rw [List.any_eq_true]
        have h2 := List.find?_some hf
        exact ⟨p, List.mem_of_find?_eq_some hf, h2⟩
    next => left; rfl

theorem grant_id02 (now tt : Int) (picks : List (String × String)) (x : Msg) :
    (grant now tt picks x).id = x.id := by
  rcases grant_cases02 now tt picks x with h | ⟨_, _, l, h⟩ <;> rw [h]

theorem grant_isDead (now tt : Int) (picks : List (String × String)) (x : Msg) :
    isDead (grant now tt picks x) = isDead x := by
  rcases grant_cases02 now tt picks x with h | ⟨hq, _, l, h⟩ <;> rw [h]
  simp [isDead, hq]
  rfl

theorem grant_dead_fix (now tt : Int) (picks : List (String × String)) (x : Msg)
    (hd : (grant now tt picks x).st = .dead) : grant now tt picks x = x := by
  rcases grant_cases02 now tt picks x with h | ⟨hq, _, l, h⟩
  · exact h
  · rw [h] at hd; cases hd

theorem countP_map_of (p : Msg → Bool) (f : Msg → Msg) (hf : ∀ m, p (f m) = p m) (ms : List Msg) :
    countP p (ms.map f) = countP p ms := by
  rw [countP_eq, countP_eq, List.countP_map]
  congr 1
  funext m
  exact hf m

theorem dq_repr (f1 f2 G : Msg → Msg) (keep : Msg → Bool) (ms : List Msg) :
    (((ms.map f1).filter keep).map f2).map G =
      ms.filterMap (fun m => if keep (f1 m) then some (G (f2 (f1 m))) else none) := by
  induction ms with
  | nil => rfl
  | cons x xs ih =>
    cases h : keep (f1 x) <;> simp [h, ← ih]

theorem C02_dequeueCore (E : Rec → Msg → Bool) (c : Cfg) (now : Int) (q q' : Q)
    (route target : String) (batch ttl tt : Int) (picks : List (String × String))
    (f1 f2 : Msg → Msg) (keep : Msg → Bool) (ms' : List Msg)
    (hnd : (q.msgs.map (·.id)).Nodup)
    (hf1 : SwLike now f1) (hf2 : SwLike now f2) (hone : (∀ m, f1 m = m) ∨ (∀ m, f2 m = m))
    (hms' : ms' = (q.msgs.map f1).filter keep)
    (hwhy : ∀ x ∈ q.msgs.map f1, keep x = false → PruneWhy c now (q.msgs.map f1) ms' x)
    (hq' : q'.msgs = (ms'.map f2).map (grant now tt picks)) :
    SW E (modelRec c now q (.dequeue route target batch ttl) (.items picks) q') := by
  have hf21 : ∀ m, f2 (f1 m) = m ∨ (expired now m = true ∧ f2 (f1 m) = release now m) := by
    intro m
    rcases hone with h | h
    · rw [h m]; exact hf2 m
    · rw [h (f1 m)]; exact hf1 m
  apply stepOKWith_of_filterMap _ _
    (fun m => if keep (f1 m) then some (grant now tt picks (f2 (f1 m))) else none) hnd
  · simp only [modelRec]; rw [hq', hms', dq_repr]
  · intro x y h
    split at h
    · cases h
      rw [grant_id02]
      rcases hf21 x with h' | ⟨_, h'⟩ <;> rw [h']; rfl
    · cases h
  · rfl
  · intro m _ m' h
    split at h
    next hk =>
      cases h
      have hpk : ∀ x : Msg, x.id = m.id → picks.any (·.1 == x.id) = true →
          picks.any (·.1 == m.id) = true := by
        intro x hx hp; rw [hx] at hp; exact hp
      rcases hf21 m with hx | ⟨hexp, hx⟩
      · rw [hx]
        rcases grant_cases02 now tt picks m with hg | ⟨hq, hp, l, hg⟩
        · rw [hg]; exact legalTrans_refl _ _
        · rw [hg]
          have := hpk m rfl hp
          simp [C02.legalTrans, sameIdentity, picked, modelRec, hq, this]
      · rw [hx]
        simp only [expired, Bool.and_eq_true, beq_iff_eq, decide_eq_true_eq] at hexp
        rcases grant_cases02 now tt picks (release now m) with hg | ⟨hq, hp, l, hg⟩
        · rw [hg]
          simp [C02.legalTrans, sameIdentity, release, modelRec, hexp.1, hexp.2]
        · rw [hg]
          have := hpk (release now m) rfl hp
          simp [C02.legalTrans, sameIdentity, release, picked, modelRec, hexp.1, hexp.2, this]
    next => cases h
  · intro m hm h
    split at h
    · cases h
    next hk =>
      have hk' : keep (f1 m) = false := by simpa using hk
      have hw := hwhy (f1 m) (List.mem_map_of_mem hm) hk'
      apply C02.disappearWith_of_prune
      rcases hf1 m with hx | ⟨hexp, hx⟩
      · rw [hx] at hw
        apply pruneAllowed_of_why (ms := q.msgs.map f1) (ms' := ms') rfl hw
        · exact Nat.le_of_eq (countP_map_of isDead f1 (SwLike_isDead hf1) _)
        · simp only [modelRec]
          rw [hq', countP_map_of isDead _ (grant_isDead now tt picks), countP_map_of isDead f2 (SwLike_isDead hf2)]
          exact Nat.le_refl _
        · intro s hs hsd
          simp only [modelRec] at hs
          rw [hq'] at hs
          obtain ⟨y, hy, rfl⟩ := List.mem_map.1 hs
          obtain ⟨z, hz, rfl⟩ := List.mem_map.1 hy
          have hgf := grant_dead_fix _ _ _ _ hsd
          rw [hgf] at hsd ⊢
          rw [SwLike_dead_fix hf2 _ hsd]
          exact hz
      · rw [hx] at hw
        exact pruneAllowed_of_why_released (ms := q.msgs.map f1) (ms' := ms') trivial hexp hw
  · intro h; cases h

theorem C02_dequeue (E : Rec → Msg → Bool) (c : Cfg) (now : Int) (q q' : Q) (ch : Choice) (r : Resp)
    (route target : String) (batch ttl : Int)
    (hnd : (q.msgs.map (·.id)).Nodup)
    (hstep : step c now q (.dequeue route target batch ttl) ch = some (q', r)) :
    SW E (modelRec c now q (.dequeue route target batch ttl) r q') := by
  simp only [step] at hstep
  split at hstep
  · cases hstep
  next q1 hhk =>
    split at hstep
    · cases hstep
      obtain ⟨q0, hq0, hq1⟩ := Option.map_eq_some_iff.1 hhk
      obtain ⟨f, hf, hsw⟩ := sweep_spec c now q0
      obtain ⟨keep, hkeep, hwhy⟩ := prune_spec02 hq0
      subst hq1
      apply C02_dequeueCore E c now q _ route target batch ttl (effTTL ttl) ch.picks id f keep q0.msgs hnd
        (SwLike_id now) hf (Or.inl fun _ => rfl) (by simpa using hkeep) (by simpa using hwhy)
      simp [hsw]
    · cases hstep

/-! ### enqueue -/

theorem dupIds_iff (l : List String) : dupIds l = false ↔ l.Nodup := by
  induction l with
  | nil => simp [dupIds]
  | cons x xs ih => simp [dupIds, ih, List.nodup_cons]

theorem refusals_empty {c : Cfg} {ms : List Msg} {es : List Env} {single : Bool} {victims : List String}
    (h : (refusals c ms es single victims).isEmpty = true) :
    (needEvict c ms es.length single > 0 → c.dropOldest = true) ∧
    (es.map (·.id)).Nodup ∧
    ∀ e ∈ es, ∀ y ∈ removeIds isQueued victims ms, y.id ≠ e.id := by
  unfold refusals at h
  dsimp only at h
  generalize needEvict c ms es.length single = need at h ⊢
  cases hfull : (decide (need > 0) && (!c.dropOldest || decide (countP isQueued ms < need)))
  · rw [hfull] at h
    simp only [Bool.false_eq_true, if_false, List.nil_append, List.isEmpty_iff, List.append_eq_nil_iff] at h
    obtain ⟨_, h⟩ := h
    split at h
    · cases h
    next hd =>
      simp only [Bool.or_eq_true, not_or, Bool.not_eq_true] at hd
      refine ⟨?_, (dupIds_iff _).1 hd.1, ?_⟩
      · intro hn
        simp only [Bool.and_eq_false_iff, decide_eq_false_iff_not, Bool.or_eq_false_iff, Bool.not_eq_false'] at hfull
        rcases hfull with h1 | h1
        · exact absurd hn h1
        · simpa using h1.1
      · intro e he y hy hye
        have := hd.2
        rw [List.any_eq_false] at this
        apply this e he
        simp only [hasId, List.any_eq_true, beq_iff_eq]
        exact ⟨y, hy, hye⟩
  · rw [hfull] at h
    simp at h
theorem needEvict_pos {c : Cfg} {ms : List Msg} {k : Nat} {single : Bool}
    (h : needEvict c ms k single > 0) : c.maxDepth > 0 := by
  unfold needEvict at h
  split at h
  · cases h
  next hz => simp at hz; omega

theorem enqueueCore_spec {c : Cfg} {now : Int} {q : Q} {es : List Env} {single : Bool} {ch : Choice}
    {q' : Q} {r : Resp} (h : enqueueCore c now q es single ch = some (q', r)) :
    (q' = q ∧ ∃ e, r = .err e) ∨
    (r = (if single then .ok else .enqueued es.length) ∧
     ∃ keep : Msg → Bool, q'.msgs = q.msgs.filter keep ++ es.map (mkMsg now) ∧
       (es.map (·.id)).Nodup ∧ (∀ e ∈ es, ∀ y ∈ q.msgs.filter keep, y.id ≠ e.id) ∧
       ∀ m ∈ q.msgs, keep m = false →
         (m.st = .queued ∧ c.dropOldest = true ∧ c.maxDepth > 0 ∧
           ∀ s ∈ q.msgs.filter keep, s.st = .queued → m.recv ≤ s.recv)) := by
  unfold enqueueCore at h
  dsimp only at h
  generalize hneed : needEvict c q.msgs es.length single = need at h
  generalize hvict : (if (decide (need > 0) && c.dropOldest) = true then ch.gone else []) = victims at h
  split at h
  next hrs =>
    right
    obtain ⟨hdrop, hnd, hdisj⟩ := refusals_empty hrs
    rw [hneed] at hdrop
    split at h
    next hpos =>
      split at h
      next hlegal =>
        cases h
        refine ⟨rfl, fun m => !(isQueued m && victims.contains m.id), rfl, hnd, hdisj, ?_⟩
        intro m hm hk
        simp only [Bool.not_eq_eq_eq_not, Bool.not_false, Bool.and_eq_true] at hk
        obtain ⟨_, hold⟩ := legalOldest_spec hlegal
        refine ⟨by simpa [isQueued] using hk.1, hdrop hpos, needEvict_pos (hneed ▸ hpos), ?_⟩
        intro s hs hsq
        exact hold m hm hk.1 hk.2 s hs (by simpa [isQueued] using hsq)
      next => cases h
    next hpos =>
      cases h
      have hv : victims = [] := by
        rw [← hvict]; simp [hpos]
      subst hv
      have hfil : q.msgs.filter (fun m => !(isQueued m && ([] : List String).contains m.id)) = q.msgs := by
        apply List.filter_eq_self.2; intro a _; simp
      refine ⟨rfl, fun m => !(isQueued m && ([] : List String).contains m.id), ?_, hnd, hdisj, ?_⟩
      · simp only [hfil]
      · intro m _ hk; simp at hk
  next hrs =>
    left
    split at h
    · split at h
      · cases h; exact ⟨rfl, _, rfl⟩
      · cases h
    · split at h
      · cases h; exact ⟨rfl, _, rfl⟩
      · cases h
theorem enqueueOK_err (c : Cfg) (now : Int) (q q' : Q) (op : Op) (e : Err) :
    enqueueOK (modelRec c now q op (.err e) q') = false := by
  cases op <;> rfl

theorem C02_enqueueCore (E : Rec → Msg → Bool) (c : Cfg) (now : Int) (q q1 q' : Q) (op : Op)
    (es : List Env) (single : Bool) (ch : Choice) (resp : Resp) (gone : List String)
    (hnd : (q.msgs.map (·.id)).Nodup)
    (hp : prune c now q gone = some q1)
    (hcore : enqueueCore c now q1 es single ch = some (q', resp))
    (hprunes : prunes op = true)
    (henv : envIds op = es.map (·.id))
    (hok : ∀ q'', enqueueOK (modelRec c now q op (if single then .ok else .enqueued es.length) q'') = true)
    (hE : ∀ m ∈ q.msgs, m.st = .queued → c.dropOldest = true → c.maxDepth > 0 →
      enqueueOK (modelRec c now q op resp q') = true →
      (∀ s ∈ q'.msgs, s.st = .queued → (s ∈ es.map (mkMsg now) ∨ m.recv ≤ s.recv)) →
      E (modelRec c now q op resp q') m = true) :
    SW E (modelRec c now q op resp q') := by
  rcases enqueueCore_spec hcore with ⟨rfl, e, rfl⟩ | ⟨hresp, keep2, hq', hnew_nd, hdisj, hev⟩
  · exact C02_pruneOnly E c now q q' op _ gone hnd hp hprunes (enqueueOK_err ..)
  · obtain ⟨keep1, hq1, hwhy⟩ := prune_spec02 hp
    subst hresp
    have hmemF : ∀ y, y ∈ q.msgs.filterMap (fun m => if keep1 m && keep2 m then some m else none) ↔
        y ∈ q1.msgs.filter keep2 := by
      intro y
      rw [hq1, List.filter_filter, filter_eq_filterMap]
      simp only [Bool.and_comm]
    apply stepOKWith_of _ _ (fun m => if keep1 m && keep2 m then some m else none) (es.map (mkMsg now)) hnd
    · simp only [modelRec]
      rw [hq', hq1, List.filter_filter, filter_eq_filterMap]
      simp only [Bool.and_comm]
    · intro x y h; split at h <;> cases h; rfl
    · simpa [List.map_map, Function.comp_def, mkMsg] using hnew_nd
    · intro n hn y hy hny
      obtain ⟨e, he, rfl⟩ := List.mem_map.1 hn
      exact hdisj e he y ((hmemF y).1 hy) hny.symm
    · intro n hn
      obtain ⟨e, he, rfl⟩ := List.mem_map.1 hn
      refine ⟨hok _, ?_, rfl⟩
      simp only [modelRec, henv, List.contains_iff_mem]
      exact List.mem_map.2 ⟨e, he, rfl⟩
    · intro y hy ⟨_, hc⟩
      simp only [modelRec, henv, List.contains_iff_mem] at hc
      obtain ⟨e, he, hey⟩ := List.mem_map.1 hc
      exact hdisj e he y ((hmemF y).1 hy) hey.symm
    · intro m _ m' h; split at h <;> cases h; exact legalTrans_refl _ _
    · intro m hm h
      split at h
      · cases h
      next hk =>
        cases hk1 : keep1 m with
        | false =>
          apply C02.disappearWith_of_prune
          apply pruneAllowed_of_why (ms := q.msgs) (ms' := q1.msgs) hprunes (hwhy m hm hk1) (Nat.le_refl _)
          · simp only [modelRec]
            rw [hq', countP_eq, countP_eq, List.countP_append, List.countP_filter]
            apply Nat.le_trans _ (Nat.le_add_right _ _)
            apply List.countP_mono_left
            intro x hx hxd
            cases hk2 : keep2 x with
            | true => simp [hxd]
            | false =>
              have := (hev x hx hk2).1
              simp [isDead, this] at hxd
          · intro s hs hsd
            simp only [modelRec] at hs
            rw [hq', List.mem_append] at hs
            rcases hs with hs | hs
            · exact (List.mem_filter.1 hs).1
            · obtain ⟨e, _, rfl⟩ := List.mem_map.1 hs
              simp [mkMsg] at hsd
        | true =>
          have hk2 : keep2 m = false := by simpa [hk1] using hk
          have hm1 : m ∈ q1.msgs := by rw [hq1]; exact List.mem_filter.2 ⟨hm, hk1⟩
          obtain ⟨hmq, hdrop, hdepth, hall⟩ := hev m hm1 hk2
          have : E (modelRec c now q op (if single then .ok else .enqueued es.length) q') m = true := by
            apply hE m hm hmq hdrop hdepth (hok _)
            intro s hs hsq
            rw [hq', List.mem_append] at hs
            rcases hs with hs | hs
            · exact Or.inr (hall s hs hsq)
            · exact Or.inl hs
          simp [C02.disappearWith, this]
    · intro h; cases single <;> cases h
theorem C02_enqueue (E : Rec → Msg → Bool) (c : Cfg) (now : Int) (q q' : Q) (ch : Choice) (r : Resp)
    (e : Env)
    (hnd : (q.msgs.map (·.id)).Nodup)
    (hstep : step c now q (.enqueue e) ch = some (q', r))
    (hE : ∀ m ∈ q.msgs, m.st = .queued → c.dropOldest = true → c.maxDepth > 0 →
      enqueueOK (modelRec c now q (.enqueue e) r q') = true →
      (∀ s ∈ q'.msgs, s.st = .queued → (s ∈ [e].map (mkMsg now) ∨ m.recv ≤ s.recv)) →
      E (modelRec c now q (.enqueue e) r q') m = true) :
    SW E (modelRec c now q (.enqueue e) r q') := by
  simp only [step] at hstep
  obtain ⟨q1, hp, hk⟩ := withPrune_some hstep
  exact C02_enqueueCore E c now q q1 q' _ [e] true ch r ch.gone hnd hp hk rfl rfl (fun _ => rfl) hE

theorem C02_enqueueBatch (E : Rec → Msg → Bool) (c : Cfg) (now : Int) (q q' : Q) (ch : Choice) (r : Resp)
    (es : List Env)
    (hnd : (q.msgs.map (·.id)).Nodup)
    (hstep : step c now q (.enqueueBatch es) ch = some (q', r))
    (hE : ∀ m ∈ q.msgs, m.st = .queued → c.dropOldest = true → c.maxDepth > 0 →
      enqueueOK (modelRec c now q (.enqueueBatch es) r q') = true →
      (∀ s ∈ q'.msgs, s.st = .queued → (s ∈ es.map (mkMsg now) ∨ m.recv ≤ s.recv)) →
      E (modelRec c now q (.enqueueBatch es) r q') m = true) :
    SW E (modelRec c now q (.enqueueBatch es) r q') := by
  simp only [step] at hstep
  split at hstep
  next hemp =>
    cases hstep
    apply C02_same E c now q _ _ _ hnd rfl
    simp [enqueueOK, modelRec]
  next hne =>
    obtain ⟨q1, hp, hk⟩ := withPrune_some hstep
    have hpos : es.length > 0 := by
      cases es with
      | nil => simp at hne
      | cons => simp
    refine C02_enqueueCore E c now q q1 q' _ es false ch r ch.gone hnd hp hk rfl rfl (fun _ => ?_) hE
    simp [enqueueOK, modelRec, hpos]

theorem evictOK'_of (r : Rec) (m : Msg) (new : List Msg) (hq : m.st = .queued)
    (hdrop : r.cfg.dropOldest = true) (hdepth : r.cfg.maxDepth > 0) (hok : enqueueOK r = true)
    (hnew : ∀ s ∈ new, (envIds r.op).contains s.id = true)
    (hall : ∀ s ∈ r.after, s.st = .queued → (s ∈ new ∨ m.recv ≤ s.recv)) : C02.evictOK' r m = true := by
  unfold C02.evictOK'
  simp only [hq, hdrop, hok, Bool.and_eq_true, beq_self_eq_true, decide_eq_true_eq, true_and, hdepth,
    List.all_eq_true, Bool.or_eq_true, Bool.not_eq_eq_eq_not, Bool.not_true]
  intro s hs
  cases hsq : (s.st == St.queued) with
  | false => simp
  | true =>
    rcases hall s hs (by simpa using hsq) with h | h
    · have := hnew s h
      exact Or.inl (Or.inr this)
    · simp [h]

theorem evictOK_of (r : Rec) (m : Msg) (new : List Msg) (hq : m.st = .queued)
    (hdrop : r.cfg.dropOldest = true) (hdepth : r.cfg.maxDepth > 0) (hok : enqueueOK r = true)
    (hnew : ∀ s ∈ new, s ∉ r.before)
    (hall : ∀ s ∈ r.after, s.st = .queued → (s ∈ new ∨ m.recv ≤ s.recv)) : C02.evictOK r m = true := by
  unfold C02.evictOK
  simp only [hq, hdrop, hok, Bool.and_eq_true, beq_self_eq_true, decide_eq_true_eq, true_and, hdepth,
    List.all_eq_true, Bool.or_eq_true, Bool.not_eq_eq_eq_not, Bool.not_true]
  intro s hs
  cases hsq : (s.st == St.queued) with
  | false => simp
  | true =>
    rcases hall s hs (by simpa using hsq) with h | h
    · have := hnew s h
      left; right
      rw [List.any_eq_false]
      intro x hx hxs
      simp only [beq_iff_eq] at hxs
      exact this (hxs ▸ hx)
    · simp [h]

/-! ### all operations together -/

/-- the envelopes an operation asks to store -/
def envs : Op → List Env
  | .enqueue e => [e]
  | .enqueueBatch es => es
  | _ => []

theorem C02_step_gen (E : Rec → Msg → Bool) (c : Cfg) (now : Int) (q q' : Q) (op : Op) (ch : Choice) (r : Resp)
    (hinv : Inv q)
    (hTrim : c.memory = true → ∀ m ∈ q.msgs, m.st = .leased → trimWS m.lease = m.lease)
    (hExt : ∀ d ls, op = .leaseBatch (.extend d) ls → 0 ≤ d)
    (hDel : ∀ f, op = .byFilter .deleteDead f → f.preview = true)
    (hstep : step c now q op ch = some (q', r))
    (hE : ∀ m ∈ q.msgs, m.st = .queued → c.dropOldest = true → c.maxDepth > 0 →
      enqueueOK (modelRec c now q op r q') = true →
      (∀ s ∈ q'.msgs, s.st = .queued → (s ∈ (envs op).map (mkMsg now) ∨ m.recv ≤ s.recv)) →
      E (modelRec c now q op r q') m = true) :
    SW E (modelRec c now q op r q') := by
  cases op with
  | enqueue e => exact C02_enqueue E c now q q' ch r e hinv.nodup hstep hE
  | enqueueBatch es => exact C02_enqueueBatch E c now q q' ch r es hinv.nodup hstep hE
  | dequeue route target batch ttl => exact C02_dequeue E c now q q' ch r route target batch ttl hinv.nodup hstep
  | lease k l => exact C02_lease E c now q q' ch r k l hinv hTrim hstep
  | leaseBatch k ls =>
    exact C02_leaseBatch E c now q q' ch r k ls hinv (fun d hd => hExt d ls (by rw [hd])) hstep
  | byIds k ids => exact C02_byIds E c now q q' ch r k ids hinv.nodup hstep
  | byFilter k f =>
    exact C02_byFilter E c now q q' ch r k f hinv.nodup (fun hk => hDel f (by rw [hk])) hstep
  | list route target state order limit before =>
    exact C02_list E c now q q' ch r route target state order limit before hinv.nodup hstep
  | listDead route limit before => exact C02_listDead E c now q q' ch r route limit before hinv.nodup hstep
  | lookup ids => exact C02_lookup E c now q q' ch r ids hinv.nodup hstep
  | stats => exact C02_stats E c now q q' ch r hinv.nodup hstep
  | restart => exact C02_restart E c now q q' ch r hinv.nodup hstep

theorem envIds_eq (op : Op) : envIds op = (envs op).map (·.id) := by
  cases op <;> rfl

/-- **C02 for the model, corrected predicate** (`C02.stepOK'`: the eviction clause of `disappearOK` does not
    count a message stored by this very enqueue as a survivor).  Extra hypotheses:
    * `hTrim`: on the memory backend lease ids in use carry no surrounding white space
      (candidate `Inv` clause; `legalPicks` would have to demand it of new lease ids);
    * `hExt`: a batch extend has a non-negative duration (the driver offers no batch extend at all);
    * `hDel`: no non-preview delete-dead *by filter* (the driver offers none). -/
theorem C02_model' (c : Cfg) (now : Int) (q q' : Q) (op : Op) (ch : Choice) (r : Resp)
    (hinv : Inv q)
    (hTrim : c.memory = true → ∀ m ∈ q.msgs, m.st = .leased → trimWS m.lease = m.lease)
    (hExt : ∀ d ls, op = .leaseBatch (.extend d) ls → 0 ≤ d)
    (hDel : ∀ f, op = .byFilter .deleteDead f → f.preview = true)
    (hstep : step c now q op ch = some (q', r)) :
    C02.stepOK' (modelRec c now q op r q') = true := by
  unfold C02.stepOK'
  rw [C02.disappearOK'_eq]
  apply C02_step_gen C02.evictOK' c now q q' op ch r hinv hTrim hExt hDel hstep
  intro m _ hq hdrop hdepth hok hall
  apply evictOK'_of _ m ((envs op).map (mkMsg now)) hq hdrop hdepth hok _ hall
  intro s hs
  obtain ⟨e, he, rfl⟩ := List.mem_map.1 hs
  simp only [modelRec, envIds_eq, List.contains_iff_mem]
  exact List.mem_map.2 ⟨e, he, rfl⟩

/-- **C02 for the model, predicate as given** (`C02.stepOK`), with the additional hypothesis `hFresh`:
    no envelope of this enqueue re-creates, field for field, a message that is in the store. -/
theorem C02_model (c : Cfg) (now : Int) (q q' : Q) (op : Op) (ch : Choice) (r : Resp)
    (hinv : Inv q)
    (hTrim : c.memory = true → ∀ m ∈ q.msgs, m.st = .leased → trimWS m.lease = m.lease)
    (hExt : ∀ d ls, op = .leaseBatch (.extend d) ls → 0 ≤ d)
    (hDel : ∀ f, op = .byFilter .deleteDead f → f.preview = true)
    (hFresh : ∀ e ∈ envs op, mkMsg now e ∉ q.msgs)
    (hstep : step c now q op ch = some (q', r)) :
    C02.stepOK (modelRec c now q op r q') = true := by
  rw [C02.stepOK_eq, C02.disappearOK_eq]
  apply C02_step_gen C02.evictOK c now q q' op ch r hinv hTrim hExt hDel hstep
  intro m _ hq hdrop hdepth hok hall
  apply evictOK_of _ m ((envs op).map (mkMsg now)) hq hdrop hdepth hok _ hall
  intro s hs
  obtain ⟨e, he, rfl⟩ := List.mem_map.1 hs
  exact hFresh e he

#print axioms Hk.C02_model'
#print axioms Hk.C02_model

end Hk
