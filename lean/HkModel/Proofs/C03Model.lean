import HkModel.Proofs.QueueInv
/-!
  C03 (lease exclusivity) holds of every step of the model.
-/
namespace Hk
namespace P03
open Hk.Obs

/-! ### generic list facts -/

theorem nodupStr_iff (l : List String) : nodupStr l = true ↔ l.Nodup := by
  induction l with
  | nil => simp [nodupStr]
  | cons x xs ih =>
    simp only [nodupStr, Bool.and_eq_true, Bool.not_eq_true', List.nodup_cons, ih]
    constructor
    · rintro ⟨h1, h2⟩
      refine ⟨?_, h2⟩
      intro hmem
      have : xs.contains x = true := List.contains_iff_mem.mpr hmem
      rw [h1] at this; cases this
    · rintro ⟨h1, h2⟩
      refine ⟨?_, h2⟩
      cases hc : xs.contains x with
      | false => rfl
      | true => exact absurd (List.contains_iff_mem.mp hc) h1

theorem find_of_mem_nodup {ms : List Msg} (hnd : (ms.map (·.id)).Nodup) {m : Msg} (hm : m ∈ ms) :
    find ms m.id = some m := by
  induction ms with
  | nil => cases hm
  | cons x xs ih =>
    simp only [List.map_cons, List.nodup_cons] at hnd
    unfold find
    rw [List.find?_cons]
    rcases List.mem_cons.mp hm with rfl | hm'
    · simp
    · have hne : (x.id == m.id) = false := by
        apply beq_false_of_ne
        intro he
        apply hnd.1
        rw [he]
        exact List.mem_map.mpr ⟨m, hm', rfl⟩
      rw [hne]
      exact ih hnd.2 hm'

theorem find_some_mem {ms : List Msg} {i : String} {m : Msg} (h : find ms i = some m) :
    m ∈ ms ∧ m.id = i := by
  unfold find at h
  have h1 := List.mem_of_find?_eq_some h
  have h2 := List.find?_some h
  exact ⟨h1, by simpa using h2⟩

/-! ### "no lease appears": the relation every non-dequeue operation satisfies -/

/-- every leased message of `ms'` is a leased message of `ms` with the same id and lease -/
def Keeps (ms ms' : List Msg) : Prop :=
  ∀ m' ∈ ms', m'.st = .leased → ∃ m ∈ ms, m.id = m'.id ∧ m.st = .leased ∧ m.lease = m'.lease

theorem Keeps.refl (ms : List Msg) : Keeps ms ms :=
  fun m' hm' hs => ⟨m', hm', rfl, hs, rfl⟩

theorem Keeps.trans {a b c : List Msg} (h1 : Keeps a b) (h2 : Keeps b c) : Keeps a c := by
  intro m' hm' hs
  obtain ⟨m, hm, hid, hst, hl⟩ := h2 m' hm' hs
  obtain ⟨m0, hm0, hid0, hst0, hl0⟩ := h1 m hm hst
  exact ⟨m0, hm0, hid0.trans hid, hst0, hl0.trans hl⟩

theorem Keeps.of_subset {ms ms' : List Msg} (h : ∀ m ∈ ms', m ∈ ms) : Keeps ms ms' :=
  fun m' hm' hs => ⟨m', h m' hm', rfl, hs, rfl⟩

theorem Keeps.of_sublist {ms ms' : List Msg} (h : ms'.Sublist ms) : Keeps ms ms' :=
  Keeps.of_subset (fun _ hm => h.subset hm)

theorem stepOK_other (h : Hist) (r : Rec) (hop : ∀ a b c d, r.op ≠ .dequeue a b c d) :
    C03.stepOK h r = r.after.all (fun m' => !(m'.st == .leased) ||
      (match find r.before m'.id with
        | some m => m.st == .leased && m.lease == m'.lease | none => false)) := by
  unfold C03.stepOK
  split
  · rename_i heq _
    exact absurd heq (hop _ _ _ _)
  · rename_i heq _
    exact absurd heq (hop _ _ _ _)
  · rfl

theorem other_ok (h : Hist) (r : Rec) (hop : ∀ a b c d, r.op ≠ .dequeue a b c d)
    (hnd : (r.before.map (·.id)).Nodup) (hk : Keeps r.before r.after) :
    C03.stepOK h r = true := by
  rw [stepOK_other h r hop, List.all_eq_true]
  intro m' hm'
  cases hs : m'.st <;> simp
  obtain ⟨m, hm, hid, hst, hl⟩ := hk m' hm' hs
  rw [← hid, find_of_mem_nodup hnd hm]
  simp [hst, hl]

/-! ### building blocks of `step` -/

theorem prune_spec {c : Cfg} {now : Int} {q q1 : Q} {gone : List String}
    (h : prune c now q gone = some q1) :
    q1.issued = q.issued ∧ q1.msgs.Sublist q.msgs := by
  unfold prune at h
  split at h
  · dsimp only at h
    split at h
    · split at h
      · cases h
        exact ⟨rfl, (List.filter_sublist).trans List.filter_sublist⟩
      · cases h
    · cases h
      exact ⟨rfl, List.filter_sublist⟩
  · cases h
    exact ⟨rfl, List.Sublist.refl _⟩

theorem mkMsg_st (now : Int) (e : Env) : (mkMsg now e).st = .queued := rfl

theorem keeps_append_mk (now : Int) (es : List Env) {ms ms1 : List Msg} (h : ms1.Sublist ms) :
    Keeps ms (ms1 ++ es.map (mkMsg now)) := by
  intro m' hm' hs
  rcases List.mem_append.mp hm' with hm | hm
  · exact ⟨m', h.subset hm, rfl, hs, rfl⟩
  · obtain ⟨e, _, rfl⟩ := List.mem_map.mp hm
    rw [mkMsg_st] at hs
    cases hs

theorem enqueueCore_spec {c : Cfg} {now : Int} {q q' : Q} {es : List Env} {single : Bool}
    {ch : Choice} {r : Resp} (h : enqueueCore c now q es single ch = some (q', r)) :
    q'.issued = q.issued ∧ (∀ ps, r ≠ .items ps) ∧ Keeps q.msgs q'.msgs := by
  unfold enqueueCore at h
  dsimp only at h
  generalize (if (decide (needEvict c q.msgs es.length single > 0) && c.dropOldest) = true
    then ch.gone else []) = victims at h
  split at h
  · split at h
    · split at h
      · cases h
        refine ⟨rfl, ?_, keeps_append_mk now es List.filter_sublist⟩
        intro ps; split <;> simp
      · cases h
    · cases h
      refine ⟨rfl, ?_, keeps_append_mk now es (List.Sublist.refl _)⟩
      intro ps; split <;> simp
  · split at h
    · split at h
      · cases h
        exact ⟨rfl, by intro ps; simp, Keeps.refl _⟩
      · cases h
    · split at h
      · cases h
        exact ⟨rfl, by intro ps; simp, Keeps.refl _⟩
      · cases h

theorem withPrune_spec {c : Cfg} {now : Int} {q q' : Q} {ch : Choice} {r : Resp}
    {k : Q → Option (Q × Resp)} (h : withPrune c now q ch k = some (q', r)) :
    ∃ q1, q1.issued = q.issued ∧ q1.msgs.Sublist q.msgs ∧ k q1 = some (q', r) := by
  unfold withPrune at h
  split at h
  · cases h
  · rename_i q1 hp
    exact ⟨q1, (prune_spec hp).1, (prune_spec hp).2, h⟩

theorem leaseOne_keeps (c : Cfg) (now : Int) (k : LeaseKind) (l : String) (ms : List Msg) :
    Keeps ms (leaseOne c now k l ms).1 := by
  unfold leaseOne
  split
  · exact Keeps.refl _
  · split
    · exact Keeps.refl _
    · split
      · intro m' hm' hs
        obtain ⟨x, hx, rfl⟩ := List.mem_map.mp hm'
        split at hs
        · simp [release] at hs
        · rename_i hh
          rw [if_neg hh]
          exact ⟨x, hx, rfl, hs, rfl⟩
      · intro m' hm' hs
        obtain ⟨x, hx, hfx⟩ := List.mem_filterMap.mp hm'
        split at hfx
        · rename_i hh
          cases k with
          | ack =>
            simp only [applyLease] at hfx
            split at hfx
            · cases hfx; cases hs
            · cases hfx
          | nack d => simp only [applyLease] at hfx; cases hfx; cases hs
          | extend d =>
            simp only [applyLease] at hfx; cases hfx
            exact ⟨x, hx, rfl, hs, rfl⟩
          | markDead r => simp only [applyLease] at hfx; cases hfx; cases hs
        · cases hfx
          exact ⟨m', hx, rfl, hs, rfl⟩

theorem leaseBatchFold_keeps (c : Cfg) (now : Int) (k : LeaseKind) (ls : List String) :
    ∀ (ms : List Msg) (n : Nat) (cs : List Conflict),
      Keeps ms (leaseBatchFold c now k ls ms n cs).1 := by
  induction ls with
  | nil => intro ms n cs; exact Keeps.refl _
  | cons raw rest ih =>
    intro ms n cs
    unfold leaseBatchFold
    dsimp only
    split
    · exact ih _ _ _
    · have hk := leaseOne_keeps c now k (trimWS raw) ms
      split
      · rename_i ms' heq
        rw [heq] at hk
        exact hk.trans (ih _ _ _)
      · rename_i ms' heq
        rw [heq] at hk
        exact hk.trans (ih _ _ _)
      · rename_i ms' e _ heq
        rw [heq] at hk
        exact hk.trans (ih _ _ _)

theorem applyIds_keeps (now : Int) (k : IdKind) (ids : List String) (ms : List Msg) :
    Keeps ms (applyIds now k ids ms) := by
  intro m' hm' hs
  unfold applyIds at hm'
  obtain ⟨x, hx, hfx⟩ := List.mem_filterMap.mp hm'
  split at hfx
  · cases k <;> simp [operate, targetState] at hfx <;> (subst hfx; cases hs)
  · cases hfx
    exact ⟨m', hx, rfl, hs, rfl⟩

theorem other_model (c : Cfg) (now : Int) (q q' : Q) (op : Op) (r : Resp) (h : Hist)
    (hinv : Inv q) (hh : ∀ l ∈ h.issued, l ∈ q.issued)
    (hop : ∀ a b c d, op ≠ .dequeue a b c d) (hiss : q'.issued = q.issued)
    (hr : ∀ ps, r ≠ .items ps) (hk : Keeps q.msgs q'.msgs) :
    C03.stepOK h (modelRec c now q op r q') = true ∧
    (∀ l ∈ (C03.advance h (modelRec c now q op r q')).issued, l ∈ q'.issued) := by
  refine ⟨other_ok h _ hop hinv.nodup hk, ?_⟩
  intro l hl
  unfold C03.advance at hl
  split at hl
  · rename_i ps heq; exact absurd heq (hr ps)
  · rw [hiss]; exact hh l hl

/-! ### dequeue -/

/-- `ms1` arises from `ms` by removing messages and releasing expired leases -/
def Swept (now : Int) (ms ms1 : List Msg) : Prop :=
  (ms1.map (·.id)).Sublist (ms.map (·.id)) ∧
  ∀ m1 ∈ ms1, ∃ m ∈ ms, m1 = m ∨ (expired now m = true ∧ m1 = release now m)

theorem swept_of_sublist (now : Int) {ms ms1 : List Msg} (h : ms1.Sublist ms) : Swept now ms ms1 :=
  ⟨h.map _, fun m1 hm1 => ⟨m1, h.subset hm1, Or.inl rfl⟩⟩

theorem sweepMsgs_ids (now : Int) (ms : List Msg) :
    (sweepMsgs now ms).map (·.id) = ms.map (·.id) := by
  unfold sweepMsgs
  rw [List.map_map]
  apply List.map_congr_left
  intro m _
  simp only [Function.comp]
  split <;> rfl

theorem swept_sweep_of_sublist (now : Int) {ms ms1 : List Msg} (h : ms1.Sublist ms) :
    Swept now ms (sweepMsgs now ms1) := by
  refine ⟨?_, ?_⟩
  · rw [sweepMsgs_ids]; exact h.map _
  · intro m1 hm1
    unfold sweepMsgs at hm1
    obtain ⟨m, hm, rfl⟩ := List.mem_map.mp hm1
    refine ⟨m, h.subset hm, ?_⟩
    split
    · rename_i he; exact Or.inr ⟨he, rfl⟩
    · exact Or.inl rfl

theorem Swept.sublist {now : Int} {ms ms1 ms2 : List Msg} (h : Swept now ms ms1)
    (hs : ms2.Sublist ms1) : Swept now ms ms2 :=
  ⟨(hs.map _).trans h.1, fun m2 hm2 => h.2 m2 (hs.subset hm2)⟩

theorem sweep_spec (c : Cfg) (now : Int) (q : Q) :
    (sweep c now q).issued = q.issued ∧
    ((sweep c now q).msgs = q.msgs ∨ (sweep c now q).msgs = sweepMsgs now q.msgs) := by
  unfold sweep
  split
  · exact ⟨rfl, Or.inr rfl⟩
  · exact ⟨rfl, Or.inl rfl⟩

theorem housekeeping_spec {c : Cfg} {now : Int} {q q1 : Q} {gone : List String}
    (h : (prune c now q gone).map (sweep c now) = some q1) :
    q1.issued = q.issued ∧ Swept now q.msgs q1.msgs := by
  cases hp : prune c now q gone with
  | none => rw [hp] at h; cases h
  | some qp =>
    rw [hp] at h
    simp only [Option.map_some, Option.some.injEq] at h
    subst h
    obtain ⟨hi, hs⟩ := prune_spec hp
    obtain ⟨hi2, hm⟩ := sweep_spec c now qp
    refine ⟨hi2.trans hi, ?_⟩
    rcases hm with hm | hm
    · rw [hm]; exact swept_of_sublist now hs
    · rw [hm]; exact swept_sweep_of_sublist now hs

theorem grant_id (now ttl : Int) (picks : List (String × String)) (m : Msg) :
    (grant now ttl picks m).id = m.id := by
  unfold grant
  split
  · split <;> rfl
  · rfl

theorem leaseFor_of_mem {picks : List (String × String)} (hnd : (picks.map (·.1)).Nodup)
    {p : String × String} (hp : p ∈ picks) : leaseFor picks p.1 = some p.2 := by
  unfold leaseFor
  induction picks with
  | nil => cases hp
  | cons x xs ih =>
    simp only [List.map_cons, List.nodup_cons] at hnd
    rw [List.find?_cons]
    rcases List.mem_cons.mp hp with rfl | hp'
    · simp
    · have hne : (x.1 == p.1) = false := by
        apply beq_false_of_ne
        intro he
        apply hnd.1
        rw [he]
        exact List.mem_map.mpr ⟨p, hp', rfl⟩
      rw [hne]
      exact ih hnd.2 hp'

theorem leaseFor_some {picks : List (String × String)} {i l : String}
    (h : leaseFor picks i = some l) : picks.any (·.1 == i) = true := by
  unfold leaseFor at h
  cases hf : picks.find? (·.1 == i) with
  | none => rw [hf] at h; cases h
  | some p =>
    rw [List.any_eq_true]
    have h2 := List.find?_some hf
    exact ⟨p, List.mem_of_find?_eq_some hf, h2⟩

/-- the message a dequeue makes of a queued message `m1` it leases under `l` -/
def granted (now ttl : Int) (l : String) (m1 : Msg) : Msg :=
  { m1 with st := .leased, attempt := m1.attempt + 1, lease := l, luntil := now + ttl, next := now + ttl }

theorem pick_body (now ttl : Int) (route target : String) (m m1 : Msg) (l : String)
    (hrel : m1 = m ∨ (expired now m = true ∧ m1 = release now m))
    (hready : ready now route target m1 = true) :
    (C03.matchesReq route target m &&
      ((m.st == .queued && decide (m.next ≤ now)) || (m.st == .leased && decide (m.luntil ≤ now))) &&
      (granted now ttl l m1).st == .leased &&
      (granted now ttl l m1).lease == l &&
      (granted now ttl l m1).attempt == m.attempt + 1 &&
      (granted now ttl l m1).luntil == now + ttl &&
      (granted now ttl l m1).next == (granted now ttl l m1).luntil &&
      sameIdentity m (granted now ttl l m1)) = true := by
  unfold ready at hready
  simp only [Bool.and_eq_true, Bool.or_eq_true, beq_iff_eq, decide_eq_true_eq] at hready
  obtain ⟨⟨⟨hq, hr⟩, ht⟩, hn⟩ := hready
  rcases hrel with rfl | ⟨hexp, rfl⟩
  · simp [C03.matchesReq, sameIdentity, granted, hq, hr, ht, hn]
  · unfold expired at hexp
    simp only [Bool.and_eq_true, beq_iff_eq, decide_eq_true_eq] at hexp
    simp only [release] at hr ht
    simp [C03.matchesReq, sameIdentity, granted, release, hexp.1, hexp.2, hr, ht]

theorem grant_of_pick {now ttl : Int} {picks : List (String × String)} {m1 : Msg} {l : String}
    (hl : leaseFor picks m1.id = some l) (hq : m1.st = .queued) :
    grant now ttl picks m1 = granted now ttl l m1 := by
  unfold grant
  rw [hl]
  simp [hq, granted]

theorem dequeue_ok (c : Cfg) (now : Int) (q q1 : Q) (route target : String) (batch ttl : Int)
    (picks : List (String × String)) (h : Hist)
    (hinv : Inv q) (hh : ∀ l ∈ h.issued, l ∈ q.issued)
    (hiss : q1.issued = q.issued) (hsw : Swept now q.msgs q1.msgs)
    (hlp : legalPicks now route target batch q1 picks = true) :
    C03.stepOK h (modelRec c now q (.dequeue route target batch ttl) (.items picks)
      { q1 with msgs := q1.msgs.map (grant now (effTTL ttl) picks),
                issued := q1.issued ++ picks.map (·.2) }) = true := by
  unfold legalPicks at hlp
  simp only [Bool.and_eq_true, List.all_eq_true, nodupStr_iff] at hlp
  obtain ⟨⟨⟨_, hnd1⟩, hnd2⟩, hall⟩ := hlp
  have hndq1 : (q1.msgs.map (·.id)).Nodup := hinv.nodup.sublist hsw.1
  have hndaft : ((q1.msgs.map (grant now (effTTL ttl) picks)).map (·.id)).Nodup := by
    rw [List.map_map]
    have : ((fun m : Msg => m.id) ∘ grant now (effTTL ttl) picks) = (fun m : Msg => m.id) := by
      funext m; exact grant_id _ _ _ _
    rw [this]; exact hndq1
  have hunch : ∀ m1 ∈ q1.msgs, ((!m1.st == .leased || picks.any fun x => x.1 == m1.id) ||
      match find q.msgs m1.id with
      | some m => m == m1
      | none => false) = true := by
    intro m1 hm1
    cases hs : m1.st <;> simp
    obtain ⟨m, hm, hrel⟩ := hsw.2 m1 hm1
    rcases hrel with rfl | ⟨_, rfl⟩
    · rw [find_of_mem_nodup hinv.nodup hm]
      simp
    · simp [release] at hs
  simp only [C03.stepOK, modelRec, Bool.and_eq_true, List.all_eq_true, nodupStr_iff]
  refine ⟨⟨⟨hnd1, hnd2⟩, ?_⟩, ?_⟩
  · intro p hp
    obtain ⟨⟨⟨hany, hne⟩, hniss⟩, hnl⟩ := hall p hp
    rw [List.any_eq_true] at hany
    obtain ⟨m1, hm1, hid1⟩ := hany
    rw [List.mem_filter] at hm1
    obtain ⟨hm1, hready⟩ := hm1
    have hid1 : m1.id = p.1 := by simpa using hid1
    obtain ⟨m, hm, hrel⟩ := hsw.2 m1 hm1
    have hidm : m.id = p.1 := by
      rcases hrel with rfl | ⟨_, rfl⟩
      · exact hid1
      · exact hid1
    have hq1 : m1.st = .queued := by
      unfold ready at hready
      simp only [Bool.and_eq_true, beq_iff_eq] at hready
      exact hready.1.1.1
    have hfb : find q.msgs p.1 = some m := by
      rw [← hidm]; exact find_of_mem_nodup hinv.nodup hm
    have hlf : leaseFor picks m1.id = some p.2 := by
      rw [hid1]; exact leaseFor_of_mem hnd1 hp
    have hfa : find (q1.msgs.map (grant now (effTTL ttl) picks)) p.1 =
        some (granted now (effTTL ttl) p.2 m1) := by
      have hmem : grant now (effTTL ttl) picks m1 ∈ q1.msgs.map (grant now (effTTL ttl) picks) :=
        List.mem_map.mpr ⟨m1, hm1, rfl⟩
      have := find_of_mem_nodup hndaft hmem
      rw [grant_id, hid1, grant_of_pick hlf hq1] at this
      exact this
    rw [hfb, hfa]
    have hbody := pick_body now (effTTL ttl) route target m m1 p.2 hrel hready
    have hne' : p.2 ≠ "" := by simpa using hne
    have hniss' : p.2 ∉ q.issued := by
      rw [← hiss]
      intro hmem
      rw [List.contains_iff_mem.mpr hmem] at hniss
      cases hniss
    refine ⟨⟨⟨hne, ?_⟩, ?_⟩, ?_⟩
    · cases hc : h.issued.contains p.2 with
      | false => rfl
      | true => exact absurd (hh _ (List.contains_iff_mem.mp hc)) hniss'
    · cases hc : q.msgs.any (fun m => m.lease == p.2) with
      | false => rfl
      | true =>
        rw [List.any_eq_true] at hc
        obtain ⟨x, hx, hxl⟩ := hc
        have hxl : x.lease = p.2 := by simpa using hxl
        exact absurd (hxl ▸ hinv.leaseIssued x hx (by rw [hxl]; exact hne')) hniss'
    · simp only [List.isEmpty_nil, Bool.true_or, Bool.and_true]
      exact hbody
  · intro m' hm'
    obtain ⟨m1, hm1, rfl⟩ := List.mem_map.mp hm'
    rw [grant_id]
    unfold grant
    split
    · rename_i l hl
      split
      · have := leaseFor_some hl
        simp [this]
      · exact hunch m1 hm1
    · exact hunch m1 hm1

/-! ### the theorem -/

theorem C03_model (c : Cfg) (now : Int) (q q' : Q) (op : Op) (ch : Choice) (r : Resp) (h : Hist)
    (hinv : Inv q) (hh : ∀ l ∈ h.issued, l ∈ q.issued)
    (hstep : step c now q op ch = some (q', r)) :
    C03.stepOK h (modelRec c now q op r q') = true ∧
    (∀ l ∈ (C03.advance h (modelRec c now q op r q')).issued, l ∈ q'.issued) := by
  unfold step at hstep
  cases op with
  | enqueue e =>
    simp only at hstep
    obtain ⟨q1, hi, hsub, hk⟩ := withPrune_spec hstep
    obtain ⟨hi', hr, hkeep⟩ := enqueueCore_spec hk
    exact other_model c now q q' _ r h hinv hh (by intro _ _ _ _ he; cases he) (hi'.trans hi) hr
      ((Keeps.of_sublist hsub).trans hkeep)
  | enqueueBatch es =>
    simp only at hstep
    split at hstep
    · cases hstep
      exact other_model c now q q _ _ h hinv hh (by intro _ _ _ _ he; cases he) rfl
        (by intro ps; simp) (Keeps.refl _)
    · obtain ⟨q1, hi, hsub, hk⟩ := withPrune_spec hstep
      obtain ⟨hi', hr, hkeep⟩ := enqueueCore_spec hk
      exact other_model c now q q' _ r h hinv hh (by intro _ _ _ _ he; cases he) (hi'.trans hi) hr
        ((Keeps.of_sublist hsub).trans hkeep)
  | dequeue route target batch ttl =>
    simp only at hstep
    split at hstep
    · cases hstep
    · rename_i q1 hhk
      obtain ⟨hiss, hsw⟩ := housekeeping_spec hhk
      split at hstep
      · rename_i hlp
        cases hstep
        refine ⟨dequeue_ok c now q q1 route target batch ttl ch.picks h hinv hh hiss hsw hlp, ?_⟩
        intro l hl
        simp only [C03.advance, modelRec, List.mem_append] at hl ⊢
        rcases hl with hl | hl
        · left; rw [hiss]; exact hh l hl
        · right; exact hl
      · cases hstep
  | lease k l0 =>
    simp only at hstep
    split at hstep
    · split at hstep
      · cases hstep
        exact other_model c now q q _ _ h hinv hh (by intro _ _ _ _ he; cases he) rfl
          (by intro ps; simp) (Keeps.refl _)
      · cases hstep
        exact other_model c now q _ _ _ h hinv hh (by intro _ _ _ _ he; cases he) rfl
          (by intro ps; split <;> simp) (leaseOne_keeps _ _ _ _ _)
    · cases hstep
      exact other_model c now q _ _ _ h hinv hh (by intro _ _ _ _ he; cases he) rfl
        (by intro ps; split <;> simp) (leaseOne_keeps _ _ _ _ _)
  | leaseBatch k ls =>
    simp only at hstep
    cases hstep
    exact other_model c now q _ _ _ h hinv hh (by intro _ _ _ _ he; cases he) rfl
      (by intro ps; simp) (leaseBatchFold_keeps _ _ _ _ _ _ _)
  | byIds k ids =>
    simp only at hstep
    cases hstep
    exact other_model c now q _ _ _ h hinv hh (by intro _ _ _ _ he; cases he) rfl
      (by intro ps; simp) (applyIds_keeps _ _ _ _)
  | byFilter k f =>
    simp only at hstep
    split at hstep
    · cases hstep
      exact other_model c now q _ _ _ h hinv hh (by intro _ _ _ _ he; cases he) rfl
        (by intro ps; simp) (Keeps.refl _)
    · cases hstep
      exact other_model c now q _ _ _ h hinv hh (by intro _ _ _ _ he; cases he) rfl
        (by intro ps; simp) (applyIds_keeps _ _ _ _)
  | list route target state order limit before =>
    simp only at hstep
    obtain ⟨q1, hi, hsub, hk⟩ := withPrune_spec hstep
    split at hk
    · cases hk
      exact other_model c now q _ _ _ h hinv hh (by intro _ _ _ _ he; cases he) hi
        (by intro ps; simp) (Keeps.of_sublist hsub)
    · cases hk
      exact other_model c now q _ _ _ h hinv hh (by intro _ _ _ _ he; cases he) hi
        (by intro ps; simp) (Keeps.of_sublist hsub)
  | listDead route limit before =>
    simp only at hstep
    obtain ⟨q1, hi, hsub, hk⟩ := withPrune_spec hstep
    cases hk
    exact other_model c now q _ _ _ h hinv hh (by intro _ _ _ _ he; cases he) hi
      (by intro ps; simp) (Keeps.of_sublist hsub)
  | lookup ids =>
    simp only at hstep
    cases hstep
    exact other_model c now q _ _ _ h hinv hh (by intro _ _ _ _ he; cases he) rfl
      (by intro ps; simp) (Keeps.refl _)
  | stats =>
    simp only at hstep
    obtain ⟨q1, hi, hsub, hk⟩ := withPrune_spec hstep
    cases hk
    exact other_model c now q _ _ _ h hinv hh (by intro _ _ _ _ he; cases he) hi
      (by intro ps; simp) (Keeps.of_sublist hsub)
  | restart =>
    simp only at hstep
    cases hstep
    exact other_model c now q _ _ _ h hinv hh (by intro _ _ _ _ he; cases he) rfl
      (by intro ps; simp) (Keeps.refl _)

end P03
end Hk

#print axioms Hk.P03.C03_model
