import HkModel.Proofs.QueueInv
/-!
  Preservation of the reachable-state invariant `Hk.Inv` by every step of the queue model.
-/
namespace Hk

/-! ### general list facts -/

theorem eq_of_id_eq {ms : List Msg} (h : (ms.map (·.id)).Nodup) {a b : Msg}
    (ha : a ∈ ms) (hb : b ∈ ms) (hid : a.id = b.id) : a = b := by
  induction ms with
  | nil => cases ha
  | cons x xs ih =>
    simp only [List.map_cons, List.nodup_cons, List.mem_map, not_exists, not_and] at h
    rcases List.mem_cons.1 ha with rfl | ha' <;> rcases List.mem_cons.1 hb with rfl | hb'
    · rfl
    · exact absurd hid.symm (h.1 b hb')
    · exact absurd hid (h.1 a ha')
    · exact ih h.2 ha' hb'

theorem eq_of_map_eq {α β : Type} {f : α → β} {l : List α} (h : (l.map f).Nodup) {a b : α}
    (ha : a ∈ l) (hb : b ∈ l) (hf : f a = f b) : a = b := by
  induction l with
  | nil => cases ha
  | cons x xs ih =>
    simp only [List.map_cons, List.nodup_cons, List.mem_map, not_exists, not_and] at h
    rcases List.mem_cons.1 ha with rfl | ha' <;> rcases List.mem_cons.1 hb with rfl | hb'
    · rfl
    · exact absurd hf.symm (h.1 b hb')
    · exact absurd hf (h.1 a ha')
    · exact ih h.2 ha' hb'

theorem filterMap_ids_sublist (f : Msg → Option Msg) (hf : ∀ m m', f m = some m' → m'.id = m.id)
    (ms : List Msg) : ((ms.filterMap f).map (·.id)).Sublist (ms.map (·.id)) := by
  induction ms with
  | nil => simp
  | cons x xs ih =>
    cases hx : f x with
    | none => simp only [List.filterMap_cons, hx, List.map_cons]; exact ih.cons _
    | some y =>
      simp only [List.filterMap_cons, hx, List.map_cons]
      rw [hf x y hx]; exact ih.cons_cons _

theorem map_ids_eq (f : Msg → Msg) (hf : ∀ m, (f m).id = m.id) (ms : List Msg) :
    (ms.map f).map (·.id) = ms.map (·.id) := by
  simp [List.map_map, Function.comp_def, hf]

theorem nodupStr_iff (l : List String) : nodupStr l = true ↔ l.Nodup := by
  induction l with
  | nil => simp [nodupStr]
  | cons x xs ih => simp [nodupStr, ih, List.nodup_cons]

theorem dupIds_false_iff (l : List String) : dupIds l = false ↔ l.Nodup := by
  induction l with
  | nil => simp [dupIds]
  | cons x xs ih => simp [dupIds, ih, List.nodup_cons]

/-! ### the generic "pointwise" preservation lemma -/

/-- Every message of `q'` descends from a message of `q` with the same id, keeps or clears its
    lease, and satisfies the local clauses. -/
theorem Inv.of_local {q q' : Q} (hinv : Inv q)
    (hnodup : (q'.msgs.map (·.id)).Nodup)
    (hsrc : ∀ m' ∈ q'.msgs, ∃ m ∈ q.msgs, m.id = m'.id ∧
      (m'.st = .leased ↔ m'.lease ≠ "") ∧ (m'.lease ≠ "" → m'.lease = m.lease) ∧
      (m'.st = .leased → q'.lastSweep < m'.luntil ∧ 0 < m'.luntil ∧ m'.next = m'.luntil))
    (hissued : ∀ l ∈ q.issued, l ∈ q'.issued) : Inv q' := by
  constructor
  · exact hnodup
  · intro m' hm'
    obtain ⟨m, _, _, h, _⟩ := hsrc m' hm'
    exact h
  · intro a' ha' b' hb' hne heq
    obtain ⟨a, ha, haid, _, hal, _⟩ := hsrc a' ha'
    obtain ⟨b, hb, hbid, _, hbl, _⟩ := hsrc b' hb'
    have h1 : a.lease = a'.lease := (hal hne).symm
    have h2 : b.lease = b'.lease := (hbl (heq ▸ hne)).symm
    have hab : a = b := hinv.leaseUniq a ha b hb (h1 ▸ hne) (by rw [h1, h2, heq])
    exact eq_of_id_eq hnodup ha' hb' (by rw [← haid, ← hbid, hab])
  · intro m' hm' hne
    obtain ⟨m, hm, _, _, hl, _⟩ := hsrc m' hm'
    have h1 := hl hne
    exact hissued _ (h1 ▸ hinv.leaseIssued m hm (h1 ▸ hne))
  · intro m' hm' hst
    obtain ⟨m, _, _, _, _, h⟩ := hsrc m' hm'
    exact ⟨(h hst).1, (h hst).2.1⟩
  · intro m' hm' hst
    obtain ⟨m, _, _, _, _, h⟩ := hsrc m' hm'
    exact (h hst).2.2

theorem Inv.of_sublist {q q' : Q} (hinv : Inv q) (hsub : q'.msgs.Sublist q.msgs)
    (hsw : q'.lastSweep = q.lastSweep) (hiss : ∀ l ∈ q.issued, l ∈ q'.issued) : Inv q' := by
  refine hinv.of_local ((hsub.map _).nodup hinv.nodup) ?_ hiss
  intro m hm
  have hm0 := hsub.subset hm
  refine ⟨m, hm0, rfl, hinv.leaseIff m hm0, fun _ => rfl, fun hst => ?_⟩
  rw [hsw]
  exact ⟨(hinv.sweepDone m hm0 hst).1, (hinv.sweepDone m hm0 hst).2, hinv.leasedNext m hm0 hst⟩

/-! ### prune -/

theorem removeIds_sublist (p : Msg → Bool) (v : List String) (ms : List Msg) :
    (removeIds p v ms).Sublist ms := by
  unfold removeIds; exact List.filter_sublist

theorem removeIds_nil (p : Msg → Bool) (ms : List Msg) : removeIds p [] ms = ms := by
  simp [removeIds]

theorem prune_inv {c : Cfg} {now : Int} {q q1 : Q} {gone : List String}
    (h : prune c now q gone = some q1) (hinv : Inv q) :
    Inv q1 ∧ q1.lastSweep = q.lastSweep := by
  unfold prune at h
  split at h
  · dsimp only at h
    split at h
    · split at h
      · simp only [Option.some.injEq] at h
        subst h
        exact ⟨hinv.of_sublist ((removeIds_sublist _ _ _).trans List.filter_sublist) rfl
          (fun _ h => h), rfl⟩
      · cases h
    · simp only [Option.some.injEq] at h
      subst h
      exact ⟨hinv.of_sublist List.filter_sublist rfl (fun _ h => h), rfl⟩
  · simp only [Option.some.injEq] at h
    subst h
    exact ⟨hinv, rfl⟩

/-! ### sweep -/

theorem sweep_inv {c : Cfg} {now : Int} {q : Q} (hinv : Inv q) (hclock : q.lastSweep ≤ now) :
    Inv (sweep c now q) ∧ (sweep c now q).lastSweep ≤ now := by
  unfold sweep
  split
  · refine ⟨hinv.of_local ?_ ?_ (fun l h => h), Int.le_refl _⟩
    · simp only [sweepMsgs]
      rw [map_ids_eq]
      · exact hinv.nodup
      · intro m; split <;> rfl
    · intro m' hm'
      simp only [sweepMsgs, List.mem_map] at hm'
      obtain ⟨m, hm, rfl⟩ := hm'
      refine ⟨m, hm, ?_⟩
      by_cases hex : expired now m = true
      · simp [hex, release]
      · have hne : ¬ (m.st = .leased ∧ m.luntil ≤ now) := by
          simpa [expired] using hex
        rw [if_neg hex]
        refine ⟨rfl, hinv.leaseIff m hm, fun _ => rfl, fun hst => ?_⟩
        have := hinv.sweepDone m hm hst
        have := hinv.leasedNext m hm hst
        have : ¬ m.luntil ≤ now := fun h => hne ⟨hst, h⟩
        exact ⟨show now < m.luntil by omega, by omega, by assumption⟩
  · exact ⟨hinv, hclock⟩

/-! ### enqueue -/

theorem inv_append {q : Q} (hinv : Inv q) (now : Int) (post : List Msg) (hsub : post.Sublist q.msgs)
    (es : List Env) (hnd : (es.map (·.id)).Nodup)
    (hfresh : ∀ e ∈ es, ∀ m ∈ post, m.id ≠ e.id) :
    Inv { q with msgs := post ++ es.map (mkMsg now) } := by
  have hpost : Inv { q with msgs := post } := hinv.of_sublist hsub rfl (fun _ h => h)
  have hnew : ∀ m ∈ es.map (mkMsg now), m.st = .queued ∧ m.lease = "" := by
    intro m hm
    simp only [List.mem_map] at hm
    obtain ⟨e, _, rfl⟩ := hm
    exact ⟨rfl, rfl⟩
  constructor
  · show ((post ++ es.map (mkMsg now)).map (·.id)).Nodup
    rw [List.map_append, List.nodup_append]
    refine ⟨hpost.nodup, ?_, ?_⟩
    · rw [List.map_map]
      exact hnd
    · intro a ha b hb
      simp only [List.mem_map] at ha hb
      obtain ⟨m, hm, rfl⟩ := ha
      obtain ⟨m2, hm2, rfl⟩ := hb
      obtain ⟨e, he, rfl⟩ := hm2
      exact hfresh e he m hm
  · intro m hm
    rcases List.mem_append.1 hm with h | h
    · exact hpost.leaseIff m h
    · obtain ⟨h1, h2⟩ := hnew m h
      simp [h1, h2]
  · intro a ha b hb hne heq
    rcases List.mem_append.1 ha with ha | ha
    · rcases List.mem_append.1 hb with hb | hb
      · exact hpost.leaseUniq a ha b hb hne heq
      · exact absurd (heq.trans (hnew b hb).2) hne
    · exact absurd (hnew a ha).2 hne
  · intro m hm hne
    rcases List.mem_append.1 hm with h | h
    · exact hpost.leaseIssued m h hne
    · exact absurd (hnew m h).2 hne
  · intro m hm hst
    rcases List.mem_append.1 hm with h | h
    · exact hpost.sweepDone m h hst
    · rw [(hnew m h).1] at hst; cases hst
  · intro m hm hst
    rcases List.mem_append.1 hm with h | h
    · exact hpost.leasedNext m h hst
    · rw [(hnew m h).1] at hst; cases hst

theorem enqueueCore_inv {c : Cfg} {now : Int} {q q' : Q} {es : List Env} {single : Bool}
    {ch : Choice} {r : Resp} (h : enqueueCore c now q es single ch = some (q', r))
    (hinv : Inv q) : Inv q' ∧ q'.lastSweep = q.lastSweep := by
  unfold enqueueCore at h
  dsimp only at h
  generalize hv : (if (decide (needEvict c q.msgs es.length single > 0) && c.dropOldest) = true
    then ch.gone else []) = victims at h
  split at h
  · rename_i hrs
    simp only [refusals, List.isEmpty_iff, List.append_eq_nil_iff, ite_eq_right_iff,
      List.cons_ne_nil, imp_false, Bool.not_eq_true] at hrs
    obtain ⟨⟨hfull, _⟩, hdup⟩ := hrs
    rw [hfull] at hdup
    simp only [Bool.false_eq_true, if_false, Bool.or_eq_false_iff] at hdup
    obtain ⟨hd1, hd2⟩ := hdup
    have hnd : (es.map (·.id)).Nodup := (dupIds_false_iff _).1 hd1
    have hfresh : ∀ (post : List Msg), es.any (fun e => hasId post e.id) = false →
        ∀ e ∈ es, ∀ m ∈ post, m.id ≠ e.id := by
      intro post hp e he m hm hid
      have : es.any (fun e => hasId post e.id) = true := by
        simp only [List.any_eq_true, hasId, beq_iff_eq]
        exact ⟨e, he, m, hm, hid⟩
      rw [hp] at this; cases this
    split at h
    · rename_i hneed
      split at h
      · simp only [Option.some.injEq, Prod.mk.injEq] at h
        obtain ⟨rfl, _⟩ := h
        exact ⟨inv_append hinv now _ (removeIds_sublist _ _ _) es hnd (hfresh _ hd2), rfl⟩
      · cases h
    · rename_i hneed
      simp only [Option.some.injEq, Prod.mk.injEq] at h
      obtain ⟨rfl, _⟩ := h
      have hv' : victims = [] := by
        rw [← hv]; simp [hneed]
      rw [hv', removeIds_nil] at hd2
      exact ⟨inv_append hinv now _ (List.Sublist.refl _) es hnd (hfresh _ hd2), rfl⟩
  · split at h
    · split at h
      · simp only [Option.some.injEq, Prod.mk.injEq] at h
        obtain ⟨rfl, _⟩ := h
        exact ⟨hinv, rfl⟩
      · cases h
    · split at h
      · simp only [Option.some.injEq, Prod.mk.injEq] at h
        obtain ⟨rfl, _⟩ := h
        exact ⟨hinv, rfl⟩
      · cases h

/-! ### dequeue -/

def leasedAs (now ttl : Int) (l : String) (m : Msg) : Msg :=
  { m with st := .leased, attempt := m.attempt + 1, lease := l, luntil := now + ttl, next := now + ttl }

theorem grant_cases (now ttl : Int) (picks : List (String × String)) (m : Msg) :
    grant now ttl picks m = m ∨
    ∃ p ∈ picks, p.1 = m.id ∧ m.st = .queued ∧ grant now ttl picks m = leasedAs now ttl p.2 m := by
  unfold grant leaseFor
  cases hf : picks.find? (·.1 == m.id) with
  | none => left; rfl
  | some p =>
    simp only [Option.map_some]
    by_cases hst : m.st = .queued
    · right
      refine ⟨p, List.mem_of_find?_eq_some hf, ?_, hst, ?_⟩
      · have := List.find?_some hf
        simpa using this
      · simp [hst, leasedAs]
    · left
      simp [hst]

theorem grant_id (now ttl : Int) (picks : List (String × String)) (m : Msg) :
    (grant now ttl picks m).id = m.id := by
  rcases grant_cases now ttl picks m with h | ⟨p, _, _, _, h⟩ <;> rw [h] <;> rfl

theorem grant_inv {now ttl : Int} {route target : String} {batch : Int} {q1 : Q}
    {picks : List (String × String)} (hinv : Inv q1) (hsw : q1.lastSweep ≤ now) (hpos : 0 ≤ now)
    (httl : 0 < ttl) (hlegal : legalPicks now route target batch q1 picks = true) :
    Inv { q1 with msgs := q1.msgs.map (grant now ttl picks),
                  issued := q1.issued ++ picks.map (·.2) } := by
  unfold legalPicks at hlegal
  simp only [Bool.and_eq_true, List.all_eq_true, Bool.not_eq_true', decide_eq_true_eq,
    nodupStr_iff, List.any_eq_false, beq_iff_eq, List.contains_eq_mem, decide_eq_false_iff_not,
    ne_eq] at hlegal
  obtain ⟨⟨⟨_, _⟩, hnd2⟩, hall⟩ := hlegal
  have hne : ∀ p ∈ picks, p.2 ≠ "" := fun p hp => (hall p hp).1.1.2
  have hnotin : ∀ p ∈ picks, ∀ m ∈ q1.msgs, m.lease ≠ p.2 := fun p hp => (hall p hp).2
  constructor
  · show ((q1.msgs.map (grant now ttl picks)).map (·.id)).Nodup
    rw [map_ids_eq _ (grant_id now ttl picks)]
    exact hinv.nodup
  · intro m' hm'
    simp only [List.mem_map] at hm'
    obtain ⟨m, hm, rfl⟩ := hm'
    rcases grant_cases now ttl picks m with h | ⟨p, hp, _, _, h⟩ <;> rw [h]
    · exact hinv.leaseIff m hm
    · simp [leasedAs, hne p hp]
  · intro a' ha' b' hb' hane heq
    simp only [List.mem_map] at ha' hb'
    obtain ⟨a, ha, rfl⟩ := ha'
    obtain ⟨b, hb, rfl⟩ := hb'
    rcases grant_cases now ttl picks a with h1 | ⟨p, hp, hpid, _, h1⟩ <;>
      rcases grant_cases now ttl picks b with h2 | ⟨p', hp', hpid', _, h2⟩ <;>
      rw [h1] at hane heq ⊢ <;> rw [h2] at heq ⊢
    · rw [hinv.leaseUniq a ha b hb hane heq]
    · exact absurd heq (hnotin p' hp' a ha)
    · exact absurd heq.symm (hnotin p hp b hb)
    · have hpp : p = p' := eq_of_map_eq hnd2 hp hp' heq
      have hab : a = b := eq_of_id_eq hinv.nodup ha hb (by rw [← hpid, ← hpid', hpp])
      rw [hab, hpp]
  · intro m' hm' hlne
    simp only [List.mem_map] at hm'
    obtain ⟨m, hm, rfl⟩ := hm'
    show _ ∈ q1.issued ++ picks.map (·.2)
    rcases grant_cases now ttl picks m with h | ⟨p, hp, _, _, h⟩ <;> rw [h] at hlne ⊢
    · exact List.mem_append_left _ (hinv.leaseIssued m hm hlne)
    · exact List.mem_append_right _ (List.mem_map.2 ⟨p, hp, rfl⟩)
  · intro m' hm' hst
    simp only [List.mem_map] at hm'
    obtain ⟨m, hm, rfl⟩ := hm'
    show q1.lastSweep < _ ∧ _
    rcases grant_cases now ttl picks m with h | ⟨p, hp, _, _, h⟩ <;> rw [h] at hst ⊢
    · exact hinv.sweepDone m hm hst
    · show q1.lastSweep < now + ttl ∧ 0 < now + ttl
      omega
  · intro m' hm' hst
    simp only [List.mem_map] at hm'
    obtain ⟨m, hm, rfl⟩ := hm'
    rcases grant_cases now ttl picks m with h | ⟨p, hp, _, _, h⟩ <;> rw [h] at hst ⊢
    · exact hinv.leasedNext m hm hst
    · rfl

theorem effTTL_pos (ttl : Int) : 0 < effTTL ttl := by
  unfold effTTL; split <;> omega

/-! ### lease mutations -/

/-- the lease kind never shortens a lease -/
def kindOK (k : LeaseKind) : Prop := ∀ d, k = .extend d → 0 ≤ d

theorem applyLease_spec {c : Cfg} {now : Int} {k : LeaseKind} {x m' : Msg} (hk : kindOK k)
    (h : applyLease c now k x = some m') :
    m'.id = x.id ∧ ((m'.st ≠ .leased ∧ m'.lease = "") ∨
      (∃ d, 0 ≤ d ∧ m' = { x with luntil := x.luntil + d, next := x.luntil + d })) := by
  unfold applyLease at h
  cases k with
  | ack =>
    simp only at h
    split at h
    · simp only [Option.some.injEq] at h; subst h
      exact ⟨rfl, Or.inl ⟨by simp, rfl⟩⟩
    · cases h
  | nack d =>
    simp only [Option.some.injEq] at h; subst h
    exact ⟨rfl, Or.inl ⟨by simp, rfl⟩⟩
  | extend d =>
    simp only [Option.some.injEq] at h; subst h
    exact ⟨rfl, Or.inr ⟨d, hk d rfl, rfl⟩⟩
  | markDead r =>
    simp only [Option.some.injEq] at h; subst h
    exact ⟨rfl, Or.inl ⟨by simp, rfl⟩⟩

theorem leaseOne_inv {c : Cfg} {now : Int} {k : LeaseKind} (l : String) {q : Q} (hinv : Inv q)
    (hk : kindOK k) : Inv { q with msgs := (leaseOne c now k l q.msgs).1 } := by
  unfold leaseOne
  split
  · exact hinv
  · split
    · exact hinv
    · split
      · -- expired: release
        refine hinv.of_local ?_ ?_ (fun _ h => h)
        · show ((q.msgs.map _).map (fun m : Msg => m.id)).Nodup
          rw [map_ids_eq]
          · exact hinv.nodup
          · intro m; split <;> rfl
        · intro m' hm'
          simp only [List.mem_map] at hm'
          obtain ⟨m, hm, rfl⟩ := hm'
          refine ⟨m, hm, ?_⟩
          by_cases hh : holds l m = true
          · simp [hh, release]
          · rw [if_neg hh]
            refine ⟨rfl, hinv.leaseIff m hm, fun _ => rfl, fun hst => ?_⟩
            exact ⟨(hinv.sweepDone m hm hst).1, (hinv.sweepDone m hm hst).2,
              hinv.leasedNext m hm hst⟩
      · -- live: apply
        have hid : ∀ m m', (if holds l m = true then applyLease c now k m else some m) = some m' →
            m'.id = m.id := by
          intro m m' h
          split at h
          · exact (applyLease_spec hk h).1
          · simp only [Option.some.injEq] at h; rw [h]
        refine hinv.of_local ?_ ?_ (fun _ h => h)
        · exact (filterMap_ids_sublist _ hid _).nodup hinv.nodup
        · intro m' hm'
          simp only [List.mem_filterMap] at hm'
          obtain ⟨m, hm, hfm⟩ := hm'
          refine ⟨m, hm, (hid m m' hfm).symm, ?_⟩
          have hold : (m.st = .leased ↔ m.lease ≠ "") ∧ (m.lease ≠ "" → m.lease = m.lease) ∧
              (m.st = .leased → q.lastSweep < m.luntil ∧ 0 < m.luntil ∧ m.next = m.luntil) :=
            ⟨hinv.leaseIff m hm, fun _ => rfl, fun hst =>
              ⟨(hinv.sweepDone m hm hst).1, (hinv.sweepDone m hm hst).2, hinv.leasedNext m hm hst⟩⟩
          split at hfm
          · rcases (applyLease_spec hk hfm).2 with ⟨h1, h2⟩ | ⟨d, hd, rfl⟩
            · simp [h1, h2]
            · refine ⟨hold.1, fun _ => rfl, fun hst => ?_⟩
              have := hold.2.2 hst
              show q.lastSweep < m.luntil + d ∧ 0 < m.luntil + d ∧ m.luntil + d = m.luntil + d
              omega
          · simp only [Option.some.injEq] at hfm; subst hfm
            exact hold

theorem leaseBatchFold_inv {c : Cfg} {now : Int} {k : LeaseKind} (hk : kindOK k)
    (ls : List String) : ∀ (q : Q) (n : Nat) (cs : List Conflict), Inv q →
      Inv { q with msgs := (leaseBatchFold c now k ls q.msgs n cs).1 } := by
  induction ls with
  | nil => intro q n cs hinv; exact hinv
  | cons raw rest ih =>
    intro q n cs hinv
    unfold leaseBatchFold
    dsimp only
    split
    · exact ih q n _ hinv
    · have h1 := leaseOne_inv (c := c) (now := now) (trimWS raw) hinv hk
      split
      · rename_i ms' heq
        rw [heq] at h1
        exact ih { q with msgs := ms' } _ _ h1
      · rename_i ms' heq
        rw [heq] at h1
        exact ih { q with msgs := ms' } _ _ h1
      · rename_i ms' e _ heq
        rw [heq] at h1
        exact ih { q with msgs := ms' } _ _ h1

/-! ### operator mutations -/

theorem applyIds_inv {now : Int} {k : IdKind} (ids : List String) {q : Q} (hinv : Inv q) :
    Inv { q with msgs := applyIds now k ids q.msgs } := by
  unfold applyIds
  have hspec : ∀ m m', (if selectedBy k ids m = true then operate now k m else some m) = some m' →
      m'.id = m.id ∧ (m' = m ∨ (m'.st ≠ .leased ∧ m'.lease = "")) := by
    intro m m' h
    split at h
    · unfold operate at h
      cases k <;> simp only [Option.some.injEq, reduceCtorEq] at h <;> subst h <;>
        exact ⟨rfl, Or.inr ⟨by simp [targetState], rfl⟩⟩
    · simp only [Option.some.injEq] at h; subst h
      exact ⟨rfl, Or.inl rfl⟩
  refine hinv.of_local ?_ ?_ (fun _ h => h)
  · exact (filterMap_ids_sublist _ (fun m m' h => (hspec m m' h).1) _).nodup hinv.nodup
  · intro m' hm'
    simp only [List.mem_filterMap] at hm'
    obtain ⟨m, hm, hfm⟩ := hm'
    refine ⟨m, hm, (hspec m m' hfm).1.symm, ?_⟩
    rcases (hspec m m' hfm).2 with rfl | ⟨h1, h2⟩
    · exact ⟨hinv.leaseIff _ hm, fun _ => rfl, fun hst =>
        ⟨(hinv.sweepDone _ hm hst).1, (hinv.sweepDone _ hm hst).2, hinv.leasedNext _ hm hst⟩⟩
    · simp [h1, h2]

/-! ### the step function -/

theorem withPrune_inv {c : Cfg} {now : Int} {q q' : Q} {ch : Choice} {k : Q → Option (Q × Resp)}
    {r : Resp} (h : withPrune c now q ch k = some (q', r)) (hinv : Inv q) :
    ∃ q1, Inv q1 ∧ q1.lastSweep = q.lastSweep ∧ k q1 = some (q', r) := by
  unfold withPrune at h
  split at h
  · cases h
  · rename_i q1 hp
    exact ⟨q1, (prune_inv hp hinv).1, (prune_inv hp hinv).2, h⟩

/-- Preservation of the invariant by one step.  Compared with the statement in
    `Props/QueueStmts.lean` there is one extra hypothesis `hext`: the operation is not a *batch*
    lease extension by a negative amount (see `inv_step_needs_hext` below for the counterexample). -/
theorem inv_step (c : Cfg) (now : Int) (q q' : Q) (op : Op) (ch : Choice) (r : Resp)
    (hinv : Inv q) (hclock : q.lastSweep ≤ now) (hpos : 0 ≤ now)
    (hext : ∀ d ls, op = .leaseBatch (.extend d) ls → 0 ≤ d)
    (hstep : step c now q op ch = some (q', r)) : Inv q' ∧ q'.lastSweep ≤ now := by
  unfold step at hstep
  cases op with
  | enqueue e =>
    simp only at hstep
    obtain ⟨q1, h1, hs, hk⟩ := withPrune_inv hstep hinv
    have := enqueueCore_inv hk h1
    exact ⟨this.1, by omega⟩
  | enqueueBatch es =>
    simp only at hstep
    split at hstep
    · simp only [Option.some.injEq, Prod.mk.injEq] at hstep
      obtain ⟨rfl, _⟩ := hstep
      exact ⟨hinv, hclock⟩
    · obtain ⟨q1, h1, hs, hk⟩ := withPrune_inv hstep hinv
      have := enqueueCore_inv hk h1
      exact ⟨this.1, by omega⟩
  | dequeue route target batch ttl =>
    simp only at hstep
    split at hstep
    · cases hstep
    · rename_i q1 hhk
      have hq1 : Inv q1 ∧ q1.lastSweep ≤ now := by
        cases hp : prune c now q ch.gone with
        | none => rw [hp] at hhk; cases hhk
        | some q0 =>
          rw [hp] at hhk
          simp only [Option.map_some, Option.some.injEq] at hhk
          subst hhk
          have h0 := prune_inv hp hinv
          exact sweep_inv h0.1 (by omega)
      split at hstep
      · rename_i hlegal
        simp only [Option.some.injEq, Prod.mk.injEq] at hstep
        obtain ⟨rfl, _⟩ := hstep
        exact ⟨grant_inv hq1.1 hq1.2 hpos (effTTL_pos ttl) hlegal, hq1.2⟩
      · cases hstep
  | lease k l0 =>
    simp only at hstep
    split at hstep
    · rename_i _ _ d
      split at hstep
      · simp only [Option.some.injEq, Prod.mk.injEq] at hstep
        obtain ⟨rfl, _⟩ := hstep
        exact ⟨hinv, hclock⟩
      · rename_i hd
        simp only [Option.some.injEq, Prod.mk.injEq] at hstep
        obtain ⟨rfl, _⟩ := hstep
        have hk : kindOK (.extend d) := by
          intro d' h; cases h; omega
        exact ⟨leaseOne_inv _ hinv hk, hclock⟩
    · rename_i hne
      simp only [Option.some.injEq, Prod.mk.injEq] at hstep
      obtain ⟨rfl, _⟩ := hstep
      have hk : kindOK k := by
        intro d h; exact (hne d h).elim
      exact ⟨leaseOne_inv _ hinv hk, hclock⟩
  | leaseBatch k ls =>
    simp only [Option.some.injEq, Prod.mk.injEq] at hstep
    obtain ⟨rfl, _⟩ := hstep
    have hk : kindOK k := by
      intro d h; exact hext d ls (by rw [h])
    exact ⟨leaseBatchFold_inv hk ls q 0 [] hinv, hclock⟩
  | byIds k ids =>
    simp only [Option.some.injEq, Prod.mk.injEq] at hstep
    obtain ⟨rfl, _⟩ := hstep
    exact ⟨applyIds_inv _ hinv, hclock⟩
  | byFilter k f =>
    simp only at hstep
    split at hstep
    · simp only [Option.some.injEq, Prod.mk.injEq] at hstep
      obtain ⟨rfl, _⟩ := hstep
      exact ⟨hinv, hclock⟩
    · simp only [Option.some.injEq, Prod.mk.injEq] at hstep
      obtain ⟨rfl, _⟩ := hstep
      exact ⟨applyIds_inv _ hinv, hclock⟩
  | list route target state order limit before =>
    simp only at hstep
    obtain ⟨q1, h1, hs, hk⟩ := withPrune_inv hstep hinv
    have hq : q1 = q' := by
      split at hk <;> simp only [Option.some.injEq, Prod.mk.injEq] at hk <;> exact hk.1
    subst hq
    exact ⟨h1, by omega⟩
  | listDead route limit before =>
    simp only at hstep
    obtain ⟨q1, h1, hs, hk⟩ := withPrune_inv hstep hinv
    simp only [Option.some.injEq, Prod.mk.injEq] at hk
    obtain ⟨rfl, _⟩ := hk
    exact ⟨h1, by omega⟩
  | lookup ids =>
    simp only [Option.some.injEq, Prod.mk.injEq] at hstep
    obtain ⟨rfl, _⟩ := hstep
    exact ⟨hinv, hclock⟩
  | stats =>
    simp only at hstep
    obtain ⟨q1, h1, hs, hk⟩ := withPrune_inv hstep hinv
    simp only [Option.some.injEq, Prod.mk.injEq] at hk
    obtain ⟨rfl, _⟩ := hk
    exact ⟨h1, by omega⟩
  | restart =>
    simp only [Option.some.injEq, Prod.mk.injEq] at hstep
    obtain ⟨rfl, _⟩ := hstep
    refine ⟨hinv.of_local hinv.nodup ?_ (fun _ h => h), hpos⟩
    intro m hm
    exact ⟨m, hm, rfl, hinv.leaseIff m hm, fun _ => rfl, fun hst =>
      ⟨(hinv.sweepDone m hm hst).2, (hinv.sweepDone m hm hst).2, hinv.leasedNext m hm hst⟩⟩

/-! ### the statement without `hext` is false -/

def cexMsg : Msg :=
  { id := "a", route := "r", target := "t", st := .leased, recv := 1, next := 10, attempt := 1,
    payload := "", headers := "", trace := "", reason := "", lease := "L", luntil := 10 }
def cexMsg' : Msg := { cexMsg with next := -90, luntil := -90 }
def cexQ : Q := { msgs := [cexMsg], lastPrune := none, lastSweep := 5, issued := ["L"] }
def cexQ' : Q := { cexQ with msgs := [cexMsg'] }
def cexOp : Op := .leaseBatch (.extend (-100)) ["L"]

theorem cexInv : Inv cexQ := by
  constructor <;> simp [cexQ, cexMsg]

theorem cexStep : step {} 5 cexQ cexOp {} = some (cexQ', .batch 1 []) := by rfl

/-- `inv_step` as stated in `Props/QueueStmts.lean` (without `hext`) does not hold: a batch
    extension by a negative amount moves a live lease's end behind the last sweep (and below 0). -/
theorem inv_step_needs_hext :
    ¬ (∀ (c : Cfg) (now : Int) (q q' : Q) (op : Op) (ch : Choice) (r : Resp),
        Inv q → q.lastSweep ≤ now → 0 ≤ now → step c now q op ch = some (q', r) →
        Inv q' ∧ q'.lastSweep ≤ now) := by
  intro h
  have h1 := (h {} 5 cexQ cexQ' cexOp {} _ cexInv (by decide) (by decide) cexStep).1
  have h2 := h1.sweepDone cexMsg' (by simp [cexQ']) rfl
  simp [cexQ', cexQ, cexMsg', cexMsg] at h2

end Hk

#print axioms Hk.inv_step_needs_hext
#print axioms Hk.inv_step
