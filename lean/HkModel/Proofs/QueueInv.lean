import HkModel.Model.Queue
import HkModel.Obs.Queue
/-!
  Reachable-state invariant of the queue model and its preservation by every step.
-/
namespace Hk
open Hk.Obs

/-- Reachable-state invariant. -/
structure Inv (q : Q) : Prop where
  /-- message ids are pairwise distinct -/
  nodup : (q.msgs.map (·.id)).Nodup
  /-- a message carries a lease id exactly when it is leased -/
  leaseIff : ∀ m ∈ q.msgs, (m.st = .leased ↔ m.lease ≠ "")
  /-- two different messages never hold the same lease id -/
  leaseUniq : ∀ a ∈ q.msgs, ∀ b ∈ q.msgs, a.lease ≠ "" → a.lease = b.lease → a = b
  /-- every lease in use was issued by a dequeue -/
  leaseIssued : ∀ m ∈ q.msgs, m.lease ≠ "" → m.lease ∈ q.issued
  /-- a sweep releases every lease that expired up to it; later leases end after it -/
  sweepDone : ∀ m ∈ q.msgs, m.st = .leased → q.lastSweep < m.luntil ∧ 0 < m.luntil
  /-- a leased message becomes visible again exactly when its lease ends -/
  leasedNext : ∀ m ∈ q.msgs, m.st = .leased → m.next = m.luntil

/-- the record an observer of the model would write for one step -/
def modelRec (c : Cfg) (now : Int) (q : Q) (op : Op) (r : Resp) (q' : Q) : Rec :=
  { cfg := c, now := now, before := q.msgs, op := op, resp := r, after := q'.msgs, items := [] }

theorem inv_init : Inv {} := by
  constructor <;> simp

end Hk
