import HkModel.Model.Queue
/-!
  Observation records and the decidable property predicates for the queue family
  (C02, C03, C04, C05, C12, C14).  Written against the *property text*: a predicate looks only at
  what an observer sees (configuration, clock, operation, response, full store listing before and
  after) and never re-runs `Hk.step`.  CORE ONLY.
-/
namespace Hk.Obs
open Hk

structure Rec where
  cfg : Cfg
  now : Int
  before : List Msg
  op : Op
  resp : Resp
  after : List Msg
  items : List Msg := []      -- envelopes returned by a dequeue
  deriving Repr

def find (ms : List Msg) (id : String) : Option Msg := ms.find? (·.id == id)

def isErr : Resp → Bool | .err _ => true | _ => false

def prunes : Op → Bool
  | .enqueue _ | .enqueueBatch _ | .dequeue .. | .list .. | .listDead .. | .stats => true
  | _ => false

/-- the six fields no operation may alter -/
def sameIdentity (a b : Msg) : Bool :=
  a.id == b.id && a.route == b.route && a.target == b.target && a.payload == b.payload &&
  a.headers == b.headers && a.trace == b.trace

/-- `m` may have been removed by the retention prune piggy-backed on this operation:
    age-eligible in its state (an expired lease swept by a dequeue counts as queued), or dead while the
    DLQ holds more than `dlq.max_depth` and no surviving dead message is older. Never a live lease. -/
def pruneAllowed (r : Rec) (m : Msg) : Bool :=
  prunes r.op && pruneConfigured r.cfg &&
  (ageEligible r.cfg r.now m ||
   (expired r.now m && (match r.op with | .dequeue .. => true | _ => false) &&
      ageEligible r.cfg r.now (release r.now m)) ||
   (m.st == .dead && r.cfg.dlqDepth > 0 && countP isDead r.before > r.cfg.dlqDepth &&
      countP isDead r.after ≥ r.cfg.dlqDepth &&
      r.after.all (fun s => !(s.st == .dead) || !(r.before.any (· == s)) || decide (m.recv ≤ s.recv))))

def presented : Op → List String
  | .lease _ l => [trimWS l]
  | .leaseBatch _ ls => ls.map trimWS
  | _ => []

def leaseKind? : Op → Option LeaseKind
  | .lease k _ => some k
  | .leaseBatch k _ => some k
  | _ => none

def liveLeased (now : Int) (m : Msg) : Bool := m.st == .leased && decide (m.luntil > now)

def envIds : Op → List String
  | .enqueue e => [e.id]
  | .enqueueBatch es => es.map (·.id)
  | _ => []

def enqueueOK (r : Rec) : Bool :=
  match r.op, r.resp with
  | .enqueue _, .ok => true
  | .enqueueBatch es, .enqueued n => n == es.length && n > 0
  | _, _ => false

/-- `m` (present before) is no longer in the store afterwards: its id is absent, or the id was stored
    afresh by this successful enqueue (duplicates are refused, so the old message must have gone). -/
def vanished (r : Rec) (m : Msg) : Bool :=
  (find r.after m.id).isNone || (enqueueOK r && (envIds r.op).contains m.id)

def idKindOf? : Op → Option IdKind
  | .byIds k _ => some k
  | .byFilter k f => if f.preview then none else some k
  | _ => none

def namesId (r : Rec) (id : String) : Bool :=
  match r.op with
  | .byIds _ ids => (normIds ids).contains id
  | .byFilter _ f => !f.preview
  | _ => false

def picked (r : Rec) (id : String) : Bool :=
  match r.op, r.resp with
  | .dequeue .., .items ps => ps.any (·.1 == id)
  | _, _ => false

/-! ## C02 — conservation and legal transitions -/
namespace C02

/-- legal state change of one message that exists before and after -/
def legalTrans (r : Rec) (m m' : Msg) : Bool :=
  m' == m ||
  (sameIdentity m m' &&
  match m.st, m'.st with
  | .queued, .leased => picked r m.id
  | .leased, .queued =>
      -- lease expiry (any operation may release an already expired lease) or nack under the live lease
      decide (m.luntil ≤ r.now) ||
      (liveLeased r.now m && (presented r.op).contains m.lease &&
        (match leaseKind? r.op with | some (.nack _) => true | _ => false))
  | .leased, .leased =>
      (liveLeased r.now m && (presented r.op).contains m.lease &&
        (match leaseKind? r.op with | some (.extend _) => true | _ => false)) ||
      (decide (m.luntil ≤ r.now) && picked r m.id)      -- expired, swept and leased again by one dequeue
  | .leased, .delivered =>
      liveLeased r.now m && (presented r.op).contains m.lease && decide (r.cfg.deliveredRet > 0) &&
        (match leaseKind? r.op with | some .ack => true | _ => false)
  | .leased, .dead =>
      liveLeased r.now m && (presented r.op).contains m.lease &&
        (match leaseKind? r.op with | some (.markDead _) => true | _ => false)
  | .queued, .canceled | .leased, .canceled | .dead, .canceled =>
      (idKindOf? r.op == some .cancel) && namesId r m.id
  | .dead, .queued =>
      (idKindOf? r.op == some .requeue || idKindOf? r.op == some .requeueDead) && namesId r m.id
  | .canceled, .queued =>
      (idKindOf? r.op == some .requeue || idKindOf? r.op == some .resume) && namesId r m.id
  | _, _ => false)

/-- legal cause for a message present before and absent after -/
def disappearOK (r : Rec) (m : Msg) : Bool :=
  -- ack without delivered retention, under the live lease
  (liveLeased r.now m && (presented r.op).contains m.lease && !decide (r.cfg.deliveredRet > 0) &&
    (match leaseKind? r.op with | some .ack => true | _ => false)) ||
  -- DLQ delete
  (m.st == .dead && (match r.op with | .byIds .deleteDead ids => (normIds ids).contains m.id | _ => false)) ||
  -- retention prune
  pruneAllowed r m ||
  -- drop_oldest eviction in favour of a message that is actually stored
  (m.st == .queued && r.cfg.dropOldest && r.cfg.maxDepth > 0 && enqueueOK r &&
    r.after.all (fun s => !(s.st == .queued) || !(r.before.any (· == s)) || decide (m.recv ≤ s.recv)))

def nodupIds (ms : List Msg) : Bool := nodupStr (ms.map (·.id))

def stepOK (r : Rec) : Bool :=
  nodupIds r.after &&
  -- every message present afterwards was there before (legally changed) or was just enqueued
  r.after.all (fun m' =>
    match find r.before m'.id with
    | some m =>
        if vanished r m then m'.st == .queued   -- the old message went (checked below), the id was stored again
        else legalTrans r m m'
    | none => enqueueOK r && (envIds r.op).contains m'.id && m'.st == .queued) &&
  -- every message that vanished had a legal cause
  r.before.all (fun m => !vanished r m || disappearOK r m) &&
  -- an operation that reports an error changes nothing beyond expired-lease release (and the prune)
  (!isErr r.resp ||
    (r.after.all (fun m' => (find r.before m'.id).isSome) &&
     r.before.all (fun m =>
        match find r.after m.id with
        | some m' => m' == m || (expired r.now m && m' == release r.now m)
        | none => pruneAllowed r m)))

/-- `C02.stepOK` with the disappearance clause `D` as a parameter. -/
def stepOKWith (D : Rec → Msg → Bool) (r : Rec) : Bool :=
  nodupIds r.after &&
  r.after.all (fun m' =>
    match find r.before m'.id with
    | some m =>
        if vanished r m then m'.st == .queued
        else legalTrans r m m'
    | none => enqueueOK r && (envIds r.op).contains m'.id && m'.st == .queued) &&
  r.before.all (fun m => !vanished r m || D r m) &&
  (!isErr r.resp ||
    (r.after.all (fun m' => (find r.before m'.id).isSome) &&
     r.before.all (fun m =>
        match find r.after m.id with
        | some m' => m' == m || (expired r.now m && m' == release r.now m)
        | none => pruneAllowed r m)))

/-- `disappearOK` with the eviction clause corrected: a message of `after` whose id was stored by this
    very enqueue is a *new* message, not a survivor, even when it happens to be field-for-field equal to
    some message of `before`. -/
def disappearOK' (r : Rec) (m : Msg) : Bool :=
  (liveLeased r.now m && (presented r.op).contains m.lease && !decide (r.cfg.deliveredRet > 0) &&
    (match leaseKind? r.op with | some .ack => true | _ => false)) ||
  (m.st == .dead && (match r.op with | .byIds .deleteDead ids => (normIds ids).contains m.id | _ => false)) ||
  pruneAllowed r m ||
  (m.st == .queued && r.cfg.dropOldest && r.cfg.maxDepth > 0 && enqueueOK r &&
    r.after.all (fun s => !(s.st == .queued) || !(r.before.any (· == s)) || (envIds r.op).contains s.id ||
      decide (m.recv ≤ s.recv)))

def stepOK' (r : Rec) : Bool := stepOKWith disappearOK' r

end C02

/-! ## C03 — lease exclusivity -/

structure Hist where
  issued : List String := []      -- every lease id seen in a dequeue response so far
  deriving Repr

namespace C03

def matchesReq (route target : String) (m : Msg) : Bool :=
  (route == "" || m.route == route) && (target == "" || m.target == target)

def stepOK (h : Hist) (r : Rec) : Bool :=
  match r.op, r.resp with
  | .dequeue route target _ ttl, .items ps =>
    nodupStr (ps.map (·.1)) && nodupStr (ps.map (·.2)) &&
    ps.all (fun p =>
      p.2 ≠ "" && !h.issued.contains p.2 && !r.before.any (fun m => m.lease == p.2) &&
      match find r.before p.1, find r.after p.1 with
      | some m, some m' =>
          matchesReq route target m &&
          -- was offered legitimately: queued and due, or its previous lease had already expired
          ((m.st == .queued && decide (m.next ≤ r.now)) || (m.st == .leased && decide (m.luntil ≤ r.now))) &&
          m'.st == .leased && m'.lease == p.2 && m'.attempt == m.attempt + 1 &&
          m'.luntil == r.now + effTTL ttl && m'.next == m'.luntil && sameIdentity m m' &&
          (r.items.isEmpty || r.items.any (· == m'))
      | _, _ => false) &&
    -- nothing else became leased
    r.after.all (fun m' => !(m'.st == .leased) || ps.any (·.1 == m'.id) ||
      (match find r.before m'.id with | some m => m == m' | none => false))
  | .dequeue .., _ => false
  | _, _ =>
    -- no other operation hands out a lease
    r.after.all (fun m' => !(m'.st == .leased) ||
      (match find r.before m'.id with | some m => m.st == .leased && m.lease == m'.lease | none => false))

def advance (h : Hist) (r : Rec) : Hist :=
  match r.resp with
  | .items ps => { h with issued := h.issued ++ ps.map (·.2) }
  | _ => h

end C03

/-! ## C04 — lease fencing -/
namespace C04

/-- effect of a successful lease operation on the message it names -/
def effectOK (r : Rec) (k : LeaseKind) (m : Msg) (m'? : Option Msg) : Bool :=
  match k, m'? with
  | .ack, none => !decide (r.cfg.deliveredRet > 0)
  | .ack, some m' => decide (r.cfg.deliveredRet > 0) && m'.st == .delivered && m'.lease == "" && sameIdentity m m' && m'.attempt == m.attempt
  | .nack d, some m' => m'.st == .queued && m'.lease == "" && m'.next == r.now + (if d < 0 then 0 else d) && sameIdentity m m' && m'.attempt == m.attempt
  | .extend d, some m' => m'.st == .leased && m'.lease == m.lease && m'.luntil == m.luntil + d && m'.next == m'.luntil && sameIdentity m m' && m'.attempt == m.attempt
  | .markDead _, some m' => m'.st == .dead && m'.lease == "" && sameIdentity m m' && m'.attempt == m.attempt
  | _, none => false

/-- unchanged, or an already expired lease returned to the queue -/
def inert (r : Rec) (m : Msg) : Bool :=
  match find r.after m.id with
  | some m' => m' == m || (expired r.now m && m' == release r.now m)
  | none => false

def stepOK (r : Rec) : Bool :=
  match r.op with
  | .lease k l0 =>
    let l := trimWS l0
    let noop := match k with | .extend d => decide (d ≤ 0) | _ => false
    r.after.all (fun m' => (find r.before m'.id).isSome) &&
    (if noop then r.resp == .ok && r.before.all (inert r) else
    match r.before.find? (fun m => liveLeased r.now m && m.lease == l && l ≠ "") with
    | none =>
      -- stale / foreign / expired / unknown / blank lease: conflict, and nothing changes
      isErr r.resp && r.before.all (inert r)
    | some cur =>
      if isErr r.resp then r.before.all (inert r)
      else r.resp == .ok && r.before.all (fun m => if m.id == cur.id then effectOK r k m (find r.after m.id) else inert r m))
  | .leaseBatch k ls =>
    let ids := (ls.map trimWS).filter (· ≠ "")
    let valid := r.before.filter (fun m => liveLeased r.now m && ids.contains m.lease)
    r.after.all (fun m' => (find r.before m'.id).isSome) &&
    r.before.all (fun m => if valid.any (·.id == m.id) then effectOK r k m (find r.after m.id) else inert r m) &&
    (match r.resp with
     | .batch n cs => n == valid.length && n + cs.length == ls.length &&
         cs.all (fun c => !c.expired || r.before.any (fun m => expired r.now m && m.lease == c.lease))
     | _ => false)
  | _ => true

/-- `stepOK` with the single-lease clause reading the presented id the way the backend does: verbatim on the
    memory backend (which does not trim single lease ids), trimmed on SQLite. This is the predicate the driver
    evaluates and `C04_model'` proves. -/
def stepOK' (r : Rec) : Bool :=
  match r.op with
  | .lease k l0 =>
    let l := if r.cfg.memory then l0 else trimWS l0
    let noop := match k with | .extend d => decide (d ≤ 0) | _ => false
    r.after.all (fun m' => (find r.before m'.id).isSome) &&
    (if noop then r.resp == .ok && r.before.all (inert r) else
    match r.before.find? (fun m => liveLeased r.now m && m.lease == l && l ≠ "") with
    | none => isErr r.resp && r.before.all (inert r)
    | some cur =>
      if isErr r.resp then r.before.all (inert r)
      else r.resp == .ok && r.before.all (fun m => if m.id == cur.id then effectOK r k m (find r.after m.id) else inert r m))
  | _ => stepOK r

end C04

/-! ## C05 — at-least-once visibility -/
namespace C05

def dueQueued (r : Rec) (route target : String) (m : Msg) : Bool :=
  m.st == .queued && decide (m.next ≤ r.now) && C03.matchesReq route target m

def stepOK (r : Rec) : Bool :=
  match r.op, r.resp with
  | .dequeue route target batch _, .items ps =>
    let b := effBatch batch
    -- must be offered: due queued messages, and leases that expired at least one sweep interval ago
    let must := r.before.filter (fun m => !pruneAllowed r m &&
      (dueQueued r route target m ||
       (m.st == .leased && decide (m.luntil ≤ r.now - r.cfg.sweep) && C03.matchesReq route target m)))
    -- may be offered: additionally every lease that has expired by now
    let may := r.before.filter (fun m =>
      dueQueued r route target m || (expired r.now m && C03.matchesReq route target m))
    ps.length ≤ b && decide (min b must.length ≤ ps.length) && decide (ps.length ≤ min b may.length) &&
    ps.all (fun p => may.any (·.id == p.1)) &&
    -- no ready message is starved while capacity was requested
    (ps.length == b || must.all (fun m => ps.any (·.1 == m.id)))
  | .lease (.nack d) l0, .ok =>
    -- offered from now + d, never earlier
    r.before.all (fun m => !(liveLeased r.now m && m.lease == trimWS l0) ||
      (match find r.after m.id with
       | some m' => m'.st == .queued && m'.next == r.now + (if d < 0 then 0 else d)
       | none => false))
  | .restart, _ => r.after == r.before
  | _, _ => true

/-- `stepOK` with the nack clause reading the presented id the way the backend does (see `C04.stepOK'`). -/
def stepOK' (r : Rec) : Bool :=
  match r.op, r.resp with
  | .lease (.nack d) l0, .ok =>
    r.before.all (fun m =>
      !(liveLeased r.now m && m.lease == (if r.cfg.memory then l0 else trimWS l0)) ||
      (match find r.after m.id with
       | some m' => m'.st == .queued && m'.next == r.now + (if d < 0 then 0 else d)
       | none => false))
  | _, _ => stepOK r

end C05

/-! ## C12 — admission limits (queue part) -/
namespace C12

/-- Queue part of C12. `V` = active messages that vanished in this step, `E` = those of them that no
    retention prune explains (definitely evicted). A vanished queued message that is also prune-eligible
    may count as pruned or as evicted, so the eviction count is checked as an interval. -/
def stepOK (r : Rec) : Bool :=
  match r.op with
  | .enqueue _ | .enqueueBatch _ =>
    let k := (envIds r.op).length
    let d := r.cfg.maxDepth
    let a := countP isActive r.before
    let v := r.before.filter (fun m => vanished r m && isActive m)
    let e := v.filter (fun m => !pruneAllowed r m)
    let need := a + k - d
    let memDelivered := r.cfg.memory && decide (r.cfg.deliveredRet > 0)   -- documented stricter memory guard
    if k == 0 then r.after == r.before else
    if enqueueOK r then
      -- every item is stored
      (envIds r.op).all (fun i => (find r.after i).isSome) &&
      (if d == 0 then e.isEmpty
       else if r.cfg.dropOldest then
         -- room is made by evicting queued, never leased, messages, one per message stored at most,
         -- exactly as many as needed (histories that were lifted above max_depth excluded)
         e.all (fun m => m.st == .queued) &&
         -- the evicted messages are the oldest queued ones: none is younger than a queued message of
         -- `before` that survives the step
         e.all (fun x => (r.before.filter (fun s => s.st == .queued && !vanished r s)).all
           (fun s => decide (x.recv ≤ s.recv))) &&
         (a > d ||
           ((memDelivered || e.length ≤ k) && countP isActive r.after ≤ d && e.length ≤ need + (if memDelivered then v.length else 0) &&
            need ≤ v.length && (memDelivered || v.length == need || e.isEmpty)))
       else e.isEmpty && countP isActive r.after ≤ d)
    else
      -- refused (full / duplicate / pressure): the queue is exactly as it was
      isErr r.resp && e.isEmpty && r.after.all (fun m' => find r.before m'.id == some m')
  | _ => true

end C12

/-! ## C14 — operator mutations -/
namespace C14

def effect (r : Rec) (k : IdKind) (m : Msg) : Bool :=
  match k, find r.after m.id with
  | .deleteDead, none => true
  | .deleteDead, some _ => false
  | _, some m' => m'.st == targetState k && m'.lease == "" && m'.luntil == 0 && m'.next == r.now &&
                  m'.reason == "" && sameIdentity m m' && m'.attempt == m.attempt && m'.recv == m.recv
  | _, none => false

def unchanged (r : Rec) (m : Msg) : Bool := find r.after m.id == some m

def newer (a b : Msg) : Bool := decide (a.recv > b.recv) || (a.recv == b.recv && decide (a.id > b.id))

def stepOK (r : Rec) : Bool :=
  match r.op with
  | .byIds k ids =>
    let named := normIds ids
    let sel := r.before.filter (fun m => named.contains m.id && (allowedStates k).contains m.st)
    r.after.all (fun m' => (find r.before m'.id).isSome) &&
    r.before.all (fun m => if sel.any (·.id == m.id) then effect r k m else unchanged r m) &&
    (match r.resp with
     | .count ch mt pv => ch == sel.length && mt == sel.length && !pv
     | _ => false)
  | .byFilter k f =>
    let cands := r.before.filter (matchesFilter k f)
    let want := min (effLimit f.limit) cands.length
    r.after.all (fun m' => (find r.before m'.id).isSome) &&
    (if f.preview then
       r.after == r.before && r.resp == .count 0 want true
     else
       let sel := r.before.filter (fun m => !unchanged r m)
       sel.length == want && r.resp == .count want want false &&
       sel.all (fun m => cands.any (·.id == m.id) && effect r k m) &&
       -- newest first: every candidate left out is older than every selected one
       cands.all (fun c => sel.any (·.id == c.id) || sel.all (fun s => newer s c)))
  | _ => true

end C14

/-- all per-record predicates, with the name of each failing one -/
def checkAll (h : Hist) (r : Rec) : Hist × List String :=
  let fails :=
    (if C02.stepOK' r then [] else ["C02"]) ++
    (if C03.stepOK h r then [] else ["C03"]) ++
    (if C04.stepOK' r then [] else ["C04"]) ++
    (if C05.stepOK' r then [] else ["C05"]) ++
    (if C12.stepOK r then [] else ["C12"]) ++
    (if C14.stepOK r then [] else ["C14"])
  (C03.advance h r, fails)

end Hk.Obs
