/-
  Standard base64 (RFC 4648, with padding) on byte lists — the encoding of `payload_b64` on the Pull HTTP API and
  in Admin publish. CORE ONLY.
-/
namespace Hk.Base64

def alphabet : List Char := "ABCDEFGHIJKLMNOPQRSTUVWXYZabcdefghijklmnopqrstuvwxyz0123456789+/".toList

def enc6 (n : Nat) : Char := alphabet.getD n 'A'

def dec6 (c : Char) : Option Nat :=
  let i := alphabet.findIdx (· == c)
  if i < 64 then some i else none

def encode : List UInt8 → List Char
  | [] => []
  | [a] => [enc6 (a.toNat / 4), enc6 (a.toNat % 4 * 16), '=', '=']
  | [a, b] => [enc6 (a.toNat / 4), enc6 (a.toNat % 4 * 16 + b.toNat / 16), enc6 (b.toNat % 16 * 4), '=']
  | a :: b :: c :: rest =>
    enc6 (a.toNat / 4) :: enc6 (a.toNat % 4 * 16 + b.toNat / 16) :: enc6 (b.toNat % 16 * 4 + c.toNat / 64) ::
      enc6 (c.toNat % 64) :: encode rest

/-- strict decoder: length a multiple of 4, padding only at the end, canonical trailing bits not required
    (as `encoding/base64.StdEncoding` in non-strict mode) -/
def decode : List Char → Option (List UInt8)
  | [] => some []
  | w :: x :: y :: z :: rest =>
    if y == '=' && z == '=' && rest.isEmpty then do
      let a ← dec6 w; let b ← dec6 x
      pure [UInt8.ofNat (a * 4 + b / 16)]
    else if z == '=' && rest.isEmpty then do
      let a ← dec6 w; let b ← dec6 x; let c ← dec6 y
      pure [UInt8.ofNat (a * 4 + b / 16), UInt8.ofNat (b % 16 * 16 + c / 4)]
    else do
      let a ← dec6 w; let b ← dec6 x; let c ← dec6 y; let d ← dec6 z
      let r ← decode rest
      pure (UInt8.ofNat (a * 4 + b / 16) :: UInt8.ofNat (b % 16 * 16 + c / 4) :: UInt8.ofNat (c % 4 * 64 + d) :: r)
  | _ => none

def encodeStr (b : List UInt8) : String := String.ofList (encode b)
def decodeStr (s : String) : Option (List UInt8) := decode s.toList

/-- Go's `base64.StdEncoding.DecodeString`: CR and LF anywhere in the input are ignored before decoding -/
def decodeStrGo (s : String) : Option (List UInt8) := decode (s.toList.filter fun c => c != '\n' && c != '\r')

end Hk.Base64
