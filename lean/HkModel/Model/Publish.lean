import HkModel.Model.Queue
import HkModel.Model.Base64
import HkModel.Model.Egress
/-
  Executable model of the Admin API "global direct publish" handler
  (POST /messages/publish: `handleMessagesPublish` in internal/admin/http.go, together with
  `parsePublishItemsWithSelectorRequirement` (requireSelector = true), `firstManagedPublishItemIndex`,
  `normalizePublishTargets`, `publishRoutePolicyError`, `publishRouteMode`, `resolvePublishTarget`,
  `publishEnvelopeFromItem`, `firstExistingMessageIDIndex` and `httpheader.ValidateMap`).
  CORE LEAN ONLY — the driver links this file into a lean_exe.

  The handler is three passes over the request followed by one `EnqueueBatch`:
    pass 1  shape of every item (all `400 invalid_body`), then "no managed selector on the global path";
    pass 2  per item: route lookup, managed route, publish policy, target resolution, envelope;
    pass 3  no id already stored;
    then    one all-or-nothing `EnqueueBatch` of the prepared envelopes.
  Each pass reports its FIRST offender, but pass 1 runs over the whole request before pass 2 starts, so the
  reported index is not always the least index of an invalid item (`pinned_first_offender_not_least`).

  Not modelled (outside the `Ctx` API; each of them answers before / instead of the modelled path):
    * `PublishGlobalDirectEnabled = false` (403 global_publish_disabled), `Store == nil` (503), audit headers
      (`audit_reason_required`, `audit_actor_required`, `audit_request_id_required`), JSON decoding errors and
      the request-body size limit (400 invalid_body, no index);
    * the management-model cross checks of pass 2: `SourceMismatch` (503 managed_target_mismatch), the
      fail-closed `managed_resolver_missing` (503) and `TargetsForRoute == nil` (503 route_resolver_missing).
      `RouteInfo.managed` is the disjunction `routeOwnership.Managed ∨ route ∈ managedRouteSet` the handler computes;
    * a `LookupMessages` error in pass 3 (503 store_unavailable);
    * the non-batch fallback loop (`Store` without `BatchEnqueuer`): every shipped store implements
      `BatchEnqueuer`.
  Deviations that are deliberate:
    * `strings.TrimSpace` is `Hk.Egress.trimWS`, whose white-space set is {SP, \t, \n, \v, \f, \r, U+0085, U+00A0};
      Go additionally trims U+1680, U+2000–U+200A, U+2028, U+2029, U+202F, U+205F, U+3000.
    * `publishEnvelopeFromItem` re-defaults `maxBodyBytes/maxHeaderBytes ≤ 0`; its callers
      (`publishMaxBodyBytes`, `publishMaxHeaderBytes`) never return ≤ 0, so `RouteInfo.maxBody/maxHeaders`
      are the already-defaulted values and no defaulting happens here.
    * `item.trace` and `item.headers` are not copied into the `Hk.Env` (`headers := ""`, `trace := ""`): the
      driver compares them separately; the payload is the lower-case hex of the decoded bytes.
-/
namespace Hk.Publish

/-! ### request / context -/

structure Item where
  id : String
  route : String
  target : String
  app : String            -- item.application
  ep : String             -- item.endpoint_name
  payloadB64 : String
  headers : List (String × String)     -- as given (JSON object order irrelevant; keys distinct)
  recvOK : Bool           -- Go's time.Parse accepted item.received_at (or it was empty)
  nextOK : Bool
  recv : Int              -- parsed received_at in ns (0 = absent)
  next : Int
  deriving Repr, DecidableEq, Inhabited

structure RouteInfo where
  path : String
  targets : List String   -- what TargetsForRoute returns (["pull"] for a pull route, deliver URLs otherwise)
  publishEnabled : Bool   -- route.publish.enabled
  directEnabled : Bool    -- route.publish.direct
  managed : Bool          -- route carries application/endpoint_name labels (must use the scoped path)
  mode : String           -- "pull" | "deliver"
  maxBody : Nat           -- effective max_body bytes for the route (already defaulted)
  maxHeaders : Nat
  deriving Repr, DecidableEq, Inhabited

structure Ctx where
  routes : List RouteInfo
  allowPull : Bool        -- defaults.publish_policy.allow_pull_routes
  allowDeliver : Bool
  deriving Repr, DecidableEq, Inhabited

inductive Outcome
  | reject (status : Nat) (code : String) (index : Option Nat)
  | accept (envs : List Hk.Env)          -- one envelope per item, in order
  deriving Repr, DecidableEq

/-- `maxListLimit` -/
def maxItems : Nat := 1000

/-- `strings.TrimSpace` -/
def trim (s : String) : String := Hk.Egress.trimWS s

/-! ### labels, headers, payload -/

def isAlnum (c : Char) : Bool :=
  let n := c.toNat
  (decide (65 ≤ n) && decide (n ≤ 90)) || (decide (97 ≤ n) && decide (n ≤ 122)) ||
  (decide (48 ≤ n) && decide (n ≤ 57))

def labelRest (c : Char) : Bool := isAlnum c || c == '.' || c == '_' || c == ':' || c == '-'

/-- `config.IsValidManagementLabel`: `^[A-Za-z0-9][A-Za-z0-9._:-]{0,127}$` on the trimmed string. -/
def validLabel (s : String) : Bool :=
  match (trim s).toList with
  | [] => false
  | c :: rest => isAlnum c && rest.all labelRest && decide (rest.length ≤ 127)

/-- the UTF-8 bytes of a string (Go indexes strings by byte). This is `s.toUTF8` as a list
    (`Props/C15: utf8_eq_toUTF8`), written so that the kernel can evaluate it. -/
def utf8 (s : String) : List UInt8 := s.toList.flatMap String.utf8EncodeChar

/-- `isTokenByte` (RFC 7230 tchar) -/
def isTokenByte (b : UInt8) : Bool :=
  let n := b.toNat
  (decide (48 ≤ n) && decide (n ≤ 57)) || (decide (65 ≤ n) && decide (n ≤ 90)) ||
  (decide (97 ≤ n) && decide (n ≤ 122)) ||
  -- ! # $ % & ' * + - . ^ _ ` | ~
  [33, 35, 36, 37, 38, 39, 42, 43, 45, 46, 94, 95, 96, 124, 126].contains n

/-- `validHeaderFieldName` -/
def validHeaderName (name : String) : Bool := name != "" && (utf8 name).all isTokenByte

/-- `validHeaderFieldValue`: no CR, LF, DEL, and no control byte except TAB -/
def validHeaderValue (v : String) : Bool :=
  (utf8 v).all fun b =>
    let n := b.toNat
    !(n == 13 || n == 10 || n == 127) && !(decide (n < 32) && n != 9)

/-- one iteration of the `ValidateMap` loop (Go order: empty after trim, surrounding white space, token, value) -/
def validHeader (kv : String × String) : Bool :=
  let name := trim kv.1
  name != "" && kv.1 == name && validHeaderName name && validHeaderValue kv.2

/-- `httpheader.ValidateMap` -/
def validHeaders (h : List (String × String)) : Bool := h.all validHeader

/-- `publishHeadersBytes`: Σ len(key) + len(value), in bytes -/
def headerBytes (h : List (String × String)) : Nat :=
  (h.map fun kv => kv.1.utf8ByteSize + kv.2.utf8ByteSize).sum

def hexDigit (n : Nat) : Char := if n < 10 then Char.ofNat (48 + n) else Char.ofNat (87 + n)

/-- lower-case hex, the canonical payload string of the queue model -/
def hexOf (bs : List UInt8) : String :=
  String.ofList (bs.flatMap fun b => [hexDigit (b.toNat / 16), hexDigit (b.toNat % 16)])

/-- the payload bytes of an item: absent / blank `payload_b64` is the empty payload; otherwise the UNTRIMMED
    string is handed to `base64.StdEncoding.DecodeString` (so `" QQ== "` is rejected, `"  "` is empty, and — like Go —
    CR/LF inside the text are skipped: `"QQ==\n"` decodes). -/
def payloadOf (it : Item) : Option (List UInt8) :=
  if trim it.payloadB64 == "" then some [] else Hk.Base64.decodeStrGo it.payloadB64

/-! ### pass 1: `parsePublishItemsWithSelectorRequirement(r, true)` -/

def startsSlash (s : String) : Bool := s.toList.head? == some '/'

/-- The pass-1 condition for one item, given the trimmed ids of the items before it (Go order of the tests;
    every one of them answers `400 invalid_body` with the item's index). -/
def shapeBad (seen : List String) (it : Item) : Bool :=
  let id := trim it.id
  let route := trim it.route
  let target := trim it.target
  let app := trim it.app
  let ep := trim it.ep
  id == "" ||                                            -- item.id is required
  (route == "" && app == "" && ep == "") ||              -- route or application+endpoint_name
  (route != "" && !startsSlash route) ||                 -- route must start with '/'
  (route == "" && app == "" && target != "") ||          -- target without route/selector
  ((app == "") != (ep == "")) ||                         -- application and endpoint_name together
  (app != "" && !validLabel app) ||
  (ep != "" && !validLabel ep) ||
  seen.contains id                                       -- duplicate item.id in request

def shapeAux (seen : List String) (i : Nat) : List Item → Option (Nat × String)
  | [] => none
  | it :: rest =>
    if shapeBad seen it then some (i, "invalid_body")
    else shapeAux (seen ++ [trim it.id]) (i + 1) rest

/-- pass 1: the first `(index, code)` the parse loop reports, or `none`. (The whole-request rule "1..1000 items",
    reported without an index, is in `preflight`.) -/
def shapePass (items : List Item) : Option (Nat × String) := shapeAux [] 0 items

/-- `item.application` or `item.endpoint_name` present -/
def isManagedItem (it : Item) : Bool := trim it.app != "" || trim it.ep != ""

/-- `firstManagedPublishItemIndex` -/
def firstManaged (items : List Item) : Option Nat := items.findIdx? isManagedItem

/-! ### pass 2 -/

/-- `normalizePublishTargets` with its `seen` set explicit: trim, drop blanks, keep first occurrences. -/
def normTargetsAux (seen : List String) : List String → List String
  | [] => []
  | raw :: rest =>
    let t := trim raw
    if t == "" then normTargetsAux seen rest
    else if seen.contains t then normTargetsAux seen rest
    else t :: normTargetsAux (t :: seen) rest

def normTargets (ts : List String) : List String := normTargetsAux [] ts

/-- `publishRouteMode`: the configured mode when it is "pull"/"deliver" (trimmed, lower-cased), else inferred
    from the targets. -/
def routeMode (r : RouteInfo) (targets : List String) : String :=
  let m := Hk.lowerAscii (trim r.mode)
  if m == "pull" || m == "deliver" then m
  else match targets with
    | [] => ""
    | [t] => if trim t == "pull" then "pull" else "deliver"
    | _ => "deliver"

/-- `publishRoutePolicyError(route, targets, scoped = false)`: the 403 code, if any -/
def policyError (ctx : Ctx) (r : RouteInfo) (targets : List String) : Option String :=
  if !r.publishEnabled then some "route_publish_disabled"
  else if !r.directEnabled then some "route_publish_disabled"
  else
    let mode := routeMode r targets
    if mode == "pull" && !ctx.allowPull then some "pull_route_publish_disabled"
    else if mode == "deliver" && !ctx.allowDeliver then some "deliver_route_publish_disabled"
    else none

/-- `resolvePublishTarget` -/
def resolveTarget (target : String) (allowed : List String) : Option String :=
  let t := trim target
  if allowed.isEmpty then none
  else if t == "" then
    match allowed with
    | [a] => some a
    | _ => none
  else if allowed.any (fun c => t == trim c) then some t
  else none

/-- `publishEnvelopeFromItem` (Go order: received_at, next_run_at, payload, payload size, headers, header size) -/
def envelopeFromItem (it : Item) (route target : String) (maxBody maxHeaders : Nat) :
    Except (Nat × String) Hk.Env :=
  if !it.recvOK then .error (400, "invalid_received_at")
  else if !it.nextOK then .error (400, "invalid_next_run_at")
  else
    match payloadOf it with
    | none => .error (400, "invalid_payload_b64")
    | some bytes =>
      if bytes.length > maxBody then .error (413, "payload_too_large")
      else if !validHeaders it.headers then .error (400, "invalid_header")
      else if headerBytes it.headers > maxHeaders then .error (413, "headers_too_large")
      else .ok { id := trim it.id, route := route, target := target, recv := it.recv, next := it.next,
                 attempt := 0, payload := hexOf bytes, headers := "", trace := "" }

/-- `TargetsForRoute` / `LimitsForRoute` / … : the compiled route with this path -/
def lookupRoute (ctx : Ctx) (route : String) : Option RouteInfo := ctx.routes.find? (·.path == route)

/-- Pass-2 body for one item: `(status, code)` or the prepared envelope. The first four tests repeat pass-1 /
    managed-selector tests inside the Go loop; they cannot fire after pass 1 (`Props/C15: pass2_recheck_dead`)
    and are kept only to mirror the code. An unknown route has no targets (→ route_not_found) and is not
    managed. -/
def itemPass (ctx : Ctx) (it : Item) : Except (Nat × String) Hk.Env :=
  let route := trim it.route
  let app := trim it.app
  let ep := trim it.ep
  if (app == "") != (ep == "") then .error (400, "invalid_body")
  else if app != "" then .error (400, "scoped_publish_required")
  else if route == "" then .error (400, "invalid_body")
  else if !startsSlash route then .error (400, "invalid_body")
  else
    match lookupRoute ctx route with
    | none => .error (400, "route_not_found")
    | some r =>
      if r.managed then .error (400, "managed_selector_required")
      else
        let targets := normTargets r.targets
        if targets.isEmpty then .error (400, "route_not_found")
        else
          match policyError ctx r targets with
          | some code => .error (403, code)
          | none =>
            match resolveTarget it.target targets with
            | none => .error (400, "target_unresolvable")
            | some target =>
              if target == "" then .error (400, "target_unresolvable")   -- dead: allowed targets are non-blank
              else envelopeFromItem it route target r.maxBody r.maxHeaders

/-- pass 2 over the request: the first failing item `(index, status, code)`, or all envelopes in order -/
def pass2 (ctx : Ctx) (i : Nat) : List Item → Except (Nat × Nat × String) (List Hk.Env)
  | [] => .ok []
  | it :: rest =>
    match itemPass ctx it with
    | .error (st, code) => .error (i, st, code)
    | .ok e =>
      match pass2 ctx (i + 1) rest with
      | .error x => .error x
      | .ok es => .ok (e :: es)

/-! ### pass 3: `firstExistingMessageIDIndex` -/

/-- smallest index whose id is already stored -/
def firstExisting (existing : List String) (ids : List String) : Option Nat :=
  ids.findIdx? (fun id => existing.contains id)

/-! ### the handler up to the store call -/

def preflight (ctx : Ctx) (existing : List String) (items : List Item) : Outcome :=
  if items.isEmpty || decide (items.length > maxItems) then .reject 400 "invalid_body" none
  else
    match shapePass items with
    | some (i, code) => .reject 400 code (some i)
    | none =>
      match firstManaged items with
      | some i => .reject 400 "scoped_publish_required" (some i)
      | none =>
        match pass2 ctx 0 items with
        | .error (i, st, code) => .reject st code (some i)
        | .ok envs =>
          match firstExisting existing (envs.map (·.id)) with
          | some i => .reject 409 "duplicate_id" (some i)
          | none => .accept envs

/-! ### composition with the queue -/

structure PubResp where
  status : Nat
  code : String
  index : Option Nat
  published : Nat
  deriving Repr, DecidableEq

/-- the HTTP answer to the result of `EnqueueBatch` -/
def respOfStore : Hk.Resp → PubResp
  | .enqueued n => ⟨200, "", none, n⟩
  | .err .exists_ => ⟨409, "duplicate_id", none, 0⟩
  | .err .full => ⟨503, "queue_full", none, 0⟩
  | _ => ⟨503, "store_unavailable", none, 0⟩

/-- The whole handler against the queue model. `none` = the `Choice` was illegal for the queue step. -/
def publish (c : Hk.Cfg) (now : Int) (q : Hk.Q) (ctx : Ctx) (items : List Item) (ch : Hk.Choice) :
    Option (Hk.Q × PubResp) :=
  match preflight ctx (q.msgs.map (·.id)) items with
  | .reject st code idx => some (q, ⟨st, code, idx, 0⟩)
  | .accept envs =>
    match Hk.step c now q (.enqueueBatch envs) ch with
    | none => none
    | some (q', r) => some (q', respOfStore r)

/-! ### audit headers (`parseManagementAudit`, `mutationAuditPolicyError`) -/

structure AuditCfg where
  requireActor : Bool         -- defaults.publish_policy.require_actor
  requireRequestId : Bool     -- defaults.publish_policy.require_request_id
  actorAllow : List String    -- actor_allow (endpoint-scoped path only)
  actorPrefix : List String   -- actor_prefix (endpoint-scoped path only)
  deriving Repr, DecidableEq, Inhabited

/-- the three audit headers as received -/
structure Audit where
  reason : String
  actor : String
  requestId : String
  deriving Repr, DecidableEq, Inhabited

def actorPolicyEnabled (c : AuditCfg) : Bool := !c.actorAllow.isEmpty || !c.actorPrefix.isEmpty

def actorAllowed (c : AuditCfg) (actor : String) : Bool :=
  c.actorAllow.any (fun a => actor == trim a) || c.actorPrefix.any (fun p => (trim p).toList.isPrefixOf actor.toList)

/-- the `400` code the audit checks answer with, if any (Go order: reason present and sizes, require_actor,
    require_request_id, then — endpoint-scoped path only — the actor allow/prefix policy) -/
def auditError (c : AuditCfg) (isScoped : Bool) (a : Audit) : Option String :=
  let reason := trim a.reason
  let actor := trim a.actor
  let rid := trim a.requestId
  if reason == "" then some "audit_reason_required"
  else if reason.utf8ByteSize > 512 || actor.utf8ByteSize > 256 || rid.utf8ByteSize > 256 then some "audit_reason_required"
  else if c.requireActor && actor == "" then some "audit_actor_required"
  else if c.requireRequestId && rid == "" then some "audit_request_id_required"
  else if isScoped && actorPolicyEnabled c then
    if actor == "" then some "audit_actor_required"
    else if !actorAllowed c actor then some "audit_actor_not_allowed"
    else none
  else none

/-- the global direct path including its audit gate -/
def publishAudited (ac : AuditCfg) (a : Audit) (c : Hk.Cfg) (now : Int) (q : Hk.Q) (ctx : Ctx) (items : List Item)
    (ch : Hk.Choice) : Option (Hk.Q × PubResp) :=
  match auditError ac false a with
  | some code => some (q, ⟨400, code, none, 0⟩)
  | none => publish c now q ctx items ch

end Hk.Publish
