import HkModel.Model.IngressAuth
/-
  One route's HMAC authenticator across configuration reloads (internal/ingress/hmac.go `Verify`,
  `InheritNonceCache`, `nonceCache.extend` / `forgotten`; internal/app/run.go prepareAuth). CORE ONLY.

  A reload builds a new authenticator that *shares* the previous one's nonce cache. When it raises the tolerance, the
  remembered windows are lengthened by the difference, and — because entries whose window had already closed are gone —
  a floor is set: requests signed before `now - previous tolerance` stay refused, whatever the new tolerance says.
-/
namespace Hk.IngressAuth
open Hk.Egress (trimWS)

/-- what survives a reload of one route's authenticator -/
structure AuthState where
  tol : Int                      -- tolerance in force (ns)
  cache : Cache := []
  floor : Option Int := none     -- requests signed before it are refused
  deriving Repr

inductive REv where
  | request (now : Int) (rq : HReq)
  | reload (now : Int) (tol' : Int)      -- a successful reload whose configuration sets this route's tolerance to `tol'`
  deriving Repr

def REv.now : REv → Int
  | .request n _ => n
  | .reload n _ => n

def belowFloor (s : AuthState) (t : Int) : Bool :=
  match s.floor with
  | some f => decide (t < f)
  | none => false

/-- `Verify` on the shared state -/
def verifyR (mac : Bytes → Bytes → Bytes) (cfg : HmacCfg) (s : AuthState) (now : Int) (rq : HReq) : AuthState × Bool :=
  match timeOK { cfg with tol := s.tol } now rq with
  | none => (s, false)
  | some t =>
    if belowFloor s t then (s, false) else
    let (cache', fresh) := seenOnce s.cache now (trimWS rq.nonce) (t + s.tol)
    ({ s with cache := cache' }, fresh && sigOK mac { cfg with tol := s.tol } t rq)

/-- `InheritNonceCache` at a reload that sets the tolerance to `tol'` -/
def reloadR (s : AuthState) (now : Int) (tol' : Int) : AuthState :=
  if tol' > s.tol then
    { s with tol := tol', cache := s.cache.map (fun e => (e.1, e.2 + (tol' - s.tol))),
             floor := some (match s.floor with | some f => max f (now - s.tol) | none => now - s.tol) }
  else { s with tol := tol' }

/-- the pinned (pre-repair) reload: windows lengthened, no floor -/
def reloadRPinned (s : AuthState) (_now : Int) (tol' : Int) : AuthState :=
  if tol' > s.tol then { s with tol := tol', cache := s.cache.map (fun e => (e.1, e.2 + (tol' - s.tol))) }
  else { s with tol := tol' }

def stepR (mac : Bytes → Bytes → Bytes) (cfg : HmacCfg) (s : AuthState) : REv → AuthState × Bool
  | .request now rq => verifyR mac cfg s now rq
  | .reload now tol' => (reloadR s now tol', false)

/-- the history of one authenticator: every event with "accepted" (always `false` for a reload) -/
def runR (mac : Bytes → Bytes → Bytes) (cfg : HmacCfg) : AuthState → List REv → List (REv × Bool)
  | _, [] => []
  | s, e :: rest => let (s', ok) := stepR mac cfg s e; (e, ok) :: runR mac cfg s' rest

/-- clock never goes back -/
def MonoR : Int → List REv → Prop
  | _, [] => True
  | t, e :: rest => t ≤ e.now ∧ MonoR e.now rest

/-- every reload keeps a positive tolerance -/
def TolPos : List REv → Prop
  | [] => True
  | .reload _ tol' :: rest => 0 < tol' ∧ TolPos rest
  | .request _ _ :: rest => TolPos rest

/-- the signed time of a request as `Verify` reads it (ns), if its timestamp header parses -/
def signedAt (rq : HReq) : Option Int := (parseInt64 (trimWS rq.ts)).map (· * 1000000000)

end Hk.IngressAuth
