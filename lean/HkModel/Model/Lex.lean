/-
  C19 — hookaido's config lexer (`internal/config/lexer.go`) and value quoting
  (`quoteString`, `formatValue`, `isUnquotedValueSafe`, `isUnquotedPathSafe` in `internal/config/format.go`).
  CORE ONLY, computable.

  rune = `Char`; a source text is a `List Char` (invalid UTF-8 is outside the model: the Go lexer rejects it with an
  error before anything else happens).  Positions (line/col) are not modelled; they only appear in error messages.

  Go structure mirrored:
    nextToken   ↦ `step` (one non-EOF token or one skipped space) iterated by `lexAux`
    readPlaceholder ↦ `readPlaceholder` (prefix test `isPlaceholderPrefix`, then `scanPlaceholder`)
    readIdent   ↦ `takeWhile (!isDelim ·)` / `dropWhile (!isDelim ·)`
    readString  ↦ `readString` (input after the opening quote)
    comment     ↦ `takeWhile (· != '\n')` / `dropWhile (· != '\n')`
-/
namespace Hk.Lex

inductive Tok
  | ident (s : List Char)
  | str (s : List Char)
  | lbrace
  | rbrace
  | comment (s : List Char)
  deriving DecidableEq, Repr

/-- lexing results are comparable (needed for `decide` on concrete inputs) -/
instance : DecidableEq (Except String (List Tok)) := fun a b =>
  match a, b with
  | .ok x, .ok y => if h : x = y then isTrue (by rw [h]) else isFalse (fun e => h (by cases e; rfl))
  | .error x, .error y => if h : x = y then isTrue (by rw [h]) else isFalse (fun e => h (by cases e; rfl))
  | .ok _, .error _ => isFalse (fun e => by cases e)
  | .error _, .ok _ => isFalse (fun e => by cases e)

/-- `lexer.go: isSpace` -/
def isSpace (c : Char) : Bool := c == ' ' || c == '\t' || c == '\n' || c == '\r'

/-- what ends an identifier (`lexer.readIdent`): space, `{`, `}`, `"`, `#` -/
def isDelim (c : Char) : Bool := isSpace c || c == '{' || c == '}' || c == '"' || c == '#'

/-- `strings.HasPrefix(src, "{$") || HasPrefix(src, "{env.") || HasPrefix(src, "{file.")` -/
def isPlaceholderPrefix (cs : List Char) : Bool :=
  ['{', '$'].isPrefixOf cs || ['{', 'e', 'n', 'v', '.'].isPrefixOf cs || ['{', 'f', 'i', 'l', 'e', '.'].isPrefixOf cs

/-- the scanning loop of `lexer.readPlaceholder`, started just after the opening `{`: stops with "not a placeholder" at a
    space, a `{` or the end of input; succeeds at the first `}`.  Returns (scanned text incl. the `}`, rest). -/
def scanPlaceholder : List Char → Option (List Char × List Char)
  | [] => none
  | c :: cs =>
    if isSpace c || c == '{' then none
    else if c == '}' then some (['}'], cs)
    else match scanPlaceholder cs with
      | none => none
      | some (p, r) => some (c :: p, r)

/-- `lexer.readPlaceholder`, input positioned at a `{`: (placeholder text incl. braces, rest) or `none`. -/
def readPlaceholder (cs : List Char) : Option (List Char × List Char) :=
  if isPlaceholderPrefix cs then
    match cs with
    | [] => none
    | c :: rest =>
      match scanPlaceholder rest with
      | none => none
      | some (p, r) => some (c :: p, r)
  else none

/-- escape decoding of `lexer.readString`: `\n \t \r`; `\\`, `\"` and every unknown escape `\x` give `x` -/
def unescape (e : Char) : Char :=
  if e == 'n' then '\n' else if e == 't' then '\t' else if e == 'r' then '\r' else e

/-- `lexer.readString`, input AFTER the opening quote: (decoded text, rest after the closing quote). -/
def readString : List Char → Except String (List Char × List Char)
  | [] => .error "unterminated string"
  | c :: cs =>
    if c == '\n' then .error "unterminated string"
    else if c == '"' then .ok ([], cs)
    else if c == '\\' then
      match cs with
      | [] => .error "unterminated escape"
      | e :: cs' =>
        match readString cs' with
        | .ok (s, r) => .ok (unescape e :: s, r)
        | .error err => .error err
    else
      match readString cs with
      | .ok (s, r) => .ok (c :: s, r)
      | .error err => .error err

/-- one iteration of `lexer.nextToken`'s loop on the non-empty input `c :: cs`: either a skipped space (`none`) or one
    token, and the remaining input. -/
def step (c : Char) (cs : List Char) : Except String (Option Tok × List Char) :=
  if isSpace c then .ok (none, cs)
  else if c == '{' then
    match readPlaceholder (c :: cs) with
    | some (p, r) => .ok (some (.ident p), r)
    | none => .ok (some .lbrace, cs)
  else if c == '#' then
    .ok (some (.comment (c :: cs.takeWhile (· != '\n'))), cs.dropWhile (· != '\n'))
  else if c == '}' then .ok (some .rbrace, cs)
  else if c == '"' then
    match readString cs with
    | .ok (s, r) => .ok (some (.str s), r)
    | .error err => .error err
  else
    .ok (some (.ident (c :: cs.takeWhile (fun x => !isDelim x))), cs.dropWhile (fun x => !isDelim x))

/-- prepend an optional token to a lexing result -/
def consTok (t : Option Tok) : Except String (List Tok) → Except String (List Tok)
  | .ok ts => .ok (match t with | some t => t :: ts | none => ts)
  | .error e => .error e

/-- fuel-indexed lexer; every `step` consumes at least one character, so `length + 1` fuel is always enough
    (`Props/C19.lean: lexAux_fuel`). -/
def lexAux : Nat → List Char → Except String (List Tok)
  | _, [] => .ok []
  | 0, _ :: _ => .error "internal: out of fuel"
  | fuel + 1, c :: cs =>
    match step c cs with
    | .error e => .error e
    | .ok (t, r) => consTok t (lexAux fuel r)

/-- whole input ↦ token list (no EOF token) -/
def lex (cs : List Char) : Except String (List Tok) := lexAux (cs.length + 1) cs

/-- `format.go: quoteString` — per-rune escape -/
def escapeChar (c : Char) : List Char :=
  if c == '\\' then ['\\', '\\']
  else if c == '"' then ['\\', '"']
  else if c == '\n' then ['\\', 'n']
  else if c == '\t' then ['\\', 't']
  else if c == '\r' then ['\\', 'r']
  else [c]

def escapeAll : List Char → List Char
  | [] => []
  | c :: cs => escapeChar c ++ escapeAll cs

/-- `format.go: quoteString` -/
def quoteString (s : List Char) : List Char := '"' :: (escapeAll s ++ ['"'])

/-- `format.go: isUnquotedValueSafe` -/
def isUnquotedValueSafe (v : List Char) : Bool :=
  if v.isEmpty then false
  else if ['{'].isPrefixOf v && ['}'].isSuffixOf v && !v.any isSpace then true
  else v.all (fun c => !isDelim c)

/-- `format.go: isUnquotedPathSafe` -/
def isUnquotedPathSafe (p : List Char) : Bool :=
  if p.isEmpty || !['/'].isPrefixOf p then false
  else p.all (fun c => !isDelim c)

/-- `format.go: formatValue` -/
def formatValue (v : List Char) (quoted : Bool) : List Char :=
  if quoted then quoteString v
  else if isUnquotedValueSafe v then v
  else quoteString v

end Hk.Lex
