import HkModel.Model.Queue
/-!
  The by-filter operator mutations as the SQLite store implements them: two steps that are not one transaction — the ids
  are selected in some state `q0`, then the by-ids operation of the same kind runs in whatever state `q` the store is in by
  then. (`Model/Queue.step (.byFilter …)` is the atomic version, `q0 = q`.) Theorems: `Props/SplitFilter.lean`;
  correspondence: `hkharness concx` scenario *interposed* through `Drive/ConcX.lean`.
-/
namespace Hk
namespace SplitFilter

/-- ids selected in `q0`, applied by the by-ids operation in `q`; answers (changed, matched) -/
def splitByFilter (now : Int) (k : IdKind) (f : Filter) (q0 q : Q) : Q × Resp :=
  let sel := selectFilter k f q0.msgs
  let n := countP (selectedBy k sel) q.msgs
  ({ q with msgs := applyIds now k sel q.msgs }, .count n (selectFilter k f q0.msgs).length false)

end SplitFilter
end Hk
