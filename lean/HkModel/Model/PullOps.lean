import HkModel.Model.Queue
/-
  Executable model of hookaido's transport-neutral pull layer (internal/pullapi/ops.go:
  `Server.Dequeue`, `AckSingle`, `AckBatch`, `NackSingle`, `NackBatch`, `Extend`) on top of the queue
  model, including the "recently completed lease operation" idempotency cache of
  internal/pullapi/http.go (`isRecentlyCompletedLease`, `rememberCompletedLease`,
  `partitionRecentlyCompletedLeases`, `successfulLeaseIDs`, `pruneRecentLeaseOpsLocked`).
  CORE LEAN ONLY (a JSON driver links this into a lean_exe).

  The cache is `list.List` + map in the implementation; the map is a pure index (one element per
  key), so the model keeps only the list, OLDEST FIRST.  One `pstep` uses one clock value `now`
  (the implementation reads the clock once per cache access; the harness freezes it per request).
-/
namespace Hk.PullOps

structure PCfg where
  target : String := "pull"
  maxBatch : Nat := 100          -- Server.MaxBatch (0 = no cap at this layer)
  defaultTTL : Int := 30000000000
  maxTTL : Int := 0              -- 0 = none
  recentTTL : Int := 120000000000   -- RecentLeaseOpTTL (≤ 0 disables the cache)
  recentCap : Nat := 20000          -- RecentLeaseOpCap (0 disables the cache)
  deriving Repr, DecidableEq

/-- (lease id, op "ack"|"nack", expiresAt ns), OLDEST FIRST (`list.List` order) -/
abbrev Cache := List (String × String × Int)

structure PState where
  q : Hk.Q
  cache : Cache := []
  deriving Repr

inductive POp
  | dequeue (route : String) (batch : Int) (ttl : Option Int)      -- ttl none = use default
  | ackSingle (l : String)
  | ackBatch (ls : List String)
  | nackSingle (l : String) (dead : Bool) (reason : String) (delay : Int)
  | nackBatch (ls : List String) (dead : Bool) (reason : String) (delay : Int)
  | extend (l : String) (by_ : Int)
  deriving Repr

structure PResp where
  status : Nat                 -- 200 (dequeue ok / batch result), 204, 400, 409, 500, 503
  succeeded : Nat := 0
  conflicts : List Hk.Conflict := []
  picks : List (String × String) := []     -- dequeue: (msg id, lease id)
  storeCalls : Nat := 0        -- how many store operations were performed (0 for an answer served from the cache)
  deriving Repr, DecidableEq

/-! ### the recently-completed-lease cache -/

/-- `pruneRecentLeaseOpsLocked`: drop from the FRONT while expired (`!now.Before(expiresAt)`, i.e.
    `expiresAt ≤ now`); stops at the first live entry. -/
def prune (cache : Cache) (now : Int) : Cache :=
  cache.dropWhile (fun e => decide (e.2.2 ≤ now))

/-- map key equality: (lease id, op) -/
def keyIs (l op : String) (e : String × String × Int) : Bool := e.1 == l && e.2.1 == op

/-- `RecentLeaseOpTTL > 0 && RecentLeaseOpCap > 0` -/
def cacheOn (pc : PCfg) : Bool := decide (pc.recentTTL > 0) && decide (pc.recentCap > 0)

/-- `isRecentlyCompletedLease` (prunes; a found-but-expired entry is removed and answers false). -/
def recent (pc : PCfg) (cache : Cache) (now : Int) (l op : String) : Cache × Bool :=
  let l := trimWS l
  let op := trimWS op
  if l == "" || op == "" then (cache, false) else
  if !cacheOn pc then (cache, false) else
  let c1 := prune cache now
  match c1.find? (keyIs l op) with
  | none => (c1, false)
  | some e => if now < e.2.2 then (c1, true) else (c1.eraseP (keyIs l op), false)

/-- `rememberCompletedLease` (prune; update + move to back if present; else push back and evict from
    the front while over cap). -/
def remember (pc : PCfg) (cache : Cache) (now : Int) (l op : String) : Cache :=
  let l := trimWS l
  let op := trimWS op
  if l == "" || op == "" then cache else
  if !cacheOn pc then cache else
  let c1 := prune cache now
  let e := (l, op, now + pc.recentTTL)
  if c1.any (keyIs l op) then c1.eraseP (keyIs l op) ++ [e]
  else
    let c2 := c1 ++ [e]
    c2.drop (c2.length - pc.recentCap)

/-- `partitionRecentlyCompletedLeases`: the cache is threaded through the per-id lookups (each of
    them prunes); result `(cache', pending, completed)`, both lists hold the RAW ids in input order. -/
def partition (pc : PCfg) (now : Int) (op : String) : List String → Cache → Cache × List String × List String
  | [], c => (c, [], [])
  | raw :: rest, c =>
    let r := recent pc c now raw op
    let p := partition pc now op rest r.1
    if r.2 then (p.1, p.2.1, raw :: p.2.2) else (p.1, raw :: p.2.1, p.2.2)

/-- `successfulLeaseIDs`: the pending RAW ids that do not occur (as strings) among the conflicts'
    lease ids. -/
def successfulIds (pending : List String) (cs : List Hk.Conflict) : List String :=
  pending.filter (fun raw => !(cs.map (·.lease)).contains raw)

def rememberAll (pc : PCfg) (now : Int) (op : String) : List String → Cache → Cache
  | [], c => c
  | l :: rest, c => rememberAll pc now op rest (remember pc c now l op)

/-! ### the operations -/

/-- batch handed to the store by `Server.Dequeue` -/
def dqBatch (pc : PCfg) (batch : Int) : Int :=
  let b := if batch ≤ 0 then 1 else batch
  if pc.maxBatch > 0 && decide (b > (pc.maxBatch : Int)) then (pc.maxBatch : Int) else b

/-- lease TTL handed to the store by `Server.Dequeue` -/
def dqTTL (pc : PCfg) (ttl : Option Int) : Int :=
  let t := match ttl with | some t => t | none => pc.defaultTTL
  if decide (pc.maxTTL > 0) && decide (t > pc.maxTTL) then pc.maxTTL else t

/-- `recentLeaseOpAck` / `recentLeaseOpNack` -/
def opAck : String := "ack"
def opNack : String := "nack"

def nackKind (dead : Bool) (reason : String) (delay : Int) : Hk.LeaseKind :=
  if dead then .markDead reason else .nack delay

/-- status of a single lease mutation from the store's answer: nil ↦ 204,
    ErrLeaseNotFound / ErrLeaseExpired ↦ 409, anything else ↦ 500 -/
def singleStatus : Hk.Resp → Nat
  | .ok => 204
  | .err .leaseNotFound => 409
  | .err .leaseExpired => 409
  | _ => 500

/-- cache lookup of a single operation; `key = none`: the operation does not use the cache (Extend) -/
def lookup (pc : PCfg) (cache : Cache) (now : Int) (l : String) : Option String → Cache × Bool
  | some op => recent pc cache now l op
  | none => (cache, false)

/-- cache update after the store answered a single operation: remembered only on success -/
def noteOk (pc : PCfg) (cache : Cache) (now : Int) (l : String) : Hk.Resp → Option String → Cache
  | .ok, some op => remember pc cache now l op
  | _, _ => cache

/-- AckSingle / NackSingle / Extend.  `key = none`: the operation does not use the cache (Extend). -/
def singleOp (qc : Hk.Cfg) (pc : PCfg) (now : Int) (ps : PState) (l0 : String) (key : Option String)
    (k : Hk.LeaseKind) (ch : Hk.Choice) : Option (PState × PResp) :=
  let l := trimWS l0
  if l == "" then some (ps, { status := 400 }) else
  let r := lookup pc ps.cache now l key
  if r.2 then some ({ ps with cache := r.1 }, { status := 204 }) else
  match Hk.step qc now ps.q (.lease k l) ch with
  | none => none
  | some (q', resp) =>
      some ({ q := q', cache := noteOk pc r.1 now l resp key }, { status := singleStatus resp, storeCalls := 1 })

/-- AckBatch / NackBatch (the `LeaseBatchStore` branch: every backend implements it). -/
def batchOp (qc : Hk.Cfg) (pc : PCfg) (now : Int) (ps : PState) (ls : List String) (key : String)
    (k : Hk.LeaseKind) (ch : Hk.Choice) : Option (PState × PResp) :=
  let p := partition pc now key ls ps.cache
  let pending := p.2.1
  let completed := p.2.2
  if pending.isEmpty then
    some ({ ps with cache := p.1 }, { status := 200, succeeded := completed.length })
  else
    match Hk.step qc now ps.q (.leaseBatch k pending) ch with
    | none => none
    | some (q', resp) =>
      match resp with
      | .batch n cs =>
        some ({ q := q', cache := rememberAll pc now key (successfulIds pending cs) p.1 },
              { status := 200, succeeded := completed.length + n, conflicts := cs, storeCalls := 1 })
      | _ => some ({ q := q', cache := p.1 }, { status := 500, storeCalls := 1 })

def pstep (qc : Hk.Cfg) (pc : PCfg) (now : Int) (ps : PState) (op : POp) (ch : Hk.Choice) :
    Option (PState × PResp) :=
  match op with
  | .dequeue route batch ttl =>
      match Hk.step qc now ps.q (.dequeue route pc.target (dqBatch pc batch) (dqTTL pc ttl)) ch with
      | none => none
      | some (q', resp) =>
        match resp with
        | .items picks => some ({ ps with q := q' }, { status := 200, picks := picks, storeCalls := 1 })
        | _ => some ({ ps with q := q' }, { status := 503, storeCalls := 1 })
  | .ackSingle l => singleOp qc pc now ps l (some opAck) .ack ch
  | .ackBatch ls => batchOp qc pc now ps ls opAck .ack ch
  | .nackSingle l dead reason delay => singleOp qc pc now ps l (some opNack) (nackKind dead reason delay) ch
  | .nackBatch ls dead reason delay => batchOp qc pc now ps ls opNack (nackKind dead reason delay) ch
  | .extend l by_ => singleOp qc pc now ps l none (.extend by_) ch

end Hk.PullOps
