import HkModel.Model.Egress
/-
  Model of ingress route resolution (internal/app/run.go resolveIngress, allowedMethodsFor, normalizeHost,
  match*; internal/router/pathmatch.go). CORE ONLY.
-/
namespace Hk.Route
open Hk.Egress (IP lower trimWS endsWith)

inductive Channel | default_ | inbound | outbound | internal
  deriving DecidableEq, Repr

def Channel.servesIngress : Channel → Bool
  | .default_ | .inbound => true
  | _ => false

structure Prefix where
  v4 : Bool
  base : Nat
  bits : Nat
  deriving Repr, DecidableEq

structure RouteCfg where
  channel : Channel := .default_
  path : String
  methods : List String := []
  hosts : List String := []
  headers : List (String × String) := []
  headerExists : List String := []
  query : List (String × String) := []
  queryExists : List String := []
  remoteIPs : List Prefix := []
  deriving Repr

/-- A request as `net/http` presents it: cleaned path, method, raw Host, header map (canonical names),
    parsed query, parsed remote address (none = unparsable). -/
structure Req where
  path : String
  method : String
  host : String
  headers : List (String × List String)
  query : List (String × List String)
  remote : Option IP
  deriving Repr

/-! ### path -/

def isPrefixOf (p s : List Char) : Bool := p.length ≤ s.length && s.take p.length == p

/-- `router.MatchPath`: exact, or prefix on a segment boundary; "/" routeMatches everything -/
def matchPath (req route : String) : Bool :=
  if route == "" then false
  else if route == "/" then true
  else if req == route then true
  else isPrefixOf route.toList req.toList && req.length > route.length && req.toList.getD route.length ' ' == '/'

/-! ### host -/

def lastIdx (c : Char) (s : List Char) : Option Nat :=
  let r := s.reverse
  match r.findIdx? (· == c) with
  | some i => some (s.length - 1 - i)
  | none => none

/-- `net.SplitHostPort`: `some (host, port)` or `none` on error -/
def splitHostPort (s : List Char) : Option (List Char × List Char) :=
  match lastIdx ':' s with
  | none => none
  | some i =>
    if s.head? == some '[' then
      match s.findIdx? (· == ']') with
      | none => none
      | some e =>
        if e + 1 == s.length then none
        else if e + 1 == i then
          let host := (s.take e).drop 1
          if (s.drop 1).contains '[' then none
          else if (s.drop (e + 1)).contains ']' then none
          else some (host, s.drop (i + 1))
        else none
    else
      let host := s.take i
      if host.contains ':' then none
      else if s.contains '[' then none
      else if s.contains ']' then none
      else some (host, s.drop (i + 1))

def trimBrackets (s : List Char) : List Char :=
  ((s.dropWhile (fun c => c == '[' || c == ']')).reverse.dropWhile (fun c => c == '[' || c == ']')).reverse

def trimDotL (s : List Char) : List Char := if endsWith s ['.'] then s.take (s.length - 1) else s

/-- `normalizeHost` (repaired: the trailing dot is also removed after the port has been split off, so
    lower-casing, port stripping and dot stripping commute). -/
def normalizeHost (h : String) : String :=
  let s := (lower (trimWS h)).toList
  if s.isEmpty then "" else
  let s := trimDotL s
  String.ofList <|
    if s.head? == some '[' then
      match splitHostPort s with
      | some (host, _) => trimBrackets host
      | none => trimBrackets s
    else if (s.filter (· == ':')).length > 1 then trimBrackets s
    else match splitHostPort s with
      | some (host, _) => trimDotL host
      | none => s

/-- the pinned (pre-repair) `normalizeHost`: dot trimmed only before the port is split off -/
def normalizeHostPinned (h : String) : String :=
  let s := (lower (trimWS h)).toList
  if s.isEmpty then "" else
  let s := trimDotL s
  String.ofList <|
    if s.head? == some '[' then
      match splitHostPort s with
      | some (host, _) => trimBrackets host
      | none => trimBrackets s
    else if (s.filter (· == ':')).length > 1 then trimBrackets s
    else match splitHostPort s with
      | some (host, _) => host
      | none => s

def matchHostPattern (reqHost : String) (h : String) : Bool :=
  h == "*" || reqHost == h ||
  (isPrefixOf ['*', '.'] h.toList &&
    let suffix := h.toList.drop 2
    !(suffix.isEmpty || reqHost.toList == suffix) && endsWith reqHost.toList ('.' :: suffix))

def matchHosts (reqHost : String) (allowed : List String) : Bool :=
  if allowed.isEmpty then true
  else if reqHost == "" then false
  else allowed.any (matchHostPattern reqHost)

/-! ### method, headers, query, remote ip -/

def matchMethods (method : String) (allowed : List String) : Bool :=
  if method == "" then false
  else if allowed.isEmpty then method == "POST"
  else allowed.contains method

def isTokenChar (c : Char) : Bool :=
  c.isAlphanum || "!#$%&'*+-.^_`|~".toList.contains c

/-- `http.CanonicalHeaderKey` (ASCII): invalid names are returned unchanged -/
def canonHeader (s : String) : String :=
  if s.toList.all isTokenChar then
    let rec go : List Char → Bool → List Char
      | [], _ => []
      | c :: cs, up => (if up then c.toUpper else c.toLower) :: go cs (c == '-')
    String.ofList (go s.toList true)
  else s

def headerValues (h : List (String × List String)) (name : String) : List String :=
  match h.find? (·.1 == canonHeader name) with
  | some (_, vs) => vs
  | none => []

def splitOnComma (s : List Char) : List (List Char) :=
  let rec go : List Char → List Char → List (List Char)
    | [], cur => [cur.reverse]
    | c :: cs, cur => if c == ',' then cur.reverse :: go cs [] else go cs (c :: cur)
  go s []

def matchHeaderValues (values : List String) (expected : String) : Bool :=
  values.any (fun v => v == expected ||
    (splitOnComma v.toList).any (fun part => trimWS (String.ofList part) == expected))

def matchHeaders (h : List (String × List String)) (expected : List (String × String)) (required : List String) : Bool :=
  required.all (fun n => !(headerValues h n).isEmpty) &&
  expected.all (fun (n, v) => !(headerValues h n).isEmpty && matchHeaderValues (headerValues h n) v)

def queryValues (q : List (String × List String)) (name : String) : Option (List String) :=
  (q.find? (·.1 == name)).map (·.2)

def matchQuery (q : List (String × List String)) (expected : List (String × String)) (required : List String) : Bool :=
  required.all (fun n => match queryValues q n with | some vs => !vs.isEmpty | none => false) &&
  expected.all (fun (n, v) => match queryValues q n with | some vs => vs.contains v | none => false)

def prefixContains (p : Prefix) (ip : IP) : Bool :=
  let w := if p.v4 then 32 else 128
  p.v4 == ip.v4 && p.bits ≤ w && ip.n / 2 ^ (w - p.bits) == p.base / 2 ^ (w - p.bits)

def matchRemote (remote : Option IP) (allowed : List Prefix) : Bool :=
  if allowed.isEmpty then true
  else match remote with
    | none => false
    | some ip => allowed.any (fun p => prefixContains p ip)

/-! ### resolution -/

/-- every criterion except the method -/
def matchesButMethod (rt : RouteCfg) (rq : Req) : Bool :=
  matchPath rq.path rt.path && matchHosts (normalizeHost rq.host) rt.hosts &&
  matchHeaders rq.headers rt.headers rt.headerExists && matchQuery rq.query rt.query rt.queryExists &&
  matchRemote rq.remote rt.remoteIPs

def routeMatches (rt : RouteCfg) (rq : Req) : Bool :=
  rt.channel.servesIngress && matchesButMethod rt rq && matchMethods rq.method rt.methods

/-- `resolveIngress` (repaired): first *inbound* route in configuration order whose criteria all hold -/
def resolve (routes : List RouteCfg) (rq : Req) : Option RouteCfg := routes.find? (fun rt => routeMatches rt rq)

def dedup : List String → List String
  | [] => []
  | x :: xs => x :: (dedup xs).filter (· != x)

/-- `allowedMethodsFor` (repaired): methods of the inbound routes matching everything but the method -/
def allowedMethods (routes : List RouteCfg) (rq : Req) : List String :=
  dedup ((routes.filter (fun rt => rt.channel.servesIngress && matchesButMethod rt rq)).flatMap
    (fun rt => if rt.methods.isEmpty then ["POST"] else rt.methods))

inductive Outcome | route (path : String) | notFound | methodNotAllowed (allow : List String)
  deriving DecidableEq, Repr

def outcome (routes : List RouteCfg) (rq : Req) : Outcome :=
  match resolve routes rq with
  | some rt => .route rt.path
  | none => let a := allowedMethods routes rq; if a.isEmpty then .notFound else .methodNotAllowed a

/-- pinned (pre-repair) resolver: the channel type is never consulted -/
def resolvePinned (routes : List RouteCfg) (rq : Req) : Option RouteCfg :=
  routes.find? (fun rt => matchesButMethod rt rq && matchMethods rq.method rt.methods)

end Hk.Route
