/-!
  C18 — configuration reload as a sequence of events over a versioned live state.

  A reload attempt is the program-order list of its *events* (regenerated from `reloadConfig`'s source into
  `Generated/ReloadSteps.lean`): points where the attempt can give up and keep the running configuration, and
  write-lock sections that assign a set of runtime fields from the new configuration.  Between two lock sections any
  number of requests can run; a request is a list of accessor calls, each reading some fields under its own read
  lock.  The live state records, per field, which configuration version it currently holds.
-/
namespace Hk.Reload

inductive Ev where
  | mayFail (what : String)
  | write (fields : List String)
  | writeUnlocked (fields : List String)   -- assignment outside any write-lock section (never expected)
  | touchUnlocked (fields : List String)   -- a live field read or handed to a callee outside any lock section (never expected)
deriving Repr, DecidableEq, Inhabited

abbrev Ver := Nat
/-- which version every runtime field currently holds -/
abbrev Live := List (String × Ver)

def Ev.isFail : Ev → Bool
  | .mayFail _ => true
  | _ => false

def Ev.fields : Ev → List String
  | .mayFail _ => []
  | .write fs => fs
  | .writeUnlocked fs => fs
  | .touchUnlocked _ => []

def setFields (l : Live) (fs : List String) (v : Ver) : Live :=
  l.map fun p => if fs.contains p.1 then (p.1, v) else p

def uniform (l : Live) (v : Ver) : Bool := l.all (·.2 == v)

def initLive (fields : List String) (v : Ver) : Live := fields.map (·, v)

/-- run the events from index `i`; `failAt = some k` makes the k-th event (if it is a give-up point) fail.
    Result: the live state and whether the attempt reported success. -/
def runFrom : List Ev → Nat → Option Nat → Live → Ver → Live × Bool
  | [], _, _, l, _ => (l, true)
  | e :: rest, i, failAt, l, v =>
    if e.isFail then
      if failAt = some i then (l, false) else runFrom rest (i + 1) failAt l v
    else runFrom rest (i + 1) failAt (setFields l e.fields v) v

def run (evs : List Ev) (failAt : Option Nat) (l : Live) (v : Ver) : Live × Bool := runFrom evs 0 failAt l v

/-- every give-up point precedes every write -/
def failsFirst : List Ev → Bool
  | [] => true
  | e :: rest => if e.isFail then failsFirst rest else rest.all (fun x => !x.isFail)

def writes (evs : List Ev) : List (List String) := evs.filterMap fun
  | .write fs => some fs
  | .writeUnlocked fs => some fs
  | .touchUnlocked _ => none
  | .mayFail _ => none

def hasUnlocked (evs : List Ev) : Bool := evs.any fun
  | .writeUnlocked _ => true
  | .touchUnlocked _ => true
  | _ => false

/-- the live states other goroutines can observe during a successful attempt: before it, and after each write section -/
def observable : List (List String) → Live → Ver → List Live
  | [], l, _ => [l]
  | fs :: rest, l, v => l :: observable rest (setFields l fs v) v

def get (l : Live) (f : String) : Option Ver := (l.find? (·.1 == f)).map (·.2)

/-- a request: accessor calls, each reading a set of fields atomically under its own read lock; the first `cut`
    calls run against `before`, the rest against `after`.  The versions it saw, read by read. -/
def serve (calls : List (List String)) (cut : Nat) (before after : Live) : List Ver :=
  (calls.zipIdx.map fun p => p.1.filterMap (get (if p.2 < cut then before else after))).flatten

def allSame (vs : List Ver) : Bool :=
  match vs with
  | [] => true
  | v :: rest => rest.all (· == v)

end Hk.Reload
