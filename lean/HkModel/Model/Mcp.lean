import HkModel.Generated.McpTables
/-
  Model of MCP tool gating (internal/mcp/server.go toolAccessError, toolDescriptors, callTool) over the tables
  REGENERATED from the Go source on every run (`Generated/McpTables.lean`). CORE ONLY.
-/
namespace Hk.Mcp
open Hk.Gen

inductive Role | read | operate | admin
  deriving DecidableEq, Repr

def Role.rank : Role → Nat | .read => 1 | .operate => 2 | .admin => 3

def Role.ofString? : String → Option Role
  | "read" => some .read | "operate" => some .operate | "admin" => some .admin | _ => none

def requiredRole (t : String) : Option Role := (mcpRole.find? (·.1 == t)).bind (fun p => Role.ofString? p.2)
def needsMut (t : String) : Bool := mcpNeedsMut.contains t
def needsRt (t : String) : Bool := mcpNeedsRt.contains t
def mutating (t : String) : Bool := mcpMutating.contains t
def tools : List String := mcpRole.map (·.1)

/-- `toolAccessError == nil` -/
def allowed (t : String) (role : Role) (mu rt principal : Bool) : Bool :=
  match requiredRole t with
  | none => false
  | some r => (!needsMut t || mu) && (!needsRt t || rt) && decide (role.rank ≥ r.rank) && (!mutating t || principal)

/-- tools/list -/
def listed (role : Role) (mu rt principal : Bool) : List String :=
  mcpDescriptors.filter (fun t => allowed t role mu rt principal)

inductive Outcome | denied | error | success
  deriving DecidableEq, Repr

/-- number of audit records a call appends: one for every outcome of a mutating tool, none otherwise
    (an unknown tool is not mutating) -/
def auditRecords (t : String) (_o : Outcome) : Nat := if mutating t then 1 else 0

def sameSet (a b : List String) : Bool := a.all b.contains && b.all a.contains

end Hk.Mcp
