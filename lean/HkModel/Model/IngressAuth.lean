import HkModel.Model.Sha256
import HkModel.Model.Egress
/-
  Model of ingress authentication (internal/ingress/hmac.go, basic_auth.go, forward_auth.go), of the nonce
  cache (replay protection) and of the handler's decision order (internal/ingress/http.go). CORE ONLY.
  `mac` is a parameter: the theorems hold for every keyed function; the driver instantiates it with the Lean
  HMAC-SHA256.
-/
namespace Hk.IngressAuth
open Hk.Egress (trimWS)

abbrev Bytes := List UInt8

/-- a secret version with validity window (ns): `from` inclusive, `until` exclusive (`none` = no end) -/
structure Version where
  id : String
  value : Bytes
  from_ : Int
  until_ : Option Int
  deriving Repr, DecidableEq

def Version.validAt (v : Version) (t : Int) : Bool :=
  decide (v.from_ ≤ t) && (match v.until_ with | none => true | some u => decide (t < u))

structure HmacCfg where
  sigHeader : String := "X-Signature"
  tsHeader : String := "X-Timestamp"
  nonceHeader : String := "X-Nonce"
  tol : Int := 300000000000            -- ns
  direct : List Bytes := []            -- static secrets (non-empty ones)
  versions : List Version := []        -- secret_ref versions
  deriving Repr

/-- the three header values as `Header.Get` returns them ("" when absent), method, cleaned path, exact body -/
structure HReq where
  sig : String
  ts : String
  nonce : String
  method : String
  path : String
  body : Bytes
  deriving Repr

/-- `strconv.ParseInt(s, 10, 64)` -/
def parseInt64 (s : String) : Option Int :=
  let cs := s.toList
  let (neg, ds) := match cs with
    | '-' :: r => (true, r)
    | '+' :: r => (false, r)
    | r => (false, r)
  if ds.isEmpty || !ds.all Char.isDigit then none else
  let n : Nat := ds.foldl (fun acc c => acc * 10 + (c.toNat - 48)) 0
  let v : Int := if neg then -(n : Int) else n
  if v < -9223372036854775808 || v > 9223372036854775807 then none else some v

def stringToSign (ts method path : String) (body : Bytes) : Bytes :=
  (ts ++ "\n" ++ method ++ "\n" ++ path ++ "\n" ++ Sha256.toHex (Sha256.sha256 body)).toUTF8.toList

/-- secrets a signature may verify under at signed time `t` (ns) -/
def validSecrets (cfg : HmacCfg) (t : Int) : List Bytes :=
  if cfg.versions.isEmpty then cfg.direct
  else (cfg.versions.filter (·.validAt t)).map (·.value) ++ cfg.direct

/-! ### nonce cache -/

abbrev Cache := List (String × Int)   -- nonce ↦ expiry (ns)

/-- `seenOnce` (repaired: an entry lives through its whole window, *including* the instant `now = expiry`, at
    which the tolerance test still accepts the timestamp). Returns the new cache and "first time seen". -/
def seenOnce (cache : Cache) (now : Int) (nonce : String) (expiry : Int) : Cache × Bool :=
  let live := cache.filter (fun e => decide (now ≤ e.2))
  if live.any (·.1 == nonce) then (live, false) else ((nonce, expiry) :: live, true)

/-- the pinned (pre-repair) cache: an entry is dropped at `now = expiry` -/
def seenOncePinned (cache : Cache) (now : Int) (nonce : String) (expiry : Int) : Cache × Bool :=
  let live := cache.filter (fun e => decide (now < e.2))
  if live.any (·.1 == nonce) then (live, false) else ((nonce, expiry) :: live, true)

/-- the timestamp conditions of `Verify`: all three headers present, decimal int64 timestamp, within tolerance -/
def timeOK (cfg : HmacCfg) (now : Int) (rq : HReq) : Option Int :=
  if trimWS rq.sig == "" || trimWS rq.ts == "" || trimWS rq.nonce == "" then none else
  match parseInt64 (trimWS rq.ts) with
  | none => none
  | some n =>
    let t := n * 1000000000
    if cfg.tol > 0 && (now - t < -cfg.tol || now - t > cfg.tol) then none else some t

/-- the signature conditions: non-empty hex signature equal to `mac secret stringToSign` under a valid secret -/
def sigOK (mac : Bytes → Bytes → Bytes) (cfg : HmacCfg) (t : Int) (rq : HReq) : Bool :=
  match Sha256.fromHex (trimWS rq.sig) with
  | none => false
  | some g =>
    !g.isEmpty &&
    (validSecrets cfg t).any (fun s => !s.isEmpty &&
      mac s (stringToSign (trimWS rq.ts) rq.method rq.path rq.body) == g)

/-- `HMACAuth.Verify` with the cache threaded through (the nonce is recorded before the signature is checked) -/
def verify (mac : Bytes → Bytes → Bytes) (cfg : HmacCfg) (now : Int) (cache : Cache) (rq : HReq) : Cache × Bool :=
  match timeOK cfg now rq with
  | none => (cache, false)
  | some t =>
    let (cache', fresh) := seenOnce cache now (trimWS rq.nonce) (t + cfg.tol)
    if !fresh then (cache', false) else (cache', sigOK mac cfg t rq)

/-! ### basic, forward -/

/-- `BasicAuth.Verify` on the credentials `Request.BasicAuth` parsed (`none` = header absent/malformed) -/
def basicVerify (users : List (String × String)) (cred : Option (String × String)) : Bool :=
  match cred with
  | none => false
  | some (u, p) => match users.find? (·.1 == u) with
    | some (_, want) => p == want
    | none => false

/-- what the auth service did: answered with a status, or the call failed (timeout, refused, …) -/
inductive FwdOutcome | status (n : Nat) | failed
  deriving DecidableEq, Repr

/-- `ForwardAuth.Authorize`: 0 = allow, else the status to answer -/
def forwardDecide : FwdOutcome → Nat
  | .status n => if 200 ≤ n && n < 300 then 0 else if n == 401 || n == 403 then n else 503
  | .failed => 503

/-! ### handler decision order -/

structure FlowIn where
  routed : Bool
  allow405 : Bool := false
  rateOK : Bool := true
  pressureOK : Bool := true
  basic : Option Bool := none          -- none: route declares no basic auth; some b: verifier's answer
  bodyOK : Bool := true                 -- body ≤ max_body
  forward : Option FwdOutcome := none   -- none: no forward auth; some o: what the auth service did
  hmac : Option Bool := none
  headersOK : Bool := true              -- stored headers ≤ max_headers
  targets : Nat := 1
  storeFailsAt : Option Nat := none     -- index of the first target whose enqueue is refused (full / pressure)
  deriving Repr

def fwdStatus (i : FlowIn) : Nat := match i.forward with | none => 0 | some o => forwardDecide o

def failIdx (i : FlowIn) : Option Nat := i.storeFailsAt.filter (fun k => decide (k < i.targets))

/-- status answered and number of messages enqueued -/
def flow (i : FlowIn) : Nat × Nat :=
  if !i.routed then (if i.allow405 then 405 else 404, 0)
  else if !i.rateOK then (429, 0)
  else if !i.pressureOK then (503, 0)
  else if i.basic == some false then (401, 0)
  else if !i.bodyOK then (413, 0)
  else if fwdStatus i != 0 then (fwdStatus i, 0)
  else if i.hmac == some false then (401, 0)
  else if !i.headersOK then (413, 0)
  else match failIdx i with
    | some k => (503, k)
    | none => (202, i.targets)

end Hk.IngressAuth
