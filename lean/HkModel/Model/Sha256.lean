/-
  Executable SHA-256 and HMAC-SHA256 (FIPS 180-4 / RFC 2104) on byte lists. CORE ONLY.
  Used by the driver as the concrete `mac`, independently of Go's crypto packages; the theorems treat `mac` as
  an arbitrary function. Validated by the test vectors below (labelled tests) and by the correspondence itself.
-/
namespace Hk.Sha256

abbrev Bytes := List UInt8

def K : Array UInt32 := #[
  0x428a2f98, 0x71374491, 0xb5c0fbcf, 0xe9b5dba5, 0x3956c25b, 0x59f111f1, 0x923f82a4, 0xab1c5ed5,
  0xd807aa98, 0x12835b01, 0x243185be, 0x550c7dc3, 0x72be5d74, 0x80deb1fe, 0x9bdc06a7, 0xc19bf174,
  0xe49b69c1, 0xefbe4786, 0x0fc19dc6, 0x240ca1cc, 0x2de92c6f, 0x4a7484aa, 0x5cb0a9dc, 0x76f988da,
  0x983e5152, 0xa831c66d, 0xb00327c8, 0xbf597fc7, 0xc6e00bf3, 0xd5a79147, 0x06ca6351, 0x14292967,
  0x27b70a85, 0x2e1b2138, 0x4d2c6dfc, 0x53380d13, 0x650a7354, 0x766a0abb, 0x81c2c92e, 0x92722c85,
  0xa2bfe8a1, 0xa81a664b, 0xc24b8b70, 0xc76c51a3, 0xd192e819, 0xd6990624, 0xf40e3585, 0x106aa070,
  0x19a4c116, 0x1e376c08, 0x2748774c, 0x34b0bcb5, 0x391c0cb3, 0x4ed8aa4a, 0x5b9cca4f, 0x682e6ff3,
  0x748f82ee, 0x78a5636f, 0x84c87814, 0x8cc70208, 0x90befffa, 0xa4506ceb, 0xbef9a3f7, 0xc67178f2]

def H0 : Array UInt32 := #[0x6a09e667, 0xbb67ae85, 0x3c6ef372, 0xa54ff53a, 0x510e527f, 0x9b05688c, 0x1f83d9ab, 0x5be0cd19]

@[inline] def rotr (x : UInt32) (n : UInt32) : UInt32 := (x >>> n) ||| (x <<< (32 - n))

def pad (msg : Bytes) : Bytes :=
  let l := msg.length
  let zeros := (119 - l % 64) % 64   -- so that l + 1 + zeros ≡ 56 (mod 64)
  let bits : Nat := l * 8
  msg ++ [0x80] ++ List.replicate zeros 0 ++
    (List.range 8).map (fun i => UInt8.ofNat (bits / 2 ^ (8 * (7 - i)) % 256))

def word (b : Array UInt8) (i : Nat) : UInt32 :=
  (b[i]!.toUInt32 <<< 24) ||| (b[i+1]!.toUInt32 <<< 16) ||| (b[i+2]!.toUInt32 <<< 8) ||| b[i+3]!.toUInt32

def schedule (block : Array UInt8) : Array UInt32 := Id.run do
  let mut w : Array UInt32 := Array.replicate 64 0
  for i in [0:16] do
    w := w.set! i (word block (4 * i))
  for i in [16:64] do
    let w15 := w[i-15]!
    let w2 := w[i-2]!
    let s0 := rotr w15 7 ^^^ rotr w15 18 ^^^ (w15 >>> 3)
    let s1 := rotr w2 17 ^^^ rotr w2 19 ^^^ (w2 >>> 10)
    w := w.set! i (w[i-16]! + s0 + w[i-7]! + s1)
  return w

def compress (h : Array UInt32) (block : Array UInt8) : Array UInt32 := Id.run do
  let w := schedule block
  let mut a := h[0]!; let mut b := h[1]!; let mut c := h[2]!; let mut d := h[3]!
  let mut e := h[4]!; let mut f := h[5]!; let mut g := h[6]!; let mut hh := h[7]!
  for i in [0:64] do
    let s1 := rotr e 6 ^^^ rotr e 11 ^^^ rotr e 25
    let ch := (e &&& f) ^^^ ((~~~ e) &&& g)
    let t1 := hh + s1 + ch + K[i]! + w[i]!
    let s0 := rotr a 2 ^^^ rotr a 13 ^^^ rotr a 22
    let mj := (a &&& b) ^^^ (a &&& c) ^^^ (b &&& c)
    let t2 := s0 + mj
    hh := g; g := f; f := e; e := d + t1; d := c; c := b; b := a; a := t1 + t2
  return #[h[0]! + a, h[1]! + b, h[2]! + c, h[3]! + d, h[4]! + e, h[5]! + f, h[6]! + g, h[7]! + hh]

def sha256 (msg : Bytes) : Bytes := Id.run do
  let p := (pad msg).toArray
  let mut h := H0
  for i in [0:p.size / 64] do
    h := compress h (p.extract (64 * i) (64 * i + 64))
  let mut out : Array UInt8 := #[]
  for x in h do
    out := out.push (x >>> 24).toUInt8 |>.push (x >>> 16).toUInt8 |>.push (x >>> 8).toUInt8 |>.push x.toUInt8
  return out.toList

def hmac (key msg : Bytes) : Bytes :=
  let k := if key.length > 64 then sha256 key else key
  let k := k ++ List.replicate (64 - k.length) 0
  let ipad := k.map (· ^^^ 0x36)
  let opad := k.map (· ^^^ 0x5c)
  sha256 (opad ++ sha256 (ipad ++ msg))

def hexDigit (n : UInt8) : Char := if n < 10 then Char.ofNat (48 + n.toNat) else Char.ofNat (87 + n.toNat)
def toHex (b : Bytes) : String :=
  String.ofList (b.flatMap (fun (x : UInt8) => [hexDigit (x >>> (4 : UInt8)), hexDigit (x &&& (15 : UInt8))]))

def hexVal (c : Char) : Option UInt8 :=
  if '0' ≤ c && c ≤ '9' then some (UInt8.ofNat (c.toNat - 48))
  else if 'a' ≤ c && c ≤ 'f' then some (UInt8.ofNat (c.toNat - 87))
  else if 'A' ≤ c && c ≤ 'F' then some (UInt8.ofNat (c.toNat - 55))
  else none

/-- `hex.DecodeString`: even length, both cases accepted -/
def fromHex (s : String) : Option Bytes :=
  let rec go : List Char → Option Bytes
    | [] => some []
    | [_] => none
    | a :: b :: rest => do
      let x ← hexVal a; let y ← hexVal b; let r ← go rest
      pure ((x <<< 4 ||| y) :: r)
  go s.toList

/-! test vectors (labelled tests, not theorems about all inputs) -/
#guard toHex (sha256 []) == "e3b0c44298fc1c149afbf4c8996fb92427ae41e4649b934ca495991b7852b855"
#guard toHex (sha256 "abc".toUTF8.toList) == "ba7816bf8f01cfea414140de5dae2223b00361a396177a9cb410ff61f20015ad"
#guard toHex (sha256 "abcdbcdecdefdefgefghfghighijhijkijkljklmklmnlmnomnopnopq".toUTF8.toList) ==
  "248d6a61d20638b8e5c026930c3e6039a33ce45964ff2167f6ecedd419db06c1"
#guard toHex (hmac "key".toUTF8.toList "The quick brown fox jumps over the lazy dog".toUTF8.toList) ==
  "f7bc83f430538424b13298e6aa6fb143ef4d59a14946175997479dbc2d1a3cd8"
#guard toHex (hmac (List.replicate 131 0xaa) "Test Using Larger Than Block-Size Key - Hash Key First".toUTF8.toList) ==
  "60e431591ee0b67f0d8a26aacbf5b77f8e0bc6213728c5140546040f0ee37f54"

end Hk.Sha256
