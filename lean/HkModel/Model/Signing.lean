import HkModel.Model.Sha256
/-
  Model of outbound HMAC signing (internal/dispatcher/http_deliverer.go applyDeliverySigning,
  selectSigningSecretRef). CORE ONLY.
-/
namespace Hk.Signing
abbrev Bytes := List UInt8

/-- a signing secret version: window in ns; `from_ = none` models a zero `ValidFrom` (never valid) -/
structure SVersion where
  id : String
  ref : String
  from_ : Option Int
  until_ : Option Int
  deriving Repr, DecidableEq

def SVersion.validAt (v : SVersion) (t : Int) : Bool :=
  match v.from_ with
  | none => false
  | some f => decide (f ≤ t) && (match v.until_ with | none => true | some u => decide (t < u))

inductive Mode | newest | oldest
  deriving DecidableEq, Repr

def fromOf (v : SVersion) : Int := v.from_.getD 0

/-- `x` is strictly preferred to `s` under the selection rule (ties on `valid_from` go to the smaller id) -/
def better (m : Mode) (x s : SVersion) : Bool :=
  (match m with
   | .newest => decide (fromOf x > fromOf s)
   | .oldest => decide (fromOf x < fromOf s)) ||
  (fromOf x == fromOf s && decide (x.id < s.id))

/-- the selection loop of `selectSigningSecretRef` -/
def selectFrom (m : Mode) (t : Int) : List SVersion → Option SVersion → Option SVersion
  | [], cur => cur
  | v :: rest, cur =>
    if !v.validAt t then selectFrom m t rest cur
    else match cur with
      | none => selectFrom m t rest (some v)
      | some s => selectFrom m t rest (some (if better m v s then v else s))

def select (m : Mode) (vs : List SVersion) (t : Int) : Option SVersion := selectFrom m t vs none

def upper (s : String) : String := String.ofList (s.toList.map Char.toUpper)

/-- canonical string: UPPER(method) ⏎ escaped-path (or "/") ⏎ unix-seconds ⏎ hex sha256(body) -/
def canonical (method escapedPath : String) (unixSeconds : Int) (body : Bytes) : Bytes :=
  (upper method ++ "\n" ++ (if escapedPath == "" then "/" else escapedPath) ++ "\n" ++ toString unixSeconds ++ "\n" ++
    Sha256.toHex (Sha256.sha256 body)).toUTF8.toList

/-- what `applyDeliverySigning` produces: `none` = nothing may be sent (no valid version / empty ref / secret
    cannot be loaded or is empty); `some (timestampHeaderValue, signatureHeaderValue)` otherwise.
    `load` is the secret store (`none` = load error). -/
def sign (mac : Bytes → Bytes → Bytes) (load : String → Option Bytes) (m : Mode) (vs : List SVersion) (direct : String)
    (nowNs : Int) (method escapedPath : String) (body : Bytes) : Option (String × String) :=
  let secs := nowNs / 1000000000
  let at_ := secs * 1000000000 + nowNs % 1000000000   -- = nowNs (signing instant; selection uses full precision)
  let ref? : Option String :=
    if vs.isEmpty then (if direct == "" then none else some direct)
    else match select m vs at_ with
      | none => none
      | some v => if v.ref == "" then none else some v.ref
  match ref? with
  | none => none
  | some r => match load r with
    | none => none
    | some key => if key.isEmpty then none
        else some (toString secs, Sha256.toHex (mac key (canonical method escapedPath secs body)))

end Hk.Signing
