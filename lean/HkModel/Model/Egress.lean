/-
  Model of the egress policy decision (internal/dispatcher/egress.go) and of redirect following
  (http_deliverer.go checkRedirect). CORE ONLY.
  Addresses are numbers: IPv4 (including IPv4-mapped IPv6, which Go unmaps) as n < 2^32, IPv6 as n < 2^128.
-/
namespace Hk.Egress

structure IP where
  v4 : Bool
  n : Nat
  deriving DecidableEq, Repr

/-- `isAllowedIP`, written like the `net.IP` predicates the code calls (byte tests). -/
def isAllowedIP (ip : IP) : Bool :=
  if ip.v4 then
    let b0 := ip.n / 16777216
    let b1 := ip.n / 65536 % 256
    let b2 := ip.n / 256 % 256
    let loopback := b0 == 127
    let llu := b0 == 169 && b1 == 254
    let llm := b0 == 224 && b1 == 0 && b2 == 0
    let mc := b0 / 16 == 14
    let unspec := ip.n == 0
    let priv := b0 == 10 || (b0 == 172 && b1 / 16 == 1) || (b0 == 192 && b1 == 168)
    let global := ip.n != 4294967295 && !unspec && !loopback && !mc && !llu
    !(loopback || llu || llm || mc || unspec) && !priv && global
  else
    let c0 := ip.n / 1329227995784915872903807060280344576          -- 2^120
    let c1 := ip.n / 5192296858534827628530496329220096 % 256        -- 2^112
    let loopback := ip.n == 1
    let unspec := ip.n == 0
    let llu := c0 == 254 && c1 / 64 == 2
    let llm := c0 == 255 && c1 % 16 == 2
    let mc := c0 == 255
    let priv := c0 / 2 == 126
    let global := !unspec && !loopback && !mc && !llu
    !(loopback || llu || llm || mc || unspec) && !priv && global

/-- The address classes the property lists, as plain ranges (the specification side). -/
def blocked (ip : IP) : Prop :=
  if ip.v4 then
    (2130706432 ≤ ip.n ∧ ip.n < 2147483648) ∨          -- 127.0.0.0/8 loopback
    (167772160 ≤ ip.n ∧ ip.n < 184549376) ∨            -- 10.0.0.0/8
    (2886729728 ≤ ip.n ∧ ip.n < 2887778304) ∨          -- 172.16.0.0/12
    (3232235520 ≤ ip.n ∧ ip.n < 3232301056) ∨          -- 192.168.0.0/16
    (2851995648 ≤ ip.n ∧ ip.n < 2852061184) ∨          -- 169.254.0.0/16 link-local
    (3758096384 ≤ ip.n ∧ ip.n < 4026531840) ∨          -- 224.0.0.0/4 multicast
    ip.n = 0                                            -- unspecified
  else
    ip.n = 1 ∨ ip.n = 0 ∨                                                                  -- ::1, ::
    (334965454937798799971759379190646833152 ≤ ip.n ∧ ip.n < 337623910929368631717566993311207522304) ∨  -- fc00::/7
    (338288524927261089654018896841347694592 ≤ ip.n ∧ ip.n < 338620831926207318622244848606417780736) ∨  -- fe80::/10
    338953138925153547590470800371487866880 ≤ ip.n                                         -- ff00::/8

instance (ip : IP) : Decidable (blocked ip) := by unfold blocked; exact inferInstance

structure Rule where
  host : String := ""
  sub : Bool := false
  isCIDR : Bool := false
  cidrV4 : Bool := true
  base : Nat := 0
  bits : Nat := 0
  deriving Repr, DecidableEq

structure Policy where
  httpsOnly : Bool := false
  redirects : Bool := false
  rebind : Bool := false
  allow : List Rule := []
  deny : List Rule := []
  deriving Repr

def lower (s : String) : String := String.ofList (s.toList.map Char.toLower)

def goSpace (c : Char) : Bool :=
  c == ' ' || c == '\t' || c == '\n' || c == '\r' || c.toNat == 0x0b || c.toNat == 0x0c ||
  c.toNat == 0x85 || c.toNat == 0xa0
def trimWS (s : String) : String :=
  String.ofList ((s.toList.dropWhile goSpace).reverse.dropWhile goSpace).reverse

def endsWith (s suf : List Char) : Bool := suf.length ≤ s.length && s.drop (s.length - suf.length) == suf

def trimDot (s : String) : String :=
  if endsWith s.toList ['.'] then String.ofList (s.toList.take (s.length - 1)) else s

/-- host as the policy sees it: lower-cased, trimmed, one trailing dot removed -/
def normHost (hostname : String) : String := trimDot (lower (trimWS hostname))

def matchHostRule (host : String) (r : Rule) : Bool :=
  if r.host == "" || host == "" then false
  else if r.host == "*" then true
  else if !r.sub then host == r.host
  else if host == r.host then false
  else endsWith host.toList ('.' :: r.host.toList)

def cidrContains (r : Rule) (ip : IP) : Bool :=
  let w := if r.cidrV4 then 32 else 128
  r.cidrV4 == ip.v4 && r.bits ≤ w && ip.n / 2 ^ (w - r.bits) == r.base / 2 ^ (w - r.bits)

def matchRules (host : String) (ips : List IP) (rules : List Rule) : Bool :=
  rules.any (fun r => if r.isCIDR then ips.any (cidrContains r) else matchHostRule host r)

def hasCIDR (p : Policy) : Bool := p.allow.any (·.isCIDR) || p.deny.any (·.isCIDR)

inductive Verdict | allowed | denied | lookupError
  deriving DecidableEq, Repr

/-- what the resolver step yields: the literal address if the host is one, else the DNS answer -/
def resolve (p : Policy) (literal : Option IP) (answers : Option (List IP)) : Option (List IP) :=
  if !(p.rebind || hasCIDR p) then some []
  else match literal with
    | some ip => some [ip]
    | none => match answers with
      | some (a :: as) => some (a :: as)
      | _ => none

/-- `checkEgressPolicyURL` -/
def check (p : Policy) (scheme hostname : String) (literal : Option IP) (answers : Option (List IP)) : Verdict :=
  let sc := lower scheme
  if sc != "http" && sc != "https" then .denied
  else if p.httpsOnly && sc != "https" then .denied
  else
    let host := normHost hostname
    if host == "" then .denied else
    match resolve p literal answers with
    | none => .lookupError
    | some ips =>
      if p.rebind && !ips.all isAllowedIP then .denied
      else if !p.deny.isEmpty && matchRules host ips p.deny then .denied
      else if !p.allow.isEmpty && !matchRules host ips p.allow then .denied
      else .allowed

/-- One hop of a delivery: what is needed to decide it. -/
structure Hop where
  scheme : String
  hostname : String
  literal : Option IP
  answers : Option (List IP)
  deriving Repr

def hopOK (p : Policy) (h : Hop) : Bool := check p h.scheme h.hostname h.literal h.answers == .allowed

/-- How many requests actually leave for a chain of URLs (first = the target, rest = successive `Location`s):
    the target is checked; a redirect is followed only when redirects are on, fewer than 10 requests preceded
    it, and the hop itself passes the policy. -/
def sentAux (p : Policy) : List Hop → Nat → Nat
  | [], sent => sent
  | h :: rest, sent =>
    if sent == 0 then (if hopOK p h then sentAux p rest 1 else 0)
    else if p.redirects && sent < 10 && hopOK p h then sentAux p rest (sent + 1) else sent

def sent (p : Policy) (chain : List Hop) : Nat := sentAux p chain 0

end Hk.Egress
