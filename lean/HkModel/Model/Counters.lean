/-
  Trigger-maintained depth counters of the SQLite store (`queue_counters`, schemaV6 of internal/queue/sqlite.go).

  The admission test of the durable store does not count rows: it reads two integers that three AFTER triggers on
  `queue_items` keep up to date. This file gives the triggers a semantics (a trigger = for each counter column a list of
  signed `CASE WHEN NEW|OLD.state = 'x' THEN 1 ELSE 0 END` terms), a table of rows reduced to their `state` column, and row
  events (insert, delete, update with or without `state` in the SET list). `Generated/Triggers.lean` holds the triggers as
  they are written in the code today; `Props/Counters.lean` proves that they track the true counts.

  Core only (the driver evaluates `countsOf` on the implementation's snapshots).
-/
namespace Hk.Counters

structure Term where
  sign : Int
  isNew : Bool
  st : String
  deriving Repr, DecidableEq

structure Trigger where
  name : String
  event : String            -- "insert" | "delete" | "update"
  ofCols : List String      -- UPDATE OF …; [] = every update
  table : String
  target : String
  sets : List (String × List Term)
  deriving Repr, DecidableEq

/-- a row event on `queue_items`; rows are reduced to their state column, `i` is the position of the row -/
inductive Ev where
  | insert (s : String)
  | delete (i : Nat)
  /-- `setsState`: `state` occurs in the statement's SET list (decides whether an `UPDATE OF state` trigger fires) -/
  | update (i : Nat) (setsState : Bool) (s : String)
  deriving Repr, DecidableEq

def ind (b : Bool) : Int := if b then 1 else 0

def evalTerms (ts : List Term) (old new : String) : Int :=
  ts.foldr (fun t acc => t.sign * ind ((if t.isNew then new else old) == t.st) + acc) 0

def termsFor (tr : Trigger) (col : String) : List Term :=
  (tr.sets.filter (·.1 == col)).flatMap (·.2)

/-- does the trigger fire for this kind of statement -/
def fires (tr : Trigger) (kind : String) (setsState : Bool) : Bool :=
  tr.table == "queue_items" && tr.event == kind &&
    (kind != "update" || tr.ofCols.isEmpty || (setsState && tr.ofCols.contains "state") ||
      -- an `OF` list naming other columns may fire on statements this model does not distinguish: treated as firing
      tr.ofCols.any (· != "state"))

/-- what one row event adds to counter column `col` (old / new state of the row; "" where there is none) -/
def delta (trs : List Trigger) (col : String) (kind : String) (setsState : Bool) (old new : String) : Int :=
  (trs.filter (fires · kind setsState)).foldr (fun tr acc => evalTerms (termsFor tr col) old new + acc) 0

/-- the table after an event (`none`: the event does not apply — no such row, or a state change by a statement that does not
    assign `state`) -/
def applyEv (rows : List String) : Ev → Option (List String)
  | .insert s => some (s :: rows)
  | .delete i => if i < rows.length then some (rows.eraseIdx i) else none
  | .update i setsState s =>
    if h : i < rows.length then
      if !setsState && rows[i] != s then none else some (rows.set i s)
    else none

/-- counter column `col` after an event, as the triggers compute it -/
def fireEv (trs : List Trigger) (col : String) (rows : List String) (c : Int) : Ev → Int
  | .insert s => c + delta trs col "insert" false "" s
  | .delete i => c + delta trs col "delete" false (rows.getD i "") ""
  | .update i setsState s => c + delta trs col "update" setsState (rows.getD i "") s

/-- run a sequence of events: (rows, counter) -/
def run (trs : List Trigger) (col : String) : List String → Int → List Ev → Option (List String × Int)
  | rows, c, [] => some (rows, c)
  | rows, c, e :: es =>
    match applyEv rows e with
    | none => none
    | some rows' => run trs col rows' (fireEv trs col rows c e) es

def countsOf (states : List String) (st : String) : Nat := states.count st

/-- the shape that makes a trigger set track the rows in state `st` with column `col`: every term of that column mentions
    exactly `st`; insert triggers add one for NEW, delete triggers take one for OLD, update triggers do both; update
    triggers fire whenever the statement assigns `state` -/
def sumSigns (ts : List Term) (isNew : Bool) : Int :=
  (ts.filter (·.isNew == isNew)).foldr (fun t acc => t.sign + acc) 0

def kindTerms (trs : List Trigger) (col kind : String) (setsState : Bool) : List Term :=
  (trs.filter (fires · kind setsState)).flatMap (termsFor · col)

def Tracks (trs : List Trigger) (col st : String) : Bool :=
  (kindTerms trs col "insert" false).all (·.st == st) && sumSigns (kindTerms trs col "insert" false) true == 1 &&
    sumSigns (kindTerms trs col "insert" false) false == 0 &&
  (kindTerms trs col "delete" false).all (·.st == st) && sumSigns (kindTerms trs col "delete" false) false == -1 &&
    sumSigns (kindTerms trs col "delete" false) true == 0 &&
  (kindTerms trs col "update" true).all (·.st == st) && sumSigns (kindTerms trs col "update" true) true == 1 &&
    sumSigns (kindTerms trs col "update" true) false == -1 &&
  -- a statement that leaves `state` alone: whatever fires must cancel out
  (kindTerms trs col "update" false).all (·.st == st) &&
    sumSigns (kindTerms trs col "update" false) true + sumSigns (kindTerms trs col "update" false) false == 0

end Hk.Counters
