import HkModel.Model.Route
import HkModel.Model.Base64
/-
  Model of what ingress persists of a request's headers (internal/ingress/http.go copyHeadersWithExtra).
  CORE ONLY.
-/
namespace Hk.Fidelity
open Hk.Egress (lower trimWS)
open Hk.Route (canonHeader)

def sensitive (name : String) : Bool :=
  let l := lower name
  l == "authorization" || l == "proxy-authorization" || l == "cookie"

def joinComma : List String → String
  | [] => ""
  | [v] => v
  | v :: vs => v ++ "," ++ joinComma vs

/-- insert / overwrite in an association list (Go map assignment) -/
def put (m : List (String × String)) (k v : String) : List (String × String) :=
  if m.any (·.1 == k) then m.map (fun p => if p.1 == k then (k, v) else p) else m ++ [(k, v)]

def utf8Len (s : String) : Nat := s.utf8ByteSize

def size (out : List (String × String)) : Nat := out.foldl (fun acc p => acc + utf8Len p.1 + utf8Len p.2) 0

def base (h : List (String × List String)) : List (String × String) :=
  (h.filter (fun p => !sensitive p.1)).foldl (fun acc p => put acc (canonHeader p.1) (joinComma p.2)) []

def withExtras (b : List (String × String)) (extra : List (String × String)) : List (String × String) :=
  extra.foldl (fun acc p => let n := canonHeader (trimWS p.1); if n == "" then acc else put acc n p.2) b

def finish (out : List (String × String)) (maxBytes : Nat) : Option (List (String × String)) :=
  if size out > maxBytes then none else some out

/-- `copyHeadersWithExtra`: `none` = over `max_headers` (413) -/
def copyHeaders (h : List (String × List String)) (maxBytes : Nat) (extra : List (String × String)) :
    Option (List (String × String)) :=
  if maxBytes == 0 then (if h.isEmpty && extra.isEmpty then some [] else none)
  else finish (withExtras (base h) extra) maxBytes

end Hk.Fidelity
