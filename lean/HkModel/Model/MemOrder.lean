/-
  The in-memory store's scan list (`MemoryStore.order`, internal/queue/memory.go).

  The queue model (`Model/Queue.lean`) is a list of messages and lets the implementation *choose* which ready messages a
  dequeue leases. The memory store does not choose freely: `Dequeue` walks `s.order`, a list of ids in insertion order that
  is only ever appended to (`Enqueue`, `EnqueueBatch`) and occasionally compacted (`compactOrderLocked`: once it has 1024
  entries and more than four per stored message, entries whose message is gone are dropped). A message whose id is missing
  from that list can never be handed out — exactly the "stuck or hidden" message C05 forbids — so this file models the list
  itself: how each store operation changes it, the compaction, and the scan; `Props/MemOrder.lean` proves that every stored
  message stays on the list through every history, that compaction does not change what a scan sees, and that the scan's
  picks are a legal choice of the queue model (count = min(batch, ready)).

  Core only: the driver replays `orderStep` against the order list read from the real store after every step.
-/
import HkModel.Model.Queue

namespace Hk.MemOrder

/-- thresholds of `compactOrderLocked` (compared with the code's by `Props/MemOrder.lean` over `Generated/MemOrderFacts`) -/
def compactMin : Nat := 1024
def compactFactor : Nat := 4

/-- `compactOrderLocked` with `live` = the ids of the stored messages -/
def compactWith (minLen factor : Nat) (order live : List String) : List String :=
  if order.length < minLen then order
  else if live.isEmpty then []
  else if order.length ≤ factor * live.length then order
  else order.filter (live.contains ·)

def compact (order live : List String) : List String := compactWith compactMin compactFactor order live

/-- the loop of `Dequeue` over the order list: `rdy id` = the id's message exists, is queued, matches and is due; an id taken
    earlier in the same scan is leased by then and skipped -/
def scan (rdy : String → Bool) (n : Nat) : List String → List String → List String
  | [], taken => taken
  | id :: rest, taken =>
    if taken.length ≥ n then taken
    else if rdy id && !taken.contains id then scan rdy n rest (taken ++ [id])
    else scan rdy n rest taken

/-- readiness of an id against a message list -/
def readyId (now : Int) (route target : String) (ms : List Msg) (id : String) : Bool :=
  ms.any (fun m => m.id == id && ready now route target m)

/-- what one store operation does to the order list: `added` = ids appended by an accepted enqueue / batch, `compacts` = the
    operation ends with `compactOrderLocked` (every `Dequeue` pass), `live'` = ids stored afterwards -/
def orderStep (order : List String) (added : List String) (compacts : Bool) (live' : List String) : List String :=
  let o := order ++ added
  if compacts then compact o live' else o

/-- the ids an operation appends, read off the operation and its answer -/
def addedBy (op : Op) (resp : Resp) : List String :=
  match op, resp with
  | .enqueue e, .ok => [e.id]
  | .enqueueBatch es, .enqueued _ => es.map (·.id)
  | _, _ => []

def compactsAfter : Op → Bool
  | .dequeue .. => true
  | _ => false

/-- every stored message is on the scan list -/
def Cover (order live : List String) : Prop := ∀ id ∈ live, id ∈ order

def coverB (order live : List String) : Bool := live.all (order.contains ·)

end Hk.MemOrder
