/-!
  C01 — crash durability.  Core Lean only, computable.

  The durable store is reduced to what a crash can tell apart: a list of committed messages and one open
  transaction buffer.  Handling a request is a fixed program of store events followed by the response; a crash is
  a truncation of the event sequence of the whole history, and recovery keeps exactly the committed transactions
  (`recover`).  `crashCheck` is the property, as a decidable predicate on (what was sent and acknowledged, what the
  reopened store contains); the driver evaluates the same predicate on the real store after a real SIGKILL.

  Program shapes mirror the code (`internal/ingress/http.go`, `internal/admin/http.go`, `internal/queue/sqlite.go`):
    ingress  — one committed insert per delivery target, in target order (each `Store.Enqueue` returns after its
               transaction committed), then the 202;
    publish  — one transaction inserting every item (`EnqueueBatch`), then the 200;
    lease op — one transaction changing the message's state (ack → delivered, nack → queued, dead-letter → dead),
               then the 204.
-/
namespace Hk.Crash

inductive CSt | queued | leased | delivered | dead | canceled
deriving Repr, DecidableEq, Inhabited

structure CMsg where
  key : String      -- what identifies the message to its sender: the request body (ingress) or the item id (publish)
  target : String
  st : CSt
deriving Repr, DecidableEq, Inhabited

inductive LeaseKind | ack | nack | dead
deriving Repr, DecidableEq, Inhabited

def LeaseKind.result : LeaseKind → CSt
  | .ack => .delivered
  | .nack => .queued
  | .dead => .dead

inductive CReq
  | ingress (body : String) (targets : List String)
  | publish (ids : List String) (target : String)
  | leaseOp (k : LeaseKind) (key target : String)
deriving Repr, DecidableEq, Inhabited

inductive Ev
  | begin
  | put (m : CMsg)
  | setSt (key target : String) (st : CSt)
  | commit
  | respond (i : Nat)
deriving Repr, DecidableEq, Inhabited

/-- the events of handling request number `i` -/
def prog (i : Nat) : CReq → List Ev
  | .ingress body targets => (targets.flatMap fun t => [.begin, .put ⟨body, t, .queued⟩, .commit]) ++ [.respond i]
  | .publish ids target => [.begin] ++ ids.map (fun id => .put ⟨id, target, .queued⟩) ++ [.commit, .respond i]
  | .leaseOp k key target => [.begin, .setSt key target k.result, .commit, .respond i]

def progs (start : Nat) : List CReq → List Ev
  | [] => []
  | r :: rest => prog start r ++ progs (start + 1) rest

structure Store where
  committed : List CMsg := []
  pending : Option (List Ev) := none
deriving Repr, Inhabited

def applyWrite (ms : List CMsg) : Ev → List CMsg
  | .put m => ms ++ [m]
  | .setSt key target st => ms.map fun m => if m.key == key && m.target == target then { m with st := st } else m
  | _ => ms

def stepEv (s : Store) : Ev → Store
  | .begin => { s with pending := some [] }
  | .commit => match s.pending with
    | some buf => { committed := buf.foldl applyWrite s.committed, pending := none }
    | none => s
  | .respond _ => s
  | e => match s.pending with
    | some buf => { s with pending := some (buf ++ [e]) }
    | none => s      -- a write outside a transaction never happens in `prog`

/-- what a reopened store contains after a crash that let exactly these events happen -/
def recover (evs : List Ev) : List CMsg := (evs.foldl stepEv {}).committed

/-- which requests were acknowledged before the crash -/
def acked (evs : List Ev) (i : Nat) : Bool := evs.contains (.respond i)

structure Sent where
  req : CReq
  acked : Bool
deriving Repr, DecidableEq, Inhabited

def sentAt (script : List CReq) (evs : List Ev) : List Sent :=
  script.zipIdx.map fun p => ⟨p.1, acked evs p.2⟩

def count (after : List CMsg) (key target : String) : Nat := (after.filter fun m => m.key == key && m.target == target).length

def stOf (after : List CMsg) (key target : String) : Option CSt := (after.find? fun m => m.key == key && m.target == target).map (·.st)

/-- a stored message that some request accounts for -/
def explained (sent : List Sent) (m : CMsg) : Bool :=
  sent.any fun s => match s.req with
    | .ingress body targets => m.key == body && targets.contains m.target
    | .publish ids target => ids.contains m.key && m.target == target
    | .leaseOp .. => false

/-- the states a message can be in given the lease operations sent for it: untouched, or the result of one of them -/
def stateAllowed (sent : List Sent) (m : CMsg) : Bool :=
  m.st == .queued || sent.any fun s => match s.req with
    | .leaseOp k key target => m.key == key && m.target == target && m.st == k.result
    | _ => false

/-- **The property** on one crash: `none` = holds, `some clause` = the clause that fails. -/
def crashCheck (sent : List Sent) (after : List CMsg) : Option String :=
  if sent.any (fun s => match s.req with
      | .ingress body targets => s.acked && targets.any (fun t => count after body t != 1)
      | _ => false) then some "acknowledged-ingress-message-lost-or-duplicated"
  else if sent.any (fun s => match s.req with
      | .ingress body targets => targets.any (fun t => count after body t > 1)
      | _ => false) then some "message-stored-twice"
  else if sent.any (fun s => match s.req with
      | .publish ids target => s.acked && ids.any (fun id => count after id target != 1)
      | _ => false) then some "acknowledged-publish-item-lost-or-duplicated"
  else if sent.any (fun s => match s.req with
      | .publish ids target => !(ids.all (fun id => count after id target == 0) || ids.all (fun id => count after id target == 1))
      | _ => false) then some "publish-batch-partially-stored"
  else if after.any (fun m => !explained sent m) then some "message-nobody-sent"
  else if after.any (fun m => !stateAllowed sent m) then some "message-in-unexplained-state"
  else if sent.any (fun s => match s.req with
      | .leaseOp k key target => s.acked && stOf after key target != some k.result
      | _ => false) then some "acknowledged-lease-operation-undone"
  else none

/-- well-formed scripts: keys are unique per request, targets distinct within a request, a lease operation addresses a
    message of an earlier ingress/publish request, and each message gets at most one lease operation -/
def keysOf : CReq → List (String × String)
  | .ingress body targets => targets.map (body, ·)
  | .publish ids target => ids.map (·, target)
  | .leaseOp .. => []

def leaseKeys (script : List CReq) : List (String × String) := script.filterMap fun
  | .leaseOp _ key target => some (key, target)
  | _ => none

def wellFormedFrom (seen : List (String × String)) : List CReq → Bool
  | [] => true
  | r :: rest =>
    (match r with
     | .leaseOp _ key target => seen.contains (key, target)
     | _ => (keysOf r).all (fun k => !seen.contains k) && (keysOf r).eraseDups.length == (keysOf r).length) &&
    wellFormedFrom (seen ++ keysOf r) rest

def wellFormed (script : List CReq) : Bool :=
  wellFormedFrom [] script && (leaseKeys script).eraseDups.length == (leaseKeys script).length

end Hk.Crash
