/-
  Executable model of hookaido's queue contract (internal/queue: Store, LeaseBatchStore,
  BatchEnqueuer).  CORE LEAN ONLY (the driver links this into a lean_exe).

  The state is a plain `List Msg`; every operation is a composition of
    * a pointwise, id-preserving update  (`List.map`),
    * a removal                          (`List.filter`),
    * an append of fresh messages.
  The implementation's free choices (which ready messages a dequeue leases and under which
  lease ids, which of several equally old messages is evicted / depth-pruned) are *inputs*
  (`Choice`): the model checks that the choice is legal and follows it.
-/
namespace Hk

inductive St | queued | leased | delivered | dead | canceled
  deriving DecidableEq, Repr, Inhabited

def St.toString : St → String
  | .queued => "queued" | .leased => "leased" | .delivered => "delivered"
  | .dead => "dead" | .canceled => "canceled"

def St.ofString? : String → Option St
  | "queued" => some .queued | "leased" => some .leased | "delivered" => some .delivered
  | "dead" => some .dead | "canceled" => some .canceled | _ => none

/-- One stored message.  `payload`, `headers`, `trace` are canonical encodings produced by the
harness (hex / sorted key=value); the queue never looks inside them. Times are integer ns. -/
structure Msg where
  id : String
  route : String
  target : String
  st : St
  recv : Int
  next : Int
  attempt : Nat
  payload : String
  headers : String
  trace : String
  reason : String
  lease : String      -- "" ⇔ no lease
  luntil : Int        -- 0 when not leased
  deriving DecidableEq, Repr, Inhabited

structure Cfg where
  maxDepth : Nat := 0          -- 0 = unlimited
  dropOldest : Bool := false
  retention : Int := 0         -- queued max age (ns); ≤ 0 off
  pruneInterval : Int := 0
  deliveredRet : Int := 0
  dlqRet : Int := 0
  dlqDepth : Nat := 0
  sweep : Int := 0             -- lease sweep granularity: 0 memory, 10 ms SQLite
  memory : Bool := true        -- memory backend (documented backend-specific refusals)
  pressureItems : Nat := 0     -- effective retained-item limit of the memory backend; 0 = off
  deriving Repr, DecidableEq

structure Q where
  msgs : List Msg := []
  lastPrune : Option Int := none
  lastSweep : Int := 0
  issued : List String := []   -- every lease id ever granted
  deriving Repr

inductive Err | full | exists_ | pressure | leaseNotFound | leaseExpired | badOrder
  deriving DecidableEq, Repr

def Err.toString : Err → String
  | .full => "full" | .exists_ => "exists" | .pressure => "pressure"
  | .leaseNotFound => "lease_not_found" | .leaseExpired => "lease_expired" | .badOrder => "bad_order"

/-- Envelope as handed to Enqueue (times 0 = Go zero time, state "" = default). -/
structure Env where
  id : String
  route : String
  target : String
  recv : Int := 0
  next : Int := 0
  attempt : Nat := 0
  payload : String := ""
  headers : String := ""
  trace : String := ""
  deriving DecidableEq, Repr, Inhabited

structure Filter where
  route : String := ""
  target : String := ""
  state : String := ""       -- raw state string as given
  limit : Int := 0
  before : Int := 0          -- 0 = none
  preview : Bool := false
  deriving Repr, DecidableEq

inductive LeaseKind | ack | nack (delay : Int) | extend (by_ : Int) | markDead (reason : String)
  deriving Repr, DecidableEq

inductive IdKind | cancel | requeue | resume | requeueDead | deleteDead
  deriving Repr, DecidableEq

inductive Op
  | enqueue (e : Env)
  | enqueueBatch (es : List Env)
  | dequeue (route target : String) (batch : Int) (ttl : Int)
  | lease (k : LeaseKind) (l : String)
  | leaseBatch (k : LeaseKind) (ls : List String)
  | byIds (k : IdKind) (ids : List String)
  | byFilter (k : IdKind) (f : Filter)
  | list (route target state order : String) (limit : Int) (before : Int)
  | listDead (route : String) (limit : Int) (before : Int)
  | lookup (ids : List String)
  | stats
  | restart
  deriving Repr

structure Conflict where
  lease : String
  expired : Bool
  deriving DecidableEq, Repr

inductive Resp
  | ok
  | err (e : Err)
  | enqueued (n : Nat)
  | items (picks : List (String × String))          -- dequeue: (msg id, lease id)
  | batch (succeeded : Nat) (conflicts : List Conflict)
  | count (changed matched : Nat) (preview : Bool)
  | ids (l : List String)                            -- list / listDead: ids in order
  | looked (l : List (String × String × St))
  | stats (total q l dl d c : Nat)
  deriving Repr, DecidableEq

structure Choice where
  picks : List (String × String) := []   -- dequeue: (msg id, lease id) as the implementation chose
  gone : List String := []               -- ids observed to disappear in this step (tie-breaks only)
  refusal : Option Err := none           -- which refusal was reported when several apply
  deriving Repr

/-! ### small helpers -/

def goSpace (c : Char) : Bool :=
  c == ' ' || c == '\t' || c == '\n' || c == '\r' || c.toNat == 0x0b || c.toNat == 0x0c ||
  c.toNat == 0x85 || c.toNat == 0xa0

def trimWS (s : String) : String :=
  String.ofList ((s.toList.dropWhile goSpace).reverse.dropWhile goSpace).reverse

/-- trim, drop blanks, keep first occurrences (`normalizeUniqueIDs`). -/
def normIds (ids : List String) : List String :=
  ((ids.map trimWS).filter (· ≠ "")).eraseDups

def isActive (m : Msg) : Bool := m.st == .queued || m.st == .leased
def isRetained (m : Msg) : Bool := m.st == .delivered || m.st == .dead || m.st == .canceled

def countP (p : Msg → Bool) (ms : List Msg) : Nat := (ms.filter p).length

def hasId (ms : List Msg) (id : String) : Bool := ms.any (·.id == id)

/-- lease released (expiry, requeue of an expired lease): back to queued, visible at `now`. -/
def release (now : Int) (m : Msg) : Msg :=
  { m with st := .queued, lease := "", luntil := 0, next := now, reason := "" }

def expired (now : Int) (m : Msg) : Bool := m.st == .leased && m.luntil ≤ now

/-! ### retention prune -/

def pruneConfigured (c : Cfg) : Bool :=
  decide (c.pruneInterval > 0) &&
  (decide (c.retention > 0) || decide (c.deliveredRet > 0) || decide (c.dlqRet > 0) || decide (c.dlqDepth > 0))

def gateOpen (c : Cfg) (q : Q) (now : Int) : Bool :=
  pruneConfigured c &&
  match q.lastPrune with
  | none => true
  | some lp => decide (now - lp ≥ c.pruneInterval)

def ageEligible (c : Cfg) (now : Int) (m : Msg) : Bool :=
  (m.st == .queued && decide (c.retention > 0) && decide (m.recv ≤ now - c.retention)) ||
  (m.st == .dead && decide (c.dlqRet > 0) && decide (m.recv ≤ now - c.dlqRet)) ||
  (m.st == .delivered && decide (c.deliveredRet > 0) && decide (m.next ≤ now - c.deliveredRet))

/-- `victims` is a legal set of `n` oldest (by `recv`) messages among those satisfying `p`. -/
def legalOldest (p : Msg → Bool) (ms : List Msg) (victims : List String) (n : Nat) : Bool :=
  let cand := ms.filter p
  let vs := cand.filter (fun m => victims.contains m.id)
  let rest := cand.filter (fun m => !victims.contains m.id)
  vs.length == n && vs.all (fun v => rest.all (fun r => decide (v.recv ≤ r.recv)))

def removeIds (p : Msg → Bool) (victims : List String) (ms : List Msg) : List Msg :=
  ms.filter (fun m => !(p m && victims.contains m.id))

def isDead (m : Msg) : Bool := m.st == .dead
def isQueued (m : Msg) : Bool := m.st == .queued

/-- The piggy-backed retention prune (`maybePrune`). `none` = illegal depth-prune choice. -/
def prune (c : Cfg) (now : Int) (q : Q) (gone : List String) : Option Q :=
  if gateOpen c q now then
    let ms1 := q.msgs.filter (fun m => !ageEligible c now m)
    let deadN := countP isDead ms1
    if c.dlqDepth > 0 && deadN > c.dlqDepth then
      if legalOldest isDead ms1 gone (deadN - c.dlqDepth) then
        some { q with msgs := removeIds isDead gone ms1, lastPrune := some now }
      else none
    else some { q with msgs := ms1, lastPrune := some now }
  else some q

/-! ### lease expiry sweep -/

def sweepMsgs (now : Int) (ms : List Msg) : List Msg :=
  ms.map (fun m => if expired now m then release now m else m)

def sweep (c : Cfg) (now : Int) (q : Q) : Q :=
  if c.sweep ≤ 0 || decide (now - q.lastSweep ≥ c.sweep) then
    { q with msgs := sweepMsgs now q.msgs, lastSweep := now }
  else q

/-! ### enqueue -/

def mkMsg (now : Int) (e : Env) : Msg :=
  let recv := if e.recv == 0 then now else e.recv
  { id := e.id, route := e.route, target := e.target, st := .queued, recv := recv,
    next := if e.next == 0 then recv else e.next, attempt := e.attempt,
    payload := e.payload, headers := e.headers, trace := e.trace,
    reason := "", lease := "", luntil := 0 }

/-- number of queued messages that must be evicted to admit `k` new ones (drop_oldest). -/
def needEvict (c : Cfg) (ms : List Msg) (k : Nat) (single : Bool) : Nat :=
  if c.maxDepth == 0 then 0 else
  let active := countP isActive ms
  if c.memory then
    let a := active + k - c.maxDepth
    let b := if c.deliveredRet > 0 then countP (fun m => isActive m || m.st == .delivered) ms + k - c.maxDepth else 0
    max a b
  else active + k - c.maxDepth

def pressureActive (c : Cfg) (ms : List Msg) : Bool :=
  c.memory && c.pressureItems > 0 && countP isRetained ms ≥ c.pressureItems

def dupIds : List String → Bool
  | [] => false
  | x :: xs => xs.contains x || dupIds xs

/-- Refusal reasons that apply to an enqueue of `es` on the (already pruned) state `ms`,
    given the eviction victims the implementation chose. -/
def refusals (c : Cfg) (ms : List Msg) (es : List Env) (single : Bool) (victims : List String) : List Err :=
  let need := needEvict c ms es.length single
  let queuedN := countP isQueued ms
  let full := need > 0 && (!c.dropOldest || queuedN < need)
  let post := if full then ms else removeIds isQueued victims ms
  (if full then [Err.full] else []) ++
  (if pressureActive c ms then [Err.pressure] else []) ++
  (if dupIds (es.map (·.id)) || es.any (fun e => hasId post e.id) then [Err.exists_] else [])

def enqueueCore (c : Cfg) (now : Int) (q : Q) (es : List Env) (single : Bool) (ch : Choice) :
    Option (Q × Resp) :=
  let ms := q.msgs
  let need := needEvict c ms es.length single
  let victims := if need > 0 && c.dropOldest then ch.gone else []
  let rs := refusals c ms es single victims
  if rs.isEmpty then
    if need > 0 then
      if legalOldest isQueued ms victims need then
        some ({ q with msgs := removeIds isQueued victims ms ++ es.map (mkMsg now) },
              if single then .ok else .enqueued es.length)
      else none
    else some ({ q with msgs := ms ++ es.map (mkMsg now) }, if single then .ok else .enqueued es.length)
  else
    -- refused: nothing stored, nothing evicted. Which applicable reason is reported is the
    -- implementation's choice when several hold at once.
    match ch.refusal with
    | some e => if rs.contains e then some (q, .err e) else none
    | none => match rs with
      | e :: _ => some (q, .err e)
      | [] => none

/-! ### dequeue -/

def ready (now : Int) (route target : String) (m : Msg) : Bool :=
  m.st == .queued && (route == "" || m.route == route) && (target == "" || m.target == target) &&
  decide (m.next ≤ now)

def effBatch (batch : Int) : Nat := if batch ≤ 0 then 1 else if batch > 100 then 100 else batch.toNat
def effTTL (ttl : Int) : Int := if ttl ≤ 0 then 30000000000 else ttl

def nodupStr : List String → Bool
  | [] => true
  | x :: xs => !xs.contains x && nodupStr xs

def legalPicks (now : Int) (route target : String) (batch : Int) (q : Q) (picks : List (String × String)) : Bool :=
  let rdy := q.msgs.filter (ready now route target)
  picks.length == min (effBatch batch) rdy.length &&
  nodupStr (picks.map (·.1)) && nodupStr (picks.map (·.2)) &&
  picks.all (fun p => rdy.any (·.id == p.1) && p.2 ≠ "" && !q.issued.contains p.2 &&
                      !q.msgs.any (fun m => m.lease == p.2))

def leaseFor (picks : List (String × String)) (id : String) : Option String :=
  (picks.find? (·.1 == id)).map (·.2)

def grant (now ttl : Int) (picks : List (String × String)) (m : Msg) : Msg :=
  match leaseFor picks m.id with
  | some l => if m.st == .queued then
      { m with st := .leased, attempt := m.attempt + 1, lease := l, luntil := now + ttl, next := now + ttl }
    else m
  | none => m

/-! ### lease mutations -/

def holds (l : String) (m : Msg) : Bool := m.st == .leased && m.lease == l

def applyLease (c : Cfg) (now : Int) (k : LeaseKind) (m : Msg) : Option Msg :=
  match k with
  | .ack => if c.deliveredRet > 0 then
              some { m with st := .delivered, lease := "", luntil := 0, next := now, reason := "" }
            else none
  | .nack d => some { m with st := .queued, lease := "", luntil := 0, next := now + (if d < 0 then 0 else d), reason := "" }
  | .extend d => some { m with luntil := m.luntil + d, next := m.luntil + d }
  | .markDead r =>
    let r' := if !c.memory && trimWS r == "" then "" else r
    some { m with st := .dead, lease := "", luntil := 0, next := now, reason := r' }

/-- one lease id against the state: `(state', outcome)`; outcome none = success. -/
def leaseOne (c : Cfg) (now : Int) (k : LeaseKind) (l : String) (ms : List Msg) : List Msg × Option Err :=
  if l == "" then (ms, some .leaseNotFound) else
  match ms.find? (holds l) with
  | none => (ms, some .leaseNotFound)
  | some m =>
    if m.luntil ≤ now then
      (ms.map (fun x => if holds l x then release now x else x), some .leaseExpired)
    else
      (ms.filterMap (fun x => if holds l x then applyLease c now k x else some x), none)

def leaseBatchFold (c : Cfg) (now : Int) (k : LeaseKind) :
    List String → List Msg → Nat → List Conflict → List Msg × Nat × List Conflict
  | [], ms, n, cs => (ms, n, cs)
  | raw :: rest, ms, n, cs =>
    let l := trimWS raw
    if l == "" then leaseBatchFold c now k rest ms n (cs ++ [⟨raw, false⟩]) else
    match leaseOne c now k l ms with
    | (ms', none) => leaseBatchFold c now k rest ms' (n + 1) cs
    | (ms', some .leaseExpired) => leaseBatchFold c now k rest ms' n (cs ++ [⟨l, true⟩])
    | (ms', some _) => leaseBatchFold c now k rest ms' n (cs ++ [⟨l, false⟩])

/-! ### operator mutations -/

def allowedStates : IdKind → List St
  | .cancel => [.queued, .leased, .dead]
  | .requeue => [.dead, .canceled]
  | .resume => [.canceled]
  | .requeueDead => [.dead]
  | .deleteDead => [.dead]

def targetState : IdKind → St
  | .cancel => .canceled
  | _ => .queued

def operate (now : Int) (k : IdKind) (m : Msg) : Option Msg :=
  match k with
  | .deleteDead => none
  | _ => some { m with st := targetState k, lease := "", luntil := 0, next := now, reason := "" }

def selectedBy (k : IdKind) (ids : List String) (m : Msg) : Bool :=
  ids.contains m.id && (allowedStates k).contains m.st

def applyIds (now : Int) (k : IdKind) (ids : List String) (ms : List Msg) : List Msg :=
  ms.filterMap (fun m => if selectedBy k ids m then operate now k m else some m)

def effLimit (limit : Int) : Nat := if limit ≤ 0 then 100 else if limit > 1000 then 1000 else limit.toNat

/-- newest first: received_at DESC, id DESC -/
def newerFirst (a b : Msg) : Bool := decide (a.recv > b.recv) || (a.recv == b.recv && decide (a.id ≥ b.id))
def olderFirst (a b : Msg) : Bool := decide (a.recv < b.recv) || (a.recv == b.recv && decide (a.id ≤ b.id))

def filterStates (k : IdKind) (state : String) : List St :=
  if state == "" then allowedStates k else
  match St.ofString? state with
  | some s => if (allowedStates k).contains s then [s] else []
  | none => []

def matchesFilter (k : IdKind) (f : Filter) (m : Msg) : Bool :=
  (filterStates k f.state).contains m.st &&
  (f.route == "" || m.route == f.route) && (f.target == "" || m.target == f.target) &&
  (f.before == 0 || decide (m.recv < f.before))

def selectFilter (k : IdKind) (f : Filter) (ms : List Msg) : List String :=
  (((ms.filter (matchesFilter k f)).mergeSort newerFirst).take (effLimit f.limit)).map (·.id)

/-! ### listings -/

def matchesList (route target state : String) (before : Int) (m : Msg) : Bool :=
  (route == "" || m.route == route) && (target == "" || m.target == target) &&
  (state == "" || m.st.toString == state) && (before == 0 || decide (m.recv < before))

def lowerAscii (s : String) : String := String.ofList (s.toList.map Char.toLower)

/-! ### the step function -/

def withPrune (c : Cfg) (now : Int) (q : Q) (ch : Choice) (k : Q → Option (Q × Resp)) : Option (Q × Resp) :=
  match prune c now q ch.gone with
  | none => none
  | some q1 => k q1

def step (c : Cfg) (now : Int) (q : Q) (op : Op) (ch : Choice) : Option (Q × Resp) :=
  match op with
  | .enqueue e => withPrune c now q ch fun q1 => enqueueCore c now q1 [e] true ch
  | .enqueueBatch es =>
      if es.isEmpty then some (q, .enqueued 0) else
      withPrune c now q ch fun q1 => enqueueCore c now q1 es false ch
  | .dequeue route target batch ttl =>
      -- retention prune first, then the (on SQLite: gated) lease-expiry sweep — on every backend
      let afterHousekeeping : Option Q := (prune c now q ch.gone).map (sweep c now)
      match afterHousekeeping with
      | none => none
      | some q1 =>
        if legalPicks now route target batch q1 ch.picks then
          some ({ q1 with msgs := q1.msgs.map (grant now (effTTL ttl) ch.picks),
                          issued := q1.issued ++ ch.picks.map (·.2) },
                .items ch.picks)
        else none
  | .lease k l0 =>
      match k, l0 with
      | .extend d, _ =>
        if d ≤ 0 then some (q, .ok) else
        let l := if c.memory then l0 else trimWS l0
        let (ms, e) := leaseOne c now k l q.msgs
        some ({ q with msgs := ms }, match e with | none => .ok | some e => .err e)
      | _, _ =>
        let l := if c.memory then l0 else trimWS l0
        let (ms, e) := leaseOne c now k l q.msgs
        some ({ q with msgs := ms }, match e with | none => .ok | some e => .err e)
  | .leaseBatch k ls =>
      let (ms, n, cs) := leaseBatchFold c now k ls q.msgs 0 []
      some ({ q with msgs := ms }, .batch n cs)
  | .byIds k ids =>
      let ids' := normIds ids
      let n := countP (selectedBy k ids') q.msgs
      some ({ q with msgs := applyIds now k ids' q.msgs }, .count n n false)
  | .byFilter k f =>
      let sel := selectFilter k f q.msgs
      if f.preview then some (q, .count 0 sel.length true)
      else some ({ q with msgs := applyIds now k sel q.msgs }, .count sel.length sel.length false)
  | .list route target state order limit before =>
      withPrune c now q ch fun q1 =>
        let o := lowerAscii (trimWS order)
        if o ≠ "" && o ≠ "desc" && o ≠ "asc" then some (q1, .err .badOrder) else
        let cand := q1.msgs.filter (matchesList route target state before)
        let sorted := if o == "asc" then cand.mergeSort olderFirst else cand.mergeSort newerFirst
        some (q1, .ids ((sorted.take (effLimit limit)).map (·.id)))
  | .listDead route limit before =>
      withPrune c now q ch fun q1 =>
        let cand := q1.msgs.filter (matchesList route "" "dead" before)
        some (q1, .ids (((cand.mergeSort newerFirst).take (effLimit limit)).map (·.id)))
  | .lookup ids =>
      let ids' := normIds ids
      some (q, .looked (ids'.filterMap (fun i => (q.msgs.find? (·.id == i)).map (fun m => (m.id, m.route, m.st)))))
  | .stats =>
      withPrune c now q ch fun q1 =>
        let n (s : St) := countP (·.st == s) q1.msgs
        some (q1, .stats q1.msgs.length (n .queued) (n .leased) (n .delivered) (n .dead) (n .canceled))
  | .restart => some ({ q with lastPrune := none, lastSweep := 0 }, .ok)

end Hk
