/-
  Model of the push dispatcher's decision logic (internal/dispatcher/push.go):
  outcome classification, retry back-off, the per-message delivery cycle, lease budget. CORE ONLY.
-/
namespace Hk.Dispatch

/-- what a delivery attempt produced: an HTTP status, a transport error / timeout, or an egress-policy denial -/
inductive Res | status (n : Int) | err | policyDenied
  deriving DecidableEq, Repr

inductive Act | ack | retry | dead (reason : String)
  deriving DecidableEq, Repr

def isSuccess : Res → Bool
  | .status n => decide (200 ≤ n) && decide (n < 300)
  | _ => false

def shouldRetry : Res → Bool
  | .status n => n == 408 || n == 429 || decide (n ≥ 500)
  | .err => true
  | .policyDenied => false

/-- `classifyDelivery`: `attempt` is the message's attempt counter (1 for the first delivery) -/
def classify (r : Res) (attempt max : Int) : Act :=
  if isSuccess r then .ack
  else if shouldRetry r && decide (attempt ≤ max) then .retry
  else if r == .policyDenied then .dead "policy_denied"
  else if shouldRetry r then .dead "max_retries"
  else .dead "no_retry"

/-- un-jittered back-off `min(base·2^(attempt-1), cap)` (attempt ≥ 1; cap ≤ 0 = no cap), integers (ns) -/
def backoff (base cap : Int) (attempt : Nat) : Int :=
  let d := base * 2 ^ (attempt - 1)
  if cap > 0 && d > cap then cap else d

/-- `retryDelay` in exact arithmetic: jitter `j = jn/jd ∈ [0,1]`, random draw `u = un/ud ∈ [0,1)`.
    result = ⌊X·(1 + (2u−1)·j)⌋, clamped at 0. -/
def retryDelay (base cap : Int) (attempt : Nat) (jn jd un ud : Int) : Int :=
  if base ≤ 0 then 0 else
  let x := backoff base cap attempt
  if jn ≤ 0 then x else
  let (jn, jd) := if jn > jd then ((1 : Int), (1 : Int)) else (jn, jd)
  let v := (x * (ud * jd + (2 * un - ud) * jn)) / (ud * jd)
  if v < 0 then 0 else v

/-- The delivery cycle of one message from attempt counter `attempt` (value before the next dequeue),
    against an arbitrary sequence of target behaviours `beh`. Returns (number of sends, final action). -/
def cycle (beh : Nat → Res) (max : Int) : Nat → Int → Nat → Nat × Option Act
  | 0, _, _ => (0, none)
  | fuel + 1, attempt, k =>
    match classify (beh k) (attempt + 1) max with
    | .retry => let (s, f) := cycle beh max fuel (attempt + 1) (k + 1); (s + 1, f)
    | act => (1, some act)

/-- `routeDequeueBatch` -/
def routeDequeueBatch (concurrency targets : Int) : Int :=
  if concurrency ≤ 1 then 1
  else if targets > 1 then 2
  else if concurrency ≥ 4 then 4 else concurrency

/-- per-target timeout with the default applied (≤ 0 ↦ 10 s) -/
def tmo (t : Int) : Int := if t ≤ 0 then 10000000000 else t

def maxTimeout : List Int → Int
  | [] => 0
  | t :: ts => if tmo t > maxTimeout ts then tmo t else maxTimeout ts

/-- `routeLeaseTTL` -/
def routeLeaseTTL (timeouts : List Int) (slack : Int) (batch : Int) : Int :=
  let b := if batch ≤ 0 then 1 else batch
  let ttl := maxTimeout timeouts * b + slack
  if ttl < 30000000000 then 30000000000 else ttl

end Hk.Dispatch
