/-!
  C18 — replacing the configuration file: temp file, chmod, write, fsync, close, rename, directory fsync.
  The directory is reduced to what the property talks about: the content at the configuration path and the content
  of the temporary file (if any).  A crash is a truncation of the step list.  `mutate` is the management rewrite:
  write the new content, validate, reload, and on failure write the previous content back.
-/
namespace Hk.FileAtomic

structure Dir (α : Type) where
  target : Option α
  temp : Option α
deriving Repr, DecidableEq

inductive Step where
  | create | chmod | write | sync | close | rename | syncDir
deriving Repr, DecidableEq

def apply {α} (empty new : α) : Dir α → Step → Dir α
  | d, .create => { d with temp := some empty }
  | d, .write => { d with temp := some new }
  | d, .rename => { target := d.temp, temp := none }
  | d, _ => d

def steps : List Step := [.create, .chmod, .write, .sync, .close, .rename, .syncDir]

/-- the directory after each step of one replacement (the states at the hook points, in order) -/
def trace {α} (empty new : α) : Dir α → List Step → List (Dir α)
  | _, [] => []
  | d, s :: rest => let d' := apply empty new d s; d' :: trace empty new d' rest

def finish {α} (empty new : α) (d : Dir α) (ss : List Step) : Dir α := ss.foldl (apply empty new) d

inductive Outcome where
  | applied | failed   -- post-write validation or reload failed ⇒ previous content is written back
deriving Repr, DecidableEq

/-- all directory states of a management rewrite, in order -/
def mutateTrace {α} (empty old new : α) (o : Outcome) : List (Dir α) :=
  let d0 : Dir α := { target := some old, temp := none }
  let t1 := trace empty new d0 steps
  match o with
  | .applied => t1
  | .failed => t1 ++ trace empty old (finish empty new d0 steps) steps

end Hk.FileAtomic
