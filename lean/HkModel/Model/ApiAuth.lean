import HkModel.Model.Egress
/-
  Model of bearer-token authorization for the Pull (HTTP), Worker (gRPC) and Admin APIs
  (internal/pullapi/auth.go, internal/workerapi/auth.go, internal/admin BearerTokenAuthorizer,
  internal/app/run.go authorizePull / authorizeWorker / authorizeAdmin). CORE ONLY.
-/
namespace Hk.ApiAuth
open Hk.Egress (trimWS lower)

def startsWith (s p : String) : Bool := p.length ≤ s.length && (s.toList.take p.length) == p.toList

/-- tokens that load empty are dropped when the authorizer is built -/
def usable (tokens : List String) : List String := tokens.filter (· ≠ "")

/-- `BearerTokenAuthorizer` (HTTP): `hdr` is `Header.Get("Authorization")` ("" when absent) -/
def bearerHTTP (tokens : List String) (hdr : String) : Bool :=
  let allowed := usable tokens
  if allowed.isEmpty then true
  else if hdr == "" then false
  else if !startsWith hdr "Bearer " then false
  else
    let got := trimWS (String.ofList (hdr.toList.drop 7))
    got != "" && allowed.contains got

def parseBearerGRPC (raw : String) : Option String :=
  let h := trimWS raw
  if h.length < 7 then none
  else if lower (String.ofList (h.toList.take 7)) != "bearer " then none
  else
    let t := trimWS (String.ofList (h.toList.drop 7))
    if t == "" then none else some t

/-- `BearerTokenAuthorizer` (gRPC): any `authorization` metadata value may carry the token -/
def bearerGRPC (tokens : List String) (values : List String) : Bool :=
  let allowed := usable tokens
  if allowed.isEmpty then true
  else values.any (fun raw => match parseBearerGRPC raw with | some t => allowed.contains t | none => false)

structure PullRoute where
  route : String
  endpoint : String           -- pull path as compiled into pathToRoute
  tokens : List String        -- the route's own pull tokens (loaded values); [] = none declared
  deriving Repr

/-- the allowlist that governs an endpoint: the route's own tokens when it declares any, else the global ones -/
def effective (global : List String) (routes : List PullRoute) (endpoint : String) : List String :=
  match routes.find? (·.endpoint == endpoint) with
  | some r => if r.tokens.isEmpty then global else r.tokens
  | none => global

def authorizePull (global : List String) (routes : List PullRoute) (endpoint hdr : String) : Bool :=
  bearerHTTP (effective global routes endpoint) hdr

def authorizeWorker (global : List String) (routes : List PullRoute) (endpoint : String) (values : List String) : Bool :=
  bearerGRPC (effective global routes (trimWS endpoint)) values

/-- what the compiler must guarantee: every pull route ends up with a non-empty effective allowlist -/
def compileOK (global : List String) (routes : List PullRoute) : Bool :=
  routes.all (fun r => !(usable (effective global routes r.endpoint)).isEmpty)

end Hk.ApiAuth
