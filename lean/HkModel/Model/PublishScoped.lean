import HkModel.Model.Publish
/-
  Executable model of the Admin API *endpoint-scoped* publish handler
  (POST /applications/{application}/endpoints/{endpoint_name}/messages/publish:
  `handleApplicationEndpointPublish` in internal/admin/http.go, together with
  `resolveManagedEndpointPublishScope`, `parseScopedPublishItems` =
  `parsePublishItemsWithSelectorRequirement(r, false)`, `publishItemHasSelectorHints`,
  `validateScopedManagedSelector`, `publishRoutePolicyError(route, targets, scoped = true)`,
  `parseManagementAudit` + `mutationAuditPolicyError(audit, true, "publish")`, `resolvePublishTarget`,
  `publishEnvelopeFromItem`, `firstExistingMessageIDIndex`).
  CORE LEAN ONLY — the driver links this file into a lean_exe.  Everything that is shared with the global direct
  path (`Item`, `RouteInfo`, `Ctx`, `Outcome`, `normTargets`, `routeMode`, `resolveTarget`, `envelopeFromItem`,
  `firstExisting`, `auditError`, `respOfStore`, …) is reused from `HkModel.Model.Publish`.

  Go order of the handler (every answer before the parse loop carries NO item index):
    1. `!PublishScopedManagedEnabled`                      403 scoped_publish_disabled
    2. (`Store == nil`                                     503 store_unavailable — not modelled)
    3. `resolveManagedEndpointPublishScope` fails          404 managed_endpoint_not_found   (`ScopeCtx.route = none`)
    4. `len(targets) == 0`                                 400 managed_endpoint_no_targets
    5. `parseManagementAudit`, `mutationAuditPolicyError(audit, scoped = true)`   400 audit_*   (`auditError ac true a`)
    6. `publishRoutePolicyError(route, targets, scoped = true)`                   403 …_publish_disabled
    7. `parseScopedPublishItems`: JSON (not modelled); `len(items) == 0 || > 1000` → 400 invalid_body, no index —
       the 1..1000 rule sits INSIDE the parse function, i.e. after audit and route policy; then the per-item
       loop with `requireSelector = false` → 400 invalid_body with the item's index;
    8. per item, in order: selector hints → 400 selector_scope_forbidden; `validateScopedManagedSelector` →
       400 selector_scope_mismatch (dead, `Props/C15Scoped: scoped_selector_recheck_dead`); target resolution →
       400 target_unresolvable; `publishEnvelopeFromItem` → 400/413;
    9. `firstExistingMessageIDIndex`                       409 duplicate_id with the index
   10. one all-or-nothing `EnqueueBatch`.

  Not modelled (outside the `ScopeCtx` API; each of them answers before / instead of the modelled path):
    * `Store == nil` (503 store_unavailable);
    * every answer of `resolveManagedEndpointPublishScope` other than 404: the management-model resolver being
      unavailable (503 managed_resolver_missing — this is also what a blank application / endpoint_name gives,
      because its internal status 400 carries no code and falls into the handler's `default:` arm), the route
      ownership `SourceMismatch` / ownership mismatch and the managed-targets-vs-`TargetsForRoute` mismatch
      (all 503 managed_target_mismatch). When none of these fires the handler's `targets` are
      `normalizePublishTargets(TargetsForRoute(route))` = `normTargets r.targets`, and its `route` is the trimmed
      route of the management endpoint = `r.path`;
    * JSON decoding errors and the request-body size limit (400 invalid_body, no index);
    * a `LookupMessages` error in `firstExistingMessageIDIndex` (503 store_unavailable);
    * the non-batch fallback loop (`Store` without `BatchEnqueuer`).
  Inherited from `Model/Publish.lean`: `auditError` fuses `parseManagementAudit` with
  `RequireManagementAuditReason = true` and `mutationAuditPolicyError`; `trim` = `Hk.Egress.trimWS`;
  `RouteInfo.maxBody/maxHeaders` are the already-defaulted limits; `headers`/`trace` are not copied into `Hk.Env`.
  `RouteInfo.directEnabled` and `RouteInfo.managed` are NOT consulted on this path (Go does not consult them either:
  `scoped = true` reads `route.publish.managed`, which is `ScopeCtx.managedEnabled`).

  One Go detail does not fit the API: `validateScopedManagedSelector` also receives the `application` and
  `endpoint_name` of the URL, which `ScopeCtx` does not carry. `scopedItemPass` therefore calls
  `validateScopedSelector` with `""` for both. This is harmless: the call sits behind the selector-hint test, where all
  three hints are blank, and then the function answers `true` for EVERY route / application / endpoint_name
  (`Props/C15Scoped: scoped_selector_recheck_dead` is stated for arbitrary values).
-/
namespace Hk.Publish

/-- what the URL `(application, endpoint_name)` resolves to, and the two scoped-path switches -/
structure ScopeCtx where
  scopedEnabled : Bool          -- defaults.publish_policy.managed  (Server.PublishScopedManagedEnabled)
  route : Option RouteInfo      -- the route the (application, endpoint_name) of the URL maps to; none = 404
  managedEnabled : Bool         -- route.publish.managed of that route
  deriving Repr, DecidableEq, Inhabited

/-! ### `parsePublishItemsWithSelectorRequirement(r, false)` -/

/-- The parse-loop condition for one item with `requireSelector = false`, given the trimmed ids of the items before
    it (Go order of the tests; every one of them answers `400 invalid_body` with the item's index). Compared with
    `shapeBad` the two `requireSelector &&` tests ("route or application+endpoint_name", "target without
    route/selector") are gone; everything else still applies. -/
def scopedShapeBad (seen : List String) (it : Item) : Bool :=
  let id := trim it.id
  let route := trim it.route
  let app := trim it.app
  let ep := trim it.ep
  id == "" ||                                            -- item.id is required
  (route != "" && !startsSlash route) ||                 -- route must start with '/'
  ((app == "") != (ep == "")) ||                         -- application and endpoint_name together
  (app != "" && !validLabel app) ||
  (ep != "" && !validLabel ep) ||
  seen.contains id                                       -- duplicate item.id in request

def scopedShapeAux (seen : List String) (i : Nat) : List Item → Option (Nat × String)
  | [] => none
  | it :: rest =>
    if scopedShapeBad seen it then some (i, "invalid_body")
    else scopedShapeAux (seen ++ [trim it.id]) (i + 1) rest

/-- the parse loop with `requireSelector = false`: the first `(index, "invalid_body")` it reports, or `none`.
    (The whole-request rule "1..1000 items", reported without an index, is in `scopedPreflight`.) -/
def scopedShapePass (items : List Item) : Option (Nat × String) := scopedShapeAux [] 0 items

/-! ### the per-item loop -/

/-- `publishItemHasSelectorHints` -/
def hasSelectorHints (it : Item) : Bool := trim it.route != "" || trim it.app != "" || trim it.ep != ""

/-- `validateScopedManagedSelector(route, application, endpointName, routeHint, applicationHint, endpointHint)` -/
def validateScopedSelector (route application endpointName routeHint applicationHint endpointHint : String) : Bool :=
  let rh := trim routeHint
  let ah := trim applicationHint
  let eh := trim endpointHint
  if rh != "" && rh != route then false
  else if (ah == "") != (eh == "") then false
  else if ah != "" && (ah != application || eh != endpointName) then false
  else true

/-- `publishRoutePolicyError(route, targets, scoped = true)`: the 403 code, if any -/
def scopedPolicyError (ctx : Ctx) (sc : ScopeCtx) (r : RouteInfo) (targets : List String) : Option String :=
  if !r.publishEnabled then some "route_publish_disabled"
  else if !sc.managedEnabled then some "route_publish_disabled"
  else
    let mode := routeMode r targets
    if mode == "pull" && !ctx.allowPull then some "pull_route_publish_disabled"
    else if mode == "deliver" && !ctx.allowDeliver then some "deliver_route_publish_disabled"
    else none

/-- Body of the scoped loop for one item: `(status, code)` or the prepared envelope. Go order: selector hints,
    `validateScopedManagedSelector` (dead; called with `""` for the URL's application / endpoint_name, see the
    header), `resolvePublishTarget(strings.TrimSpace(item.Target), targets)`, `publishEnvelopeFromItem`.
    Unlike the global loop there is no `target == ""` re-check here. -/
def scopedItemPass (r : RouteInfo) (it : Item) : Except (Nat × String) Hk.Env :=
  if hasSelectorHints it then .error (400, "selector_scope_forbidden")
  else if !validateScopedSelector r.path "" "" (trim it.route) (trim it.app) (trim it.ep) then
    .error (400, "selector_scope_mismatch")
  else
    match resolveTarget (trim it.target) (normTargets r.targets) with
    | none => .error (400, "target_unresolvable")
    | some target => envelopeFromItem it r.path target r.maxBody r.maxHeaders

/-- the scoped loop over the request: the first failing item `(index, status, code)`, or all envelopes in order -/
def scopedPass2 (r : RouteInfo) (i : Nat) : List Item → Except (Nat × Nat × String) (List Hk.Env)
  | [] => .ok []
  | it :: rest =>
    match scopedItemPass r it with
    | .error (st, code) => .error (i, st, code)
    | .ok e =>
      match scopedPass2 r (i + 1) rest with
      | .error x => .error x
      | .ok es => .ok (e :: es)

/-! ### the handler up to the store call -/

/-- `publishEnvelopeIDs` drops blank ids before `firstExistingMessageIDIndex`; after the parse loop no id is blank,
    so the reported index is the item index (as on the global path). -/
def scopedPreflight (ctx : Ctx) (sc : ScopeCtx) (ac : AuditCfg) (a : Audit) (existing : List String)
    (items : List Item) : Outcome :=
  if !sc.scopedEnabled then .reject 403 "scoped_publish_disabled" none
  else
    match sc.route with
    | none => .reject 404 "managed_endpoint_not_found" none
    | some r =>
      if (normTargets r.targets).isEmpty then .reject 400 "managed_endpoint_no_targets" none
      else
        match auditError ac true a with
        | some code => .reject 400 code none
        | none =>
          match scopedPolicyError ctx sc r (normTargets r.targets) with
          | some code => .reject 403 code none
          | none =>
            if items.isEmpty || decide (items.length > maxItems) then .reject 400 "invalid_body" none
            else
              match scopedShapePass items with
              | some (i, code) => .reject 400 code (some i)
              | none =>
                match scopedPass2 r 0 items with
                | .error (i, st, code) => .reject st code (some i)
                | .ok envs =>
                  match firstExisting existing (envs.map (·.id)) with
                  | some i => .reject 409 "duplicate_id" (some i)
                  | none => .accept envs

/-! ### composition with the queue -/

/-- The whole scoped handler against the queue model. `none` = the `Choice` was illegal for the queue step. -/
def scopedPublish (ac : AuditCfg) (a : Audit) (sc : ScopeCtx) (c : Hk.Cfg) (now : Int) (q : Hk.Q) (ctx : Ctx)
    (items : List Item) (ch : Hk.Choice) : Option (Hk.Q × PubResp) :=
  match scopedPreflight ctx sc ac a (q.msgs.map (·.id)) items with
  | .reject st code idx => some (q, ⟨st, code, idx, 0⟩)
  | .accept envs =>
    match Hk.step c now q (.enqueueBatch envs) ch with
    | none => none
    | some (q', r) => some (q', respOfStore r)

end Hk.Publish
