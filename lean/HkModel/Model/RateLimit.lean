/-
  Model of the ingress token bucket (internal/app/ratelimit.go) in INTEGER arithmetic. CORE ONLY.
  Rate = num/den requests per second, time in ns. Tokens are scaled by S = den·10⁹, so that a refill over dt ns
  adds exactly dt·num scaled tokens and one request costs S.
-/
namespace Hk.RateLimit

structure Params where
  num : Nat          -- rps = num / den
  den : Nat
  burst : Nat
  deriving Repr

def Params.scale (p : Params) : Int := (p.den : Int) * 1000000000
def Params.cap (p : Params) : Int := (p.burst : Int) * p.scale

structure Bucket where
  tokens : Int       -- scaled
  last : Int         -- ns
  deriving Repr, DecidableEq

def init (p : Params) (now : Int) : Bucket := { tokens := p.cap, last := now }

/-- `AllowAt`: refill only when time moved forward (and only then advance `last`), cap at burst, spend one token -/
def allow (p : Params) (b : Bucket) (t : Int) : Bucket × Bool :=
  let b1 : Bucket :=
    if t > b.last then { tokens := min (b.tokens + (t - b.last) * p.num) p.cap, last := t } else b
  if b1.tokens < p.scale then (b1, false) else ({ b1 with tokens := b1.tokens - p.scale }, true)

/-- run over an arrival sequence; returns final bucket and the admit decisions -/
def run (p : Params) : Bucket → List Int → Bucket × List Bool
  | b, [] => (b, [])
  | b, t :: ts => let (b', a) := allow p b t; let (bf, as) := run p b' ts; (bf, a :: as)

def admitted (as : List Bool) : Nat := (as.filter id).length

end Hk.RateLimit
