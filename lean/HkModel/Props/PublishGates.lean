/-
  Admin publish: nothing follows an error answer, and the store is written only after the last validation (C15
  "all-or-nothing"), read off the two handlers as written.

  `Generated/ApiGates.lean` also holds `handleMessagesPublish` and `handleApplicationEndpointPublish` as the source-order
  sequence of their calls through the receiver, of `Enqueue` / `EnqueueBatch` calls on anything, and of their returns.
-/
import HkModel.Generated.ApiGates

namespace Hk.PublishGates

def eventsOf (fn : String) : List (String × String) :=
  match Gen.apiHandlerEvents.find? (fun (f, g, _) => f == "internal/admin/http.go" && g == fn) with
  | some (_, _, es) => es
  | none => []

/-- after an error answer the next thing that is not itself an error answer (the arms of a `switch` over the store's refusals
    follow each other in the source) is a `return`: no validation and no store call comes after it -/
def errorsReturn : List (String × String) → Bool
  | [] => true
  | e :: rest =>
    (if e == ("call", "writePublishError") then (rest.dropWhile (· == ("call", "writePublishError"))).head? == some ("return", "") else true) &&
      errorsReturn rest

def isStore (e : String × String) : Bool := e == ("call", "Enqueue") || e == ("call", "EnqueueBatch")

def validators : List String :=
  ["mutationAuditPolicyError", "publishRoutePolicyError", "publishMaxBodyBytes", "publishMaxHeaderBytes"]

def lastIdx (a : String × String) (es : List (String × String)) : Option Nat :=
  (es.reverse.idxOf? a).map (fun k => es.length - 1 - k)

/-- the store is written (at least one call site), and every call of a validation helper precedes the first store call -/
def storeAfterValidation (es : List (String × String)) : Bool :=
  match es.findIdx? isStore with
  | none => false
  | some j => validators.all fun v =>
      match lastIdx ("call", v) es with
      | some i => decide (i < j)
      | none => false

theorem publish_errors_return :
    errorsReturn (eventsOf "handleMessagesPublish") = true ∧ errorsReturn (eventsOf "handleApplicationEndpointPublish") = true := by
  decide

theorem publish_store_after_validation :
    storeAfterValidation (eventsOf "handleMessagesPublish") = true ∧
    storeAfterValidation (eventsOf "handleApplicationEndpointPublish") = true := by decide

/-- the accepted answer's bookkeeping comes after the store calls, once -/
theorem publish_accept_after_store :
    (["handleMessagesPublish", "handleApplicationEndpointPublish"].all fun h =>
      let es := eventsOf h
      es.count ("call", "observePublishAccepted") == 1 &&
      (match lastIdx ("call", "EnqueueBatch") es, es.idxOf? ("call", "observePublishAccepted") with
       | some i, some j => decide (i < j)
       | _, _ => false)) = true := by decide

example : errorsReturn [("call", "writePublishError"), ("call", "EnqueueBatch")] = false := by decide
example : storeAfterValidation [("call", "EnqueueBatch"), ("call", "publishRoutePolicyError")] = false := by decide

end Hk.PublishGates
